"""Helpers: build small TFLite models in memory with Vela's own classes, compile them end to end with
ethosu.vela.vela.main and check the offline arena plan of the written model (property C12)."""
import contextlib
import csv
import glob
import io
import os
import re
import shutil
import sys
import tempfile

sys.path.insert(0, os.getcwd())

import numpy as np  # noqa: E402

from ethosu.vela import vela  # noqa: E402
from ethosu.vela.data_type import DataType  # noqa: E402
from ethosu.vela.nn_graph import Graph, PassPlacement, Subgraph  # noqa: E402
from ethosu.vela.operation import Op, Operation, Padding  # noqa: E402
from ethosu.vela.tensor import QuantizationParameters, Tensor, create_const_tensor  # noqa: E402
from ethosu.vela.tflite import Model  # noqa: E402
from ethosu.vela.tflite_writer import write_tflite_buffer  # noqa: E402

NP_SIZE = {0: 4, 1: 2, 2: 4, 3: 1, 4: 8, 6: 1, 7: 2, 9: 1, 10: 8, 17: 2}  # tflite TensorType -> bytes


def qp(scale=0.05, zp=0):
    q = QuantizationParameters()
    q.scale_f32 = np.float32(scale)
    q.zero_point = zp
    return q


class _Pass:
    def __init__(self, op):
        self.ops = [op]


class ModelBuilder:
    """Builds a single-subgraph TFLite flatbuffer."""

    def __init__(self, name="net"):
        self.name = name
        self.ops = []
        self.inputs = []
        self.count = 0

    def _n(self, base):
        self.count += 1
        return f"{base}{self.count}"

    def _tens(self, shape, name, dtype=DataType.int8, scale=0.05):
        t = Tensor(list(shape), dtype, name)
        t.quantization = qp(scale) if dtype != DataType.float32 else None
        return t

    def _op(self, optype, name, inputs, out, attrs=None):
        op = Operation(optype, name)
        for t in inputs:
            op.add_input_tensor(t)
        op.set_output_tensor(out)
        if attrs:
            op.attrs.update(attrs)
        self.ops.append(op)
        return out

    def inp(self, shape, name=None, dtype=DataType.int8):
        name = name or self._n("input")
        t = self._tens(shape, name, dtype)
        op = Operation(Op.Placeholder, name + "_ph")
        op.set_output_tensor(t)
        self.ops.append(op)
        self.inputs.append(t)
        return t

    def conv(self, x, cout, k=1, stride=1, name=None, seed=1):
        name = name or self._n("conv")
        cin = x.shape[-1]
        rng = np.random.RandomState(seed + self.count)
        wq = qp(0.02)
        w = create_const_tensor(name + "_w", [cout, k, k, cin], DataType.int8, rng.randint(-60, 60, (cout, k, k, cin)), quantization=wq)
        bq = qp(0.05 * 0.02)
        b = create_const_tensor(name + "_b", [cout], DataType.int32, rng.randint(-100, 100, (cout,)), quantization=bq)
        n, h, wd, _ = x.shape
        oh, ow = -(-h // stride), -(-wd // stride)
        out = self._tens([n, oh, ow, cout], name)
        attrs = dict(
            padding=Padding.SAME,
            stride_w=stride,
            stride_h=stride,
            dilation_w_factor=1,
            dilation_h_factor=1,
            fused_activation_function=None,
        )
        return self._op(Op.Conv2DBias, name + "_op", [x, w, b], out, attrs)

    def binary(self, optype, a, b, name=None):
        name = name or self._n(optype.name.lower())
        out = self._tens(a.shape, name)
        return self._op(optype, name + "_op", [a, b], out, dict(fused_activation_function=None, pot_scale_int16=False))

    def add(self, a, b, name=None):
        return self.binary(Op.Add, a, b, name)

    def mul(self, a, b, name=None):
        return self.binary(Op.Mul, a, b, name)

    def unary(self, optype, a, name=None):
        name = name or self._n(optype.name.lower())
        out = self._tens(a.shape, name, a.dtype)
        return self._op(optype, name + "_op", [a], out, {})

    def neg(self, a, name=None):  # not supported by the NPU: stays on the CPU
        return self.unary(Op.Neg, a, name)

    def floor(self, a, name=None):  # CPU
        return self.unary(Op.Floor, a, name)

    def relu(self, a, name=None):
        return self.unary(Op.Relu, a, name)

    def maxpool(self, a, k=2, stride=2, name=None):
        name = name or self._n("maxpool")
        n, h, w, c = a.shape
        out = self._tens([n, -(-h // stride), -(-w // stride), c], name)
        attrs = dict(
            padding=Padding.SAME,
            stride_w=stride,
            stride_h=stride,
            filter_width=k,
            filter_height=k,
            fused_activation_function=None,
        )
        return self._op(Op.MaxPool, name + "_op", [a], out, attrs)

    def concat(self, tensors, axis=3, name=None):
        name = name or self._n("concat")
        shape = list(tensors[0].shape)
        shape[axis] = sum(t.shape[axis] for t in tensors)
        out = self._tens(shape, name)
        return self._op(Op.ConcatTFLite, name + "_op", list(tensors), out, dict(axis=axis, fused_activation_function=None))

    def reshape(self, a, new_shape, name=None):
        name = name or self._n("reshape")
        out = self._tens(new_shape, name)
        shp = create_const_tensor(name + "_shape", [len(new_shape)], DataType.int32, np.array(new_shape))
        return self._op(Op.Reshape, name + "_op", [a, shp], out, dict(new_shape=list(new_shape)))

    def less(self, a, b, name=None):
        name = name or self._n("less")
        out = self._tens(a.shape, name, DataType.bool)
        out.quantization = None
        return self._op(Op.Less, name + "_op", [a, b], out, {})

    def const(self, shape, values, dtype=DataType.int8, name=None, scale=0.05):
        name = name or self._n("const")
        q = qp(scale) if dtype in (DataType.int8, DataType.uint8, DataType.int16) else None
        return create_const_tensor(name, list(shape), dtype, np.array(values).reshape(shape), quantization=q)

    def while_op(self, inputs, cond_index, body_index, name=None):
        name = name or self._n("while")
        outs = [self._tens(t.shape, f"{name}_out{i}", t.dtype) for i, t in enumerate(inputs)]
        for o, t in zip(outs, inputs):
            o.quantization = t.quantization.clone() if t.quantization is not None else None
        op = Operation(Op.While, name + "_op")
        for t in inputs:
            op.add_input_tensor(t)
        op.outputs = list(outs)
        for o in outs:
            o.ops = [op]
        op.attrs.update(dict(cond_subgraph_index=cond_index, body_subgraph_index=body_index))
        self.ops.append(op)
        return outs

    def subgraph(self, outputs):
        sg = Subgraph(self.name, PassPlacement.Cpu)
        sg.passes = [_Pass(op) for op in self.ops]
        sg.original_inputs = list(self.inputs)
        sg.input_tensors = list(self.inputs)
        sg.output_tensors = list(outputs)
        return sg

    def build(self, outputs):
        sg = Subgraph(self.name, PassPlacement.Cpu)
        sg.passes = [_Pass(op) for op in self.ops]
        sg.original_inputs = list(self.inputs)
        sg.input_tensors = list(self.inputs)
        sg.output_tensors = list(outputs)
        nng = Graph(self.name)
        nng.subgraphs.append(sg)
        buf = bytes(write_tflite_buffer(nng))
        # the writer always adds an (all -1) OfflineMemoryAllocation record; an input model must not carry one
        assert buf.count(b"OfflineMemoryAllocation") == 1
        return buf.replace(b"OfflineMemoryAllocation", b"InputModelBuilderMetaDt")


def build_multi(parts, name="net"):
    """parts: list of (ModelBuilder, outputs); the first one is the main subgraph"""
    nng = Graph(name)
    for mb, outs in parts:
        nng.subgraphs.append(mb.subgraph(outs))
    buf = bytes(write_tflite_buffer(nng))
    assert buf.count(b"OfflineMemoryAllocation") == 1
    return buf.replace(b"OfflineMemoryAllocation", b"InputModelBuilderMetaDt")


# ---------------------------------------------------------------------------------------------------------------------


class Compiled:
    pass


def compile_model(buf, extra_args=(), name="net", keep_dir=None):
    """Runs the Vela command line driver on the flatbuffer, returns parsed results."""
    tmp = keep_dir or tempfile.mkdtemp(prefix="c12_")
    path = os.path.join(tmp, name + ".tflite")
    with open(path, "wb") as f:
        f.write(buf)
    outdir = os.path.join(tmp, "out")
    args = [path, "--output-dir", outdir] + list(extra_args)
    # Vela binds sys.stdout at import time in places: capture at file descriptor level
    sys.stdout.flush()
    cap = os.path.join(tmp, "console.txt")
    saved = os.dup(1)
    fd = os.open(cap, os.O_WRONLY | os.O_CREAT | os.O_TRUNC)
    os.dup2(fd, 1)
    failure = None
    try:
        rc = vela.main(args)
        if rc:
            failure = f"vela returned {rc}"
    except SystemExit as e:
        failure = f"vela exited with {e.code}"
    finally:
        sys.stdout.flush()
        os.dup2(saved, 1)
        os.close(fd)
        os.close(saved)
    res = Compiled()
    with open(cap) as f:
        res.console = f.read()
    if failure:
        shutil.rmtree(tmp, ignore_errors=True)
        raise RuntimeError(failure + ": " + res.console.strip().splitlines()[-1])
    res.outdir = outdir
    with open(os.path.join(outdir, name + "_vela.tflite"), "rb") as f:
        res.buf = bytearray(f.read())
    csvs = glob.glob(os.path.join(outdir, name + "_summary_*.csv"))
    assert len(csvs) == 1, csvs
    with open(csvs[0]) as f:
        rows = list(csv.reader(f))
    res.csv = dict(zip(rows[0], rows[1]))
    if keep_dir is None:
        shutil.rmtree(tmp, ignore_errors=True)
    return res


def parse_output(buf):
    """Returns list of subgraphs: dict(tensors=[dict(name, size, buffer, is_variable)], ops=[dict(code, custom, inputs,
    outputs)], inputs, outputs) and the OfflineMemoryAllocation metadata as np.int32 array."""
    model = Model.Model.GetRootAsModel(buf, 0)
    sgs = []
    for si in range(model.SubgraphsLength()):
        sg = model.Subgraphs(si)
        tensors = []
        for ti in range(sg.TensorsLength()):
            t = sg.Tensors(ti)
            shape = [t.Shape(i) for i in range(t.ShapeLength())]
            n = 1
            for d in shape:
                n *= d
            tensors.append(
                dict(
                    name=t.Name().decode(),
                    shape=shape,
                    size=n * NP_SIZE[t.Type()],
                    buffer=t.Buffer(),
                    has_data=model.Buffers(t.Buffer()).DataLength() > 0,
                    is_variable=bool(t.IsVariable()),
                )
            )
        ops = []
        for oi in range(sg.OperatorsLength()):
            o = sg.Operators(oi)
            oc = model.OperatorCodes(o.OpcodeIndex())
            callees = []
            if oc.BuiltinCode() == 119:  # WHILE
                from ethosu.vela.tflite import WhileOptions

                wo = WhileOptions.WhileOptions()
                wo.Init(o.BuiltinOptions().Bytes, o.BuiltinOptions().Pos)
                callees = [wo.CondSubgraphIndex(), wo.BodySubgraphIndex()]
            ops.append(
                dict(
                    callees=callees,
                    code=oc.BuiltinCode(),
                    custom=oc.CustomCode().decode() if oc.CustomCode() else None,
                    inputs=[o.Inputs(i) for i in range(o.InputsLength())],
                    outputs=[o.Outputs(i) for i in range(o.OutputsLength())],
                )
            )
        sgs.append(
            dict(
                tensors=tensors,
                ops=ops,
                inputs=[sg.Inputs(i) for i in range(sg.InputsLength())],
                outputs=[sg.Outputs(i) for i in range(sg.OutputsLength())],
            )
        )
    meta = None
    for mi in range(model.MetadataLength()):
        m = model.Metadata(mi)
        if m.Name() == b"OfflineMemoryAllocation":
            meta = np.frombuffer(bytes(model.Buffers(m.Buffer()).DataAsNumpy()), dtype=np.int32)
    return sgs, meta


def reported_sizes(res):
    """(console KiB dict by label, csv dict of *_memory_used in KiB)"""
    console = {}
    for m in re.finditer(r"^Total (.+?) used\s+([0-9.]+) KiB", res.console, re.M):
        console[m.group(1).strip()] = float(m.group(2))
    csvv = {k: float(v) for k, v in res.csv.items() if k.endswith("_memory_used")}
    return console, csvv


def inplace_ok(sg, x, y, first, last, offs):
    """The NPU may compute an elementwise result in place: the result y of an ethos-u operator may reuse the memory of
    an operand x whose last use is that very operator (same offset)."""
    if last[x] != first[y]:
        return False
    k = first[y]
    if not (0 <= k < len(sg["ops"])):
        return False
    op = sg["ops"][k]
    # (a While operator copies its operands into the cond subgraph before anything else and writes its results last)
    own = op["custom"] == "ethos-u" or op["code"] == 119
    return own and x in op["inputs"] and y in op["outputs"] and x not in sg["outputs"]


def check_plan(res, alignment=16, arena_label=None, verbose=False):
    """Checks the C12 property on a compiled model. Returns a list of violation strings."""
    sgs, meta = parse_output(res.buf)
    errs = []
    if meta is None:
        return ["no OfflineMemoryAllocation metadata"]
    if meta[0] != 0 or meta[1] != len(sgs) or meta[2] != sum(len(s["tensors"]) for s in sgs):
        errs.append(f"metadata header {list(meta[:3])} inconsistent with the model")
    pos = 3
    extent = 0
    plans = []
    for si, sg in enumerate(sgs):
        nt = len(sg["tensors"])
        offs = [int(v) for v in meta[pos : pos + nt]]
        pos += nt
        tens = sg["tensors"]
        # live ranges under the operator order of the output graph
        first = {}
        last = {}
        for i in sg["inputs"]:
            first[i] = -1
        for oi, op in enumerate(sg["ops"]):
            for i in op["inputs"] + op["outputs"]:
                if i < 0:
                    continue
                first.setdefault(i, oi)
                last[i] = oi
        n_ops = len(sg["ops"])
        for i in sg["outputs"]:
            last[i] = n_ops
            first.setdefault(i, n_ops)
        for i, t in enumerate(tens):
            if t["is_variable"] and i in first:
                first[i] = -1
                last[i] = n_ops
        arena = [i for i in range(nt) if offs[i] >= 0 and not tens[i]["has_data"]]
        scratch = [i for i in arena if tens[i]["name"].endswith("_scratch")]
        scratch_fast = [i for i in arena if tens[i]["name"].endswith("_scratch_fast")]
        if verbose:
            for i in arena:
                print(
                    f"  sg{si} t{i} {tens[i]['name']:30s} off={offs[i]:8d} size={tens[i]['size']:8d}"
                    f" live={first.get(i)}..{last.get(i)}"
                )
        # 1. no overlap while both live (the scratch tensors contain NPU internal tensors; handled below)
        plain = [i for i in arena if i not in scratch and i not in scratch_fast and i in first]
        for ai, a in enumerate(plain):
            for b in plain[ai + 1 :]:
                if tens[a]["size"] == 0 or tens[b]["size"] == 0:
                    continue
                if max(first[a], first[b]) <= min(last[a], last[b]):
                    if max(offs[a], offs[b]) < min(offs[a] + tens[a]["size"], offs[b] + tens[b]["size"]):
                        if inplace_ok(sg, a, b, first, last, offs) or inplace_ok(sg, b, a, first, last, offs):
                            continue
                        errs.append(
                            f"sg{si}: tensors '{tens[a]['name']}' [{offs[a]}, {offs[a] + tens[a]['size']}) and "
                            f"'{tens[b]['name']}' [{offs[b]}, {offs[b] + tens[b]['size']}) overlap while both live"
                        )
        plans.append(dict(offs=offs, first=first, last=last, plain=plain))
        # 2. alignment of CPU tensors: every arena tensor touched by a non ethos-u operator or a graph input/output
        cpu_touched = set(sg["inputs"]) | set(sg["outputs"])
        for op in sg["ops"]:
            if op["custom"] != "ethos-u":
                cpu_touched.update(i for i in op["inputs"] + op["outputs"] if i >= 0)
        for i in plain:
            if i in cpu_touched and offs[i] % alignment != 0:
                errs.append(f"sg{si}: CPU tensor '{tens[i]['name']}' at offset {offs[i]} not aligned to {alignment}")
        # 3. scratch tensor at 0 and spanning every arena byte touched by the custom ops (their inputs and outputs)
        for i in plain:
            extent = max(extent, offs[i] + tens[i]["size"])
        for s in scratch:
            if offs[s] != 0:
                errs.append(f"sg{si}: scratch tensor '{tens[s]['name']}' at offset {offs[s]} != 0")
            extent = max(extent, offs[s] + tens[s]["size"])
            for op in sg["ops"]:
                if op["custom"] == "ethos-u" and s in op["inputs"]:
                    for i in op["inputs"] + op["outputs"]:
                        if i in plain and offs[i] + tens[i]["size"] > tens[s]["size"]:
                            errs.append(
                                f"sg{si}: scratch tensor size {tens[s]['size']} does not span ethos-u operand "
                                f"'{tens[i]['name']}' [{offs[i]}, {offs[i] + tens[i]['size']})"
                            )
        for op in sg["ops"]:
            if op["custom"] == "ethos-u":
                ins = [i for i in op["inputs"][:5]]
                names = [tens[i]["name"] for i in ins[:4]]
                if not (
                    names[0].endswith("_command_stream")
                    and names[1].endswith("_flash")
                    and names[2].endswith("_scratch")
                    and names[3].endswith("_scratch_fast")
                ):
                    errs.append(f"sg{si}: ethos-u operator inputs in unexpected order: {names}")
    # 1b. tensors of a called subgraph (While cond / body) against caller tensors that stay live across the call
    for si, sg in enumerate(sgs):
        for k, op in enumerate(sg["ops"]):
            for ci in op["callees"]:
                pc, pm = plans[ci], plans[si]
                for a in pm["plain"]:
                    if not (pm["first"][a] < k < pm["last"][a]):
                        continue
                    for b in pc["plain"]:
                        ta, tb = sg["tensors"][a], sgs[ci]["tensors"][b]
                        if ta["size"] and tb["size"]:
                            if max(pm["offs"][a], pc["offs"][b]) < min(
                                pm["offs"][a] + ta["size"], pc["offs"][b] + tb["size"]
                            ):
                                errs.append(
                                    f"sg{si} tensor '{ta['name']}' [{pm['offs'][a]}, {pm['offs'][a] + ta['size']}) is live "
                                    f"across operator {k} that runs sg{ci}, whose tensor '{tb['name']}' "
                                    f"[{pc['offs'][b]}, {pc['offs'][b] + tb['size']}) overlaps it"
                                )
    # 4. reported sizes are sufficient
    console, csvv = reported_sizes(res)
    res.extent = extent
    res.console_sizes = console
    res.csv_sizes = csvv
    if arena_label is not None:
        lab_console, lab_csv = arena_label
        if lab_console not in console:
            if any(op["custom"] == "ethos-u" for sg in sgs for op in sg["ops"]):
                errs.append(f"console does not report '{lab_console}' usage: {console}")
        elif console[lab_console] * 1024 < extent - 6:  # console prints with two decimals (KiB)
            errs.append(f"console reports {lab_console} used {console[lab_console]} KiB < arena extent {extent} bytes")
        if csvv.get(lab_csv, 0) * 1024 < extent - 0.01:
            errs.append(f"summary csv reports {lab_csv}={csvv.get(lab_csv)} KiB < arena extent {extent} bytes")
    return errs


# ---------------------------------------------------------------------------------------------------------------------
# Observation 2 (UNMODIFIED tree): two WHILE operators that share the same cond / body subgraphs. The live range graph
# remembers processed subgraphs (LiveRangeGraph.processed_subgraphs) and returns early on the second visit, so the
# tensors of the cond / body subgraphs are only live during the FIRST While. Tensors of the main graph that are live
# across the SECOND While are placed on top of body tensors, which the second loop then overwrites.


def two_while_model():
    main = ModelBuilder("main")
    x = main.inp([1, 8, 8, 8])
    i0 = main.inp([1], dtype=DataType.int32)
    i0.quantization = None
    a = main.neg(x)
    w1 = main.while_op([a, i0], 1, 2)
    m = main.neg(w1[0])
    keep2 = main.neg(m)
    w2 = main.while_op([m, w1[1]], 1, 2)
    out = main.add(keep2, w2[0])
    cond = ModelBuilder("cond")
    cond.inp([1, 8, 8, 8])
    ci = cond.inp([1], dtype=DataType.int32)
    ci.quantization = None
    r = cond.less(ci, cond.const([1], [3], DataType.int32))
    body = ModelBuilder("body")
    ba = body.inp([1, 8, 8, 8])
    bi = body.inp([1], dtype=DataType.int32)
    bi.quantization = None
    ba4 = body.neg(body.neg(body.neg(ba)))
    one = body.const([1], [1], DataType.int32)
    bi2 = body._op(
        Op.Add, "inc_op", [bi, one], body._tens([1], "inc", DataType.int32),
        dict(fused_activation_function=None, pot_scale_int16=False),
    )
    bi2.quantization = None
    return build_multi([(main, [out, w2[1]]), (cond, [r]), (body, [ba4, bi2])])


if __name__ == "__main__":
    res = compile_model(two_while_model(), ["--accelerator-config", "ethos-u55-128"])
    errs = check_plan(res, 16, ("SRAM", "sram_memory_used"), verbose=True)
    print("violations found on this tree:" if errs else "no violation")
    for e in errs:
        print("  " + e)
    sys.exit(1 if errs else 0)

"""Observation 3 (UNMODIFIED tree, NumPy 2.x): the average-pool divisor written to OFM_SCALE is rounded to float32.

generate_ofm_scaling_for_pooling computes  rescale = ifm_scale / ofm_scale  with the np.float32 scales of the
feature maps and then  int(round_away_zero(scale * rescale))  with `scale` a Python int: under NEP 50 the
product is a float32, so the 32-bit divisor from scaling.quantise_pooling_scale() keeps only 24 significant bits.
  * power-of-two windows (2x2, 4x4, ...): 2^31 + 1 becomes 2^31, i.e. the "+1" that makes negative exact halves
    round away from zero (as the TFLite reference average pool does) is lost; the emitted pair rounds -x.5 up;
  * other windows (3x3, ...): the divisor is off by up to 2^-25 relative instead of 2^-31.
With Python float (double) scales given through the public API the full-precision divisor is emitted, so the
same operator yields different registers depending on the scalar type of the scales.
"""
import sys
from fractions import Fraction

from _model_util import np
from ethosu.vela import scaling
from ethosu.vela.api import npu_find_block_configs
from ethosu.vela.api import npu_generate_register_command_stream
from ethosu.vela.api import NpuAccelerator
from ethosu.vela.api import NpuDataType
from ethosu.vela.api import NpuFeatureMap
from ethosu.vela.api import NpuKernel
from ethosu.vela.api import NpuLayout
from ethosu.vela.api import NpuPadding
from ethosu.vela.api import NpuPoolingOp
from ethosu.vela.api import NpuPoolingOperation
from ethosu.vela.api import NpuQuantization
from ethosu.vela.api import NpuShape3D
from ethosu.vela.api import NpuTileBox


def fm(addr, scale, h, w):
    f = NpuFeatureMap()
    f.data_type = NpuDataType.INT8
    f.shape = NpuShape3D(height=h, width=w, depth=16)
    f.tiles = NpuTileBox(width_0=w, height_0=h, height_1=h, addresses=[addr, 0, 0, 0])
    f.region = 1
    f.layout = NpuLayout.NHWC
    f.quantization = NpuQuantization(scale_f32=scale, zero_point=0)
    return f


def ofm_scale(k, scale):
    op = NpuPoolingOperation(NpuPoolingOp.AVERAGE)
    op.ifm = fm(0, scale, 8 + k - 1, 8 + k - 1)
    op.ofm = fm(0x4000, scale, 8, 8)
    op.kernel = NpuKernel(k, k)
    op.padding = NpuPadding(0, 0, 0, 0)
    acc = NpuAccelerator.Ethos_U55_128
    op.block_config = npu_find_block_configs(op, acc)[0]
    words = npu_generate_register_command_stream([op], acc)
    for i, w in enumerate(words):
        if (w & 0xFFFF) == 0x4024:
            return int(words[i + 1]), int(w >> 16)


def apply(acc, scale, shift):
    return (acc * scale + (1 << (shift - 1))) >> shift  # scale, add half, arithmetic shift right


def half_away(acc, n):
    return (acc + n // 2) // n if acc >= 0 else -((-acc + n // 2) // n)


def main():
    print("numpy", np.__version__)
    violations = 0
    for k in (2, 3, 4, 5):
        n = k * k
        want = scaling.quantise_pooling_scale(n)
        got32 = ofm_scale(k, np.float32(0.02))  # what the compiler passes (scales read from the model)
        got64 = ofm_scale(k, 0.02)
        rel = abs(Fraction(got32[0], 1 << got32[1]) * n - 1)
        diff = [a for a in range(-255 * n, 255 * n + 1) if apply(a, *got32) != half_away(a, n)]
        bad = got32 != want
        violations += bad
        print(
            f"AvgPool {k}x{k}: quantise_pooling_scale {want}; OFM_SCALE with float32 scales {got32}, with double scales "
            f"{got64}; relative error of the float32 variant {'0' if not rel else '2^%.1f' % np.log2(float(rel))}; "
            f"accumulators (8-bit window) where it departs from the reference average pool: {len(diff)}"
            + (f", e.g. acc={diff[0]}: {apply(diff[0], *got32)} instead of {half_away(diff[0], n)}" if diff else "")
            + ("  VIOLATION" if bad else "  ok")
        )
    return 1 if violations else 0


if __name__ == "__main__":
    sys.exit(main())

"""Observation 1 (UNMODIFIED tree): a fused PAD with an even kernel loses its bottom padding when the operator is striped.

PAD (top = bottom = 1) followed by a VALID 2x2 convolution is rewritten to one convolution with EXPLICIT hardware
padding (1, 1, 1, 1).  The total vertical padding (2) is larger than kernel - 1, so the OFM (17 rows) is taller than the
IFM (16 rows).  Executed in one piece the operator gets bottom padding 1 (from attrs["explicit_padding"]).  When the
scheduler stripes it inside a cascade, Box.transform_with_strides_and_skirt() clamps the end row of the stripe's OFM box
to the IFM height before it derives the bottom padding, so the last stripe (OFM row 16, kernel rows 15 and 16) is issued
with IFM rows 15..16 and pad_bottom = 0: the hardware reads "row 16" of a 16 row feature map (in a rolling buffer: a slot
that holds an old row) instead of the zero padding.  The same happens for 4x4 / pad 2,2 (pad_bottom 1 instead of 2) and
for depthwise convolutions.

Part 1 calls Box.transform_with_strides_and_skirt directly, part 2 compiles a small network and inspects the NPU
operations of the striped convolution.  Exit status 1 = violation reproduced.
"""
import contextlib
import io
import os
import sys

sys.path.insert(0, os.getcwd())

import numpy as np

from ethosu.vela import architecture_features
from ethosu.vela import compiler_driver
from ethosu.vela import high_level_command_to_npu_op as hl2npu
from ethosu.vela import model_reader
from ethosu.vela import scheduler
from ethosu.vela import tflite_writer
from ethosu.vela.data_type import DataType
from ethosu.vela.debug_database import DebugDatabase
from ethosu.vela.high_level_command_stream import Box
from ethosu.vela.high_level_command_stream import NpuStripe
from ethosu.vela.nn_graph import Graph
from ethosu.vela.nn_graph import Pass
from ethosu.vela.nn_graph import PassPlacement
from ethosu.vela.nn_graph import Subgraph
from ethosu.vela.nn_graph import TensorAllocator
from ethosu.vela.operation import NpuBlockType
from ethosu.vela.operation import Op
from ethosu.vela.operation import Operation
from ethosu.vela.operation import Kernel
from ethosu.vela.operation import Padding
from ethosu.vela.tensor import create_const_tensor
from ethosu.vela.tensor import QuantizationParameters
from ethosu.vela.tensor import Tensor
from ethosu.vela.tensor import TensorAddressMap
from ethosu.vela.tensor import TensorSubPurpose
from ethosu.vela.shape4d import Shape4D
from ethosu.vela.tflite_graph_optimiser import calc_padding_and_skirt
from ethosu.vela.weight_compressor import CompressedWeightCache

rng = np.random.RandomState(1)
counter = [0]


def quant(scale):
    q = QuantizationParameters()
    q.scale_f32 = np.float32(scale)
    q.zero_point = np.int64(0)
    q.quant_min = -128
    q.quant_max = 127
    return q


def feature_map(shape, name):
    t = Tensor(list(shape), DataType.int8, name)
    t.quantization = quant(0.05)
    return t


def conv(ops, x, oc, k, s, d, padding):
    counter[0] += 1
    n = counter[0]
    _, h, w, c = x.shape
    ekh, ekw = (k[0] - 1) * d[0] + 1, (k[1] - 1) * d[1] + 1
    if padding == Padding.SAME:
        oh, ow = -(-h // s[0]), -(-w // s[1])
    else:
        oh, ow = (h - ekh) // s[0] + 1, (w - ekw) // s[1] + 1
    wt = create_const_tensor(
        f"w{n}", [oc, k[0], k[1], c], DataType.int8, rng.randint(-20, 20, [oc, k[0], k[1], c]).astype(np.int8), quantization=quant(0.02)
    )
    b = create_const_tensor(f"b{n}", [oc], DataType.int32, rng.randint(-99, 99, [oc]).astype(np.int32), quantization=quant(0.001))
    op = Operation(Op.Conv2DBias, f"conv{n}")
    for t in (x, wt, b):
        op.add_input_tensor(t)
    ofm = feature_map([1, oh, ow, oc], f"fm{n}")
    op.set_output_tensor(ofm)
    op.attrs = {
        "padding": padding,
        "stride_h": s[0],
        "stride_w": s[1],
        "dilation_h_factor": d[0],
        "dilation_w_factor": d[1],
        "fused_activation_function": None,
    }
    ops.append(op)
    return ofm


def build():
    ops = []
    inp = feature_map([1, 16, 16, 8], "input")
    x = conv(ops, inp, 32, (3, 3), (1, 1), (1, 1), Padding.SAME)
    pads = create_const_tensor("pads", [4, 2], DataType.int32, np.array([[0, 0], [1, 1], [1, 1], [0, 0]], np.int32))
    pad_op = Operation(Op.Pad, "pad")
    pad_op.add_input_tensor(x)
    pad_op.add_input_tensor(pads)
    padded = feature_map([1, 18, 18, 32], "padded")
    pad_op.set_output_tensor(padded)
    pad_op.attrs = {}
    ops.append(pad_op)
    x = conv(ops, padded, 32, (2, 2), (1, 1), (1, 1), Padding.VALID)
    x = conv(ops, x, 8, (3, 3), (1, 1), (1, 1), Padding.SAME)
    sg = Subgraph("main", PassPlacement.Cpu)
    sg.input_tensors = [inp]
    sg.original_inputs = [inp]
    sg.output_tensors = [x]
    ps = Pass("all", PassPlacement.Cpu, False, NpuBlockType.Default)
    ps.ops = ops
    sg.passes = [ps]
    nng = Graph("net")
    nng.subgraphs.append(sg)
    return bytearray(tflite_writer.write_tflite_buffer(nng))


captured = []
orig_generate = hl2npu.generate_command_stream


def capture(npu_op_list, arch, verbose, mem_limits, add_to_dbg_db=None, npu_op_to_cmd=None):
    captured.append((list(npu_op_list), dict(npu_op_to_cmd or {})))
    return orig_generate(npu_op_list, arch, verbose, mem_limits, add_to_dbg_db, npu_op_to_cmd)


def compile_model(data):
    sys.setrecursionlimit(4000)
    DebugDatabase.clean_db()
    TensorAddressMap.clear_address_map()
    CompressedWeightCache.clear()
    AF = architecture_features.ArchitectureFeatures
    arch = AF(
        vela_config_files=None,
        system_config=AF.DEFAULT_CONFIG,
        memory_mode=AF.DEFAULT_CONFIG,
        accelerator_config="ethos-u55-128",
        max_blockdep=AF.MAX_BLOCKDEP,
        verbose_config=False,
        arena_cache_size=None,
    )
    out_dir = os.path.join(os.getcwd(), "out", "scratch")
    os.makedirs(out_dir, exist_ok=True)
    copts = compiler_driver.CompilerOptions(tensor_allocator=TensorAllocator.HillClimb, output_dir=out_dir)
    sopts = scheduler.SchedulerOptions(
        optimization_strategy=scheduler.OptimizationStrategy.Size, sram_target=arch.arena_cache_size, verbose_schedule=False
    )
    nng, network_type = model_reader.read_tflite_model(data, model_reader.ModelReaderOptions())
    hl2npu.generate_command_stream = capture
    try:
        with contextlib.redirect_stdout(io.StringIO()):
            compiler_driver.compiler_driver(nng, arch, copts, sopts, network_type, os.path.join(out_dir, "obs1"))
    finally:
        hl2npu.generate_command_stream = orig_generate
    return nng


def main():
    found = 0
    # ---- part 1: the function on its own --------------------------------------------------------------------------
    kernel = Kernel(2, 2, 1, 1, 1, 1)
    ifm_shape = Shape4D(1, 16, 16, 32)
    padding, skirt = calc_padding_and_skirt(Padding.EXPLICIT, kernel, ifm_shape, (1, 1, 1, 1))
    print(f"explicit hardware padding (top, left, bottom, right) = {tuple(int(p) for p in padding)}, skirt = {tuple(int(s) for s in skirt)}")
    ofm_height = 16 + 1 + 1 - 2 + 1
    for y0, y1 in ((0, ofm_height), (16, 17)):
        box = Box([0, y0, 0, 0], [1, y1, 17, 32])
        ifm_box, pad_top, pad_bottom = box.transform_with_strides_and_skirt(
            [1, 1, 1, 1], list(skirt), ifm_shape, NpuBlockType.ConvolutionMxN, [0, 0, 0, 0], 2, None, None, 1, Op.Conv2DBias
        )
        rows = (int(ifm_box.start_coord[1]), int(ifm_box.end_coord[1]))
        # rows of the padded input that the kernel touches for OFM rows y0..y1: y*stride - pad_top .. + kernel - 1
        first, last = y0 - 1, (y1 - 1) - 1 + 1
        need_bottom = max(0, last - 15)
        print(f"OFM rows {y0}..{y1}: kernel touches IFM rows {first}..{last} -> needs pad_bottom {need_bottom};"
              f" transform returns IFM rows {rows[0]}..{rows[1]}, pad_top {pad_top}, pad_bottom {int(pad_bottom)}")
        if (y0, y1) == (16, 17) and int(pad_bottom) != need_bottom:
            found += 1
    # ---- part 2: a compiled network --------------------------------------------------------------------------------
    compile_model(build())
    for npu_ops, op_to_cmd in captured:
        for npu_op in npu_ops:
            cmd = op_to_cmd[npu_op]
            if not isinstance(cmd, NpuStripe):
                continue
            op = cmd.ps.primary_op
            if op.attrs.get("padding") != Padding.EXPLICIT:
                continue
            y0, y1 = int(cmd.ofm_box.start_coord[1]), int(cmd.ofm_box.end_coord[1])
            i0, i1 = int(cmd.ifm_box.start_coord[1]), int(cmd.ifm_box.end_coord[1])
            top = int(op.attrs["explicit_padding"][0])
            k_h = op.kernel.height
            last_row = (y1 - 1) * op.kernel.stride.y - top + k_h - 1
            provided = (i1 - i0) + npu_op.padding.top + npu_op.padding.bottom
            needed = (y1 - y0 - 1) * op.kernel.stride.y + k_h
            if needed > provided:
                found += 1
                print(
                    f"compiled network: {op.name} OFM rows {y0}..{y1} (kernel {k_h}, explicit padding {tuple(int(p) for p in op.attrs['explicit_padding'])}):"
                    f" IFM rows {i0}..{i1} of {cmd.ps.ifm_shapes[0].height} + pad top/bottom {npu_op.padding.top}/{npu_op.padding.bottom} = {provided} rows,"
                    f" but the kernel needs {needed} rows (it reaches IFM row {last_row})"
                )
    if found:
        print(f"VIOLATION reproduced ({found} finding(s))")
        return 1
    print("no violation")
    return 0


if __name__ == "__main__":
    sys.exit(main())

# Observation (unchanged tree): tflite_graph_optimiser.convert_to_lut8 rounds the SUM zp_out + y/ofm_scale
# (round_away_zero(zp_out + y_real / ofm_scale)) whereas the TFLite reference (LUTPopulate) and Vela's own
# lut.create_lut_8bit_op round the scaled value first and add the zero point afterwards: round(y/ofm_scale) + zp_out.
# With a negative output zero point an exact tie y/ofm_scale = k + 0.5 is therefore rounded DOWN (away from zero on the
# negative sum) instead of up: int8 Sigmoid, ofm scale 1.0, zp_out -128, input code == input zero point (sigmoid(0) = 0.5):
# reference round(0.5) - 128 = -127, Vela's table holds -128.
import os, sys, math
sys.path.insert(0, os.path.dirname(os.path.abspath(__file__)))
import common  # noqa
import numpy as np
from ethosu.vela import tflite_graph_optimiser as tgo
from ethosu.vela.data_type import DataType
from ethosu.vela.operation import Op
from ethosu.vela.test import testutil

op = testutil.create_elemwise_op(Op.Sigmoid, "sig", [1, 2, 2, 4], None, [1, 2, 2, 4], datatype=DataType.int8)
for t, s, z in ((op.ifm, 0.1, 0), (op.ofm, 1.0, -128)):
    q = testutil.default_quant_params()
    q.scale_f32 = np.float32(s)
    q.zero_point = z
    t.quantization = q
op.run_on_npu = True
res = tgo.convert_tanh_sigmoid_to_lut(op, None, None)
lut = [int(v) for v in res.activation_lut.values.flatten()]
got = lut[128]  # input code 0
expected = int(math.floor(0.5 / 1.0 + 0.5)) + (-128)  # std::round(0.5) + zp = -127
if got != expected:
    print("sigmoid LUT entry for x=0: got %d, reference round(y/scale)+zp = %d" % (got, expected))
    sys.exit(1)
print("ok")

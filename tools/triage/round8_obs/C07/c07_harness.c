// Small driver around the C entry points of the MLW codec, meant to be built with sanitizers.
//   harness e in.bin out.bin                      : mlw_encode of an int16 stream
//   harness r iub oub O H W I obd dw pk bits dh dw in.bin out.bin : mlw_reorder_encode of a contiguous OHWI volume
// out.bin = int32 stream length, int32 decoded count, stream bytes, decoded int16 values (C reference decoder)
#include <stdio.h>
#include <stdlib.h>
#include <stdint.h>
#include <string.h>
#include "mlw_encode.h"
#include "mlw_decode.h"

static int16_t *read_all(const char *name, long *count)
{
    FILE *f = fopen(name, "rb");
    if (!f) { perror("open"); exit(2); }
    fseek(f, 0, SEEK_END);
    long size = ftell(f);
    fseek(f, 0, SEEK_SET);
    // exact-size allocation so that any over-read of the source is seen by the sanitizer
    int16_t *buf = malloc(size > 0 ? size : 1);
    if (size > 0 && fread(buf, 1, size, f) != (size_t)size) { exit(2); }
    fclose(f);
    *count = size / 2;
    return buf;
}

int main(int argc, char **argv)
{
    if (argc < 4) return 2;
    uint8_t *out = NULL;
    int len;
    long n;
    const char *inname = argv[argc - 2], *outname = argv[argc - 1];
    int16_t *in = read_all(inname, &n);
    if (argv[1][0] == 'e') {
        len = mlw_encode(in, (int)n, &out, 0);
    } else {
        if (argc != 16) return 2;
        int a[12];
        for (int i = 0; i < 12; i++) a[i] = atoi(argv[2 + i]);
        int O = a[2], H = a[3], W = a[4], I = a[5];
        int strides[4] = { H * W * I, W * I, I, 1 };
        int64_t padded = 0;
        len = mlw_reorder_encode(a[0], a[1], O, H, W, I, strides, in, a[6], a[7], a[8], a[9], a[10], a[11], &out, &padded, 0);
    }
    free(in);
    int16_t *dec = NULL;
    int ndec = 0;
    if (len > 0) {
        // decode from an exact-size copy
        uint8_t *copy = malloc(len);
        memcpy(copy, out, len);
        ndec = mlw_decode(copy, len, &dec, 0);
        free(copy);
    }
    FILE *f = fopen(outname, "wb");
    int32_t hdr[2] = { len, ndec };
    fwrite(hdr, 4, 2, f);
    if (len > 0) fwrite(out, 1, len, f);
    if (ndec > 0) fwrite(dec, 2, ndec, f);
    fclose(f);
    mlw_free_outbuf(out);
    free(dec);
    return 0;
}

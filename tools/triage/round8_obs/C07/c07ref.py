# Independent oracle helpers for property C07 (weight compression is lossless, hardware-ordered, memory-safe).
#
#  * ref_reorder()  - pure Python model of the hardware brick traversal (no code shared with the package)
#  * py_decode()    - pure Python model of the MLW stream decoder (no code shared with the package)
#  * SanHarness     - builds the C encoder/decoder of the worktree together with out/c07_harness.c using
#                     AddressSanitizer + UBSan and runs mlw_encode / mlw_reorder_encode in a subprocess
import os
import struct
import subprocess
import tempfile

import numpy as np

HERE = os.path.dirname(os.path.abspath(__file__))
ROOT = os.path.dirname(HERE)

# (ifm micro-block depth, ofm micro-block depth) of every accelerator (Ethos-U55/U65 TRM)
UBLOCK_DEPTH = {
    "Ethos_U55_32": (8, 4),
    "Ethos_U55_64": (8, 8),
    "Ethos_U55_128": (8, 8),
    "Ethos_U55_256": (8, 8),
    "Ethos_U65_256": (8, 8),
    "Ethos_U65_512": (8, 8),
}
SUBKERNEL_MAX = 8


def _rup(a, b):
    return ((a + b - 1) // b) * b


def ref_reorder(
    ohwi, ifm_ublock_depth, ofm_ublock_depth, ofm_block_depth, is_depthwise, is_partkernel, ifm_bitdepth, decomp_h, decomp_w
):
    """Returns the list of weights in hardware order (with zero padding) for an OHWI volume"""
    ohwi = np.asarray(ohwi)
    ofm_depth, kh, kw, ifm_depth = ohwi.shape
    out = []
    ifm_block_depth = 16 if (is_partkernel or ifm_bitdepth == 16) else 32
    for ofm_block_z in range(0, ofm_depth, ofm_block_depth):
        clipped_ofm_block_depth = min(ofm_block_depth, ofm_depth - ofm_block_z)
        for ifm_block_z in range(0, 1 if is_depthwise else ifm_depth, ifm_block_depth):
            if is_depthwise:
                clipped_ifm_block_depth = ifm_ublock_depth
            elif is_partkernel:
                clipped_ifm_block_depth = min(ifm_block_depth, ifm_depth - ifm_block_z)
            else:
                clipped_ifm_block_depth = ifm_block_depth
            for sky in range(0, kh, decomp_h):
                sub_h = min(kh - sky, decomp_h)
                for skx in range(0, kw, decomp_w):
                    sub_w = min(kw - skx, decomp_w)
                    elems = sub_w * sub_h
                    if is_partkernel:
                        elems = _rup(elems, 2 if ifm_bitdepth == 16 else 4)
                    elif is_depthwise:
                        elems = _rup(elems, 4)
                    outer = clipped_ifm_block_depth if is_partkernel else 1
                    inner = 1 if is_partkernel else clipped_ifm_block_depth
                    for ifm_ublk_outer in range(0, outer, ifm_ublock_depth):
                        for ofm_ublk in range(0, clipped_ofm_block_depth, ofm_ublock_depth):
                            for element in range(elems):
                                kx = element % sub_w
                                ky = element // sub_w
                                for ifm_ublk_inner in range(0, inner, ifm_ublock_depth):
                                    for oz in range(ofm_ublock_depth):
                                        for iz in range(1 if is_depthwise else ifm_ublock_depth):
                                            ifm_z = ifm_block_z + ifm_ublk_inner + ifm_ublk_outer + iz
                                            ofm_z = ofm_block_z + ofm_ublk + oz
                                            if ifm_z < ifm_depth and ofm_z < ofm_depth and ky < sub_h:
                                                out.append(int(ohwi[ofm_z, sky + ky, skx + kx, ifm_z]))
                                            else:
                                                out.append(0)
    return out


class _Bits:
    def __init__(self, data):
        self.d = bytes(data)
        self.pos = 0

    def get(self, n):
        v = 0
        for i in range(n):
            byte = self.pos >> 3
            if byte >= len(self.d):
                raise ValueError("stream underrun at bit %d" % self.pos)
            v |= ((self.d[byte] >> (self.pos & 7)) & 1) << i
            self.pos += 1
        return v


def py_decode(stream):
    """Pure Python MLW decoder. Raises ValueError for a malformed stream."""
    bb = _Bits(stream)
    n = len(stream)
    out = []
    first = True
    palsize = palbits = direct_offset = 0
    palette = [0] * 32
    prev_use_zero_run = None
    while True:
        zdiv = bb.get(3)
        while zdiv == 7:
            bb.get((8 - (bb.pos & 7)) & 7)
            first = True
            if bb.pos // 8 == n:
                break
            zdiv = bb.get(3)
        if bb.pos // 8 == n:
            break
        if not (zdiv < 4 or zdiv == 6):
            raise ValueError("bad ZDIV %d" % zdiv)
        use_zero_run = zdiv != 6
        nvalues = bb.get(15) + 1
        wdiv = bb.get(3)
        wtrunc = bb.get(1)
        newpal = bb.get(1)
        if first:
            if not newpal:
                raise ValueError("first slice without palette")
            first = False
        if not newpal and prev_use_zero_run is not None and prev_use_zero_run != use_zero_run:
            raise ValueError("zero run mode changed without new palette")
        prev_use_zero_run = use_zero_run
        if newpal:
            direct_offset = bb.get(5)
            palsize = bb.get(5)
            if palsize > 0:
                palsize += 1
            palbits = bb.get(3) + 2
            for i in range(palsize):
                palette[i] = bb.get(palbits)
        if wdiv == 7:
            w_unc = True
            if palsize > 0:
                ub = 0
                while (1 << ub) < palsize:
                    ub += 1
            else:
                ub = palbits
            wdiv = ub
        else:
            w_unc = False
            if wdiv >= 6:
                raise ValueError("bad WDIV %d" % wdiv)
        z_nvalues = nvalues + (1 if newpal else 0)
        w_value = [0] * nvalues
        z_value = [0] * z_nvalues
        w_pos = z_pos = w_prev_pos = z_prev_pos = 0
        w_carry = z_carry = 0
        w_q = []
        z_q = []
        w_prev_enable = z_prev_enable = False
        w_prev_q = []
        z_prev_q = []
        z_unary_len = 12 if zdiv < 3 else 8
        while True:
            balance = (w_pos - z_pos) if use_zero_run else 0
            w_enable = (balance < 8 or not use_zero_run) and w_pos < nvalues
            z_enable = balance >= 0 and use_zero_run and z_pos < z_nvalues
            w_unary0 = 0
            if w_enable:
                w_unary0 = 0 if w_unc else bb.get(12)
            if z_enable:
                z_unary = bb.get(z_unary_len)
                z_q = []
                cnt = z_carry
                for i in range(z_unary_len):
                    if z_unary & (1 << i):
                        cnt += 1
                    else:
                        z_q.append(cnt)
                        cnt = 0
                z_carry = cnt
                z_pos += len(z_q)
            if w_enable:
                max_symbols = 8 if (w_unc and wdiv > 5) else 12
                u1len = bin(w_unary0 & ((1 << max_symbols) - 1)).count("1")
                w_unary1 = bb.get(u1len)
                w_q = []
                cnt = w_carry
                for i in range(max_symbols):
                    code = 0
                    if w_unary0 & (1 << i):
                        code = 1
                        if w_unary1 & 1:
                            code = 2
                        w_unary1 >>= 1
                    cnt += code
                    if code < 2 or wtrunc:
                        w_q.append(cnt)
                        cnt = 0
                w_carry = cnt
                w_pos += len(w_q)
            if w_prev_enable:
                for q in w_prev_q:
                    if w_prev_pos >= nvalues:
                        break
                    w_value[w_prev_pos] = (q << wdiv) + bb.get(wdiv)
                    w_prev_pos += 1
            if z_prev_enable:
                for q in z_prev_q:
                    if z_prev_pos >= z_nvalues:
                        break
                    z_value[z_prev_pos] = (q << zdiv) + bb.get(zdiv)
                    z_prev_pos += 1
            w_prev_enable, w_prev_q = w_enable, list(w_q)
            z_prev_enable, z_prev_q = z_enable, list(z_q)
            if not (w_prev_enable or z_prev_enable):
                break
        if newpal and use_zero_run:
            out.extend([0] * z_value[0])
        for i in range(nvalues):
            if w_value[i] >= 512 + 32:
                raise ValueError("weight index out of range")
            if w_value[i] < palsize:
                val = palette[w_value[i]]
            else:
                val = w_value[i] - palsize + direct_offset
            mag = val >> 1
            out.append(-mag if (val & 1) else mag)
            if use_zero_run:
                out.extend([0] * z_value[i + (1 if newpal else 0)])
    return out


class SanHarness:
    """Sanitizer build (ASan+UBSan, asserts compiled out like the extension module) of the worktree's C codec"""

    def __init__(self, ndebug=True):
        self.dir = tempfile.mkdtemp(prefix="c07san_")
        self.exe = os.path.join(self.dir, "harness")
        src = [
            os.path.join(HERE, "c07_harness.c"),
            os.path.join(ROOT, "ethosu", "mlw_codec", "mlw_encode.c"),
            os.path.join(ROOT, "ethosu", "mlw_codec", "mlw_decode.c"),
        ]
        cmd = ["gcc", "-g", "-O1", "-fno-omit-frame-pointer", "-fsanitize=address,undefined"]
        if ndebug:
            cmd.append("-DNDEBUG")
        cmd += ["-I", os.path.join(ROOT, "ethosu", "mlw_codec")] + src + ["-o", self.exe, "-lm"]
        subprocess.run(cmd, check=True, capture_output=True)

    def _run(self, args, payload):
        inp = os.path.join(self.dir, "in.bin")
        outp = os.path.join(self.dir, "out.bin")
        with open(inp, "wb") as f:
            f.write(payload)
        if os.path.exists(outp):
            os.remove(outp)
        env = dict(os.environ)
        env["ASAN_OPTIONS"] = "detect_leaks=0:abort_on_error=0:exitcode=77"
        env["UBSAN_OPTIONS"] = "halt_on_error=1:exitcode=78:print_stacktrace=1"
        p = subprocess.run([self.exe] + [str(a) for a in args] + [inp, outp], capture_output=True, env=env, timeout=600)
        data = None
        if os.path.exists(outp):
            with open(outp, "rb") as f:
                data = f.read()
        return p.returncode, p.stderr.decode(errors="replace"), data

    def encode(self, weights):
        """returns (returncode, stderr, stream-bytes or None, decoded list or None)"""
        w = np.asarray(weights, dtype=np.int16)
        rc, err, data = self._run(["e"], w.tobytes())
        return self._split(rc, err, data)

    def reorder_encode(self, ohwi, ifm_ub, ofm_ub, obd, dw, pk, bits, dh, dw_):
        v = np.ascontiguousarray(np.asarray(ohwi, dtype=np.int16))
        o, h, w, i = v.shape
        rc, err, data = self._run(["r", ifm_ub, ofm_ub, o, h, w, i, obd, int(dw), int(pk), bits, dh, dw_], v.tobytes())
        return self._split(rc, err, data)

    @staticmethod
    def _split(rc, err, data):
        if data is None or len(data) < 8:
            return rc, err, None, None
        n_stream, n_dec = struct.unpack("<ii", data[:8])
        stream = data[8 : 8 + max(n_stream, 0)]
        dec = np.frombuffer(data[8 + max(n_stream, 0) :], dtype=np.int16)[: max(n_dec, 0)].tolist()
        return rc, err, stream, dec


def build_fresh_extension():
    """Compiles the mlw_codec extension module from the C sources of the worktree into a temporary directory and
    returns the imported module (so that a stale ethosu/mlw_codec*.so cannot hide a change of the C sources)"""
    import importlib.machinery
    import importlib.util
    import sysconfig

    d = tempfile.mkdtemp(prefix="c07ext_")
    so = os.path.join(d, "mlw_codec" + (sysconfig.get_config_var("EXT_SUFFIX") or ".so"))
    cdir = os.path.join(ROOT, "ethosu", "mlw_codec")
    cmd = [
        "gcc", "-shared", "-fPIC", "-O2", "-DNDEBUG", "-DNPY_NO_DEPRECATED_API=NPY_1_9_API_VERSION",
        "-I", sysconfig.get_paths()["include"], "-I", np.get_include(), "-I", cdir,
        os.path.join(cdir, "mlw_codecmodule.c"), os.path.join(cdir, "mlw_encode.c"), os.path.join(cdir, "mlw_decode.c"),
        "-o", so, "-lm",
    ]  # fmt: skip
    subprocess.run(cmd, check=True, capture_output=True)
    loader = importlib.machinery.ExtensionFileLoader("mlw_codec", so)
    spec = importlib.util.spec_from_file_location("mlw_codec", so, loader=loader)
    mod = importlib.util.module_from_spec(spec)
    loader.exec_module(mod)
    return mod

# C07 observation 1 (UNMODIFIED tree): the compressed weight cache ignores the IFM bit depth.
#
# Model: two CONV_2D operators that reference the SAME constant int8 weight tensor (OHWI 16x3x3x40); one has an
# int8 IFM/OFM, the other an int16 IFM/OFM (16x8 quantisation, int64 bias).  Both run on the NPU.
# weight_compressor.encode_weight_and_scale_tensor() keys its cache on (block type, OFM block depth, depth slices,
# dilation, weight value_id) - the reader clones the constant per operator but keeps the value_id - so the second
# operator gets the stream that was encoded for the first one.  The brick order depends on the IFM bit depth
# (IFM block depth 32 vs 16 for depth-first, kernel element padding 4 vs 2 for part-kernel-first), so one of the
# two operators ends up with a stream that does not decode to its weights in the hardware order for its bit depth.
# Run: cd /tmp/seed8/C07 && /venv/bin/python out/observation1.py   (exit 1 = violation observed)
import os
import sys

sys.path.insert(0, os.getcwd())
sys.path.insert(0, os.path.join(os.getcwd(), "out"))

import numpy as np  # noqa: E402

import c07_e2e as E  # noqa: E402
from ethosu.vela.data_type import DataType  # noqa: E402


def main():
    rng = np.random.default_rng(3)
    bad = 0
    for acc, shape in (("Ethos_U55_128", (16, 3, 3, 40)), ("Ethos_U55_256", (16, 1, 1, 40)), ("Ethos_U65_256", (32, 3, 3, 8))):
        m = E.Model()
        x8 = m.input([1, 8, 8, shape[3]], DataType.int8)
        x16 = m.input([1, 8, 8, shape[3]], DataType.int16, scale=0.001)
        ohwi = rng.integers(-127, 128, shape).astype(np.int8)
        y8, w = m.conv(x8, ohwi, (8, 8), name="conv_i8")
        y16, _ = m.conv(x16, None, (8, 8), weights=w, name="conv_i16")
        m.output(y8, y16)
        c = E.compile_model(m.to_bytes(), acc)
        src = np.transpose(ohwi.astype(int), (1, 2, 3, 0))
        n, problems = E.check_compiled(c, {y8.name: src, y16.name: src})
        print(f"{acc} weights OHWI {shape}: {n} NPU operators with weights checked")
        for _, so, cost in E.npu_sched_ops(c):
            print(f"   {so.parent_op.name}: IFM {so.parent_op.ifm.dtype}, encoded tensor id {id(cost.npu_weights_tensor):#x}")
        for p in problems:
            print("   VIOLATION:", p)
        bad += len(problems)
    print("violations:", bad)
    return 1 if bad else 0


if __name__ == "__main__":
    sys.exit(main())

# C07 observation 2 (UNMODIFIED tree): the compressed weight cache ignores the kernel flip of transpose convolutions.
#
# Model: a CONV_2D and a TRANSPOSE_CONV (stride 2x2, SAME) that reference the SAME constant int8 weight tensor.
# encode_weight_and_scale_tensor() reverses the weights in H and W for Conv2DBackpropInputSwitchedBias before the
# encoding, but the cache key (block type ConvolutionMxN, OFM block depth, depth slices, dilation, value_id) is the
# same for both operators, so both get the stream that was encoded first: either the plain convolution runs with a
# flipped kernel or the transpose convolution with an unflipped one.
# Run: cd /tmp/seed8/C07 && /venv/bin/python out/observation2.py   (exit 1 = violation observed)
import os
import sys

sys.path.insert(0, os.getcwd())
sys.path.insert(0, os.path.join(os.getcwd(), "out"))

import numpy as np  # noqa: E402

import c07_e2e as E  # noqa: E402
from ethosu.vela.data_type import DataType  # noqa: E402


def main():
    rng = np.random.default_rng(4)
    bad = 0
    for acc, shape in (("Ethos_U55_128", (16, 2, 2, 16)), ("Ethos_U65_256", (16, 3, 3, 40))):
        m = E.Model()
        xa = m.input([1, 8, 8, shape[3]], DataType.int8)
        xb = m.input([1, 8, 8, shape[3]], DataType.int8)
        ohwi = rng.integers(-127, 128, shape).astype(np.int8)
        y1, w = m.conv(xa, ohwi, (8, 8), name="conv")
        y2, _ = m.transpose_conv(xb, None, weights=w, name="tconv")
        m.output(y1, y2)
        c = E.compile_model(m.to_bytes(), acc)
        src = np.transpose(ohwi.astype(int), (1, 2, 3, 0))
        # the transpose convolution must see the kernel reversed in H and W, the convolution must not
        n, problems = E.check_compiled(c, {y1.name: src, y2.name: src[::-1, ::-1]})
        print(f"{acc} weights OHWI {shape}: {n} NPU operators with weights checked")
        for _, so, cost in E.npu_sched_ops(c):
            print(f"   {so.parent_op.name}: {so.parent_op.type}, encoded tensor id {id(cost.npu_weights_tensor):#x}")
        for p in problems:
            print("   VIOLATION:", p)
        bad += len(problems)
    print("violations:", bad)
    return 1 if bad else 0


if __name__ == "__main__":
    sys.exit(main())

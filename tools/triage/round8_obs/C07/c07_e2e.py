# End-to-end helper for C07: builds small .tflite models in memory with Vela's own classes, compiles them with the
# real driver (ethosu.vela.vela.main) and checks every encoded weight tensor of the final schedule with the
# independent oracle (c07ref.ref_reorder + c07ref.py_decode).
import os
import tempfile

import numpy as np

import c07ref
from ethosu.vela import tflite_writer
from ethosu.vela import vela
from ethosu.vela import weight_compressor
from ethosu.vela.api import NpuBlockTraversal
from ethosu.vela.data_type import DataType
from ethosu.vela.nn_graph import Graph
from ethosu.vela.nn_graph import Pass
from ethosu.vela.nn_graph import PassPlacement
from ethosu.vela.nn_graph import Subgraph
from ethosu.vela.operation import NpuBlockType
from ethosu.vela.operation import Op
from ethosu.vela.operation import Operation
from ethosu.vela.tensor import create_const_tensor
from ethosu.vela.tensor import QuantizationParameters
from ethosu.vela.tensor import Tensor

ACC_CLI = {
    "Ethos_U55_32": "ethos-u55-32",
    "Ethos_U55_64": "ethos-u55-64",
    "Ethos_U55_128": "ethos-u55-128",
    "Ethos_U55_256": "ethos-u55-256",
    "Ethos_U65_256": "ethos-u65-256",
    "Ethos_U65_512": "ethos-u65-512",
}


def qp(scale, zp=0, dtype=DataType.int8):
    q = QuantizationParameters()
    q.scale_f32 = np.float32(scale) if np.isscalar(scale) else np.asarray(scale, dtype=np.float32)
    q.zero_point = zp
    if dtype == DataType.int8:
        q.quant_min, q.quant_max = -128, 127
    elif dtype == DataType.uint8:
        q.quant_min, q.quant_max = 0, 255
    else:
        q.quant_min, q.quant_max = -32768, 32767
    return q


class Model:
    def __init__(self, name="c07"):
        self.nng = Graph(name)
        self.sg = Subgraph("main", PassPlacement.Cpu)
        self.nng.subgraphs.append(self.sg)
        self.ps = Pass("main_pass", PassPlacement.Cpu, False, NpuBlockType.Default)
        self.sg.passes.append(self.ps)
        self.sg.original_inputs = []
        self.count = 0

    def input(self, shape, dtype=DataType.int8, scale=0.5, zp=0):
        t = Tensor(list(shape), dtype, f"input{len(self.sg.original_inputs)}")
        t.quantization = qp(scale, zp, dtype)
        op = Operation(Op.Placeholder, t.name + "_ph")
        op.set_output_tensor(t)
        self.sg.input_tensors.append(t)
        self.sg.original_inputs.append(t)
        return t

    def const(self, name, values, dtype, quant=None):
        values = np.asarray(values)
        t = create_const_tensor(name, list(values.shape), dtype, values, quantization=quant)
        t.values = values.astype(dtype.as_numpy_type())
        return t

    def _add(self, op):
        self.ps.ops.append(op)
        self.count += 1

    def conv(self, ifm, ohwi, ofm_hw, stride=(1, 1), dilation=(1, 1), padding_same=True, w_scale=0.01, w_zp=0,
             weights=None, ofm_scale=0.5, name=None, depthwise=False):
        """CONV_2D / DEPTHWISE_CONV_2D. ohwi: weights in TFLite layout (O,H,W,I) resp. (1,H,W,C) for depthwise.
        stride/dilation are (h, w). Pass weights= to share an existing weight tensor between operators."""
        from ethosu.vela.operation import Padding

        name = name or f"conv{self.count}"
        dt = ifm.dtype
        if weights is None:
            ohwi = np.asarray(ohwi)
            wdt = DataType.uint8 if ohwi.dtype == np.uint8 else DataType.int8
            weights = self.const(name + "_w", ohwi, wdt, qp(w_scale, w_zp, wdt))
        ofm_depth = weights.shape[3] if depthwise else weights.shape[0]
        bias_dt = DataType.int64 if dt == DataType.int16 else DataType.int32
        bias = self.const(name + "_b", np.arange(ofm_depth) - 3, bias_dt, qp(float(ifm.quantization.scale_f32) * w_scale, 0, bias_dt))
        ofm = Tensor([1, ofm_hw[0], ofm_hw[1], ofm_depth], dt, name + "_ofm")
        ofm.quantization = qp(ofm_scale, 0, dt)
        op = Operation(Op.DepthwiseConv2DBias if depthwise else Op.Conv2DBias, name)
        op.attrs = {
            "padding": Padding.SAME if padding_same else Padding.VALID,
            "stride_h": stride[0],
            "stride_w": stride[1],
            "strides": (1, stride[0], stride[1], 1),
            "dilation_h_factor": dilation[0],
            "dilation_w_factor": dilation[1],
            "dilation": (1, dilation[0], dilation[1], 1),
            "fused_activation_function": None,
        }
        if depthwise:
            op.attrs["depth_multiplier"] = 1
        op.add_input_tensor(ifm)
        op.add_input_tensor(weights)
        op.add_input_tensor(bias)
        op.set_output_tensor(ofm)
        self._add(op)
        return ofm, weights

    def transpose_conv(self, ifm, ohwi, w_scale=0.01, weights=None, name=None):
        """TRANSPOSE_CONV with stride 2x2 and SAME padding (OFM = 2 x IFM). Inputs: output shape, weights, IFM"""
        from ethosu.vela.operation import Padding

        name = name or f"tconv{self.count}"
        dt = ifm.dtype
        if weights is None:
            ohwi = np.asarray(ohwi)
            weights = self.const(name + "_w", ohwi, DataType.int8, qp(w_scale, 0, DataType.int8))
        ofm_shape = [1, ifm.shape[1] * 2, ifm.shape[2] * 2, weights.shape[0]]
        oshape = self.const(name + "_oshape", np.array(ofm_shape), DataType.int32)
        ofm = Tensor(ofm_shape, dt, name + "_ofm")
        ofm.quantization = qp(0.5, 0, dt)
        op = Operation(Op.Conv2DBackpropInput, name)
        op.attrs = {"padding": Padding.SAME, "stride_h": 2, "stride_w": 2, "strides": (1, 2, 2, 1), "fused_activation_function": None}
        op.add_input_tensor(oshape)
        op.add_input_tensor(weights)
        op.add_input_tensor(ifm)
        op.set_output_tensor(ofm)
        self._add(op)
        return ofm, weights

    def fully_connected(self, ifm, oi, w_scale=0.01, name=None):
        name = name or f"fc{self.count}"
        dt = ifm.dtype
        oi = np.asarray(oi)
        weights = self.const(name + "_w", oi, DataType.int8, qp(w_scale, 0, DataType.int8))
        bias_dt = DataType.int64 if dt == DataType.int16 else DataType.int32
        bias = self.const(name + "_b", np.arange(oi.shape[0]), bias_dt, qp(float(ifm.quantization.scale_f32) * w_scale, 0, bias_dt))
        ofm = Tensor([ifm.shape[0], oi.shape[0]], dt, name + "_ofm")
        ofm.quantization = qp(0.5, 0, dt)
        op = Operation(Op.FullyConnected, name)
        op.attrs = {
            "fused_activation_function": None,
            "weights_format": 0,
            "keep_num_dims": False,
            "asymmetric_quantize_inputs": False,
        }
        op.add_input_tensor(ifm)
        op.add_input_tensor(weights)
        op.add_input_tensor(bias)
        op.set_output_tensor(ofm)
        self._add(op)
        return ofm, weights

    def output(self, *tensors):
        for t in tensors:
            self.sg.output_tensors.append(t)

    def to_bytes(self):
        return bytes(tflite_writer.write_tflite_buffer(self.nng))


class Compiled:
    def __init__(self, nng, arch_name, log):
        self.nng = nng
        self.arch_name = arch_name
        self.log = log


def compile_model(model_bytes, acc_name="Ethos_U55_128", extra_args=()):
    """Compiles with the real command line driver; returns the compiled graph (captured from vela.process)"""
    tmp = tempfile.mkdtemp(prefix="c07e2e_")
    path = os.path.join(tmp, "model.tflite")
    with open(path, "wb") as f:
        f.write(model_bytes)
    captured = {}
    orig = vela.process

    def wrapper(*args, **kwargs):
        nng = orig(*args, **kwargs)
        captured["nng"] = nng
        captured["arch"] = args[2]
        return nng

    vela.process = wrapper
    # the driver prints its summary to the process' stdout: keep the demo output readable by capturing fd 1
    import sys

    sys.stdout.flush()
    saved = os.dup(1)
    logname = os.path.join(tmp, "stdout.log")
    logfd = os.open(logname, os.O_WRONLY | os.O_CREAT | os.O_TRUNC)
    os.dup2(logfd, 1)
    try:
        vela.main([path, "--accelerator-config", ACC_CLI[acc_name], "--output-dir", os.path.join(tmp, "out")] + list(extra_args))
    finally:
        sys.stdout.flush()
        os.dup2(saved, 1)
        os.close(saved)
        os.close(logfd)
        vela.process = orig
    with open(logname) as f:
        log = f.read()
    c = Compiled(captured["nng"], acc_name, log)
    c.arch = captured["arch"]
    return c


def npu_sched_ops(compiled):
    for sg in compiled.nng.subgraphs:
        if sg.placement != PassPlacement.Npu:
            continue
        for sched_op in sg.sched_ops:
            cost = sg.schedule.cost_map[sched_op]
            yield sg, sched_op, cost


def check_compiled(compiled, source_weights):
    """source_weights: dict operator name -> zero point corrected HWIO source array as the hardware must see it.
    Returns (number of checked operators, list of problems)."""
    problems = []
    checked = 0
    iub, oub = c07ref.UBLOCK_DEPTH[compiled.arch_name]
    ncores = compiled.arch.ncores
    for sg, sched_op, cost in npu_sched_ops(compiled):
        wt = cost.npu_weights_tensor
        if wt is None:
            continue
        op = sched_op.parent_op
        if op.name not in source_weights:
            problems.append(f"operator {op.name} with weights not expected")
            continue
        checked += 1
        src = np.asarray(source_weights[op.name])
        ifm_bits = op.ifm.dtype.size_in_bits()
        dw = op.type.npu_block_type == NpuBlockType.ConvolutionDepthWise
        if op.type.npu_block_type == NpuBlockType.VectorProduct:
            pk = False
        else:
            pk = wt.hw_traversal == NpuBlockTraversal.PART_KERNEL_FIRST
        dil = sched_op.kernel.dilation
        obd = cost.block_config.ofm_block.depth
        slices = list(cost.ofm_depth_slices)
        buf = bytes(wt.buffer)
        for idx, start in enumerate(slices[:-1]):
            stop = slices[idx + 1]
            for core in range(ncores):
                chans = list(range(start + core, stop, ncores))
                rng = wt.encoded_ranges.get(weight_compressor.WeightKey(core, start))
                if rng is None:
                    if chans:
                        problems.append(f"{op.name}: no encoded range for core {core} depth {start}")
                    continue
                core_block = (obd + ncores - 1 - core) // ncores
                ohwi = np.transpose(src[:, :, :, chans], (3, 0, 1, 2))
                exp = c07ref.ref_reorder(ohwi, iub, oub, core_block, dw, pk, ifm_bits, 8 // dil.y, 8 // dil.x)
                a = rng.offset + rng.weight_offset
                stream = buf[a : a + rng.weight_bytes]
                if len(stream) % 16:
                    problems.append(f"{op.name}: stream length {len(stream)} not a multiple of 16")
                try:
                    dec = c07ref.py_decode(stream) if stream else []
                except ValueError as e:
                    problems.append(f"{op.name} core {core} slice [{start},{stop}): undecodable: {e}")
                    continue
                if dec != exp:
                    where = next((k for k, (x, y) in enumerate(zip(dec, exp)) if x != y), min(len(dec), len(exp)))
                    problems.append(
                        f"{op.name} ({ifm_bits} bit IFM, {'part-kernel' if pk else 'depth'}-first, block depth {obd}) core {core} "
                        f"depth slice [{start},{stop}) of {slices}: decoded {len(dec)} weights, expected {len(exp)}, "
                        f"first difference at position {where}"
                    )
    return checked, problems

# Helper for C07 demos: drives weight_compressor.encode_weight_and_scale_tensor() for one operator the way the
# scheduler does and checks every encoded (core, depth slice) range against the independent oracle in c07ref.
import types

import numpy as np

import c07ref
from ethosu.vela import architecture_features
from ethosu.vela import weight_compressor
from ethosu.vela.api import NpuBlockTraversal
from ethosu.vela.data_type import DataType
from ethosu.vela.operation import Kernel
from ethosu.vela.operation import NpuBlockType
from ethosu.vela.operation import Op
from ethosu.vela.operation import Operation
from ethosu.vela.tensor import create_const_tensor
from ethosu.vela.tensor import QuantizationParameters
from ethosu.vela.tensor import Tensor
from ethosu.vela.tensor import TensorFormat
from ethosu.vela.tensor import TensorPurpose

NP2DT = {np.dtype(np.int8): DataType.int8, np.dtype(np.uint8): DataType.uint8}


def _qp(scale=1.0, zp=0):
    qp = QuantizationParameters()
    qp.scale_f32 = np.float32(scale)
    qp.zero_point = zp
    return qp


def make_conv(name, hwio, ifm_dtype=DataType.int8, op_type=Op.Conv2DBias, w_zero_point=0, bias_dtype=None, weights=None):
    """Builds a minimal convolution-like Operation around a HWIO weight array. weights: reuse an existing tensor"""
    hwio = np.asarray(hwio)
    h, w, i, o = hwio.shape
    ifm_depth = o if op_type == Op.DepthwiseConv2DBias else i
    ifm = Tensor([1, 16, 16, ifm_depth], ifm_dtype, name + "_ifm")
    ifm.quantization = _qp(0.5)
    ofm = Tensor([1, 16, 16, o], ifm_dtype, name + "_ofm")
    ofm.quantization = _qp(0.25)
    op = Operation(op_type, name)
    op.add_input_tensor(ifm)
    if weights is None:
        weights = create_const_tensor(
            name + "_w", list(hwio.shape), NP2DT[hwio.dtype], hwio, quantization=_qp(0.125, w_zero_point)
        )
        weights.values = hwio
    op.add_input_tensor(weights)
    if bias_dtype is None:
        bias_dtype = DataType.int64 if ifm_dtype == DataType.int16 else DataType.int32
    bias = create_const_tensor(name + "_b", [o], bias_dtype, list(range(o)), quantization=_qp(1.0))
    if op_type == Op.Conv2DBackpropInputSwitchedBias:
        # transpose convolution: input 2 is the output shape tensor, the bias is input 3
        op.add_input_tensor(create_const_tensor(name + "_oshape", [4], DataType.int32, [1, 16, 16, o]))
    bias.purpose = TensorPurpose.FeatureMap
    bias.format = TensorFormat.NHWC
    weights.purpose = TensorPurpose.Weights
    op.add_input_tensor(bias)
    op.set_output_tensor(ofm)
    return op, weights, bias


def encode(acc_name, op, weights, bias, ofm_block_depth, depth_offsets, dilation=(1, 1)):
    acc = architecture_features.Accelerator[acc_name]
    arch = architecture_features.create_default_arch(acc)
    h, w = weights.values.shape[0], weights.values.shape[1]
    kernel = Kernel(w, h, 1, 1, dilation[0], dilation[1])
    block_config = types.SimpleNamespace(ofm_block=types.SimpleNamespace(depth=ofm_block_depth, width=8, height=8))
    wt, st = weight_compressor.encode_weight_and_scale_tensor(arch, op, weights, bias, kernel, block_config, depth_offsets)
    return arch, wt, st


def expected_source(op, weights):
    """Zero point corrected HWIO source weights as the hardware must see them"""
    vals = np.asarray(weights.values).astype(np.int64)
    zp = weights.quantization.zero_point
    src = vals - np.asarray(zp).astype(np.int64)
    if op.type == Op.Conv2DBackpropInputSwitchedBias:
        src = src[::-1, ::-1, :, :]
    return src


def check(acc_name, op, weights, wt, ncores, ofm_block_depth, depth_offsets, dilation=(1, 1), traversal=None):
    """Returns a list of problems (empty = all encoded ranges decode to the expected hardware-ordered weights)"""
    problems = []
    iub, oub = c07ref.UBLOCK_DEPTH[acc_name]
    src = expected_source(op, weights)
    ifm_bits = op.inputs[0].dtype.size_in_bits()
    dw = op.type.npu_block_type == NpuBlockType.ConvolutionDepthWise
    trav = wt.hw_traversal if traversal is None else traversal
    pk = trav == NpuBlockTraversal.PART_KERNEL_FIRST
    buf = bytes(wt.buffer)
    for idx, start in enumerate(depth_offsets[:-1]):
        stop = depth_offsets[idx + 1]
        for core in range(ncores):
            key = weight_compressor.WeightKey(core, start)
            chans = list(range(start + core, stop, ncores))
            rng = wt.encoded_ranges.get(key)
            if rng is None:
                if chans:
                    problems.append(f"no encoded range for core {core} depth {start}")
                continue
            core_block = (ofm_block_depth + ncores - 1 - core) // ncores
            ohwi = np.transpose(src[:, :, :, chans], (3, 0, 1, 2))
            exp = c07ref.ref_reorder(
                ohwi, iub, oub, core_block, dw, pk, ifm_bits, c07ref.SUBKERNEL_MAX // dilation[1], c07ref.SUBKERNEL_MAX // dilation[0]
            )
            a = rng.offset + rng.weight_offset
            stream = buf[a : a + rng.weight_bytes]
            if len(stream) % 16 != 0 or (a % 16) != 0:
                problems.append(f"core {core} depth {start}: stream at {a} len {len(stream)} not 16 byte aligned")
            try:
                dec = c07ref.py_decode(stream) if len(stream) else []
            except ValueError as e:
                problems.append(f"core {core} depth {start}: undecodable stream: {e}")
                continue
            if dec != exp:
                where = next((k for k, (x, y) in enumerate(zip(dec, exp)) if x != y), min(len(dec), len(exp)))
                problems.append(
                    f"core {core} depth slice [{start},{stop}): decoded {len(dec)} weights, expected {len(exp)}; "
                    f"first difference at position {where}"
                )
    return problems

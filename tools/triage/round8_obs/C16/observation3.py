# Observation 3 (unmodified tree): SHAPE is constant-folded (convert_shape_op_to_constant_tensor) BEFORE the supported operator
# check, so the generic constraints listed for SHAPE are never applied to it:
#  - SHAPE with an int64 result (out_type=int64; 'Tensors must be of type: int16, int32, int8, uint8' violated) does not stay
#    on the CPU: when the result is a network output the compiler inserts an int64 NPU copy and aborts with KeyError: 64
#  - SHAPE of a float32 tensor (same constraint violated) does not stay on the CPU either: it disappears and an NPU copy of
#    the folded constant is emitted.
# Exit 1 = violation reproduced.
import os
import sys

sys.path.insert(0, os.getcwd())
sys.path.insert(0, os.path.dirname(os.path.abspath(__file__)))
import numpy as np  # noqa: E402,F401
import c16cases as C  # noqa: E402
from c16cases import I8, I16, I32, I64, U8, F32, Op, Padding  # noqa: E402,F401
from c16lib import *  # noqa: E402,F401,F403


def outcome(r):
    if r.exc is not None:
        return f"compiler raised {type(r.exc).__name__}: {r.exc}"
    return f"output operators {r.names()}"


bad = 0
r = compile_tflite(C.shape_op(out_dtype=I64))
print("SHAPE int8 [1,8,8,4] -> int64 [4]:", outcome(r))
bad += r.names() != ["SHAPE"]
r = compile_tflite(C.shape_op(dtype=F32))
print("SHAPE float32 [1,8,8,4] -> int32 [4]:", outcome(r))
bad += r.names() != ["SHAPE"]
r = compile_tflite(C.shape_op())
print("SHAPE int8 [1,8,8,4] -> int32 [4] (inside the constraints):", outcome(r))
print("VIOLATION" if bad else "no violation")
sys.exit(1 if bad else 0)

# Broad sweep: (case name, builder, expected placement of the operator producing "ofm" according to the documented
# constraints). Prints every disagreement.
import os
import sys
import traceback

sys.path.insert(0, os.getcwd())
sys.path.insert(0, os.path.dirname(os.path.abspath(__file__)))
import numpy as np  # noqa: E402
import c16cases as C  # noqa: E402
from c16cases import I8, U8, I16, I32, I64, F32, Op, Padding  # noqa: E402
from c16lib import compile_tflite, op_unchanged, describe_tflite  # noqa: E402

SAME, VALID = Padding.SAME, Padding.VALID
cases = []


def case(name, expect, fn, *a, **k):
    cases.append((name, expect, fn, a, k))


# ---- CONV_2D
case("conv basic", "NPU", C.conv)
case("conv stride 3x3", "NPU", C.conv, stride=(3, 3))
case("conv stride h4", "CPU", C.conv, stride=(4, 1))
case("conv stride h4 ofm_h 1", "NPU", C.conv, ifm_shape=(1, 3, 16, 4), stride=(4, 1))
case("conv stride w4 width16", "NPU", C.conv, stride=(1, 4), k=(1, 4))
case("conv stride w4 width 18 (18%2==0)", "NPU", C.conv, ifm_shape=(1, 8, 18, 4), stride=(1, 4), k=(1, 2))
case("conv stride w4 width 7", "CPU", C.conv, ifm_shape=(1, 8, 7, 4), stride=(1, 4), k=(1, 1))
case("conv stride w5 width 10 (5 not divisible by 2/3)", "CPU", C.conv, ifm_shape=(1, 8, 10, 4), stride=(1, 5), k=(1, 5))
case("conv stride w6 width 9", "NPU", C.conv, ifm_shape=(1, 8, 9, 4), stride=(1, 6), k=(1, 3))
case("conv stride w9 width 9 ", "NPU", C.conv, ifm_shape=(1, 8, 9, 4), stride=(1, 9), k=(1, 3))
case("conv dilated h 64 (k22 d3)", "NPU", C.conv, ifm_shape=(1, 70, 8, 4), k=(22, 1), dilation=(3, 1))
case("conv dilated h 67 (k23 d3)", "CPU", C.conv, ifm_shape=(1, 70, 8, 4), k=(23, 1), dilation=(3, 1))
case("conv kernel h 64", "NPU", C.conv, ifm_shape=(1, 70, 8, 4), k=(64, 1))
case("conv kernel h 65", "CPU", C.conv, ifm_shape=(1, 70, 8, 4), k=(65, 1))
case("conv dilated product 64x64", "NPU", C.conv, ifm_shape=(1, 64, 64, 1), k=(64, 64), oc=1)
case("conv dilated product 64 x 65 (k33 d2)", "CPU", C.conv, ifm_shape=(1, 70, 70, 1), k=(64, 33), dilation=(1, 2), oc=1)
case("conv dilated product 63 x 65 (k33 d2)", "NPU", C.conv, ifm_shape=(1, 70, 70, 1), k=(63, 33), dilation=(1, 2), oc=1)
case("conv dilation 1x5", "NPU", C.conv, ifm_shape=(1, 8, 30, 4), k=(1, 3), dilation=(1, 5))
case("conv uint8", "NPU", C.conv, dtype=U8, wdtype=U8)
case("conv int16 bias int64", "NPU", C.conv, dtype=I16, bias_dtype=I64)
case("conv int16 bias int32", "NPU", C.conv, dtype=I16, bias_dtype=I32)
case("conv int32 ifm", "CPU", C.conv, dtype=I32)
case("conv weights int16", "CPU", C.conv, dtype=I16, wdtype=I16, bias_dtype=I64)
case("conv batch 2", "CPU", C.conv, ifm_shape=(2, 16, 16, 4))
case("conv dynamic weights", "CPU", C.conv, dynamic_weights=True)
case("conv no bias", "NPU", C.conv, with_bias=False)
case("conv bias int64 within 40 bit", "NPU", C.conv, dtype=I16, bias_dtype=I64, bias_values=np.array([2 ** 39 - 1] * 8, np.int64))
case("conv bias int64 min 40 bit", "NPU", C.conv, dtype=I16, bias_dtype=I64, bias_values=np.array([-(2 ** 39)] * 8, np.int64))
case("conv bias int64 2^39", "CPU", C.conv, dtype=I16, bias_dtype=I64, bias_values=np.array([2 ** 39] * 8, np.int64))
case("conv bias int64 -2^39-1", "CPU", C.conv, dtype=I16, bias_dtype=I64, bias_values=np.array([-(2 ** 39) - 1] * 8, np.int64))
case("conv bias 2D [1,8]", "CPU", C.conv, bias_shape=[1, 8])
case("conv faf relu", "NPU", C.conv, faf=Op.Relu)
case("conv faf relu6", "NPU", C.conv, faf=Op.Relu6)
case("conv faf relu_n1_to_1", "NPU", C.conv, faf=Op.ReluN1To1)
case("conv faf tanh", "NPU", C.conv, faf=Op.Tanh)
case("conv faf sign_bit", "CPU", C.conv, faf=Op.SignBit)
case("conv width 65535 ", "NPU", C.conv, ifm_shape=(1, 1, 65535, 1), k=(1, 1), oc=1)
case("conv width 65536 ", "CPU", C.conv, ifm_shape=(1, 1, 65536, 1), k=(1, 1), oc=1)
case("conv SAME stride 2", "NPU", C.conv, padding=SAME, stride=(2, 2))
case("conv weights asymmetric int8 (zp 3)", "NPU", C.conv, w_zero_point=3)
case("conv weights asymmetric uint8 (zp 128)", "NPU", C.conv, dtype=U8, wdtype=U8, w_zero_point=128)
big = np.full([1, 2, 1, 33000], -128, np.int8)
case("conv weight sum 8448000 > limit", "CPU", C.conv, ifm_shape=(1, 2, 1, 33000), k=(2, 1), oc=1, weight_values=big)
big2 = np.full([1, 2, 1, 32000], -128, np.int8)
case("conv weight sum 8192000 <= limit", "NPU", C.conv, ifm_shape=(1, 2, 1, 32000), k=(2, 1), oc=1, weight_values=big2)

# ---- DEPTHWISE
case("dw basic", "NPU", C.depthwise)
case("dw stride 3", "NPU", C.depthwise, stride=(3, 3))
case("dw stride w4", "CPU", C.depthwise, stride=(1, 4))
case("dw stride h4", "CPU", C.depthwise, stride=(4, 1))
case("dw multiplier 4 ifm c 1", "NPU", C.depthwise, ifm_shape=(1, 16, 16, 1), depth_multiplier=4)
case("dw multiplier 2 ifm c 2", "CPU", C.depthwise, ifm_shape=(1, 16, 16, 2), depth_multiplier=2)
case("dw implicit multiplier (0) c 4", "NPU", C.depthwise, written_depth_multiplier=0)
case("dw dilated 64 (k22,d3)", "NPU", C.depthwise, ifm_shape=(1, 70, 8, 4), k=(22, 1), dilation=(3, 1))
case("dw dilated 67", "CPU", C.depthwise, ifm_shape=(1, 70, 8, 4), k=(23, 1), dilation=(3, 1))
case("dw batch 2", "CPU", C.depthwise, ifm_shape=(2, 16, 16, 4))

# ---- TRANSPOSE_CONV
case("tconv 2x2 SAME", "NPU", C.transpose_conv)
case("tconv 1x1 SAME", "NPU", C.transpose_conv, stride=(1, 1))
case("tconv 3x3 SAME", "CPU", C.transpose_conv, stride=(3, 3))
case("tconv 1x2 (h1,w2) h=1 k_h=1", "NPU", C.transpose_conv, ifm_shape=(1, 1, 4, 4), k=(1, 3), stride=(1, 2))
case("tconv 1x2 (h1,w2) h=4", "CPU", C.transpose_conv, ifm_shape=(1, 4, 4, 4), k=(1, 3), stride=(1, 2))
case("tconv 2x1 (h2,w1)", "CPU", C.transpose_conv, ifm_shape=(1, 4, 1, 4), k=(3, 1), stride=(2, 1))
case("tconv 2x2 VALID", "NPU", C.transpose_conv, padding=VALID)
case("tconv 2x2 VALID wrong ofm", "CPU", C.transpose_conv, padding=VALID, ofm_hw=(8, 8))
case("tconv 2x2 SAME wrong ofm", "CPU", C.transpose_conv, ofm_hw=(9, 9))

# ---- MAX_POOL
case("maxpool basic", "NPU", C.pool)
case("maxpool stride 3", "NPU", C.pool, stride=(3, 3), k=(3, 3))
case("maxpool stride w4", "CPU", C.pool, stride=(1, 4), k=(2, 2))
case("maxpool stride h4", "CPU", C.pool, stride=(4, 1), k=(2, 2))
case("maxpool k h 256", "NPU", C.pool, ifm_shape=(1, 260, 4, 4), k=(256, 1))
case("maxpool k h 257", "CPU", C.pool, ifm_shape=(1, 260, 4, 4), k=(257, 1))
case("maxpool k 256x256", "NPU", C.pool, ifm_shape=(1, 256, 256, 1), k=(256, 256))
case("maxpool k 256x257", "CPU", C.pool, ifm_shape=(1, 256, 260, 1), k=(256, 257))
case("maxpool int16", "NPU", C.pool, dtype=I16)
case("maxpool in/out types differ", "CPU", C.pool, dtype=I8, ofm_dtype=U8)
case("maxpool kernel==stride==ifm 20x20 SAME", "NPU", C.pool, ifm_shape=(1, 20, 20, 4), k=(20, 20), stride=(20, 20), padding=SAME)
case("maxpool batch 2", "CPU", C.pool, ifm_shape=(2, 16, 16, 4))

# ---- AVG_POOL
case("avgpool basic", "NPU", C.pool, kind="avg")
case("avgpool SAME k8", "NPU", C.pool, kind="avg", k=(8, 8), padding=SAME)
case("avgpool SAME k9 w", "CPU", C.pool, kind="avg", k=(1, 9), padding=SAME)
case("avgpool SAME k9 h", "CPU", C.pool, kind="avg", k=(9, 1), padding=SAME)
case("avgpool VALID k9", "NPU", C.pool, kind="avg", k=(9, 9), padding=VALID)
case("avgpool VALID k h 256", "NPU", C.pool, kind="avg", ifm_shape=(1, 260, 4, 4), k=(256, 1))
case("avgpool VALID k h 257", "CPU", C.pool, kind="avg", ifm_shape=(1, 260, 4, 4), k=(257, 1))
case("avgpool stride h4", "CPU", C.pool, kind="avg", stride=(4, 1))
case("avgpool stride w4 VALID width 16", "NPU", C.pool, kind="avg", stride=(1, 4), k=(2, 4))
case("avgpool stride w4 SAME width 16", "CPU", C.pool, kind="avg", stride=(1, 4), k=(2, 4), padding=SAME)
case("avgpool stride w4 VALID width 7", "CPU", C.pool, kind="avg", ifm_shape=(1, 8, 7, 4), stride=(1, 4), k=(1, 1))
case("avgpool SAME k 1x9 stride w9 (sw==w)", "NPU", C.pool, kind="avg", ifm_shape=(1, 8, 9, 4), stride=(1, 9), k=(1, 9), padding=SAME)
case("avgpool batch 2 k==stride==ifm SAME", "CPU", C.pool, kind="avg", ifm_shape=(2, 4, 4, 4), k=(4, 4), stride=(4, 4), padding=SAME)

# ---- FULLY_CONNECTED
case("fc basic", "NPU", C.fully_connected)
case("fc batch 4", "NPU", C.fully_connected, ifm_shape=(4, 16))
case("fc int16 bias int64", "NPU", C.fully_connected, dtype=I16, bias_dtype=I64)
case("fc weights int16", "CPU", C.fully_connected, dtype=I16, wdtype=I16, bias_dtype=I64)
case("fc keep_num_dims 3D", "NPU", C.fully_connected, ifm_shape=(1, 4, 16), keep_num_dims=True, ofm_shape=[1, 4, 8])
case("fc keep_num_dims mismatch", "CPU", C.fully_connected, ifm_shape=(1, 4, 16), keep_num_dims=True, ofm_shape=[4, 8])

# ---- binary elementwise
for o in (Op.Add, Op.Sub, Op.Mul):
    n = o.name
    case(n + " basic", "NPU", C.binary, o)
    case(n + " int16", "NPU", C.binary, o, dtype=I16)
    case(n + " uint8", "NPU", C.binary, o, dtype=U8)
    case(n + " int32", "NPU", C.binary, o, dtype=I32)
    case(n + " bcast ifm2 [1,1,1,4]", "NPU", C.binary, o, shape2=(1, 1, 1, 4))
    case(n + " bcast ifm2 [4]", "NPU", C.binary, o, shape2=(4,))
    case(n + " bcast ifm1 [1,8,1,4]", "NPU", C.binary, o, shape1=(1, 8, 1, 4))
    case(n + " bcast both", "CPU", C.binary, o, shape1=(1, 8, 1, 4), shape2=(1, 1, 8, 4))
    case(n + " scalar const", "NPU", C.binary, o, shape2=(), const2=True)
    case(n + " batch 2", "CPU", C.binary, o, shape1=(2, 8, 8, 4), shape2=(2, 8, 8, 4))
    case(n + " ifm2 batch 2 bcast", "CPU", C.binary, o, shape1=(1, 8, 8, 4), shape2=(2, 8, 8, 4))
    case(n + " input types differ", "CPU", C.binary, o, dtype=I8, dtype2=U8)
    case(n + " int8 -> uint8", "CPU", C.binary, o, dtype=I8, ofm_dtype=U8)
    case(n + " uint8 -> int32", "NPU", C.binary, o, dtype=U8, ofm_dtype=I32)
    case(n + " uint8 -> int8", "CPU", C.binary, o, dtype=U8, ofm_dtype=I8)
    case(n + " int8 -> int32", "NPU", C.binary, o, dtype=I8, ofm_dtype=I32)
    case(n + " faf relu", "NPU", C.binary, o, faf=Op.Relu)
    case(n + " 3D", "NPU", C.binary, o, shape1=(8, 8, 4), shape2=(8, 8, 4))
    case(n + " 2D", "NPU", C.binary, o, shape1=(8, 4), shape2=(8, 4))
    case(n + " 1D", "NPU", C.binary, o, shape1=(4,), shape2=(4,))
for o in (Op.Minimum, Op.Maximum):
    n = o.name
    case(n + " basic", "NPU", C.binary, o)
    case(n + " int16", "NPU", C.binary, o, dtype=I16)
    case(n + " int32", "CPU", C.binary, o, dtype=I32)
    case(n + " scale mismatch ifm2", "CPU", C.binary, o, scales=(0.5, 0.25, 0.5))
    case(n + " zp mismatch ofm", "CPU", C.binary, o, zps=(0, 0, 1))
    case(n + " bcast ifm2", "NPU", C.binary, o, shape2=(1, 1, 1, 4))
    case(n + " bcast both", "CPU", C.binary, o, shape1=(1, 8, 1, 4), shape2=(1, 1, 8, 4))
    case(n + " types differ", "CPU", C.binary, o, dtype=I8, ofm_dtype=U8)
case("sqdiff basic", "NPU", C.binary, Op.SquaredDifference)
case("sqdiff bcast both", "CPU", C.binary, Op.SquaredDifference, shape1=(1, 8, 1, 4), shape2=(1, 1, 8, 4))

# ---- unary
case("abs", "NPU", C.unary, Op.Abs)
case("abs int16", "NPU", C.unary, Op.Abs, dtype=I16)
case("abs types differ", "CPU", C.unary, Op.Abs, ofm_dtype=U8)
case("abs batch2", "CPU", C.unary, Op.Abs, shape=(2, 8, 8, 4))
case("abs int32", "CPU", C.unary, Op.Abs, dtype=I32)
case("leaky relu", "NPU", C.unary, Op.LeakyRelu, attrs={"alpha": 0.1})
case("leaky relu int16", "NPU", C.unary, Op.LeakyRelu, dtype=I16, attrs={"alpha": 0.1})
case("leaky relu alpha<0", "NPU", C.unary, Op.LeakyRelu, attrs={"alpha": -0.1})
case("leaky relu int16 alpha<0", "NPU", C.unary, Op.LeakyRelu, dtype=I16, attrs={"alpha": -0.1})
case("rsqrt int8", "NPU", C.unary, Op.Rsqrt)
case("rsqrt uint8", "CPU", C.unary, Op.Rsqrt, dtype=U8)
case("rsqrt int16", "CPU", C.unary, Op.Rsqrt, dtype=I16)
case("exp int8", "NPU", C.unary, Op.Exp)
case("exp int16", "NPU", C.unary, Op.Exp, dtype=I16, scales=(1 / 4096, 1 / 1024))
case("exp uint8", "CPU", C.unary, Op.Exp, dtype=U8)
case("log int8", "NPU", C.unary, Op.Log)
case("log uint8", "CPU", C.unary, Op.Log, dtype=U8)
case("sqrt int8", "NPU", C.unary, Op.Sqrt)
case("gelu int8", "NPU", C.unary, Op.Gelu, attrs={"approximate": False})
case("hardswish int8", "NPU", C.unary, Op.HardSwish)
case("hardswish uint8", "NPU", C.unary, Op.HardSwish, dtype=U8)
case("hardswish int16", "CPU", C.unary, Op.HardSwish, dtype=I16)
case("tanh int8", "NPU", C.unary, Op.Tanh)
case("tanh int16", "NPU", C.unary, Op.Tanh, dtype=I16, scales=(1 / 4096, 1 / 32768))
case("logistic uint8", "NPU", C.unary, Op.Sigmoid, dtype=U8)
case("relu", "NPU", C.unary, Op.Relu)
case("relu differing scales", "NPU", C.unary, Op.Relu, scales=(0.5, 0.25))
case("relu6 int16", "NPU", C.unary, Op.Relu6, dtype=I16)
case("relu_n1_to_1", "NPU", C.unary, Op.ReluN1To1)
case("relu int32", "CPU", C.unary, Op.Relu, dtype=I32)
case("quantize int8->int8", "NPU", C.quantize)
case("quantize int8->uint8", "NPU", C.quantize, ofm_dtype=U8)
case("quantize int16->int8", "NPU", C.quantize, dtype=I16)
case("quantize float->int8", "CPU", C.quantize, dtype=F32)

# ---- resize
for kind in ("bilinear", "nearest"):
    case(kind + " x2", "NPU", C.resize, kind)
    case(kind + " x4", "NPU", C.resize, kind, ofm_hw=(16, 16))
    case(kind + " x8", "NPU", C.resize, kind, ofm_hw=(32, 32))
    case(kind + " x3", "CPU", C.resize, kind, ofm_hw=(12, 12))
    case(kind + " x16", "CPU", C.resize, kind, ofm_hw=(64, 64))
    case(kind + " x2/x4", "CPU", C.resize, kind, ofm_hw=(8, 16))
    case(kind + " 1x1 -> 5x7", "NPU", C.resize, kind, ifm_shape=(1, 1, 1, 4), ofm_hw=(5, 7))
    case(kind + " same size", "NPU", C.resize, kind, ofm_hw=(4, 4))
    case(kind + " align corners 4->7", "NPU", C.resize, kind, ofm_hw=(7, 7), align_corners=True)
    case(kind + " align corners 4->8", "CPU", C.resize, kind, ofm_hw=(8, 8), align_corners=True)
    case(kind + " align+half pixel", "CPU", C.resize, kind, ofm_hw=(7, 7), align_corners=True, half_pixel_centers=True)
    case(kind + " size tensor mismatch", "CPU", C.resize, kind, size_values=(8, 9))
    case(kind + " batch 2", "CPU", C.resize, kind, ifm_shape=(2, 4, 4, 4))
case("bilinear hpc x2", "NPU", C.resize, "bilinear", half_pixel_centers=True)
case("bilinear hpc x4", "CPU", C.resize, "bilinear", ofm_hw=(16, 16), half_pixel_centers=True)
case("nearest hpc x4", "NPU", C.resize, "nearest", ofm_hw=(16, 16), half_pixel_centers=True)

# ---- mean
case("mean hw", "NPU", C.mean)
case("mean hw no keep", "NPU", C.mean, keep_dims=False)
case("mean h", "NPU", C.mean, axis=(1,))
case("mean w", "NPU", C.mean, axis=(2,))
case("mean c (w=1)", "NPU", C.mean, ifm_shape=(1, 8, 1, 16), axis=(3,))
case("mean c (no 1)", "CPU", C.mean, ifm_shape=(1, 8, 8, 16), axis=(3,))
case("mean hw negative axis", "NPU", C.mean, axis=(-3, -2))
case("mean scalar axis", "NPU", C.mean, axis=(2,), scalar_axis=True)
case("mean 3D hw", "NPU", C.mean, ifm_shape=(8, 8, 4), axis=(0, 1))
case("mean 2D both", "NPU", C.mean, ifm_shape=(8, 4), axis=(0, 1))
case("mean 2D axis 1", "NPU", C.mean, ifm_shape=(8, 4), axis=(1,))
case("mean batch axis (n=1)", "NPU", C.mean, axis=(0,))
case("mean int16 hw 256x256 = 65536", "NPU", C.mean, ifm_shape=(1, 256, 256, 1), dtype=I16)
case("mean int16 hw 256x257", "CPU", C.mean, ifm_shape=(1, 256, 257, 1), dtype=I16)
case("mean w 4096", "NPU", C.mean, ifm_shape=(1, 2, 4096, 1), axis=(2,))
case("mean w 4097", "CPU", C.mean, ifm_shape=(1, 2, 4097, 1), axis=(2,))
case("mean c 4096 (h=1)", "NPU", C.mean, ifm_shape=(1, 1, 2, 4096), axis=(3,))
case("mean c 4097 (h=1)", "CPU", C.mean, ifm_shape=(1, 1, 2, 4097), axis=(3,))
case("mean h 4097 w not reduced", "NPU", C.mean, ifm_shape=(1, 4097, 2, 1), axis=(1,))
case("mean uint8", "NPU", C.mean, dtype=U8)
case("mean int32", "CPU", C.mean, dtype=I32)

# ---- softmax
case("softmax int8", "NPU", C.softmax)
case("softmax uint8", "NPU", C.softmax, dtype=U8)
case("softmax int16", "NPU", C.softmax, dtype=I16)
case("softmax batch 4", "NPU", C.softmax, shape=(4, 16))
case("softmax 4D", "NPU", C.softmax, shape=(1, 4, 4, 16))
case("softmax beta -1", "CPU", C.softmax, beta=-1.0)
case("softmax beta 0", "CPU", C.softmax, beta=0.0)
case("softmax int8->int16", "CPU", C.softmax, ofm_dtype=I16)

# ---- memory only / data movement
case("reshape", "NPU", C.reshape)
case("reshape dynamic shape", "CPU", C.reshape, const_shape=False)
case("transpose 4D 0213", "NPU", C.transpose)
case("transpose 4D 0132 (h=1)", "NPU", C.transpose, ifm_shape=(1, 1, 4, 6), perm=(0, 1, 3, 2))
case("transpose 4D 0132 (h=8)", "CPU", C.transpose, ifm_shape=(1, 8, 4, 6), perm=(0, 1, 3, 2))
case("transpose 4D 0321 (w=1)", "NPU", C.transpose, ifm_shape=(1, 8, 1, 6), perm=(0, 3, 2, 1))
case("transpose 4D 0321 (w=4)", "CPU", C.transpose, ifm_shape=(1, 8, 4, 6), perm=(0, 3, 2, 1))
case("transpose 4D 0312", "CPU", C.transpose, ifm_shape=(1, 8, 4, 6), perm=(0, 3, 1, 2))
case("transpose 4D 1023 (n=1)", "CPU", C.transpose, ifm_shape=(1, 8, 4, 6), perm=(1, 0, 2, 3))
case("transpose 3D 102", "NPU", C.transpose, ifm_shape=(8, 4, 6), perm=(1, 0, 2))
case("transpose 3D 021 (h=1)", "NPU", C.transpose, ifm_shape=(1, 4, 6), perm=(0, 2, 1))
case("transpose 3D 021 (h=8)", "CPU", C.transpose, ifm_shape=(8, 4, 6), perm=(0, 2, 1))
case("transpose 3D 210 (w=1)", "NPU", C.transpose, ifm_shape=(8, 1, 6), perm=(2, 1, 0))
case("transpose 3D 210 (w=4)", "CPU", C.transpose, ifm_shape=(8, 4, 6), perm=(2, 1, 0))
case("transpose 3D 120", "CPU", C.transpose, ifm_shape=(8, 4, 6), perm=(1, 2, 0))
case("transpose 2D", "NPU", C.transpose, ifm_shape=(8, 6), perm=(1, 0))
case("transpose 2D identity", "NPU", C.transpose, ifm_shape=(8, 6), perm=(0, 1))
case("transpose int32", "NPU", C.transpose, dtype=I32)
case("pad hw", "NPU", C.pad)
case("pad 3D", "NPU", C.pad, ifm_shape=(8, 8, 4), paddings=((1, 1), (1, 1), (0, 0)))
case("pad 2D ([2,2] paddings)", "CPU", C.pad, ifm_shape=(8, 4), paddings=((1, 1), (0, 0)))
case("pad int64 paddings", "NPU", C.pad, pad_dtype=I64)
case("pad channel", "NPU", C.pad, paddings=((0, 0), (0, 0), (0, 0), (1, 1)))
case("argmax depth 127", "NPU", C.argmax, ifm_shape=(1, 4, 4, 127))
case("argmax depth 128", "CPU", C.argmax, ifm_shape=(1, 4, 4, 128))
case("argmax axis -1", "NPU", C.argmax, axis=-1)
case("argmax axis 2", "CPU", C.argmax, axis=2)
case("argmax int64 out", "NPU", C.argmax, out_dtype=I64)
case("argmax int16 in", "CPU", C.argmax, dtype=I16)
case("strided slice", "NPU", C.strided_slice)
case("strided slice stride 2", "CPU", C.strided_slice, strides=(1, 2, 1, 1))
case("strided slice end<=begin", "CPU", C.strided_slice, begin=(0, 6, 0, 0), end=(1, 6, 8, 4), ofm_shape=[1, 1, 8, 4])
case("strided slice ellipsis", "CPU", C.strided_slice, masks={"ellipsis_mask": 1})
case("strided slice offset", "CPU", C.strided_slice, masks={"offset": True})
case("slice", "NPU", C.slice_op)
case("slice size -1", "NPU", C.slice_op, size=(1, -1, 8, 4))
case("concat c", "NPU", C.concat)
case("concat h", "NPU", C.concat, axis=1)
case("concat axis -1", "NPU", C.concat, axis=-1)
case("concat wrong ofm", "CPU", C.concat, ofm_shape=[1, 8, 8, 9])
case("concat mismatching dims", "CPU", C.concat, shapes=((1, 8, 8, 4), (1, 8, 7, 4)))
case("concat faf relu", "NPU", C.concat, faf=Op.Relu)


def run(filter_=None, accel="ethos-u55-128", extra=()):
    bad = []
    for name, expect, fn, a, k in cases:
        if filter_ and filter_ not in name:
            continue
        try:
            buf = fn(*a, **k)
        except Exception as e:  # noqa: B902
            print(f"BUILD-ERROR {name}: {type(e).__name__}: {e}")
            traceback.print_exc()
            continue
        r = compile_tflite(buf, extra, accel)
        if r.exc is not None or r.exit not in (0, None):
            got = f"ERROR exit={r.exit} {type(r.exc).__name__ if r.exc else ''}: {r.exc}"
        else:
            got = "CPU" if r.on_cpu("ofm") else ("NPU" if r.has_npu() else "GONE")
            if got == "CPU" and not op_unchanged(buf, r, "ofm"):
                got = "CPU-CHANGED"
        flag = "ok " if got == expect else "BAD"
        print(f"{flag} {name:55s} expect {expect} got {got}")
        if got != expect:
            bad.append((name, expect, got, r))
    return bad


if __name__ == "__main__":
    flt = sys.argv[1] if len(sys.argv) > 1 else None
    bad = run(flt)
    print("\n==== disagreements:", len(bad))
    for name, expect, got, r in bad:
        print("----", name, "expect", expect, "got", got)
        lines = [ln for ln in r.stdout.splitlines() if "Warning" in ln or ln.startswith(" - ") or ln.startswith("   ") or "Info" in ln or "Error" in ln]
        print("\n".join(lines[:8]))
        if r.exc is not None:
            traceback.print_exception(type(r.exc), r.exc, r.exc.__traceback__, limit=-4)

# Observation 4 (unmodified tree): fixup_pool_strides runs before the supported operator check.  A pooling operator whose
# kernel == stride == IFM height/width and that then fails a constraint (here: batch size 2) stays on the CPU, but NOT
# unchanged: its strides are rewritten to 1x1 and its padding to VALID in the output file.  Exit 1 = violation reproduced.
import os
import sys

sys.path.insert(0, os.getcwd())
sys.path.insert(0, os.path.dirname(os.path.abspath(__file__)))
import numpy as np  # noqa: E402,F401
import c16cases as C  # noqa: E402
from c16cases import I8, I16, I32, I64, U8, F32, Op, Padding  # noqa: E402,F401
from c16lib import *  # noqa: E402,F401,F403


def outcome(r):
    if r.exc is not None:
        return f"compiler raised {type(r.exc).__name__}: {r.exc}"
    return f"output operators {r.names()}"


bad = 0
for kind in ("avg", "max"):
    buf = C.pool(kind=kind, ifm_shape=(2, 4, 4, 4), k=(4, 4), stride=(4, 4), padding=Padding.SAME)
    r = compile_tflite(buf)
    before = describe_tflite(buf)[0]["options"]
    after = r.op_by_output("ofm")["options"] if r.op_by_output("ofm") else None
    print(f"{kind} pool, IFM [2,4,4,4], kernel 4x4, stride 4x4, SAME: {outcome(r)}")
    print("   options in the input file :", before)
    print("   options in the output file:", after)
    bad += before != after
print("VIOLATION" if bad else "no violation")
sys.exit(1 if bad else 0)

# third sweep: operand type combinations that no listed constraint excludes
import os, sys, traceback
sys.path.insert(0, os.getcwd()); sys.path.insert(0, os.path.dirname(os.path.abspath(__file__)))
import numpy as np
import c16cases as C
from c16cases import *
from c16lib import *
import sweep
sweep.cases.clear()
case = sweep.case
case("conv int8 -> int16 ofm", "NPU", C.conv, ofm_dtype=I16)
case("conv int8 -> uint8 ofm", "NPU", C.conv, ofm_dtype=U8)
case("conv int16 -> int8 ofm", "NPU", C.conv, dtype=I16, ofm_dtype=I8, bias_dtype=I64)
case("conv int8 -> int32 ofm", "CPU", C.conv, ofm_dtype=I32)
case("conv int8 ifm uint8 weights", "NPU", C.conv, wdtype=U8, w_zero_point=128)
case("conv uint8 ifm int8 weights", "NPU", C.conv, dtype=U8, wdtype=I8)
case("conv int16 ifm uint8 weights", "NPU", C.conv, dtype=I16, wdtype=U8, bias_dtype=I64)
case("conv int8 bias int64", "NPU", C.conv, bias_dtype=I64)
case("conv faf relu int16", "NPU", C.conv, dtype=I16, bias_dtype=I64, faf=Op.Relu)
case("maxpool faf tanh", "NPU", C.pool, faf=Op.Tanh)
case("relu int8 -> uint8", "NPU", C.unary, Op.Relu, ofm_dtype=U8)
case("relu int8 -> int16", "NPU", C.unary, Op.Relu, ofm_dtype=I16)
case("relu6 uint8 -> int8", "NPU", C.unary, Op.Relu6, dtype=U8, ofm_dtype=I8)
case("tanh int8 -> uint8", "NPU", C.unary, Op.Tanh, ofm_dtype=U8)
case("tanh int16 -> int8", "NPU", C.unary, Op.Tanh, dtype=I16, ofm_dtype=I8)
case("logistic int8 -> int16", "NPU", C.unary, Op.Sigmoid, ofm_dtype=I16)
case("tanh int32", "CPU", C.unary, Op.Tanh, dtype=I32)
case("resize bilinear int8 -> int16", "NPU", C.chain, [(Op.ResizeBilinear, None, None, None)])
case("mean int8 -> int16", "NPU", C.chain, [])
def mean_types(dt, odt, **k):
    ifm = act_tensor("ifm", [1, 8, 8, 4], dt, 0.5); ofm = act_tensor("ofm", [1, 1, 1, 4], odt, 0.5)
    ax = const_tensor("axis", [2], I32, np.array([1, 2], np.int32))
    return build_tflite([make_op(Op.Mean, "mean", [ifm, ax], ofm, {"keep_dims": True})], [ifm], [ofm])
sweep.cases = [c for c in sweep.cases if not c[0].startswith(("resize bilinear int8 -> int16", "mean int8 -> int16"))]
case("mean int8 -> int16", "NPU", mean_types, I8, I16)
case("mean int8 -> uint8", "NPU", mean_types, I8, U8)
case("mean int16 -> int8", "NPU", mean_types, I16, I8)
case("mean int8 -> int32", "CPU", mean_types, I8, I32)
def resize_types(dt, odt, kind=Op.ResizeBilinear):
    ifm = act_tensor("ifm", [1, 4, 4, 4], dt, 0.5); ofm = act_tensor("ofm", [1, 8, 8, 4], odt, 0.5)
    size = const_tensor("size", [2], I32, np.array([8, 8], np.int32))
    return build_tflite([make_op(kind, "rs", [ifm, size], ofm, {"align_corners": False, "half_pixel_centers": False})], [ifm], [ofm])
case("bilinear int8 -> int16", "NPU", resize_types, I8, I16)
case("bilinear int8 -> uint8", "NPU", resize_types, I8, U8)
case("nearest int8 -> int16", "NPU", resize_types, I8, I16, Op.ResizeNearestNeighbor)
def reshape_types(dt, odt):
    ifm0 = act_tensor("ifm0", [1, 8, 8, 4], dt, 0.5); ifm = act_tensor("ifm", [1, 8, 8, 4], dt, 0.5)
    ofm = act_tensor("ofm", [1, 16, 4, 4], odt, 0.5)
    shp = const_tensor("shape", [4], I32, np.array([1, 16, 4, 4], np.int32))
    return C.with_tail([make_op(Op.Abs, "head", [ifm0], ifm, {}), make_op(Op.Reshape, "reshape", [ifm, shp], ofm, {"new_shape": [1, 16, 4, 4]})], ifm0, ofm)
case("reshape int8 -> uint8", "NPU", reshape_types, I8, U8)
case("reshape int8 -> int16", "NPU", reshape_types, I8, I16)
def pad_types(dt, odt):
    ifm = act_tensor("ifm", [1, 8, 8, 4], dt, 0.5); ofm = act_tensor("ofm", [1, 10, 10, 4], odt, 0.5)
    p = const_tensor("paddings", [4, 2], I32, np.array([[0,0],[1,1],[1,1],[0,0]], np.int32))
    return build_tflite([make_op(Op.Pad, "pad", [ifm, p], ofm, {})], [ifm], [ofm])
case("pad int8 -> uint8", "NPU", pad_types, I8, U8)
case("pad int8 -> int16", "NPU", pad_types, I8, I16)
def concat_types(d0, d1, od):
    a = act_tensor("a", [1, 8, 8, 4], d0, 0.5); b = act_tensor("b", [1, 8, 8, 4], d1, 0.5)
    ofm = act_tensor("ofm", [1, 8, 8, 8], od, 0.5)
    return build_tflite([make_op(Op.ConcatTFLite, "cc", [a, b], ofm, {"axis": 3, "fused_activation_function": None})], [a, b], [ofm])
case("concat uint8,int8 -> int8", "NPU", concat_types, U8, I8, I8)
case("concat int8,int8 -> int16", "NPU", concat_types, I8, I8, I16)
case("concat float32,int8 -> int8", "NPU", concat_types, F32, I8, I8)
case("concat int8,float32 -> int8", "CPU", concat_types, I8, F32, I8)
def concat_scales(s0, s1, so):
    a = act_tensor("a", [1, 8, 8, 4], I8, s0); b = act_tensor("b", [1, 8, 8, 4], I8, s1)
    ofm = act_tensor("ofm", [1, 8, 8, 8], I8, so)
    return build_tflite([make_op(Op.ConcatTFLite, "cc", [a, b], ofm, {"axis": 3, "fused_activation_function": None})], [a, b], [ofm])
case("concat differing scales", "NPU", concat_scales, 0.5, 0.25, 0.125)
def slice_types(dt, odt):
    ifm = act_tensor("ifm", [1, 8, 8, 4], dt, 0.5); ofm = act_tensor("ofm", [1, 4, 8, 4], odt, 0.5)
    b = const_tensor("begin", [4], I32, np.array([0, 2, 0, 0], np.int32)); s = const_tensor("size", [4], I32, np.array([1, 4, 8, 4], np.int32))
    return C.with_tail([make_op(Op.Slice, "slice", [ifm, b, s], ofm, {})], ifm, ofm)
case("slice int8 -> uint8", "NPU", slice_types, I8, U8)
case("slice int8 -> int16", "NPU", slice_types, I8, I16)
def transpose_types(dt, odt):
    ifm = act_tensor("ifm", [1, 8, 4, 6], dt, 0.5); ofm = act_tensor("ofm", [1, 4, 8, 6], odt, 0.5)
    p = const_tensor("perm", [4], I32, np.array([0, 2, 1, 3], np.int32))
    return build_tflite([make_op(Op.Transpose, "tr", [ifm, p], ofm, {})], [ifm], [ofm])
case("transpose int8 -> int16", "NPU", transpose_types, I8, I16)
case("transpose int8 -> uint8", "NPU", transpose_types, I8, U8)
case("sqdiff int8 -> int16", "NPU", C.binary, Op.SquaredDifference, ofm_dtype=I16)
case("sqdiff int8,uint8", "NPU", C.binary, Op.SquaredDifference, dtype2=U8)
case("sqdiff int32", "CPU", C.binary, Op.SquaredDifference, dtype=I32)
case("fc int8 -> int16", "NPU", C.fully_connected, ofm_shape=None)
case("dw int8 -> int16", "NPU", C.depthwise)
case("argmax int8 scale-less ofm int32", "NPU", C.argmax)
case("prelu alpha uint8 ifm int8", "NPU", C.prelu)
case("hardswish int8 -> uint8", "CPU", C.unary, Op.HardSwish, ofm_dtype=U8)
case("quantize int8 -> int32", "CPU", C.quantize, ofm_dtype=I32)
case("quantize int16 -> uint8", "NPU", C.quantize, dtype=I16, ofm_dtype=U8)
case("add int16 zp != 0", "NPU", C.binary, Op.Add, dtype=I16, zps=(5, 3, 2))
case("mul uint8 zp 128", "NPU", C.binary, Op.Mul, dtype=U8, zps=(128, 128, 128))
case("max int8 + relu? none", "NPU", C.binary, Op.Maximum)
case("add ifm2 scalar activation (dynamic)", "CPU", C.binary, Op.Add, shape2=())
case("add dims 65535", "NPU", C.binary, Op.Add, shape1=(1, 1, 65535, 1), shape2=(1, 1, 65535, 1))
case("add dims 65536", "CPU", C.binary, Op.Add, shape1=(1, 1, 65536, 1), shape2=(1, 1, 65536, 1))
case("abs [65536]", "CPU", C.unary, Op.Abs, shape=(65536,))
case("abs [65535]", "NPU", C.unary, Op.Abs, shape=(65535,))
case("fc 65536 inputs", "CPU", C.fully_connected, ifm_shape=(1, 65536), oc=2)
case("reshape 65536", "CPU", C.reshape, ifm_shape=(1, 256, 256, 1), new_shape=(1, 65536))
if __name__ == "__main__":
    flt = sys.argv[1] if len(sys.argv) > 1 else None
    bad = sweep.run(flt)
    print("\n==== disagreements:", len(bad))
    for name, expect, got, r in bad:
        print("----", name, "expect", expect, "got", got)
        lines = [ln for ln in r.stdout.splitlines() if "Warning" in ln or ln.startswith(" - ") or ln.startswith("   ") or "Info" in ln or "Error" in ln]
        print("\n".join(lines[:5]))
        if r.exc is not None:
            traceback.print_exception(type(r.exc), r.exc, r.exc.__traceback__, limit=-3)

# Observation 1 (unmodified tree): RESIZE_NEAREST_NEIGHBOR with align_corners=True and more than one channel satisfies every
# listed constraint (OFM W-1/H-1 = 2x/4x/8x IFM W-1/H-1) but the compiler aborts with a ValueError in
# convert_resizenn_ac_to_depthwise_conv (weight_values has upscale^2 elements, weight_shape upscale x upscale x C x C).
# Exit 1 = violation reproduced.
import os
import sys

sys.path.insert(0, os.getcwd())
sys.path.insert(0, os.path.dirname(os.path.abspath(__file__)))
import numpy as np  # noqa: E402,F401
import c16cases as C  # noqa: E402
from c16cases import I8, I16, I32, I64, U8, F32, Op, Padding  # noqa: E402,F401
from c16lib import *  # noqa: E402,F401,F403


def outcome(r):
    if r.exc is not None:
        return f"compiler raised {type(r.exc).__name__}: {r.exc}"
    return f"output operators {r.names()}"


bad = 0
for depth in (1, 2, 4):
    for ofm in (7, 13, 25):
        r = compile_tflite(C.resize("nearest", ifm_shape=(1, 4, 4, depth), ofm_hw=(ofm, ofm), align_corners=True))
        print(f"RESIZE_NEAREST_NEIGHBOR align_corners 1x4x4x{depth} -> {ofm}x{ofm}: {outcome(r)}")
        bad += r.exc is not None or r.names() != ["ethos-u"]
# the same shapes with RESIZE_BILINEAR are fine
r = compile_tflite(C.resize("bilinear", ifm_shape=(1, 4, 4, 4), ofm_hw=(7, 7), align_corners=True))
print("RESIZE_BILINEAR align_corners 1x4x4x4 -> 7x7:", outcome(r))
print("VIOLATION" if bad else "no violation")
sys.exit(1 if bad else 0)

# Observation 6 (unmodified tree): operators that violate the TEXT of a listed constraint are accelerated:
#  a) CONV_2D with stride_w=5 and IFM width 10: 'Stride w must be between 1 and 3 ... or stride w must be divisible by 2 or 3
#     and ifm width must be divisible by stride_w/2 or stride_w/3' - 5 is neither; calc_resize_factor accepts every stride
#     that divides the IFM width
#  b) CONV_2D with a 2-D bias [1,8]: 'Optional Bias tensor must be of shape: 1D' - the reader flattens constant biases
#     (clone_and_reshape_tensor(..., None, ...)) before the check, so the constraint can never fail for constant biases
#  c) SOFTMAX with beta = 0: 'Beta value needs to be positive' (the code tests beta >= 0)
# Exit 1 = violation reproduced.
import os
import sys

sys.path.insert(0, os.getcwd())
sys.path.insert(0, os.path.dirname(os.path.abspath(__file__)))
import numpy as np  # noqa: E402,F401
import c16cases as C  # noqa: E402
from c16cases import I8, I16, I32, I64, U8, F32, Op, Padding  # noqa: E402,F401
from c16lib import *  # noqa: E402,F401,F403


def outcome(r):
    if r.exc is not None:
        return f"compiler raised {type(r.exc).__name__}: {r.exc}"
    return f"output operators {r.names()}"


bad = 0
r = compile_tflite(C.conv(ifm_shape=(1, 8, 10, 4), stride=(1, 5), k=(1, 5)))
print("CONV_2D stride_w 5, IFM width 10, OFM [1,8,2,8]:", outcome(r))
bad += r.names() != ["CONV_2D"]
r = compile_tflite(C.conv(ifm_shape=(1, 8, 14, 4), stride=(1, 7), k=(1, 7)))
print("CONV_2D stride_w 7, IFM width 14:", outcome(r))
bad += r.names() != ["CONV_2D"]
r = compile_tflite(C.conv(bias_shape=[1, 8]))
print("CONV_2D bias shape [1,8]:", outcome(r))
bad += r.names() != ["CONV_2D"]
r = compile_tflite(C.softmax(beta=0.0))
print("SOFTMAX beta 0:", outcome(r))
bad += r.names() != ["SOFTMAX"]
print("VIOLATION" if bad else "no violation")
sys.exit(1 if bad else 0)

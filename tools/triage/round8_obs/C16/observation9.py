# Observation 9 (unmodified tree): for CONCATENATION the generic constraints (data type, dimension range, batch size, per-axis
# quantisation, presence of quantisation parameters) look at op.ifm / op.ifm2 / op.ofm, and the operand indices of
# Op.ConcatTFLite are [1, 2]: the FIRST input (and every input after the third) of a CONCATENATION is never checked.
# Example: first input float32 (violates 'Tensors must be of type: int16, int32, int8, uint8') -> the operator is accepted
# and the compiler aborts with KeyError: float32; with the float32 tensor as the second input the operator stays on the CPU.
# Same for a 4-input CONCATENATION whose 4th input has per-axis quantisation.  Exit 1 = violation reproduced.
import os
import sys

sys.path.insert(0, os.getcwd())
sys.path.insert(0, os.path.dirname(os.path.abspath(__file__)))
import numpy as np  # noqa: E402
from c16cases import I8, F32, Op  # noqa: E402
from c16lib import Tensor, act_tensor, build_tflite, compile_tflite, make_op  # noqa: E402


def concat(dtypes, per_axis_idx=None):
    ins = []
    for i, dt in enumerate(dtypes):
        t = act_tensor("in%d" % i, [1, 8, 8, 4], dt, 0.5) if dt != F32 else Tensor([1, 8, 8, 4], F32, "in%d" % i)
        if per_axis_idx == i:
            t.quantization.scale_f32 = np.linspace(0.1, 0.4, 4).astype(np.float32)
            t.quantization.zero_point = np.zeros(4, np.int64)
            t.quantization.quant_dim = 3
        ins.append(t)
    ofm = act_tensor("ofm", [1, 8, 8, 4 * len(dtypes)], I8, 0.5)
    op = make_op(Op.ConcatTFLite, "concat", ins, ofm, {"axis": 3, "fused_activation_function": None})
    return build_tflite([op], ins, [ofm])


bad = 0
for name, buf in (
    ("inputs (float32, int8)", concat([F32, I8])),
    ("inputs (int8, float32)", concat([I8, F32])),
    ("4 inputs, per-axis quantised 2nd input", concat([I8] * 4, per_axis_idx=1)),
    ("4 inputs, per-axis quantised 1st input", concat([I8] * 4, per_axis_idx=0)),
    ("4 inputs, per-axis quantised 4th input", concat([I8] * 4, per_axis_idx=3)),
):
    r = compile_tflite(buf)
    res = f"compiler raised {type(r.exc).__name__}: {r.exc}" if r.exc else f"output operators {r.names()}"
    print(f"CONCATENATION {name}: {res}")
    bad += r.exc is not None or r.names() != ["CONCATENATION"]
print("VIOLATION" if bad else "no violation")
sys.exit(1 if bad else 0)

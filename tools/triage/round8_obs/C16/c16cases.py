# Model builders for the C16 demonstrations / observations (single operator networks unless stated otherwise).
# Every builder returns the bytes of a .tflite file; the operator under test always produces the tensor "ofm".
import os
import sys

import numpy as np

sys.path.insert(0, os.path.dirname(os.path.abspath(__file__)))
from c16lib import *  # noqa: E402,F401,F403
from c16lib import act_tensor, build_tflite, const_tensor, conv_attrs, dw_attrs, make_op, pool_attrs  # noqa: E402
from c16lib import DataType, Op, Padding  # noqa: E402

I8, U8, I16, I32, I64, F32 = (
    DataType.int8,
    DataType.uint8,
    DataType.int16,
    DataType.int32,
    DataType.int64,
    DataType.float32,
)


def out_size(i, k, s, d, padding):
    ek = (k - 1) * d + 1
    if padding == Padding.SAME:
        return (i + s - 1) // s
    return (i - ek) // s + 1


def conv(
    ifm_shape=(1, 16, 16, 4),
    k=(3, 3),
    oc=8,
    stride=(1, 1),
    dilation=(1, 1),
    padding=Padding.VALID,
    dtype=I8,
    wdtype=I8,
    bias_dtype=I32,
    bias_values=None,
    bias_shape=None,
    weight_values=None,
    w_zero_point=0,
    w_scale=0.5,
    faf=None,
    ofm_shape=None,
    ofm_dtype=None,
    with_bias=True,
    dynamic_weights=False,
):
    n, ih, iw, ic = ifm_shape
    ifm = act_tensor("ifm", ifm_shape, dtype, 0.5)
    if ofm_shape is None:
        ofm_shape = [
            n,
            out_size(ih, k[0], stride[0], dilation[0], padding),
            out_size(iw, k[1], stride[1], dilation[1], padding),
            oc,
        ]
    ofm = act_tensor("ofm", ofm_shape, ofm_dtype or dtype, 0.5)
    wshape = [oc, k[0], k[1], ic]
    if weight_values is None:
        weight_values = np.ones(wshape, wdtype.as_numpy_type())
    inputs = [ifm]
    graph_inputs = [ifm]
    if dynamic_weights:
        w = act_tensor("w", wshape, wdtype, 0.5)
        graph_inputs.append(w)
    else:
        w = const_tensor("w", wshape, wdtype, weight_values, scale=w_scale, zero_point=w_zero_point)
    inputs.append(w)
    if with_bias:
        if bias_values is None:
            bias_values = np.zeros([oc], bias_dtype.as_numpy_type())
        b = const_tensor("b", bias_shape or [oc], bias_dtype, bias_values, scale=0.25)
        inputs.append(b)
    op = make_op(Op.Conv2DBias, "conv", inputs, ofm, conv_attrs(stride, dilation, padding, faf))
    return build_tflite([op], graph_inputs, [ofm])


def depthwise(
    ifm_shape=(1, 16, 16, 4),
    k=(3, 3),
    stride=(1, 1),
    dilation=(1, 1),
    padding=Padding.VALID,
    dtype=I8,
    depth_multiplier=1,
    written_depth_multiplier=None,
    ofm_c=None,
):
    n, ih, iw, ic = ifm_shape
    oc = ofm_c if ofm_c is not None else ic * depth_multiplier
    ifm = act_tensor("ifm", ifm_shape, dtype, 0.5)
    ofm = act_tensor(
        "ofm",
        [
            n,
            out_size(ih, k[0], stride[0], dilation[0], padding),
            out_size(iw, k[1], stride[1], dilation[1], padding),
            oc,
        ],
        dtype,
        0.5,
    )
    w = const_tensor("w", [1, k[0], k[1], oc], I8, np.ones([1, k[0], k[1], oc], np.int8), scale=0.5)
    b = const_tensor("b", [oc], I32, np.zeros([oc], np.int32), scale=0.25)
    dm = depth_multiplier if written_depth_multiplier is None else written_depth_multiplier
    op = make_op(Op.DepthwiseConv2DBias, "dw", [ifm, w, b], ofm, dw_attrs(stride, dilation, padding, dm))
    return build_tflite([op], [ifm], [ofm])


def transpose_conv(ifm_shape=(1, 4, 4, 4), k=(3, 3), oc=4, stride=(2, 2), padding=Padding.SAME, ofm_hw=None, dtype=I8):
    n, ih, iw, ic = ifm_shape
    if ofm_hw is None:
        if padding == Padding.SAME:
            ofm_hw = (ih * stride[0], iw * stride[1])
        else:
            ofm_hw = (ih * stride[0] + max(k[0] - stride[0], 0), iw * stride[1] + max(k[1] - stride[1], 0))
    ofm_shape = [n, ofm_hw[0], ofm_hw[1], oc]
    ifm = act_tensor("ifm", ifm_shape, dtype, 0.5)
    ofm = act_tensor("ofm", ofm_shape, dtype, 0.5)
    oshape = const_tensor("oshape", [4], I32, np.array(ofm_shape, np.int32))
    w = const_tensor("w", [oc, k[0], k[1], ic], I8, np.ones([oc, k[0], k[1], ic], np.int8), scale=0.5)
    b = const_tensor("b", [oc], I32, np.zeros([oc], np.int32), scale=0.25)
    attrs = {"padding": padding, "stride_h": stride[0], "stride_w": stride[1]}
    # TFLite order: output_shape, weights, input, bias
    op = make_op(Op.Conv2DBackpropInput, "tconv", [oshape, w, ifm, b], ofm, attrs)
    return build_tflite([op], [ifm], [ofm])


def pool(
    kind="max",
    ifm_shape=(1, 16, 16, 4),
    k=(2, 2),
    stride=(1, 1),
    padding=Padding.VALID,
    dtype=I8,
    faf=None,
    ofm_dtype=None,
):
    n, ih, iw, ic = ifm_shape
    ifm = act_tensor("ifm", ifm_shape, dtype, 0.5)
    ofm = act_tensor(
        "ofm",
        [n, out_size(ih, k[0], stride[0], 1, padding), out_size(iw, k[1], stride[1], 1, padding), ic],
        ofm_dtype or dtype,
        0.5,
    )
    op = make_op(
        Op.MaxPool if kind == "max" else Op.AvgPool, "pool", [ifm], ofm, pool_attrs(k, stride, padding, faf)
    )
    return build_tflite([op], [ifm], [ofm])


def fully_connected(ifm_shape=(1, 16), oc=8, dtype=I8, bias_dtype=I32, wdtype=I8, keep_num_dims=False, ofm_shape=None):
    ic = ifm_shape[-1]
    ifm = act_tensor("ifm", ifm_shape, dtype, 0.5)
    ofm = act_tensor("ofm", ofm_shape or [int(np.prod(ifm_shape[:-1])), oc], dtype, 0.5)
    w = const_tensor("w", [oc, ic], wdtype, np.ones([oc, ic], wdtype.as_numpy_type()), scale=0.5)
    b = const_tensor("b", [oc], bias_dtype, np.zeros([oc], bias_dtype.as_numpy_type()), scale=0.25)
    attrs = {
        "fused_activation_function": None,
        "weights_format": 0,
        "keep_num_dims": keep_num_dims,
        "asymmetric_quantize_inputs": False,
    }
    op = make_op(Op.FullyConnected, "fc", [ifm, w, b], ofm, attrs)
    return build_tflite([op], [ifm], [ofm])


BIN_ATTRS = {
    Op.Add: {"fused_activation_function": None, "pot_scale_int16": False},
    Op.Sub: {"fused_activation_function": None, "pot_scale_int16": False},
    Op.Mul: {"fused_activation_function": None},
    Op.Minimum: {},
    Op.Maximum: {},
    Op.SquaredDifference: {},
}


def binary(
    op_type=Op.Add,
    shape1=(1, 8, 8, 4),
    shape2=(1, 8, 8, 4),
    ofm_shape=None,
    dtype=I8,
    dtype2=None,
    ofm_dtype=None,
    scales=(0.5, 0.5, 0.5),
    zps=(0, 0, 0),
    faf=None,
    const2=False,
):
    if ofm_shape is None:
        r = max(len(shape1), len(shape2))
        s1 = [1] * (r - len(shape1)) + list(shape1)
        s2 = [1] * (r - len(shape2)) + list(shape2)
        ofm_shape = [max(a, b) for a, b in zip(s1, s2)]
    ifm = act_tensor("ifm", shape1, dtype, scales[0], zps[0])
    dt2 = dtype2 or dtype
    if const2:
        ifm2 = const_tensor(
            "ifm2", list(shape2), dt2, np.ones(list(shape2), dt2.as_numpy_type()), scale=scales[1], zero_point=zps[1]
        )
        gin = [ifm]
    else:
        ifm2 = act_tensor("ifm2", shape2, dt2, scales[1], zps[1])
        gin = [ifm, ifm2]
    ofm = act_tensor("ofm", ofm_shape, ofm_dtype or dtype, scales[2], zps[2])
    attrs = dict(BIN_ATTRS[op_type])
    if "fused_activation_function" in attrs:
        attrs["fused_activation_function"] = faf
    op = make_op(op_type, "bin", [ifm, ifm2], ofm, attrs)
    return build_tflite([op], gin, [ofm])


def unary(op_type=Op.Abs, shape=(1, 8, 8, 4), dtype=I8, ofm_dtype=None, attrs=None, scales=(0.5, 0.5)):
    ifm = act_tensor("ifm", shape, dtype, scales[0])
    ofm = act_tensor("ofm", shape, ofm_dtype or dtype, scales[1])
    op = make_op(op_type, "un", [ifm], ofm, attrs or {})
    return build_tflite([op], [ifm], [ofm])


def resize(
    kind="bilinear",
    ifm_shape=(1, 4, 4, 4),
    ofm_hw=(8, 8),
    align_corners=False,
    half_pixel_centers=False,
    dtype=I8,
    size_values=None,
):
    ifm = act_tensor("ifm", ifm_shape, dtype, 0.5)
    ofm = act_tensor("ofm", [ifm_shape[0], ofm_hw[0], ofm_hw[1], ifm_shape[3]], dtype, 0.5)
    size = const_tensor("size", [2], I32, np.array(size_values or ofm_hw, np.int32))
    attrs = {"align_corners": align_corners, "half_pixel_centers": half_pixel_centers}
    op = make_op(Op.ResizeBilinear if kind == "bilinear" else Op.ResizeNearestNeighbor, "rs", [ifm, size], ofm, attrs)
    return build_tflite([op], [ifm], [ofm])


def mean(ifm_shape=(1, 8, 8, 4), axis=(1, 2), keep_dims=True, dtype=I8, scalar_axis=False, scales=(0.5, 0.5)):
    ifm = act_tensor("ifm", ifm_shape, dtype, scales[0])
    r = len(ifm_shape)
    naxis = [a + r if a < 0 else a for a in axis]
    if keep_dims:
        oshape = [1 if i in naxis else d for i, d in enumerate(ifm_shape)]
    else:
        oshape = [d for i, d in enumerate(ifm_shape) if i not in naxis]
    ofm = act_tensor("ofm", oshape, dtype, scales[1])
    if scalar_axis:
        ax = const_tensor("axis", [], I32, np.array(axis[0], np.int32))
    else:
        ax = const_tensor("axis", [len(axis)], I32, np.array(axis, np.int32))
    op = make_op(Op.Mean, "mean", [ifm, ax], ofm, {"keep_dims": keep_dims})
    return build_tflite([op], [ifm], [ofm])


def softmax(shape=(1, 16), dtype=I8, beta=1.0, ofm_dtype=None):
    ifm = act_tensor("ifm", shape, dtype, 0.1)
    odt = ofm_dtype or dtype
    ofm = act_tensor("ofm", shape, odt, 1.0 / 256 if odt != I16 else 1.0 / 32768, -128 if odt == I8 else 0)
    op = make_op(Op.Softmax, "sm", [ifm], ofm, {"beta": beta})
    return build_tflite([op], [ifm], [ofm])


def with_tail(body_ops, ifm, mid, extra_inputs=()):
    """appends a RELU-free elementwise consumer (ABS) so that memory only operators are not the last operator"""
    ofm2 = act_tensor("tail", mid.shape, mid.dtype, 0.5)
    tail = make_op(Op.Abs, "tail", [mid], ofm2, {})
    return build_tflite(list(body_ops) + [tail], [ifm] + list(extra_inputs), [ofm2])


def reshape(ifm_shape=(1, 8, 8, 4), new_shape=(1, 16, 4, 4), dtype=I8, const_shape=True, head=True):
    """ABS -> RESHAPE -> ABS so that the reshape sits between two NPU operators"""
    ifm0 = act_tensor("ifm0", ifm_shape, dtype, 0.5)
    ifm = act_tensor("ifm", ifm_shape, dtype, 0.5)
    head_op = make_op(Op.Abs, "head", [ifm0], ifm, {})
    ofm = act_tensor("ofm", new_shape, dtype, 0.5)
    extra = []
    if const_shape:
        shp = const_tensor("shape", [len(new_shape)], I32, np.array(new_shape, np.int32))
    else:
        shp = Tensor([len(new_shape)], I32, "shape")
        extra.append(shp)
    op = make_op(Op.Reshape, "reshape", [ifm, shp], ofm, {"new_shape": list(new_shape)})
    return with_tail([head_op, op], ifm0, ofm, extra)


def transpose(ifm_shape=(1, 8, 4, 6), perm=(0, 2, 1, 3), dtype=I8):
    ifm = act_tensor("ifm", ifm_shape, dtype, 0.5)
    ofm = act_tensor("ofm", [ifm_shape[p] for p in perm], dtype, 0.5)
    p = const_tensor("perm", [len(perm)], I32, np.array(perm, np.int32))
    op = make_op(Op.Transpose, "tr", [ifm, p], ofm, {})
    return build_tflite([op], [ifm], [ofm])


def pad(ifm_shape=(1, 8, 8, 4), paddings=((0, 0), (1, 1), (1, 1), (0, 0)), dtype=I8, pad_dtype=I32):
    ifm = act_tensor("ifm", ifm_shape, dtype, 0.5)
    oshape = [d + p[0] + p[1] for d, p in zip(ifm_shape, paddings)]
    ofm = act_tensor("ofm", oshape, dtype, 0.5)
    p = const_tensor("paddings", [len(paddings), 2], pad_dtype, np.array(paddings, pad_dtype.as_numpy_type()))
    op = make_op(Op.Pad, "pad", [ifm, p], ofm, {})
    return build_tflite([op], [ifm], [ofm])


def argmax(ifm_shape=(1, 8, 8, 16), axis=3, dtype=I8, out_dtype=I32):
    ifm = act_tensor("ifm", ifm_shape, dtype, 0.5)
    r = len(ifm_shape)
    a = axis + r if axis < 0 else axis
    ofm = Tensor([d for i, d in enumerate(ifm_shape) if i != a], out_dtype, "ofm")
    ax = const_tensor("axis", [], I32, np.array(axis, np.int32))
    op = make_op(Op.ArgMax, "argmax", [ifm, ax], ofm, {"output_type": out_dtype})
    return build_tflite([op], [ifm], [ofm])


def strided_slice(
    ifm_shape=(1, 8, 8, 4), begin=(0, 2, 0, 0), end=(1, 6, 8, 4), strides=(1, 1, 1, 1), dtype=I8, masks=None, ofm_shape=None
):
    ifm = act_tensor("ifm", ifm_shape, dtype, 0.5)
    if ofm_shape is None:
        ofm_shape = [(e - b + s - 1) // s for b, e, s in zip(begin, end, strides)]
    ofm = act_tensor("ofm", ofm_shape, dtype, 0.5)
    n = len(begin)
    b = const_tensor("begin", [n], I32, np.array(begin, np.int32))
    e = const_tensor("end", [n], I32, np.array(end, np.int32))
    s = const_tensor("strides", [n], I32, np.array(strides, np.int32))
    attrs = {
        "begin_mask": 0,
        "end_mask": 0,
        "ellipsis_mask": 0,
        "new_axis_mask": 0,
        "shrink_axis_mask": 0,
        "offset": False,
    }
    attrs.update(masks or {})
    op = make_op(Op.StridedSlice, "ss", [ifm, b, e, s], ofm, attrs)
    return with_tail([op], ifm, ofm)


def slice_op(ifm_shape=(1, 8, 8, 4), begin=(0, 2, 0, 0), size=(1, 4, 8, 4), dtype=I8):
    ifm = act_tensor("ifm", ifm_shape, dtype, 0.5)
    oshape = [ifm_shape[i] - begin[i] if s == -1 else s for i, s in enumerate(size)]
    ofm = act_tensor("ofm", oshape, dtype, 0.5)
    b = const_tensor("begin", [len(begin)], I32, np.array(begin, np.int32))
    s = const_tensor("size", [len(size)], I32, np.array(size, np.int32))
    op = make_op(Op.Slice, "slice", [ifm, b, s], ofm, {})
    return with_tail([op], ifm, ofm)


def concat(shapes=((1, 8, 8, 4), (1, 8, 8, 4)), axis=3, dtype=I8, ofm_shape=None, faf=None):
    ins = [act_tensor("ifm%d" % i, s, dtype, 0.5) for i, s in enumerate(shapes)]
    if ofm_shape is None:
        r = len(shapes[0])
        a = axis + r if axis < 0 else axis
        ofm_shape = list(shapes[0])
        ofm_shape[a] = sum(s[a] for s in shapes)
    ofm = act_tensor("ofm", ofm_shape, dtype, 0.5)
    op = make_op(Op.ConcatTFLite, "concat", ins, ofm, {"axis": axis, "fused_activation_function": faf})
    return build_tflite([op], ins, [ofm])


def quantize(shape=(1, 8, 8, 4), dtype=I8, ofm_dtype=I8, scales=(0.5, 0.25)):
    ifm = act_tensor("ifm", shape, dtype, scales[0]) if dtype != F32 else Tensor(list(shape), F32, "ifm")
    ofm = act_tensor("ofm", shape, ofm_dtype, scales[1])
    op = make_op(Op.Quantize, "q", [ifm], ofm, {})
    return build_tflite([op], [ifm], [ofm])


def _per_axis(tens, n, base_scale, quant_dim):
    tens.quantization.scale_f32 = (np.linspace(1.0, 2.0, n) * base_scale).astype(np.float32)
    tens.quantization.zero_point = np.zeros(n, np.int64)
    tens.quantization.quant_dim = quant_dim
    return tens


def fully_connected_per_axis(ifm_shape=(1, 16), oc=8, dtype=I8):
    """FULLY_CONNECTED with per-channel quantised weights (one scale per output channel), as newer converters emit"""
    ic = ifm_shape[-1]
    ifm = act_tensor("ifm", ifm_shape, dtype, 0.5)
    ofm = act_tensor("ofm", [int(np.prod(ifm_shape[:-1])), oc], dtype, 0.5)
    w = _per_axis(const_tensor("w", [oc, ic], I8, np.ones([oc, ic], np.int8), scale=0.5), oc, 0.25, 0)
    b = _per_axis(const_tensor("b", [oc], I32, np.zeros([oc], np.int32), scale=0.25), oc, 0.125, 0)
    attrs = {
        "fused_activation_function": None,
        "weights_format": 0,
        "keep_num_dims": False,
        "asymmetric_quantize_inputs": False,
    }
    op = make_op(Op.FullyConnected, "fc", [ifm, w, b], ofm, attrs)
    return build_tflite([op], [ifm], [ofm])


def conv_per_axis(ifm_shape=(1, 8, 8, 4), oc=8, dtype=I8, depthwise=False):
    """CONV_2D / DEPTHWISE_CONV_2D with per-channel quantised weights (allowed by the report)"""
    n, ih, iw, ic = ifm_shape
    if depthwise:
        oc = ic
    ifm = act_tensor("ifm", ifm_shape, dtype, 0.5)
    ofm = act_tensor("ofm", [n, ih - 2, iw - 2, oc], dtype, 0.5)
    wshape = [1, 3, 3, oc] if depthwise else [oc, 3, 3, ic]
    w = _per_axis(const_tensor("w", wshape, I8, np.ones(wshape, np.int8), scale=0.5), oc, 0.25, 3 if depthwise else 0)
    b = _per_axis(const_tensor("b", [oc], I32, np.zeros([oc], np.int32), scale=0.25), oc, 0.125, 0)
    if depthwise:
        op = make_op(Op.DepthwiseConv2DBias, "dw", [ifm, w, b], ofm, dw_attrs())
    else:
        op = make_op(Op.Conv2DBias, "conv", [ifm, w, b], ofm, conv_attrs())
    return build_tflite([op], [ifm], [ofm])


def binary_per_axis(op_type=Op.Mul, shape=(1, 8, 8, 4), dtype=I8, which="ifm2"):
    """elementwise operator, one operand is a constant / activation with per-axis (per-channel) quantisation"""
    c = shape[-1]
    ifm = act_tensor("ifm", shape, dtype, 0.5)
    ofm = act_tensor("ofm", shape, dtype, 0.5)
    gin = [ifm]
    if which == "ifm2":
        ifm2 = _per_axis(
            const_tensor("ifm2", [1, 1, 1, c], dtype, np.ones([1, 1, 1, c], dtype.as_numpy_type()), scale=0.5), c, 0.25, 3
        )
    else:
        ifm2 = act_tensor("ifm2", shape, dtype, 0.5)
        gin.append(ifm2)
        _per_axis(ifm if which == "ifm" else ofm, c, 0.25, 3)
    attrs = dict(BIN_ATTRS[op_type])
    op = make_op(op_type, "bin", [ifm, ifm2], ofm, attrs)
    return build_tflite([op], gin, [ofm])


def pool_per_axis(kind="max", shape=(1, 8, 8, 4), dtype=I8):
    ifm = _per_axis(act_tensor("ifm", shape, dtype, 0.5), shape[-1], 0.25, 3)
    ofm = _per_axis(act_tensor("ofm", [shape[0], shape[1] - 1, shape[2] - 1, shape[3]], dtype, 0.5), shape[-1], 0.25, 3)
    op = make_op(Op.MaxPool if kind == "max" else Op.AvgPool, "pool", [ifm], ofm, pool_attrs())
    return build_tflite([op], [ifm], [ofm])


def split(ifm_shape=(1, 8, 8, 4), axis=3, num=2, dtype=I8, axis_shape=()):
    ifm = act_tensor("ifm", ifm_shape, dtype, 0.5)
    r = len(ifm_shape)
    a = axis + r if axis < 0 else axis
    oshape = list(ifm_shape)
    oshape[a] //= num
    outs = [act_tensor("ofm" if i == 0 else "ofm%d" % i, oshape, dtype, 0.5) for i in range(num)]
    ax = const_tensor("axis", list(axis_shape), I32, np.array(axis, np.int32).reshape(axis_shape))
    op = make_op(Op.Split, "split", [ax, ifm], outs, {"num_splits": num})
    tails = []
    gouts = []
    for i, o in enumerate(outs):
        t = act_tensor("tail%d" % i, o.shape, dtype, 0.5)
        tails.append(make_op(Op.Abs, "tail%d" % i, [o], t, {}))
        gouts.append(t)
    return build_tflite([op] + tails, [ifm], gouts)


def split_v(ifm_shape=(1, 8, 8, 6), axis=3, sizes=(2, 4), dtype=I8):
    ifm = act_tensor("ifm", ifm_shape, dtype, 0.5)
    r = len(ifm_shape)
    a = axis + r if axis < 0 else axis
    outs = []
    real = list(sizes)
    if -1 in real:
        real[real.index(-1)] = ifm_shape[a] - (sum(real) + 1)
    for i, s in enumerate(real):
        sh = list(ifm_shape)
        sh[a] = s
        outs.append(act_tensor("ofm" if i == 0 else "ofm%d" % i, sh, dtype, 0.5))
    sz = const_tensor("sizes", [len(sizes)], I32, np.array(sizes, np.int32))
    ax = const_tensor("axis", [], I32, np.array(axis, np.int32))
    op = make_op(Op.SplitV, "splitv", [ifm, sz, ax], outs, {"num_splits": len(sizes)})
    tails = []
    gouts = []
    for i, o in enumerate(outs):
        t = act_tensor("tail%d" % i, o.shape, dtype, 0.5)
        tails.append(make_op(Op.Abs, "tail%d" % i, [o], t, {}))
        gouts.append(t)
    return build_tflite([op] + tails, [ifm], gouts)


def pack(shape=(8, 8, 4), n=2, axis=0, dtype=I8):
    ins = [act_tensor("ifm%d" % i, shape, dtype, 0.5) for i in range(n)]
    r = len(shape) + 1
    a = axis + r if axis < 0 else axis
    oshape = list(shape[:a]) + [n] + list(shape[a:])
    ofm = act_tensor("ofm", oshape, dtype, 0.5)
    op = make_op(Op.Pack, "pack", ins, ofm, {"axis": axis, "values_count": n})
    return with_tail([op], ins[0], ofm, ins[1:])


def unpack(shape=(2, 8, 8, 4), axis=0, dtype=I8):
    ifm = act_tensor("ifm", shape, dtype, 0.5)
    r = len(shape)
    a = axis + r if axis < 0 else axis
    n = shape[a]
    oshape = [d for i, d in enumerate(shape) if i != a]
    outs = [act_tensor("ofm" if i == 0 else "ofm%d" % i, oshape, dtype, 0.5) for i in range(n)]
    op = make_op(Op.Unpack, "unpack", [ifm], outs, {"axis": axis, "num": n})
    tails = []
    gouts = []
    for i, o in enumerate(outs):
        t = act_tensor("tail%d" % i, o.shape, dtype, 0.5)
        tails.append(make_op(Op.Abs, "tail%d" % i, [o], t, {}))
        gouts.append(t)
    return build_tflite([op] + tails, [ifm], gouts)


def squeeze(ifm_shape=(1, 8, 1, 4), dims=(2,), dtype=I8, with_dims=True):
    ifm0 = act_tensor("ifm0", ifm_shape, dtype, 0.5)
    ifm = act_tensor("ifm", ifm_shape, dtype, 0.5)
    head = make_op(Op.Abs, "head", [ifm0], ifm, {})
    oshape = [d for i, d in enumerate(ifm_shape) if i not in dims]
    ofm = act_tensor("ofm", oshape, dtype, 0.5)
    op = make_op(Op.Squeeze, "squeeze", [ifm], ofm, {"squeeze_dims": list(dims)} if with_dims else {})
    return with_tail([head, op], ifm0, ofm)


def expand_dims(ifm_shape=(8, 8, 4), axis=0, dtype=I8, const_axis=True):
    ifm0 = act_tensor("ifm0", ifm_shape, dtype, 0.5)
    ifm = act_tensor("ifm", ifm_shape, dtype, 0.5)
    head = make_op(Op.Abs, "head", [ifm0], ifm, {})
    r = len(ifm_shape) + 1
    a = axis + r if axis < 0 else axis
    oshape = list(ifm_shape[:a]) + [1] + list(ifm_shape[a:])
    ofm = act_tensor("ofm", oshape, dtype, 0.5)
    extra = []
    if const_axis:
        ax = const_tensor("axis", [], I32, np.array(axis, np.int32))
    else:
        ax = Tensor([], I32, "axis")
        extra.append(ax)
    op = make_op(Op.ExpandDims, "expand", [ifm, ax], ofm, {})
    return with_tail([head, op], ifm0, ofm, extra)


def shape_op(ifm_shape=(1, 8, 8, 4), dtype=I8, out_dtype=I32):
    ifm = act_tensor("ifm", ifm_shape, dtype, 0.5) if dtype != F32 else Tensor(list(ifm_shape), F32, "ifm")
    ofm = Tensor([len(ifm_shape)], out_dtype, "ofm")
    op = make_op(Op.Shape, "shape", [ifm], ofm, {"out_type": out_dtype})
    return build_tflite([op], [ifm], [ofm])


def prelu(shape=(1, 8, 8, 4), alpha_shape=(1, 1, 4), dtype=I8, alpha_values=None, const_alpha=True):
    ifm = act_tensor("ifm", shape, dtype, 0.5)
    ofm = act_tensor("ofm", shape, dtype, 0.5)
    gin = [ifm]
    if const_alpha:
        if alpha_values is None:
            alpha_values = np.arange(1, int(np.prod(alpha_shape)) + 1)
        alpha = const_tensor(
            "alpha", list(alpha_shape), dtype, np.array(alpha_values, dtype.as_numpy_type()), scale=0.01, zero_point=0
        )
    else:
        alpha = act_tensor("alpha", alpha_shape, dtype, 0.01)
        gin.append(alpha)
    op = make_op(Op.Prelu, "prelu", [ifm, alpha], ofm, {})
    return build_tflite([op], gin, [ofm])


def chain(specs, ifm_shape=(1, 8, 8, 4), dtype=I8):
    """chain of unary operators: specs = list of (Op, attrs, out_dtype or None, out_shape or None)"""
    ifm = act_tensor("ifm", ifm_shape, dtype, 0.5)
    cur = ifm
    ops = []
    for i, (ot, attrs, odt, oshape) in enumerate(specs):
        name = "ofm" if i == len(specs) - 1 else "t%d" % i
        out = act_tensor(name, oshape or cur.shape, odt or cur.dtype, 0.5)
        ops.append(make_op(ot, "op%d" % i, [cur], out, attrs or {}))
        cur = out
    return build_tflite(ops, [ifm], [cur])


def lstm(batches=1, times=4, features=8, outputs=8, dtype=I8, peephole=None, projection=False, norm=False, cifg=False, time_major=False):
    ifm = act_tensor("ifm", [batches, times, features], dtype, 1/128)
    ofm = act_tensor("ofm", [batches, times, outputs], dtype, 1/128)
    bias_dtype = I64 if dtype == I16 else I32
    def W(name, shape):
        return const_tensor(name, shape, I8, np.ones(shape, np.int8), scale=1/128)
    def B(name):
        return const_tensor(name, [outputs], bias_dtype, np.zeros([outputs], bias_dtype.as_numpy_type()), scale=1/(128*128))
    iw = [W("iw%d" % i, [outputs, features]) for i in range(4)]
    rw = [W("rw%d" % i, [outputs, outputs]) for i in range(4)]
    if cifg:
        iw[0] = None; rw[0] = None
    peep = [None, None, None]
    if peephole is not None:
        peep[peephole] = const_tensor("peep", [outputs], I16, np.ones([outputs], np.int16), scale=1/32768)
    biases = [B("b%d" % i) for i in range(4)]
    proj = [None, None]
    if projection:
        proj[0] = W("projw", [outputs, outputs])
    output_state = act_tensor("output_state", [batches, outputs], dtype, 1/128); output_state.is_variable = True
    cell_state = act_tensor("cell_state", [batches, outputs], I16, 1/2048); cell_state.is_variable = True
    norms = [None] * 4
    if norm:
        norms[0] = const_tensor("norm", [outputs], I16, np.ones([outputs], np.int16), scale=1/32768)
    inputs = [ifm] + iw + rw + peep + biases + proj + [output_state, cell_state] + norms
    inter = [act_tensor("inter%d" % i, [], I16, 1/4096) for i in range(4)] + [act_tensor("hidden", [], dtype, 1/128)]
    for t in inter[:4]:
        t.shape = [1]
    inter[4].shape = [1]
    op = make_op(Op.UnidirectionalSequenceLstm, "lstm", inputs, ofm, {"fused_activation_function": Op.Tanh, "cell_clip": 0.0, "proj_clip": 0.0, "time_major": time_major, "asymmetric_quantize_inputs": False, "diagonal_recurrent_tensors": False})
    op.intermediates = inter
    return build_tflite([op], [ifm], [ofm])

# Observation 5 (unmodified tree): constraints that are enforced but NOT listed in the generated report:
#  a) CONV_2D / DEPTHWISE_CONV_2D with int8 (or int16) IFM and a non-zero weight zero point is put on the CPU by
#     check_asymmetric_weights unless --force-symmetric-int-weights is given; no constraint of the report says so
#  b) MEAN with negative axis values (valid TFLite, e.g. axis=[-3,-2]) is rejected by constraint_mean_axis as 'out of bounds';
#     the 'Requirements for axis parameter' text of the report does not mention it
# Both operators satisfy every constraint listed for them.  Exit 1 = violation reproduced.
import os
import sys

sys.path.insert(0, os.getcwd())
sys.path.insert(0, os.path.dirname(os.path.abspath(__file__)))
import numpy as np  # noqa: E402,F401
import c16cases as C  # noqa: E402
from c16cases import I8, I16, I32, I64, U8, F32, Op, Padding  # noqa: E402,F401
from c16lib import *  # noqa: E402,F401,F403


def outcome(r):
    if r.exc is not None:
        return f"compiler raised {type(r.exc).__name__}: {r.exc}"
    return f"output operators {r.names()}"


bad = 0
report = generate_report()
print("report mentions asymmetric / zero point:", "symmetric" in report.lower() or "zero point" in report.lower())
r = compile_tflite(C.conv(w_zero_point=3))
print("CONV_2D int8, weight zero point 3:", outcome(r))
bad += r.names() != ["ethos-u"]
r = compile_tflite(C.conv(w_zero_point=3), ("--force-symmetric-int-weights",))
print("CONV_2D int8, weight zero point 3, --force-symmetric-int-weights:", outcome(r))
r = compile_tflite(C.conv(dtype=U8, wdtype=U8, w_zero_point=128))
print("CONV_2D uint8, weight zero point 128:", outcome(r))
r = compile_tflite(C.mean(axis=(-3, -2)))
print("MEAN [1,8,8,4] axis [-3,-2]:", outcome(r))
bad += r.names() != ["ethos-u"]
r = compile_tflite(C.mean(axis=(1, 2)))
print("MEAN [1,8,8,4] axis [1,2]:", outcome(r))
print("VIOLATION" if bad else "no violation")
sys.exit(1 if bad else 0)

# Helper library for the C16 demonstrations / observations.
# Builds small TFLite models in memory with Vela's own classes, compiles them with the real command line driver
# (ethosu.vela.vela.main) and reads the operator list of the produced *_vela.tflite with the generated flatbuffer
# accessors (ethosu.vela.tflite.*), i.e. independent of Vela's own reader.
import contextlib
import io
import os
import sys
import tempfile

import numpy as np

sys.path.insert(0, os.getcwd())

from ethosu.vela import architecture_features  # noqa: E402
from ethosu.vela import pass_packing  # noqa: E402
from ethosu.vela import tflite_writer  # noqa: E402
from ethosu.vela.data_type import DataType  # noqa: E402
from ethosu.vela.nn_graph import Graph  # noqa: E402
from ethosu.vela.nn_graph import PassPlacement  # noqa: E402
from ethosu.vela.nn_graph import Subgraph  # noqa: E402
from ethosu.vela.operation import Op  # noqa: E402
from ethosu.vela.operation import Operation  # noqa: E402
from ethosu.vela.operation import Padding  # noqa: E402
from ethosu.vela.tensor import create_const_tensor  # noqa: E402
from ethosu.vela.tensor import QuantizationParameters  # noqa: E402
from ethosu.vela.tensor import Tensor  # noqa: E402
from ethosu.vela.tflite import Model  # noqa: E402
from ethosu.vela.tflite.BuiltinOperator import BuiltinOperator  # noqa: E402

BUILTIN_NAMES = {v: k for k, v in vars(BuiltinOperator).items() if not k.startswith("_")}


def quant(scale=1.0, zero_point=0):
    qp = QuantizationParameters()
    qp.scale_f32 = np.float32(scale)
    qp.zero_point = zero_point
    return qp


def act_tensor(name, shape, dtype=DataType.int8, scale=1.0, zero_point=0):
    t = Tensor(list(shape), dtype, name)
    t.quantization = quant(scale, zero_point)
    return t


def const_tensor(name, shape, dtype, values, scale=None, zero_point=0):
    q = quant(scale, zero_point) if scale is not None else None
    values = np.array(values).reshape(shape) if shape != [] else np.array(values)
    return create_const_tensor(name, list(shape), dtype, values, quantization=q)


def make_op(op_type, name, inputs, output, attrs=None):
    op = Operation(op_type, name)
    for inp in inputs:
        if inp is None:
            op.inputs.append(None)
        else:
            op.add_input_tensor(inp)
    outputs = output if isinstance(output, (list, tuple)) else [output]
    op.outputs = []
    for o in outputs:
        op.outputs.append(o)
        o.ops = [op]
    op.attrs = dict(attrs or {})
    op.run_on_npu = False
    return op


def conv_attrs(stride=(1, 1), dilation=(1, 1), padding=Padding.VALID, faf=None):
    return {
        "padding": padding,
        "stride_h": stride[0],
        "stride_w": stride[1],
        "dilation_h_factor": dilation[0],
        "dilation_w_factor": dilation[1],
        "fused_activation_function": faf,
    }


def dw_attrs(stride=(1, 1), dilation=(1, 1), padding=Padding.VALID, depth_multiplier=1, faf=None):
    a = conv_attrs(stride, dilation, padding, faf)
    a["depth_multiplier"] = depth_multiplier
    return a


def pool_attrs(ksize=(2, 2), stride=(1, 1), padding=Padding.VALID, faf=None):
    return {
        "padding": padding,
        "stride_h": stride[0],
        "stride_w": stride[1],
        "filter_height": ksize[0],
        "filter_width": ksize[1],
        "fused_activation_function": faf,
    }


def build_tflite(ops, inputs, outputs):
    """ops: list of Operation in execution order, inputs / outputs: lists of graph input / output tensors.
    Returns the bytes of a .tflite flatbuffer"""
    nng = Graph("m", 1)
    sg = Subgraph("main", PassPlacement.Cpu)
    for t in inputs:
        ph = Operation(Op.Placeholder, t.name + "_ph")
        ph.outputs = [t]
        t.ops = [ph]
        ph.run_on_npu = False
    sg.input_tensors = list(inputs)
    sg.original_inputs = list(inputs)
    sg.output_tensors = list(outputs)
    nng.subgraphs.append(sg)
    arch = architecture_features.create_default_arch(architecture_features.Accelerator.Ethos_U55_128)
    sg.refresh_after_modification()
    with contextlib.redirect_stdout(io.StringIO()):
        pass_packing.pack_into_passes(nng, arch)
        buf = tflite_writer.write_tflite_buffer(nng)
    return bytes(buf)


class Result:
    def __init__(self):
        self.ops = []  # list of dicts describing the operators of the output file
        self.stdout = ""
        self.exit = 0
        self.exc = None

    def names(self):
        return [o["code"] for o in self.ops]

    def cpu_ops(self):
        return [o for o in self.ops if o["code"] != "ethos-u"]

    def on_cpu(self, out_tensor_name):
        return any(out_tensor_name in o["outputs"] for o in self.cpu_ops())

    def has_npu(self):
        return any(o["code"] == "ethos-u" for o in self.ops)

    def op_by_output(self, out_tensor_name):
        for o in self.ops:
            if out_tensor_name in o["outputs"]:
                return o
        return None


def decode_options(o):
    """Decodes the builtin options table of an operator into {field: value} with the generated flatbuffer classes"""
    import importlib
    import inspect

    from ethosu.vela.tflite.BuiltinOptions import BuiltinOptions

    tab = o.BuiltinOptions()
    if tab is None:
        return None
    names = {v: k for k, v in vars(BuiltinOptions).items() if not k.startswith("_")}
    cls_name = names[int(o.BuiltinOptionsType())]
    mod = importlib.import_module("ethosu.vela.tflite." + cls_name)
    obj = getattr(mod, cls_name)()
    obj.Init(tab.Bytes, tab.Pos)
    res = {"__type__": cls_name}
    for name, fn in inspect.getmembers(obj, predicate=inspect.ismethod):
        if name.startswith(("Init", "GetRootAs", "_")) or name.endswith(("Length", "IsNone")) or "BufferHasIdentifier" in name:
            continue
        try:
            nargs = len(inspect.signature(fn).parameters)
        except (TypeError, ValueError):
            continue
        if nargs != 0:
            continue
        val = fn()
        if hasattr(val, "tolist"):
            val = val.tolist()
        if isinstance(val, (int, float, bool, list, bytes, str)) or val is None:
            res[name] = val
    return res


def describe_tflite(buf):
    """Describe the operators of the first subgraph: builtin code name, builtin options bytes, tensors (name, shape, type,
    constant data)"""
    model = Model.Model.GetRootAsModel(bytearray(buf), 0)
    sg = model.Subgraphs(0)

    def tens(idx):
        if idx < 0:
            return None
        t = sg.Tensors(idx)
        b = model.Buffers(t.Buffer())
        data = None if b.DataIsNone() or b.DataLength() == 0 else bytes(b.DataAsNumpy().tobytes())
        return {
            "name": t.Name().decode(),
            "shape": [int(x) for x in t.ShapeAsNumpy()] if t.ShapeLength() else [],
            "type": int(t.Type()),
            "data": data,
        }

    res = []
    for i in range(sg.OperatorsLength()):
        o = sg.Operators(i)
        oc = model.OperatorCodes(o.OpcodeIndex())
        code = max(oc.BuiltinCode(), oc.DeprecatedBuiltinCode())
        name = BUILTIN_NAMES.get(code, str(code))
        if oc.CustomCode() is not None:
            name = oc.CustomCode().decode()
        ins = [tens(int(x)) for x in o.InputsAsNumpy()] if o.InputsLength() else []
        outs = [tens(int(x)) for x in o.OutputsAsNumpy()] if o.OutputsLength() else []
        opts = decode_options(o)
        res.append(
            {
                "code": name,
                "inputs_full": ins,
                "outputs_full": outs,
                "inputs": [t["name"] if t else None for t in ins],
                "outputs": [t["name"] if t else None for t in outs],
                "options": opts,
            }
        )
    return res


def compile_tflite(buf, extra_args=(), accel="ethos-u55-128", keep_dir=None):
    """Run the real command line driver on the model and return a Result"""
    from ethosu.vela import vela

    res = Result()
    tmp = keep_dir or tempfile.mkdtemp(prefix="c16_")
    path = os.path.join(tmp, "m.tflite")
    with open(path, "wb") as f:
        f.write(buf)
    out = io.StringIO()
    # the performance report is printed to the sys.stdout object that was current when stats_writer was imported: redirect
    # the file descriptor as well
    sys.stdout.flush()
    log_path = os.path.join(tmp, "stdout.txt")
    saved_fd = os.dup(1)
    log_fd = os.open(log_path, os.O_WRONLY | os.O_CREAT | os.O_TRUNC)
    os.dup2(log_fd, 1)
    try:
        with contextlib.redirect_stdout(out), contextlib.redirect_stderr(out):
            res.exit = vela.main(
                [path, "--output-dir", tmp, "--accelerator-config", accel, "--show-cpu-operations"] + list(extra_args)
            )
    except SystemExit as e:
        res.exit = e.code
    except Exception as e:  # noqa: B902
        res.exc = e
        res.exit = -1
    finally:
        sys.__stdout__.flush()
        os.dup2(saved_fd, 1)
        os.close(saved_fd)
        os.close(log_fd)
    with open(log_path) as f:
        res.stdout = out.getvalue() + f.read()
    outp = os.path.join(tmp, "m_vela.tflite")
    if res.exc is None and os.path.exists(outp):
        with open(outp, "rb") as f:
            res.ops = describe_tflite(f.read())
    return res


def generate_report():
    """Runs `vela --supported-ops-report` in a scratch directory and returns the text of the generated SUPPORTED_OPS.md"""
    from ethosu.vela import vela

    tmp = tempfile.mkdtemp(prefix="c16_rep_")
    cwd = os.getcwd()
    out = io.StringIO()
    try:
        os.chdir(tmp)
        with contextlib.redirect_stdout(out):
            vela.main(["--supported-ops-report"])
        with open(os.path.join(tmp, "SUPPORTED_OPS.md")) as f:
            return f.read()
    finally:
        os.chdir(cwd)


def report_section(report, title):
    """Returns the bullet lines ("- ...", continuation lines joined) of the section '### TFLite <title> Constraints'"""
    lines = report.splitlines()
    head = f"### TFLite {title} Constraints"
    if head not in lines:
        return None
    idx = lines.index(head) + 1
    bullets = []
    while idx < len(lines) and not lines[idx].startswith("### ") and not lines[idx].startswith("## "):
        ln = lines[idx]
        if ln.startswith("- "):
            bullets.append(ln[2:].rstrip())
        elif ln.strip() and bullets and not ln.startswith("This is a list") and not ln.startswith("(Operators"):
            bullets[-1] += "\n" + ln.rstrip()
        idx += 1
    return bullets


def convert_bytes(buf):
    """The in-memory entry point (vela.convert_bytes, used by the delegate); returns the operators of the result"""
    from ethosu.vela import vela

    out = io.StringIO()
    sys.stdout.flush()
    saved_fd = os.dup(1)
    devnull = os.open(os.devnull, os.O_WRONLY)
    os.dup2(devnull, 1)
    try:
        with contextlib.redirect_stdout(out), contextlib.redirect_stderr(out):
            res = vela.convert_bytes(bytearray(buf))
    finally:
        sys.__stdout__.flush()
        os.dup2(saved_fd, 1)
        os.close(saved_fd)
        os.close(devnull)
    r = Result()
    r.stdout = out.getvalue()
    r.ops = describe_tflite(bytes(res))
    return r


ACCELERATORS = ["ethos-u55-32", "ethos-u55-64", "ethos-u55-128", "ethos-u55-256", "ethos-u65-256", "ethos-u65-512"]


def _tens_key(t):
    return None if t is None else (t["name"], tuple(t["shape"]), t["type"], t["data"])


def op_unchanged(buf_in, result, out_tensor_name):
    """True if the operator producing out_tensor_name is in the output file with the same builtin code, the same operand
    tensors (name, shape, type, constant data) and the same result tensors as in the input file"""
    o_in = [o for o in describe_tflite(buf_in) if out_tensor_name in o["outputs"]]
    o_out = [o for o in result.ops if out_tensor_name in o["outputs"]]
    if len(o_in) != 1 or len(o_out) != 1:
        return False
    a, b = o_in[0], o_out[0]
    return (
        a["code"] == b["code"]
        and a["options"] == b["options"]
        and [_tens_key(t) for t in a["inputs_full"]] == [_tens_key(t) for t in b["inputs_full"]]
        and [_tens_key(t) for t in a["outputs_full"]] == [_tens_key(t) for t in b["outputs_full"]]
    )

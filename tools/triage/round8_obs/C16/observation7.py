# Observation 7 (unmodified tree): operators that are NOT in the operator table of the report ('For any other TFLite operator
# not listed, will be left untouched and scheduled on the CPU') are accelerated: DEQUANTIZE -> EXP|LOG -> QUANTIZE is merged
# into one NPU table operator (merge_dequant_lut_quant); the float EXP also violates 'IFM must be int8 or int16'.
# (replace_dilated_convolution does the same for SPACE_TO_BATCH_ND -> CONV_2D -> BATCH_TO_SPACE_ND; not exercised here.)
# Also: the SUPPORTED_OPS.md checked into the tree differs from the report the tree generates.
# Exit 1 = violation reproduced.
import os
import sys

sys.path.insert(0, os.getcwd())
sys.path.insert(0, os.path.dirname(os.path.abspath(__file__)))
import numpy as np  # noqa: E402,F401
import c16cases as C  # noqa: E402
from c16cases import I8, I16, I32, I64, U8, F32, Op, Padding  # noqa: E402,F401
from c16lib import *  # noqa: E402,F401,F403


def outcome(r):
    if r.exc is not None:
        return f"compiler raised {type(r.exc).__name__}: {r.exc}"
    return f"output operators {r.names()}"




def dq_lut_q(mid):
    ifm = act_tensor("ifm", [1, 8, 8, 4], I8, 0.05)
    f0 = Tensor([1, 8, 8, 4], F32, "f0")
    f1 = Tensor([1, 8, 8, 4], F32, "f1")
    ofm = act_tensor("ofm", [1, 8, 8, 4], I8, 0.05)
    ops = [make_op(Op.Dequantize, "dq", [ifm], f0, {}), make_op(mid, "mid", [f0], f1, {}), make_op(Op.Quantize, "q", [f1], ofm, {})]
    return build_tflite(ops, [ifm], [ofm])


bad = 0
report = generate_report()
print("DEQUANTIZE in the operator table of the report:", "| DEQUANTIZE |" in report)
for mid in (Op.Exp, Op.Log):
    r = compile_tflite(dq_lut_q(mid))
    print(f"DEQUANTIZE -> {mid} (float32) -> QUANTIZE:", outcome(r))
    bad += "DEQUANTIZE" not in r.names()
with open(os.path.join(os.getcwd(), "SUPPORTED_OPS.md")) as f:
    tree_md = f.read()
gen = [ln for ln in report.splitlines() if ln.startswith(("| ", "- ", "### "))]
old = [ln for ln in tree_md.splitlines() if ln.startswith(("| ", "- ", "### "))]
only_gen = [ln for ln in gen if ln not in old]
only_old = [ln for ln in old if ln not in gen]
print("lines only in the generated report:", only_gen)
print("lines only in the SUPPORTED_OPS.md of the tree:", only_old)
bad += bool(only_gen or only_old)
print("VIOLATION" if bad else "no violation")
sys.exit(1 if bad else 0)

import sys, os
sys.path.insert(0, os.getcwd()); sys.path.insert(0, os.path.join(os.getcwd(), "out"))
import io, contextlib
import sweep
base = None
for accel in ["ethos-u55-128", "ethos-u55-32", "ethos-u55-64", "ethos-u55-256", "ethos-u65-256", "ethos-u65-512"]:
    buf = io.StringIO()
    with contextlib.redirect_stdout(buf):
        bad = sweep.run(None, accel)
    res = {ln[4:60].strip(): ln[60:].strip() for ln in buf.getvalue().splitlines() if ln[:3] in ("ok ", "BAD")}
    print(accel, "disagreements:", [b[0] for b in bad])
    if base is None:
        base = res
    else:
        for k in res:
            if res[k] != base[k]:
                print("  DIFF vs u55-128:", k, "|", base[k], "|", res[k])

# Observation 8 (unmodified tree): UNIDIRECTIONAL_SEQUENCE_LSTM inside every listed constraint (no CIFG / peephole /
# projection / normalisation, 3-D IFM/OFM, 24 inputs, 5 intermediates, variable state tensors) is accelerated on Ethos-U65
# but aborts the compiler on every Ethos-U55 configuration (AssertionError "Tensors assigned to the same LiveRange need to
# fit the size of the LiveRange" in live_range.py, AssertionError in scheduler.build_cascades_for_min_schedule, or a
# TypeError, depending on the sizes), also with the Arm system configuration files.  The placement rule therefore
# depends on the accelerator although the report does not.  Exit 1 = violation reproduced.
import os
import sys
import traceback

sys.path.insert(0, os.getcwd())
sys.path.insert(0, os.path.dirname(os.path.abspath(__file__)))
import c16cases as C  # noqa: E402
from c16cases import I8, I16  # noqa: E402
from c16lib import ACCELERATORS, compile_tflite  # noqa: E402

bad = 0
shown = set()
for accel in ACCELERATORS:
    for kw in (dict(times=2), dict(times=4, features=16, outputs=16), dict(batches=2, times=2), dict(dtype=I16, times=2)):
        r = compile_tflite(C.lstm(**kw), accel=accel)
        res = f"{type(r.exc).__name__}: {str(r.exc)[:70]}" if r.exc else str(r.names())
        print(f"{accel}: LSTM {kw}: {res}")
        if r.exc is not None:
            bad += 1
            if type(r.exc).__name__ + str(r.exc)[:10] not in shown:
                shown.add(type(r.exc).__name__ + str(r.exc)[:10])
                traceback.print_exception(type(r.exc), r.exc, r.exc.__traceback__, limit=-3)
r = compile_tflite(
    C.lstm(times=2),
    ("--config", "Arm/vela.ini", "--system-config", "Ethos_U55_High_End_Embedded", "--memory-mode", "Shared_Sram"),
    "ethos-u55-128",
)
print("ethos-u55-128 with Arm/vela.ini Ethos_U55_High_End_Embedded / Shared_Sram:", r.exc if r.exc else r.names())
print("VIOLATION" if bad else "no violation")
sys.exit(1 if bad else 0)

# Observation 2 (unmodified tree): CONCATENATION with a fused RELU / RELU6 / RELU_N1_TO_1 satisfies every listed constraint
# (the activation is in the list of the generic constraint) but compilation aborts with an AssertionError in
# scheduler.build_cascades_for_min_schedule (non_local_mem_usage < 0) on every Ethos-U55 configuration; on Ethos-U65 it depends
# on the shapes.  Without the fused activation, or with TANH, the same network compiles.  Exit 1 = violation reproduced.
import os
import sys

sys.path.insert(0, os.getcwd())
sys.path.insert(0, os.path.dirname(os.path.abspath(__file__)))
import numpy as np  # noqa: E402,F401
import c16cases as C  # noqa: E402
from c16cases import I8, I16, I32, I64, U8, F32, Op, Padding  # noqa: E402,F401
from c16lib import *  # noqa: E402,F401,F403


def outcome(r):
    if r.exc is not None:
        return f"compiler raised {type(r.exc).__name__}: {r.exc}"
    return f"output operators {r.names()}"


bad = 0
for accel in ACCELERATORS:
    for faf in (None, Op.Relu, Op.Relu6, Op.ReluN1To1, Op.Tanh):
        r = compile_tflite(C.concat(faf=faf), accel=accel)
        print(f"{accel}: CONCATENATION 2 x [1,8,8,4] axis 3, fused activation {faf}: {outcome(r)}")
        bad += r.exc is not None or r.names() != ["ethos-u"]
print("VIOLATION" if bad else "no violation")
sys.exit(1 if bad else 0)

import os, sys, random, traceback
sys.path.insert(0, os.getcwd()); sys.path.insert(0, os.path.join(os.getcwd(), "out"))
import c12_lib as L
from ethosu.vela.data_type import DataType

def rand_net(rng):
    b = L.ModelBuilder()
    h = rng.choice([4, 8, 16, 7])
    c = rng.choice([8, 16, 3, 24])
    n_in = rng.choice([1, 1, 2, 3])
    pool = [b.input([1, h, h, c]) for _ in range(n_in)]
    if rng.random() < 0.3:
        pool.append(b.input([1, h, h, c], dtype=DataType.float32))
        n_in += 1
    if rng.random() < 0.15:
        b.input([1, h, h, c])  # unused input
    n_ops = rng.randint(2, 9)
    desc = []
    for i in range(n_ops):
        kind = rng.choice(["conv", "conv", "add", "mul", "cpu1", "cpu1", "cpu2", "pool", "reshape2"])
        x = rng.choice(pool[-3:]) if rng.random() < 0.7 else rng.choice(pool)
        same = [t for t in pool if t.shape == x.shape and t is not x and t.dtype == x.dtype]
        if x.dtype == DataType.float32 and kind in ("conv", "add", "mul", "pool"):
            kind = rng.choice(["cpu1", "reshape2", "cpu2"])
        if kind == "add" and rng.random() < 0.1:
            same = [x]
        if kind == "conv" and len(x.shape) == 4:
            y = b.conv(x, rng.choice([8, 16, c]), k=rng.choice([1, 3]))
        elif kind in ("add", "mul") and same and len(x.shape) == 4:
            y = (b.add if kind == "add" else b.mul)(x, rng.choice(same))
        elif kind == "cpu2" and same:
            y = b.cpu_binary(x, rng.choice(same))
        elif kind == "pool" and len(x.shape) == 4 and x.shape[1] > 1:
            y = b.maxpool(x)
        elif kind == "reshape2" and len(x.shape) == 4 and x.dtype != DataType.float32:
            y = b.reshape(x, [1, x.shape[1] * x.shape[2], x.shape[3]])
            y = b.reshape(y, list(x.shape))
        else:
            y = b.cpu_unary(x)
            kind = "cpu1"
        desc.append(kind)
        pool.append(y)
    consumed = set()
    for op in b.ops:
        for t in op.inputs:
            consumed.add(t)
    outs = [t for t in pool if t not in consumed and t.ops and t.ops[0].type.name != "Placeholder"]
    if rng.random() < 0.3 and len(pool) > n_in + 1:
        extra = rng.choice(pool[n_in:])
        if extra not in outs:
            outs.append(extra)
    if not outs:
        outs = [pool[-1]]
    return b.build(outs), desc

seed0 = int(sys.argv[1]) if len(sys.argv) > 1 else 0
count = int(sys.argv[2]) if len(sys.argv) > 2 else 30
bad = 0
for seed in range(seed0, seed0 + count):
    rng = random.Random(seed)
    try:
        m, desc = rand_net(rng)
    except Exception as e:
        print(seed, "BUILD-ERR", repr(e)); continue
    cname = rng.choice(list(L.ALL_CONFIGS))
    cfg = L.ALL_CONFIGS[cname]
    alloc = rng.choice(["HillClimb", "Greedy", "LinearAlloc"])
    align = rng.choice([16, 16, 32, 64, 128, 256])
    cache = rng.choice([None, 4096, 16384, 65536])
    opt = rng.choice(["Performance", "Size"])
    args = ["--tensor-allocator", alloc, "--cpu-tensor-alignment", str(align), "--optimise", opt]
    if cache: args += ["--arena-cache-size", str(cache)]
    try:
        r = L.compile_model(m, cfg, args)
    except Exception as e:
        print(seed, cname, alloc, align, cache, opt, desc, "EXC", type(e).__name__, str(e)[:200]); continue
    if r.rc != 0 or r.tflite is None:
        print(seed, cname, alloc, align, cache, opt, desc, "RC", r.rc, r.console.strip().splitlines()[-1:] ); continue
    try:
        probs = L.check_plan(r, cfg, align)
    except Exception as e:
        traceback.print_exc(); probs = ["ORACLE-EXC"]
    if probs:
        bad += 1
        print(seed, cname, alloc, align, cache, opt, desc)
        for p in probs[:6]: print("    ", p)
print("done; bad =", bad)

"""Observation 3 (unmodified tree): compiling a model that Vela has already compiled (it contains 'ethos-u' custom
operators) succeeds with rc 0 and only the warning 'Unsupported TensorFlow Lite semantics for CUSTOM ... Placing on CPU',
but the new OfflineMemoryAllocation re-plans the old scratch tensor like an ordinary tensor: it no longer starts at
offset 0 and the operands of the Ethos-U operators are placed outside of it, although the (unchanged) command streams
address their operands relative to the scratch tensor with the OLD offsets."""
import os
import sys

sys.path.insert(0, os.getcwd())
sys.path.insert(0, os.path.join(os.getcwd(), "out"))

import c12_lib as L  # noqa: E402


def build():
    b = L.ModelBuilder()
    x = b.input([1, 8, 8, 16], "in_a")
    k = b.input([1, 8, 8, 16], "keep")
    a = b.conv(x, 16, name="a")
    s = b.cpu_unary(a, "s")
    c = b.conv(s, 16, name="c")
    z = b.cpu_binary(c, k, "z")
    return b.build([z])


cfg = L.U55_SHARED
first = L.compile_model(build(), cfg, [])
assert first.rc == 0 and not L.check_plan(first, cfg, 16), "first compilation must be consistent"
second = L.compile_model(first.tflite, cfg, [])
print("second compilation rc =", second.rc)
print([line for line in second.console.splitlines() if "Warning" in line])
out = L.parse_output(second.tflite)
for t in out.subgraphs[0].tensors:
    if t.data is None:
        print(f"  {t.name:28} size {t.size:6} offset {t.offset}")
found = L.check_plan(second, cfg, 16)
if found:
    print("VIOLATION REPRODUCED ON THIS TREE:")
    for f in found:
        print("  ", f)
    sys.exit(1)
print("no violation")

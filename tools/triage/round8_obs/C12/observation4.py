"""Observation 4 (unmodified tree): INT4 feature maps.  Tensor.element_size() returns dtype.size_in_bits() // 8, which
is 0 for int4, so storage_size() falls back to 'raw_size = 1' and every non-constant INT4 tensor is given 16 bytes of
arena regardless of its shape ([1,8,8,16] int4 needs 512 bytes, two elements per byte).  The tensors overlap each
other and the reported arena size (48 bytes) is far below what the plan needs."""
import os
import sys

sys.path.insert(0, os.getcwd())
sys.path.insert(0, os.path.join(os.getcwd(), "out"))

import c12_lib as L  # noqa: E402
from ethosu.vela.data_type import DataType  # noqa: E402


def build():
    b = L.ModelBuilder()
    x = b.input([1, 8, 8, 16], "in_a", dtype=DataType.int4)
    k = b.input([1, 8, 8, 16], "keep", dtype=DataType.int4)
    p = b.cpu_unary(x, "p")
    q = b.cpu_unary(p, "q")
    z = b.cpu_binary(q, k, "z")
    return b.build([z])


cfg = L.U55_SHARED
res = L.compile_model(build(), cfg, [])
out = L.parse_output(res.tflite)
for t in out.subgraphs[0].tensors:
    print(f"  {t.name:8} type {t.type} bytes needed {t.size:5} offset {t.offset}")
print({k: v for k, v in res.csv.items() if k.endswith("memory_used")})
found = L.check_plan(res, cfg, 16)
if found:
    print("VIOLATION REPRODUCED ON THIS TREE:")
    for f in found:
        print("  ", f)
    sys.exit(1)
print("no violation")

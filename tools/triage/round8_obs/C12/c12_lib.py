"""Helper library for the C12 demos / observations.

 * ModelBuilder     - builds small TFLite flatbuffers in memory with Vela's own IR classes and writer
 * compile_model    - runs the full Vela driver (ethosu.vela.vela.main) on such a model in a temp directory
 * parse_output     - reads the *_vela.tflite (tensor table, operators, OfflineMemoryAllocation metadata)
 * check_plan       - an oracle for property C12 that only looks at the output files / console text
"""
import contextlib
import csv
import io
import os
import re
import struct
import sys
import tempfile
import types

import numpy as np

from ethosu.vela import vela
from ethosu.vela.data_type import DataType
from ethosu.vela.nn_graph import Graph
from ethosu.vela.nn_graph import Subgraph
from ethosu.vela.operation import Op
from ethosu.vela.operation import Operation
from ethosu.vela.tensor import create_const_tensor
from ethosu.vela.tensor import QuantizationParameters
from ethosu.vela.tensor import Tensor
from ethosu.vela.tflite import Model as TflModel
from ethosu.vela import tflite_writer


# ----------------------------------------------------------------------------------------------------------------------
# model building
# ----------------------------------------------------------------------------------------------------------------------
def _quant(scale=0.5, zp=0):
    qp = QuantizationParameters()
    qp.scale_f32 = np.float32(scale)
    qp.zero_point = zp
    qp.quant_min = -128
    qp.quant_max = 127
    return qp


class ModelBuilder:
    def __init__(self, name="main"):
        self.sg = Subgraph(name)
        self.ops = []
        self.n = 0
        self.extra_subgraphs = []

    def _name(self, prefix):
        self.n += 1
        return f"{prefix}{self.n}"

    def tensor(self, shape, name=None, dtype=DataType.int8, scale=0.5, variable=False):
        t = Tensor(list(shape), dtype, name or self._name("t"))
        if dtype != DataType.float32:
            t.quantization = _quant(scale)
        t.is_variable = variable
        return t

    def input(self, shape, name=None, dtype=DataType.int8):
        t = self.tensor(shape, name or self._name("input"), dtype)
        op = Operation(Op.Placeholder, t.name + "_ph")
        op.set_output_tensor(t)
        self.sg.input_tensors.append(t)
        self.sg.original_inputs.append(t)
        self.placeholders = getattr(self, "placeholders", []) + [op]
        return t

    def _op(self, op_type, inputs, out, attrs=None, name=None):
        op = Operation(op_type, name or (out.name + "_op"))
        for i in inputs:
            if i is None:
                op.inputs.append(None)
            else:
                op.add_input_tensor(i)
        op.set_output_tensor(out)
        if attrs:
            op.attrs.update(attrs)
        self.ops.append(op)
        return out

    def conv(self, ifm, out_ch, k=1, stride=1, name=None, padding=None):
        from ethosu.vela.operation import Padding

        in_ch = ifm.shape[-1]
        wq = _quant(0.25)
        rng = np.random.default_rng(len(self.ops) + 7)
        # tflite weight layout is OHWI (the reader transposes it to HWIO)
        w = create_const_tensor(
            self._name("w"),
            [out_ch, k, k, in_ch],
            DataType.int8,
            rng.integers(-5, 5, size=(out_ch, k, k, in_ch)).astype(np.int8),
            quantization=wq,
        )
        bq = _quant(0.125)
        b = create_const_tensor(self._name("b"), [out_ch], DataType.int32, np.zeros(out_ch, np.int32), quantization=bq)
        pad = padding or Padding.SAME
        oh = -(-ifm.shape[1] // stride)
        ow = -(-ifm.shape[2] // stride)
        out = self.tensor([ifm.shape[0], oh, ow, out_ch], name)
        attrs = {
            "padding": pad,
            "stride_w": stride,
            "stride_h": stride,
            "dilation_w_factor": 1,
            "dilation_h_factor": 1,
            "fused_activation_function": None,
        }
        return self._op(Op.Conv2DBias, [ifm, w, b], out, attrs)

    def add(self, a, b, name=None, op_type=Op.Add, scale=0.5):
        out = self.tensor(a.shape, name, dtype=a.dtype, scale=scale)
        return self._op(op_type, [a, b], out, {"fused_activation_function": None, "pot_scale_int16": False})

    def mul(self, a, b, name=None):
        out = self.tensor(a.shape, name, dtype=a.dtype)
        return self._op(Op.Mul, [a, b], out, {"fused_activation_function": None})

    def maxpool(self, ifm, k=2, stride=2, name=None):
        from ethosu.vela.operation import Padding

        oh = -(-ifm.shape[1] // stride)
        ow = -(-ifm.shape[2] // stride)
        out = self.tensor([ifm.shape[0], oh, ow, ifm.shape[3]], name)
        attrs = {
            "padding": Padding.SAME,
            "stride_w": stride,
            "stride_h": stride,
            "filter_width": k,
            "filter_height": k,
            "fused_activation_function": None,
        }
        return self._op(Op.MaxPool, [ifm], out, attrs)

    def cpu_unary(self, ifm, name=None, op_type=Op.Sin, out_shape=None):
        """An operator Vela leaves on the CPU"""
        out = self.tensor(out_shape or ifm.shape, name, dtype=ifm.dtype)
        return self._op(op_type, [ifm], out, {})

    def cpu_binary(self, a, b, name=None, op_type=Op.FloorMod):
        out = self.tensor(a.shape, name, dtype=a.dtype)
        return self._op(op_type, [a, b], out, {})

    def reshape(self, ifm, new_shape, name=None):
        shp = create_const_tensor(self._name("shape"), [len(new_shape)], DataType.int32, np.array(new_shape, np.int32))
        out = self.tensor(list(new_shape), name, dtype=ifm.dtype)
        return self._op(Op.Reshape, [ifm, shp], out, {"new_shape": list(new_shape)})

    def concat(self, inputs, axis=3, name=None):
        shp = list(inputs[0].shape)
        shp[axis] = sum(t.shape[axis] for t in inputs)
        out = self.tensor(shp, name, dtype=inputs[0].dtype)
        return self._op(Op.ConcatTFLite, list(inputs), out, {"axis": axis, "fused_activation_function": None})

    def slice(self, ifm, begin, size, name=None):
        bt = create_const_tensor(self._name("begin"), [len(begin)], DataType.int32, np.array(begin, np.int32))
        st = create_const_tensor(self._name("size"), [len(size)], DataType.int32, np.array(size, np.int32))
        out = self.tensor(list(size), name, dtype=ifm.dtype)
        return self._op(Op.Slice, [ifm, bt, st], out, {})

    def finalize(self, outputs):
        sg = self.sg
        sg.output_tensors = list(outputs)
        for t in outputs:
            t.consumer_list.append(None)
        ps = types.SimpleNamespace(ops=list(getattr(self, "placeholders", [])) + list(self.ops))
        sg.passes = [ps]
        return sg

    def while_op(self, inputs, cond, body, name=None):
        """cond / body: finalized ModelBuilders; they become subgraphs 1.. of the model"""
        for sub in (cond, body):
            if sub.sg not in self.extra_subgraphs:
                self.extra_subgraphs.append(sub.sg)
        outs = [self.tensor(t.shape, None, dtype=t.dtype) for t in inputs]
        op = Operation(Op.While, name or self._name("while"))
        for i in inputs:
            op.add_input_tensor(i)
        for o in outs:
            o.ops.append(op)
            op.outputs.append(o)
        op.attrs.update(
            {
                "cond_subgraph_index": 1 + self.extra_subgraphs.index(cond.sg),
                "body_subgraph_index": 1 + self.extra_subgraphs.index(body.sg),
            }
        )
        self.ops.append(op)
        return outs

    def if_op(self, cond_tens, inputs, then_b, else_b, name=None):
        """then_b / else_b: finalized ModelBuilders (their outputs define the result shapes)"""
        for sub in (then_b, else_b):
            if sub.sg not in self.extra_subgraphs:
                self.extra_subgraphs.append(sub.sg)
        outs = [self.tensor(t.shape, None, dtype=t.dtype) for t in then_b.sg.output_tensors]
        op = Operation(Op.If, name or self._name("if"))
        for i in [cond_tens] + list(inputs):
            op.add_input_tensor(i)
        for o in outs:
            o.ops.append(op)
            op.outputs.append(o)
        op.attrs.update(
            {
                "then_subgraph_index": 1 + self.extra_subgraphs.index(then_b.sg),
                "else_subgraph_index": 1 + self.extra_subgraphs.index(else_b.sg),
            }
        )
        self.ops.append(op)
        return outs

    def build(self, outputs):
        sg = self.finalize(outputs)
        nng = Graph("model")
        nng.subgraphs.append(sg)
        for extra in self.extra_subgraphs:
            nng.subgraphs.append(extra)
        nng.metadata = []
        return bytes(tflite_writer.write_tflite_buffer(nng))


# ----------------------------------------------------------------------------------------------------------------------
# compiling
# ----------------------------------------------------------------------------------------------------------------------
class Result:
    pass


def _cfg(args, area, fast_area=None):
    return {"args": args, "area": area, "fast_area": fast_area}


_ARM = ["--config", "Arm/vela.ini"]
U55_SHARED = _cfg(["--accelerator-config", "ethos-u55-128"] + _ARM + ["--system-config", "Ethos_U55_High_End_Embedded",
                  "--memory-mode", "Shared_Sram"], "SRAM")
U55_SRAM_ONLY = _cfg(["--accelerator-config", "ethos-u55-64"] + _ARM + ["--system-config", "Ethos_U55_High_End_Embedded",
                     "--memory-mode", "Sram_Only"], "SRAM")
U65_DEDICATED = _cfg(["--accelerator-config", "ethos-u65-256"] + _ARM + ["--system-config", "Ethos_U65_High_End",
                     "--memory-mode", "Dedicated_Sram"], "DRAM", "SRAM")
U65_SHARED = _cfg(["--accelerator-config", "ethos-u65-512"] + _ARM + ["--system-config", "Ethos_U65_Embedded",
                  "--memory-mode", "Shared_Sram"], "SRAM")
IMX93 = _cfg([], "DRAM", "SRAM")
ALL_CONFIGS = {"u55_shared": U55_SHARED, "u55_sram_only": U55_SRAM_ONLY, "u65_dedicated": U65_DEDICATED,
               "u65_shared": U65_SHARED, "imx93": IMX93}
_CSV_KEY = {"SRAM": "sram_memory_used", "DRAM": "dram_memory_used"}


def compile_model(model_bytes, cfg=None, args=(), name="net"):
    """Runs vela.main on the model; returns Result(rc, console, tflite bytes, csv dict)"""
    res = Result()
    with tempfile.TemporaryDirectory() as tmp:
        path = os.path.join(tmp, name + ".tflite")
        with open(path, "wb") as f:
            f.write(model_bytes)
        outdir = os.path.join(tmp, "out")
        cap = os.path.join(tmp, "console.txt")
        sys.stdout.flush()
        saved_fd = os.dup(1)
        fd = os.open(cap, os.O_WRONLY | os.O_CREAT | os.O_TRUNC)
        os.dup2(fd, 1)
        os.close(fd)
        try:
            try:
                rc = vela.main([path, "--output-dir", outdir] + list((cfg or IMX93)["args"]) + list(args))
            except SystemExit as e:
                rc = e.code
        finally:
            sys.stdout.flush()
            os.dup2(saved_fd, 1)
            os.close(saved_fd)
        with open(cap) as f:
            console = f.read()
        res.rc = rc
        res.console = console
        res.tflite = None
        res.csv = None
        out_tfl = os.path.join(outdir, name + "_vela.tflite")
        if os.path.exists(out_tfl):
            with open(out_tfl, "rb") as f:
                res.tflite = f.read()
        if os.path.isdir(outdir):
            for fn in os.listdir(outdir):
                if "_summary_" in fn and fn.endswith(".csv"):
                    with open(os.path.join(outdir, fn)) as f:
                        rows = list(csv.reader(f))
                    res.csv = dict(zip(rows[0], rows[1]))
    return res


# ----------------------------------------------------------------------------------------------------------------------
# reading the output
# ----------------------------------------------------------------------------------------------------------------------
_TYPE_SIZE = {0: 4, 1: 2, 2: 4, 3: 1, 4: 8, 6: 1, 7: 2, 8: 8, 9: 1, 10: 8, 11: 16, 12: 8, 15: 4, 16: 2}


class OutTensor:
    pass


class OutOp:
    pass


class OutSubgraph:
    pass


def parse_output(tfl_bytes):
    buf = bytearray(tfl_bytes)
    model = TflModel.Model.GetRootAsModel(buf, 0)
    codes = []
    for i in range(model.OperatorCodesLength()):
        oc = model.OperatorCodes(i)
        cc = oc.CustomCode()
        codes.append((max(oc.BuiltinCode(), oc.DeprecatedBuiltinCode()), cc.decode() if cc else None))
    subgraphs = []
    for si in range(model.SubgraphsLength()):
        sg = model.Subgraphs(si)
        osg = OutSubgraph()
        osg.name = sg.Name().decode() if sg.Name() else ""
        osg.tensors = []
        for ti in range(sg.TensorsLength()):
            t = sg.Tensors(ti)
            ot = OutTensor()
            ot.idx = ti
            ot.name = t.Name().decode()
            ot.shape = [int(t.Shape(j)) for j in range(t.ShapeLength())]
            ot.type = t.Type()
            n_elem = int(np.prod(ot.shape, dtype=np.int64)) if ot.shape else 1
            if ot.type == 17:  # INT4: two elements per byte
                ot.size = (n_elem + 1) // 2
            else:
                ot.size = n_elem * _TYPE_SIZE.get(ot.type, 1)
            ot.buffer = t.Buffer()
            b = model.Buffers(ot.buffer)
            ot.data = b.DataAsNumpy() if b.DataLength() else None
            ot.is_variable = bool(t.IsVariable())
            osg.tensors.append(ot)
        osg.inputs = [int(sg.Inputs(j)) for j in range(sg.InputsLength())]
        osg.outputs = [int(sg.Outputs(j)) for j in range(sg.OutputsLength())]
        osg.ops = []
        for oi in range(sg.OperatorsLength()):
            o = sg.Operators(oi)
            oo = OutOp()
            oo.code, oo.custom = codes[o.OpcodeIndex()]
            oo.is_npu = oo.custom == "ethos-u"
            oo.inputs = [int(o.Inputs(j)) for j in range(o.InputsLength())]
            oo.outputs = [int(o.Outputs(j)) for j in range(o.OutputsLength())]
            oo.callees = []
            if oo.code in (118, 119) and o.BuiltinOptions() is not None:
                from ethosu.vela.tflite import IfOptions, WhileOptions

                tab = o.BuiltinOptions()
                if oo.code == 118:
                    opt = IfOptions.IfOptions()
                    opt.Init(tab.Bytes, tab.Pos)
                    oo.callees = [opt.ThenSubgraphIndex(), opt.ElseSubgraphIndex()]
                else:
                    opt = WhileOptions.WhileOptions()
                    opt.Init(tab.Bytes, tab.Pos)
                    oo.callees = [opt.CondSubgraphIndex(), opt.BodySubgraphIndex()]
            osg.ops.append(oo)
        subgraphs.append(osg)
    meta = {}
    for mi in range(model.MetadataLength()):
        m = model.Metadata(mi)
        b = model.Buffers(m.Buffer())
        meta[m.Name().decode()] = bytes(b.DataAsNumpy()) if b.DataLength() else b""
    out = types.SimpleNamespace(subgraphs=subgraphs, metadata=meta)
    raw = meta.get("OfflineMemoryAllocation")
    out.offline = None
    if raw is not None:
        arr = np.frombuffer(raw, dtype=np.int32)
        out.offline = arr
        pos = 3
        for osg in subgraphs:
            for ot in osg.tensors:
                ot.offset = int(arr[pos]) if pos < len(arr) else None
                pos += 1
        out.offline_consumed = pos
    return out


# ----------------------------------------------------------------------------------------------------------------------
# command stream decoding (independent of Vela's generator): finds the addresses used in the scratch region
# ----------------------------------------------------------------------------------------------------------------------
# cmd1 opcodes (payload = 32 bit word following; address = ((param & 0xff) << 32) | payload for U65 )
_CMD1_IFM_BASE = {0x00, 0x01, 0x02, 0x03}
_CMD1_OFM_BASE = {0x10, 0x11, 0x12, 0x13}
_CMD1_IFM2_BASE = {0x80, 0x81, 0x82, 0x83}
_CMD1_DMA_SRC, _CMD1_DMA_DST, _CMD1_DMA_LEN = 0x30, 0x31, 0x32
_CMD0_IFM_REGION, _CMD0_OFM_REGION, _CMD0_IFM2_REGION = 0x10F, 0x11F, 0x18F
_CMD0_DMA_SRC_REGION, _CMD0_DMA_DST_REGION = 0x130, 0x131
_CMD0_OP_DMA_START = 0x010


def scan_command_stream(data):
    """Returns list of (kind, region, address[, length]) for base addresses found in the command stream.
    data: uint8 numpy array of the custom operator's first input (driver payload)."""
    words = np.frombuffer(bytes(data), dtype="<u4")
    found = []
    n = len(words)
    cs_start = None
    cs_len = 0
    # word 0 is the fourcc "COP1"; then driver action tags: id in bits 0-7, reserved 8-15, param 16-31
    i = 1
    while i < n:
        w = int(words[i])
        action = w & 0xFF
        if action == 2:  # COMMAND_STREAM, length in words = (reserved << 16) | param
            cs_len = (((w >> 8) & 0xFF) << 16) | ((w >> 16) & 0xFFFF)
            cs_start = i + 1
            break
        elif action == 1:  # CONFIG: two words follow
            i += 3
        else:  # NOP etc
            i += 1
    if cs_start is None:
        return found
    regs = {}
    i = cs_start
    end = min(n, cs_start + cs_len)
    while i < end:
        w = int(words[i])
        opcode = w & 0x3FF
        is_cmd1 = (w >> 14) & 0x3 == 1
        param = (w >> 16) & 0xFFFF
        if is_cmd1:
            payload = int(words[i + 1])
            addr = ((param & 0xFF) << 32) | payload
            i += 2
            if opcode in _CMD1_IFM_BASE:
                found.append(("ifm", regs.get("ifm_region"), addr))
            elif opcode in _CMD1_OFM_BASE:
                found.append(("ofm", regs.get("ofm_region"), addr))
            elif opcode in _CMD1_IFM2_BASE:
                found.append(("ifm2", regs.get("ifm2_region"), addr))
            elif opcode == _CMD1_DMA_SRC:
                regs["dma_src"] = addr
            elif opcode == _CMD1_DMA_DST:
                regs["dma_dst"] = addr
            elif opcode == _CMD1_DMA_LEN:
                regs["dma_len"] = addr
        else:
            i += 1
            if opcode == _CMD0_IFM_REGION:
                regs["ifm_region"] = param & 0x7
            elif opcode == _CMD0_OFM_REGION:
                regs["ofm_region"] = param & 0x7
            elif opcode == _CMD0_IFM2_REGION:
                regs["ifm2_region"] = param & 0x7
            elif opcode == _CMD0_DMA_SRC_REGION:
                regs["dma_src_region"] = param & 0x7
            elif opcode == _CMD0_DMA_DST_REGION:
                regs["dma_dst_region"] = param & 0x7
            elif opcode == _CMD0_OP_DMA_START:
                found.append(("dma_src", regs.get("dma_src_region"), regs.get("dma_src"), regs.get("dma_len")))
                found.append(("dma_dst", regs.get("dma_dst_region"), regs.get("dma_dst"), regs.get("dma_len")))
    return found


# ----------------------------------------------------------------------------------------------------------------------
# the oracle
# ----------------------------------------------------------------------------------------------------------------------
def _reported_kib(console, label):
    m = re.search(r"Total " + re.escape(label) + r" used\s+([0-9.]+) KiB", console)
    return float(m.group(1)) if m else None


def check_plan(res, cfg, alignment=16, check_reported=True, strict=False):
    """Returns a list of violation strings (empty = property holds for this output)."""
    problems = []
    out = parse_output(res.tflite)
    if out.offline is None:
        return ["no OfflineMemoryAllocation metadata"]
    arr = out.offline
    n_tensors = sum(len(sg.tensors) for sg in out.subgraphs)
    if int(arr[1]) != len(out.subgraphs):
        problems.append(f"metadata says {arr[1]} subgraphs, model has {len(out.subgraphs)}")
    if int(arr[2]) != n_tensors or len(arr) != 3 + n_tensors:
        problems.append(f"metadata describes {arr[2]} tensors ({len(arr) - 3} offsets), model has {n_tensors}")

    arena_area = cfg["area"]
    csv_key = _CSV_KEY[arena_area]
    extent = 0
    fast_extent = 0
    for si, sg in enumerate(out.subgraphs):
        n_ops = len(sg.ops)
        first = {}
        last = {}
        cpu_touched = set()
        for t in sg.inputs:
            first[t] = -1
            cpu_touched.add(t)
        for oi, op in enumerate(sg.ops):
            for t in op.inputs:
                if t < 0:
                    continue
                first.setdefault(t, oi)
                last[t] = max(last.get(t, -1), oi)
                if not op.is_npu:
                    cpu_touched.add(t)
            for t in op.outputs:
                first[t] = min(first.get(t, oi), oi)
                last[t] = max(last.get(t, -1), oi)
                if not op.is_npu:
                    cpu_touched.add(t)
        for t in sg.outputs:
            last[t] = n_ops
            first.setdefault(t, -1)
            cpu_touched.add(t)
        for t in sg.tensors:
            if t.is_variable:
                first[t.idx] = -1
                last[t.idx] = n_ops

        # memory tensors of the Ethos-U operators
        scratch_idx = set()
        scratch_fast_idx = set()
        for op in sg.ops:
            if op.is_npu:
                if len(op.inputs) < 4:
                    problems.append("ethos-u operator with fewer than 4 memory inputs")
                    continue
                scratch_idx.add(op.inputs[2])
                scratch_fast_idx.add(op.inputs[3])
        for s in scratch_idx:
            ts = sg.tensors[s]
            if ts.offset != 0:
                problems.append(f"sg{si}: scratch tensor '{ts.name}' is at arena offset {ts.offset}, not 0")
        arena = [
            t for t in sg.tensors if t.offset is not None and t.offset >= 0 and t.idx not in scratch_idx
            and t.idx not in scratch_fast_idx and t.data is None
        ]
        # tensors that have constant data are not in the arena
        for t in sg.tensors:
            if t.data is not None and t.offset not in (-1, None):
                problems.append(f"sg{si}: constant tensor '{t.name}' has arena offset {t.offset}")
        # every non-constant tensor that is used must have an offset (Vela plans the whole arena)
        for t in arena:
            if t.idx not in first:
                continue
            extent = max(extent, t.offset + t.size)
        for s in scratch_idx:
            extent = max(extent, sg.tensors[s].offset + sg.tensors[s].size)

        # 1. overlap of simultaneously live tensors
        used = [t for t in arena if t.idx in first]
        sg.used, sg.first, sg.last = used, first, last
        for i, a in enumerate(used):
            for b in used[i + 1:]:
                if a.size == 0 or b.size == 0:
                    continue
                addr_overlap = max(a.offset, b.offset) < min(a.offset + a.size, b.offset + b.size)
                time_overlap = max(first[a.idx], first[b.idx]) <= min(last[a.idx], last[b.idx])
                if addr_overlap and time_overlap:
                    # allowed: an operator writing its result over one of its own operands (in-place), i.e. a's
                    # last use is the operator that produces b, same offset
                    inplace_ok = False
                    for u, v in ((a, b), (b, a)):
                        # u's last use is the operator that produces v
                        if last[u.idx] == first[v.idx] and 0 <= first[v.idx] < n_ops:
                            op = sg.ops[first[v.idx]]
                            if v.idx in op.outputs and u.idx in op.inputs:
                                if u.offset == v.offset:
                                    inplace_ok = True
                                elif (op.is_npu or op.callees) and not strict:
                                    # Vela plans the inside of an Ethos-U operator (and of the subgraphs that a control
                                    # flow operator calls): a result may reuse the memory of an operand that the
                                    # operator has finished reading
                                    inplace_ok = True
                    if not inplace_ok:
                        problems.append(
                            f"sg{si}: '{a.name}' [{a.offset},{a.offset + a.size}) live ops {first[a.idx]}..{last[a.idx]}"
                            f" overlaps '{b.name}' [{b.offset},{b.offset + b.size}) live ops"
                            f" {first[b.idx]}..{last[b.idx]}"
                        )
        # 2. alignment of CPU tensors
        for t in used:
            if t.idx in cpu_touched and t.offset % alignment != 0:
                problems.append(f"sg{si}: CPU tensor '{t.name}' at offset {t.offset} is not {alignment}-byte aligned")
        # 3. scratch tensor covers the operands of the custom operator and the addresses in its command stream
        for op in sg.ops:
            if not op.is_npu or len(op.inputs) < 4:
                continue
            sc = sg.tensors[op.inputs[2]]
            for ti in op.inputs[4:] + op.outputs:
                t = sg.tensors[ti]
                if t.offset is None or t.offset < 0:
                    problems.append(f"sg{si}: ethos-u operand '{t.name}' has no arena offset")
                elif t.offset + t.size > sc.offset + sc.size:
                    problems.append(
                        f"sg{si}: ethos-u operand '{t.name}' [{t.offset},{t.offset + t.size}) is outside the scratch"
                        f" tensor [{sc.offset},{sc.offset + sc.size})"
                    )
            cs = sg.tensors[op.inputs[0]]
            sf = sg.tensors[op.inputs[3]]
            fast_extent = max(fast_extent, sf.size if sf.shape != [0] else 0)
            if cs.data is not None:
                for item in scan_command_stream(cs.data):
                    kind, region, addr = item[0], item[1], item[2]
                    if addr is None or region not in (1, 2):
                        continue
                    ln = item[3] if len(item) > 3 and item[3] else 1
                    mem = sc if region == 1 else sf
                    if addr + ln > mem.size:
                        problems.append(
                            f"sg{si}: command stream {kind} address {addr} (+{ln}) in region {region} is beyond the size"
                            f" {mem.size} of '{mem.name}'"
                        )
                    if region == 1:
                        extent = max(extent, addr + ln)
                    else:
                        fast_extent = max(fast_extent, addr + ln)
    # 1b. tensors that stay live across a control flow operator vs the tensors of the called subgraphs (transitively)
    def callee_closure(idx, seen):
        if idx in seen or idx >= len(out.subgraphs):
            return
        seen.add(idx)
        for op in out.subgraphs[idx].ops:
            for c in op.callees:
                callee_closure(c, seen)

    for si, sg in enumerate(out.subgraphs):
        for oi, op in enumerate(sg.ops):
            if not op.callees:
                continue
            seen = set()
            for c in op.callees:
                callee_closure(c, seen)
            if strict:
                # the runtime's own operands count as live while the called subgraphs run
                across = [t for t in sg.used if sg.first[t.idx] <= oi <= sg.last[t.idx] and t.size]
            else:
                across = [t for t in sg.used if sg.first[t.idx] < oi < sg.last[t.idx] and t.size]
            for ci in sorted(seen):
                for b in getattr(out.subgraphs[ci], "used", []):
                    for a in across:
                        if b.size and max(a.offset, b.offset) < min(a.offset + a.size, b.offset + b.size):
                            problems.append(
                                f"sg{si}: '{a.name}' [{a.offset},{a.offset + a.size}) is live during operator {oi} but"
                                f" overlaps '{b.name}' [{b.offset},{b.offset + b.size}) of the called subgraph {ci}"
                            )
    res.extent = extent
    res.fast_extent = fast_extent
    # 4. reported numbers
    if check_reported:
        checks = [(arena_area, extent)]
        if cfg["fast_area"]:
            checks.append((cfg["fast_area"], fast_extent))
        for area, need in checks:
            rep = _reported_kib(res.console, area)
            if rep is None and need > 0:
                res.notes = getattr(res, "notes", []) + [f"console has no line for the {area} usage ({need} bytes)"]
            if rep is not None and rep * 1024 + 5.2 < need:  # console prints 2 decimals of KiB
                problems.append(f"console reports {rep} KiB {area} used, the plan needs {need} bytes")
            key = _CSV_KEY[area]
            if res.csv is not None and key in res.csv:
                v = float(res.csv[key]) * 1024
                if v + 1e-6 < need:
                    problems.append(f"summary csv reports {key}={v} bytes, the plan needs {need} bytes")
    return problems

"""Observation 5 (unmodified tree, strict reading of the property): operands of ONE operator overlap each other.

 (a) The result of an Ethos-U operator may partially overlap one of the operator's own inputs (Vela plans the inside of
     the operator and knows that the input is dead by the time the result is written).  A planner that only sees the
     output graph (e.g. the TFLM greedy planner's notion of liveness) treats both as live at that operator.
 (b) The same holds for WHILE / IF: the operator's own inputs are given up as soon as the called subgraphs start, so
     tensors of the body subgraph are placed on top of the WHILE operator's input.  TFLM's WHILE kernel keeps using the
     operator's input tensors as the loop state (CopyOpOutputsToOpInputs / CopyOpInputsToSubgraphInputs in every
     iteration), so with that runtime the body overwrites the loop state.
This is by design in Vela, it is reported because the property's wording ('never overlap while both are live under the
operator order of the output graph') does not exclude it."""
import os
import sys

sys.path.insert(0, os.getcwd())
sys.path.insert(0, os.path.join(os.getcwd(), "out"))

import c12_lib as L  # noqa: E402


def build_a():
    b = L.ModelBuilder()
    x = b.input([1, 8, 8, 32], "in_a")
    k = b.input([1, 8, 8, 16], "keep")
    c = b.conv(x, 32, name="c")
    s1 = b.slice(c, [0, 0, 0, 0], [1, 8, 8, 16], "s1")
    s2 = b.slice(c, [0, 0, 0, 16], [1, 8, 8, 16], "s2")
    q = b.cpu_binary(s1, s2, "q")
    z = b.add(q, k, "z")
    return b.build([z])


def build_b():
    cond = L.ModelBuilder("cond")
    cx = cond.input([1, 8, 8, 16], "cond_x")
    cy = cond.cpu_unary(cx, "cond_flag", out_shape=[1])
    cond.finalize([cy])
    body = L.ModelBuilder("body")
    bx = body.input([1, 8, 8, 16], "body_x")
    bc = body.conv(bx, 16, name="body_c")
    bs = body.cpu_unary(bc, "body_s")
    bd = body.conv(bs, 16, name="body_d")
    body.finalize([bd])
    b = L.ModelBuilder()
    x = b.input([1, 8, 8, 16], "in_a")
    k = b.input([1, 8, 8, 16], "keep")
    p = b.cpu_unary(x, "while_operand")
    (w,) = b.while_op([p], cond, body)
    z = b.cpu_binary(w, k, "z")
    return b.build([z])


found = []
for name, model, cfg_name, extra in (
    ("(a)", build_a(), "u55_shared", []),
    ("(b)", build_b(), "u65_dedicated", ["--tensor-allocator", "Greedy"]),
):
    cfg = L.ALL_CONFIGS[cfg_name]
    res = L.compile_model(model, cfg, extra)
    relaxed = L.check_plan(res, cfg, 16, check_reported=False)
    assert not relaxed, relaxed
    found += [f"{name} {cfg_name}: {p}" for p in L.check_plan(res, cfg, 16, check_reported=False, strict=True)]
if found:
    print("STRICT-READING VIOLATION REPRODUCED ON THIS TREE:")
    for f in found:
        print("  ", f)
    sys.exit(1)
print("no violation")

"""Scratch driver: random op lists -> public generator -> C04 oracle.  usage: explore.py [n_cases] [seed0] [kinds]"""
import os
import random
import sys
import traceback

sys.path.insert(0, os.getcwd())
sys.path.insert(0, os.path.dirname(os.path.abspath(__file__)))

from c04_gen import ALL_ACCELERATORS, Gen  # noqa: E402
from c04_oracle import check_stream, format_violations  # noqa: E402

from ethosu.vela.api import npu_generate_register_command_stream  # noqa: E402


def run(n_cases, seed0, kinds):
    stats = {}
    shown = {}
    errors = 0
    for seed in range(seed0, seed0 + n_cases):
        rng = random.Random(seed)
        acc = rng.choice(ALL_ACCELERATORS)
        gen = Gen(rng, acc, arena=rng.choice([1024, 2048, 4096]))
        try:
            ops = gen.op_list(rng.randint(2, 10))
        except Exception:
            errors += 1
            if errors < 3:
                traceback.print_exc()
            continue
        try:
            words = npu_generate_register_command_stream(ops, acc)
        except Exception as e:
            errors += 1
            if errors < 6:
                print("generator error", seed, type(e).__name__, str(e)[:200])
            continue
        vs = check_stream(words, acc, ops, kinds_blockdep=kinds, check_transitive=True)
        for v in vs:
            key = (v.category, v.kind)
            stats[key] = stats.get(key, 0) + 1
            if shown.get(key, 0) < 3:
                shown[key] = shown.get(key, 0) + 1
                print(f"seed {seed} {acc.name}: {format_violations([v])}")
    print("cases", n_cases, "errors", errors, "violations", stats)


if __name__ == "__main__":
    n = int(sys.argv[1]) if len(sys.argv) > 1 else 200
    s0 = int(sys.argv[2]) if len(sys.argv) > 2 else 0
    kinds = tuple(sys.argv[3].split(",")) if len(sys.argv) > 3 else ("RAW",)
    run(n, s0, kinds)

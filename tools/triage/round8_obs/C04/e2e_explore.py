"""Scratch: random small networks -> vela.main -> C04 oracle on every generated command stream."""
import os, sys, random, traceback
sys.path.insert(0, os.getcwd()); sys.path.insert(0, os.path.dirname(os.path.abspath(__file__)))
from c04_net import Net, compile_and_capture
from c04_oracle import check_stream, format_violations, summarize_stream
from ethosu.vela.data_type import DataType

ACCS = ["ethos-u55-32", "ethos-u55-64", "ethos-u55-128", "ethos-u55-256", "ethos-u65-256", "ethos-u65-512"]

def rand_net(rng, seed):
    dtype = rng.choice([DataType.int8, DataType.int8, DataType.uint8, DataType.int16])
    net = Net(f"n{seed}", dtype, seed)
    h = rng.choice([8, 16, 24, 32, 48]); w = rng.choice([8, 16, 24, 32]); c = rng.choice([1, 3, 8, 16])
    x = net.input([1, h, w, c])
    live = [x]
    n_ops = rng.randint(2, 8)
    for _ in range(n_ops):
        t = rng.choice(live[-3:])
        kind = rng.random()
        try:
            if kind < 0.35:
                k = rng.choice([(1,1),(3,3),(3,3),(5,5),(1,3),(3,1)])
                st = rng.choice([(1,1),(1,1),(2,2)])
                dil = rng.choice([(1,1),(1,1),(2,2)]) if st == (1,1) else (1,1)
                act = rng.choice([None, "Relu", "Relu6", "Tanh", "Sigmoid"]) if dtype != DataType.uint8 else rng.choice([None, "Relu"])
                y = net.conv2d(t, rng.choice([4, 8, 16, 24, 32]), k, st, dil, rng.choice(["SAME", "VALID"]), act)
            elif kind < 0.55:
                k = rng.choice([(3,3),(3,3),(5,5),(1,3)])
                st = rng.choice([(1,1),(1,1),(2,2)])
                dil = rng.choice([(1,1),(1,1),(2,2)]) if st == (1,1) else (1,1)
                y = net.depthwise(t, k, st, dil, rng.choice(["SAME", "VALID"]), rng.choice([None, "Relu"]))
            elif kind < 0.7:
                y = net.pool(t, rng.choice(["max", "avg"]), rng.choice([(2,2),(3,3)]), rng.choice([(1,1),(2,2)]), rng.choice(["SAME", "VALID"]))
            elif kind < 0.85:
                same = [u for u in live if u.shape == t.shape and u is not t]
                other = rng.choice(same) if same and rng.random() < 0.7 else net.const(rng.choice([t.shape, [1,1,1,t.shape[3]], [1,1,1,1]]))
                y = net.binary(rng.choice(["Add", "Mul", "Sub", "Minimum", "Maximum"]), t, other)
            else:
                y = net.unary(rng.choice(["Tanh", "Sigmoid", "LeakyRelu", "Abs"] if dtype != DataType.uint8 else ["LeakyRelu", "Abs"]), t)
        except Exception:
            continue
        if min(y.shape) < 1:
            net.ops.pop()
            continue
        live.append(y)
    used = set(i for op in net.ops for i in op.inputs)
    outs = [t for t in live[1:] if t not in used] or [live[-1]]
    return net, outs

def main(n, seed0, kinds):
    stats = {}; shown = {}; errs = 0; streams = 0; kernels = 0
    for seed in range(seed0, seed0 + n):
        rng = random.Random(seed)
        net, outs = rand_net(rng, seed)
        if not net.ops:
            continue
        acc = rng.choice(ACCS)
        extra = []
        if rng.random() < 0.5:
            extra += ["--optimise", "Size"]
        if rng.random() < 0.3:
            extra += ["--arena-cache-size", str(rng.choice([4096, 16384, 65536]))]
        try:
            caps = compile_and_capture(net.graph(outs), acc, extra)
        except SystemExit:
            errs += 1; continue
        except Exception as e:
            errs += 1
            if errs <= 5:
                print("compile error seed", seed, acc, extra, type(e).__name__, str(e)[:300])
            continue
        for c in caps:
            streams += 1
            kernels += len(c.npu_ops)
            vs = check_stream(c.words, c.accelerator, c.npu_ops, kinds_blockdep=kinds, check_transitive=True)
            for v in vs:
                key = (v.category, v.kind)
                stats[key] = stats.get(key, 0) + 1
                if shown.get(key, 0) < 3:
                    shown[key] = shown.get(key, 0) + 1
                    print(f"seed {seed} {acc} {extra}: {format_violations([v])}")
    print("nets", n, "errors", errs, "streams", streams, "ops", kernels, "violations", stats)

if __name__ == "__main__":
    n = int(sys.argv[1]) if len(sys.argv) > 1 else 20
    s0 = int(sys.argv[2]) if len(sys.argv) > 2 else 0
    kinds = tuple(sys.argv[3].split(",")) if len(sys.argv) > 3 else ("RAW",)
    main(n, s0, kinds)

"""
Observation 2 (unmodified tree): write-after-read and write-after-write conflicts between two CONSECUTIVE kernels are
not considered when BLOCKDEP is computed (calc_blockdep() only compares the IFM/IFM2 of the new kernel with the OFM of
the previous kernel).  By the letter of property C04 ("read-after-write, write-after-read or write-after-write conflict
on any byte") the emitted streams therefore allow conflicting kernels to overlap:

 a) WAW (public API): the first OFM block of op2 is the last OFM block of op1 (op2 does not read it) -> BLOCKDEP=3
 b) WAR (public API): the first OFM block of op2 overwrites the IFM of the last block of op1       -> BLOCKDEP=3
 c) WAR in a GENERATED NETWORK (vela.main, ethos-u55-64): input 1x12x12x3 -> conv3x3(8) -> conv3x3(16) -> conv3x3(8).
    The tensor allocator gives the OFM of the 2nd convolution the memory of the (dead) network input, which the 1st
    convolution is still reading with its last block while BLOCKDEP=1 lets the first block job of the 2nd one run.

(If the hardware pipeline processes block jobs strictly in order - IFM read of a later job never overtakes nothing
 but the OFM write of earlier jobs - only the RAW case is a real hazard; this script documents the letter of C04.)
Exit code 1 = violations present.
Run: cd /tmp/seed8/C04 && /venv/bin/python out/observation2.py
"""
import contextlib
import io
import os
import sys

sys.path.insert(0, os.getcwd())
sys.path.insert(0, os.path.dirname(os.path.abspath(__file__)))

from c04_net import Net, compile_and_capture  # noqa: E402
from c04_oracle import check_stream, format_violations, summarize_stream  # noqa: E402
from demo1 import abs_op  # noqa: E402

from ethosu.vela.api import npu_generate_register_command_stream  # noqa: E402
from ethosu.vela.api import NpuAccelerator  # noqa: E402

ALL = ("RAW", "WAR", "WAW")


def main():
    bad = False
    acc = NpuAccelerator.Ethos_U55_128
    cases = {
        # 4x4x8 NHWC feature maps, OFM blocks of 2x2x8: the last block of op1 starts 0x50 bytes into the feature map
        "a) WAW: first block of op2 = last block of op1 (0x1050..)": [abs_op(0x4000, 0x1000), abs_op(0x5000, 0x1050)],
        "b) WAR: first block of op2 overwrites the IFM of the last block of op1 (0x4050..)": [
            abs_op(0x4000, 0x1000),
            abs_op(0x5000, 0x4050),
        ],
    }
    for name, ops in cases.items():
        words = npu_generate_register_command_stream(ops, acc)
        vs = check_stream(words, acc, ops, kinds_blockdep=ALL)
        print(name)
        print(summarize_stream(words))
        print(format_violations(vs) or "no violation")
        bad |= bool(vs)

    print("c) generated network, ethos-u55-64")
    net = Net("chain")
    t = net.input([1, 12, 12, 3])
    for ch in (8, 16, 8):
        t = net.conv2d(t, ch, (3, 3), act="Relu")
    with contextlib.redirect_stderr(io.StringIO()):
        caps = compile_and_capture(net.graph([t]), "ethos-u55-64")
    for c in caps:
        vs = check_stream(c.words, c.accelerator, c.npu_ops, kinds_blockdep=ALL)
        print(summarize_stream(c.words))
        print(format_violations(vs) or "no violation")
        bad |= bool(vs)
    return 1 if bad else 0


if __name__ == "__main__":
    sys.exit(main())

"""
Observation 1 (unmodified tree): a kernel whose WEIGHTS or SCALES/BIASES are produced by the kernel issued just before
it gets BLOCKDEP = 3 and no wait: calc_blockdep() only looks at IFM/IFM2 versus the previous OFM.

op1 (elementwise ABS, 4 OFM blocks) writes its OFM to region 1 [0x1000, 0x1080).
op2 (depthwise conv) reads its scale/bias table (case a) or its weight stream (case b) from exactly that range.
The emitted stream programs BLOCKDEP=3 for op2 and contains no KERNEL_WAIT, so the first block job of op2 may fetch
the scales/weights while the last three blocks of op1 are still being written (read-after-write on region 1).
Exit code 1 = the violation is present.
Run: cd /tmp/seed8/C04 && /venv/bin/python out/observation1.py
"""
import os
import sys

sys.path.insert(0, os.getcwd())
sys.path.insert(0, os.path.dirname(os.path.abspath(__file__)))

from c04_oracle import check_stream, format_violations, summarize_stream  # noqa: E402
from demo2 import fm  # noqa: E402
from demo1 import abs_op  # noqa: E402

from ethosu.vela.api import npu_generate_register_command_stream  # noqa: E402
from ethosu.vela.api import NpuAccelerator  # noqa: E402
from ethosu.vela.api import NpuAddressRange  # noqa: E402
from ethosu.vela.api import NpuConvDepthWiseOperation  # noqa: E402
from ethosu.vela.api import NpuKernel  # noqa: E402
from ethosu.vela.api import NpuPadding  # noqa: E402
from ethosu.vela.api import NpuShape3D  # noqa: E402


def depthwise(weights, biases):
    op = NpuConvDepthWiseOperation()
    op.ifm = fm(4, 4, 8, 0x6000)
    op.ofm = fm(4, 4, 8, 0x7000)
    op.kernel = NpuKernel(1, 1)
    op.padding = NpuPadding(0, 0, 0, 0)
    op.weights = [weights]
    op.biases = [biases]
    op.block_config = NpuShape3D(2, 2, 8)
    return op


def main():
    bad = False
    cases = {
        "a) scales produced by the previous kernel": depthwise(NpuAddressRange(0, 0x100, 32), NpuAddressRange(1, 0x1000, 80)),
        "b) weights produced by the previous kernel": depthwise(NpuAddressRange(1, 0x1000, 32), NpuAddressRange(0, 0x100, 80)),
    }
    for name, op2 in cases.items():
        ops = [abs_op(0x4000, 0x1000), op2]  # op1: 4x4x8 OFM at 0x1000, block 2x2x8 -> 4 blocks
        words = npu_generate_register_command_stream(ops, NpuAccelerator.Ethos_U55_128)
        vs = check_stream(words, NpuAccelerator.Ethos_U55_128, ops)
        print(name)
        print(summarize_stream(words))
        print(format_violations(vs) or "no violation")
        bad |= bool(vs)
    return 1 if bad else 0


if __name__ == "__main__":
    sys.exit(main())

"""
Observation 3 (unmodified tree): two kinds of operation descriptions that the public generator accepts silently but
whose dependency tracking does not describe what the emitted registers make the hardware do.

 a) NpuDmaOperation with dest.length < src.length: NPU_SET_DMA0_LEN is programmed with src.length (64 bytes are
    written), but the written range used for the DMA_WAIT/KERNEL_WAIT calculation is dest (16 bytes).  A kernel that
    reads bytes 32..47 behind the destination address is started without DMA_WAIT.
 b) Ethos-U65-512, one weight/scale range per core with DIFFERENT regions: only weights[0].region / biases[0].region are
    programmed (there is a single WEIGHT_REGION / SCALE_REGION register), but the conflict detection uses each range's
    own region.  The scales of core 1 are declared in region 0 @0x2000, the hardware reads region 1 @0x2000, and a DMA
    that writes region 1 @0x2000 is started without KERNEL_WAIT.
Both are arguably invalid input, but nothing rejects them.  Exit code 1 = violations present.
Run: cd /tmp/seed8/C04 && /venv/bin/python out/observation3.py
"""
import os
import sys

sys.path.insert(0, os.getcwd())
sys.path.insert(0, os.path.dirname(os.path.abspath(__file__)))

from c04_oracle import check_stream, format_violations, summarize_stream  # noqa: E402
from demo1 import abs_op  # noqa: E402
from demo2 import fm  # noqa: E402

from ethosu.vela.api import npu_generate_register_command_stream  # noqa: E402
from ethosu.vela.api import NpuAccelerator  # noqa: E402
from ethosu.vela.api import NpuAddressRange  # noqa: E402
from ethosu.vela.api import NpuConvDepthWiseOperation  # noqa: E402
from ethosu.vela.api import NpuDmaOperation  # noqa: E402
from ethosu.vela.api import NpuKernel  # noqa: E402
from ethosu.vela.api import NpuPadding  # noqa: E402
from ethosu.vela.api import NpuShape3D  # noqa: E402


def main():
    bad = False
    # a) the IFM of the kernel is [0x1020, 0x10a0); the DMA really writes [0x1000, 0x1040)
    acc = NpuAccelerator.Ethos_U55_128
    ops = [NpuDmaOperation(NpuAddressRange(0, 0x0, 64), NpuAddressRange(1, 0x1000, 16)), abs_op(0x1020, 0x3000)]
    words = npu_generate_register_command_stream(ops, acc)
    vs = check_stream(words, acc, ops)
    print("a) DMA with dest.length (16) < src.length (64)")
    print(summarize_stream(words))
    print(format_violations(vs) or "no violation")
    bad |= bool(vs)

    # b)
    acc = NpuAccelerator.Ethos_U65_512
    op = NpuConvDepthWiseOperation()
    op.ifm = fm(4, 4, 8, 0x6000)
    op.ofm = fm(4, 4, 8, 0x7000)
    op.kernel = NpuKernel(1, 1)
    op.padding = NpuPadding(0, 0, 0, 0)
    op.weights = [NpuAddressRange(0, 0x100, 32), NpuAddressRange(0, 0x200, 32)]
    op.biases = [NpuAddressRange(1, 0x1000, 48), NpuAddressRange(0, 0x2000, 48)]
    op.block_config = NpuShape3D(2, 2, 8)
    dma = NpuDmaOperation(NpuAddressRange(0, 0x0, 64), NpuAddressRange(1, 0x2000, 64))
    ops = [op, dma]
    words = npu_generate_register_command_stream(ops, acc)
    vs = check_stream(words, acc, ops)
    print("b) per-core scale ranges in different regions (U65-512)")
    print(summarize_stream(words))
    print(format_violations(vs) or "no violation")
    bad |= bool(vs)
    return 1 if bad else 0


if __name__ == "__main__":
    sys.exit(main())

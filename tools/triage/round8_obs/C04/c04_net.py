"""
Helpers to build small TFLite networks in memory with Vela's own classes, compile them with the real driver
(ethosu.vela.vela.main) and capture every register command stream that is generated on the way
(npu_op_list, accelerator, words), so that the C04 oracle can replay them.
"""
import contextlib
import io
import os
import tempfile

import numpy as np

from ethosu.vela import high_level_command_to_npu_op
from ethosu.vela import vela
from ethosu.vela.data_type import DataType
from ethosu.vela.nn_graph import Graph
from ethosu.vela.nn_graph import Pass
from ethosu.vela.nn_graph import PassPlacement
from ethosu.vela.nn_graph import Subgraph
from ethosu.vela.operation import NpuBlockType
from ethosu.vela.operation import Op
from ethosu.vela.operation import Operation
from ethosu.vela.tensor import create_const_tensor
from ethosu.vela.tensor import QuantizationParameters
from ethosu.vela.tensor import Tensor
from ethosu.vela.tflite_writer import write_tflite


def quant(scale=0.05, zp=0, dtype=DataType.int8):
    qp = QuantizationParameters()
    qp.scale_f32 = np.float32(scale)
    qp.zero_point = np.int64(zp)
    if dtype == DataType.int8:
        qp.quant_min, qp.quant_max = -128, 127
    elif dtype == DataType.uint8:
        qp.quant_min, qp.quant_max = 0, 255
    elif dtype == DataType.int16:
        qp.quant_min, qp.quant_max = -32768, 32767
    return qp


class Net:
    def __init__(self, name="net", dtype=DataType.int8, seed=0):
        self.name = name
        self.dtype = dtype
        self.ops = []
        self.inputs = []
        self.rng = np.random.RandomState(seed)
        self.n = 0

    def _name(self, kind):
        self.n += 1
        return f"{kind}{self.n}"

    def input(self, shape, scale=0.05):
        t = Tensor(list(shape), self.dtype, self._name("input"))
        t.quantization = quant(scale, 0, self.dtype)
        self.inputs.append(t)
        return t

    def _out(self, shape, kind, scale=0.05):
        t = Tensor(list(shape), self.dtype, self._name(kind))
        t.quantization = quant(scale, 0, self.dtype)
        return t

    def _add(self, op, inputs, out):
        for i in inputs:
            op.add_input_tensor(i)
        op.set_output_tensor(out)
        self.ops.append(op)
        return out

    @staticmethod
    def _same_out(i, k, s, d=1):
        return (i + s - 1) // s

    @staticmethod
    def _valid_out(i, k, s, d=1):
        return (i - ((k - 1) * d + 1)) // s + 1

    def conv2d(self, x, out_c, k=(3, 3), stride=(1, 1), dilation=(1, 1), padding="SAME", act=None, scale=0.05):
        n, h, w, c = x.shape
        kh, kw = k
        f = self._same_out if padding == "SAME" else self._valid_out
        oh, ow = f(h, kh, stride[0], dilation[0]), f(w, kw, stride[1], dilation[1])
        name = self._name("conv")
        wq = quant(0.01, 0, DataType.int8)
        wq.zero_point = np.zeros(out_c, np.int64)
        wq.scale_f32 = np.full(out_c, 0.01, np.float32)
        wq.quant_dim = 0
        wvals = self.rng.randint(-20, 20, size=(out_c, kh, kw, c))  # OHWI, as in a .tflite file
        weights = create_const_tensor(name + "_w", [out_c, kh, kw, c], DataType.int8, wvals, quantization=wq)
        bq = quant(0.0005, 0, DataType.int32)
        bias_dtype = DataType.int64 if self.dtype == DataType.int16 else DataType.int32
        bias = create_const_tensor(name + "_b", [out_c], bias_dtype, self.rng.randint(-50, 50, size=out_c), quantization=bq)
        op = Operation(Op.Conv2DBias, name)
        op.attrs = {
            "padding": _pad(padding),
            "stride_w": stride[1],
            "stride_h": stride[0],
            "dilation_w_factor": dilation[1],
            "dilation_h_factor": dilation[0],
            "strides": (1, stride[0], stride[1], 1),
            "dilation": (1, dilation[0], dilation[1], 1),
        }
        if act is not None:
            op.activation = _act(act)
        return self._add(op, [x, weights, bias], self._out([n, oh, ow, out_c], name + "_out", scale))

    def depthwise(self, x, k=(3, 3), stride=(1, 1), dilation=(1, 1), padding="SAME", act=None, scale=0.05):
        n, h, w, c = x.shape
        kh, kw = k
        f = self._same_out if padding == "SAME" else self._valid_out
        oh, ow = f(h, kh, stride[0], dilation[0]), f(w, kw, stride[1], dilation[1])
        name = self._name("dw")
        wq = quant(0.01, 0, DataType.int8)
        wq.zero_point = np.zeros(c, np.int64)
        wq.scale_f32 = np.full(c, 0.01, np.float32)
        wq.quant_dim = 3
        wvals = self.rng.randint(-20, 20, size=(1, kh, kw, c))  # 1HWC, as in a .tflite file
        weights = create_const_tensor(name + "_w", [1, kh, kw, c], DataType.int8, wvals, quantization=wq)
        bq = quant(0.0005, 0, DataType.int32)
        bias_dtype = DataType.int64 if self.dtype == DataType.int16 else DataType.int32
        bias = create_const_tensor(name + "_b", [c], bias_dtype, self.rng.randint(-50, 50, size=c), quantization=bq)
        op = Operation(Op.DepthwiseConv2DBias, name)
        op.attrs = {
            "padding": _pad(padding),
            "stride_w": stride[1],
            "stride_h": stride[0],
            "dilation_w_factor": dilation[1],
            "dilation_h_factor": dilation[0],
            "strides": (1, stride[0], stride[1], 1),
            "dilation": (1, dilation[0], dilation[1], 1),
            "depth_multiplier": 1,
        }
        if act is not None:
            op.activation = _act(act)
        return self._add(op, [x, weights, bias], self._out([n, oh, ow, c], name + "_out", scale))

    def pool(self, x, kind="max", k=(2, 2), stride=(2, 2), padding="VALID"):
        n, h, w, c = x.shape
        f = self._same_out if padding == "SAME" else self._valid_out
        oh, ow = f(h, k[0], stride[0]), f(w, k[1], stride[1])
        name = self._name(kind + "pool")
        op = Operation(Op.MaxPool if kind == "max" else Op.AvgPool, name)
        op.attrs = {
            "padding": _pad(padding),
            "stride_w": stride[1],
            "stride_h": stride[0],
            "filter_width": k[1],
            "filter_height": k[0],
            "ksize": (1, k[0], k[1], 1),
            "strides": (1, stride[0], stride[1], 1),
        }
        return self._add(op, [x], self._out([n, oh, ow, c], name + "_out", x.quantization.scale_f32))

    def binary(self, kind, a, b, act=None, scale=0.1):
        name = self._name(kind.lower())
        op = Operation(getattr(Op, kind), name)
        op.attrs = {}
        if act is not None:
            op.activation = _act(act)
        shape = [max(p, q) for p, q in zip(a.shape, b.shape)]
        return self._add(op, [a, b], self._out(shape, name + "_out", scale))

    def unary(self, kind, x, scale=None):
        name = self._name(kind.lower())
        op = Operation(getattr(Op, kind), name)
        op.attrs = {}
        if kind == "LeakyRelu":
            op.attrs["alpha"] = 0.1
        if kind == "Softmax":
            op.attrs["beta"] = 1.0
        if scale is None:
            scale = {"Tanh": 1 / 128, "Sigmoid": 1 / 256}.get(kind, float(x.quantization.scale_f32))
        out = self._out(list(x.shape), name + "_out", scale)
        if kind == "Sigmoid":
            out.quantization.zero_point = np.int64(-128 if self.dtype == DataType.int8 else 0)
        return self._add(op, [x], out)

    def const(self, shape, scale=0.05):
        name = self._name("const")
        vals = self.rng.randint(-100, 100, size=shape)
        return create_const_tensor(name, list(shape), self.dtype, vals, quantization=quant(scale, 0, self.dtype))

    def graph(self, outputs):
        sg = Subgraph("main", PassPlacement.Cpu)
        sg.input_tensors = list(self.inputs)
        sg.original_inputs = list(self.inputs)
        sg.output_tensors = list(outputs)
        ps = Pass("all", PassPlacement.Cpu, False, NpuBlockType.Default)
        ps.ops = list(self.ops)
        sg.passes = [ps]
        nng = Graph(self.name)
        nng.subgraphs = [sg]
        return nng


def _pad(padding):
    from ethosu.vela.operation import Padding

    return Padding.SAME if padding == "SAME" else Padding.VALID


def _act(kind):
    from ethosu.vela.operation import create_activation_function

    return create_activation_function(getattr(Op, kind))


class Captured:
    def __init__(self, npu_ops, accelerator, words):
        self.npu_ops = npu_ops
        self.accelerator = accelerator
        self.words = words


def compile_and_capture(nng, accelerator="ethos-u55-128", extra_args=(), quiet=True):
    """Writes the graph to a .tflite file, runs the Vela driver on it, returns the captured command streams"""
    captured = []
    orig = high_level_command_to_npu_op.generate_command_stream

    def spy(npu_op_list, arch, verbose, mem_limits, add_to_debug_db=None, npu_op_to_cmd=None):
        words = orig(npu_op_list, arch, verbose, mem_limits, add_to_debug_db, npu_op_to_cmd)
        captured.append(Captured(list(npu_op_list), arch.accelerator_config.value, list(words)))
        return words

    with tempfile.TemporaryDirectory() as tmp:
        path = os.path.join(tmp, nng.name + ".tflite")
        write_tflite(nng, path)
        args = [path, "--accelerator-config", accelerator, "--output-dir", os.path.join(tmp, "out")] + list(extra_args)
        high_level_command_to_npu_op.generate_command_stream = spy
        try:
            if quiet:
                with contextlib.redirect_stdout(io.StringIO()):
                    vela.main(args)
            else:
                vela.main(args)
        finally:
            high_level_command_to_npu_op.generate_command_stream = orig
    return captured

"""
Random generator of operation lists for the public command stream generator (used to explore property C04).
All feature maps live in a small arena so that address overlaps between operations are frequent.
"""
import random

from ethosu.vela.api import npu_find_block_configs
from ethosu.vela.api import NpuAccelerator
from ethosu.vela.api import NpuActivation
from ethosu.vela.api import NpuActivationOp
from ethosu.vela.api import NpuAddressRange
from ethosu.vela.api import NpuBlockTraversal
from ethosu.vela.api import NpuConv2DOperation
from ethosu.vela.api import NpuConvDepthWiseOperation
from ethosu.vela.api import NpuDataType
from ethosu.vela.api import NpuDmaOperation
from ethosu.vela.api import NpuElementWiseOp
from ethosu.vela.api import NpuElementWiseOperation
from ethosu.vela.api import NpuFeatureMap
from ethosu.vela.api import NpuKernel
from ethosu.vela.api import NpuLayout
from ethosu.vela.api import NpuPadding
from ethosu.vela.api import NpuPoolingOp
from ethosu.vela.api import NpuPoolingOperation
from ethosu.vela.api import NpuQuantization
from ethosu.vela.api import NpuResamplingMode
from ethosu.vela.api import NpuShape3D
from ethosu.vela.api import NpuTileBox

MEM2MEM = 0x103
SHRAM_BANKS = {
    NpuAccelerator.Ethos_U55_32: 16,
    NpuAccelerator.Ethos_U55_64: 16,
    NpuAccelerator.Ethos_U55_128: 24,
    NpuAccelerator.Ethos_U55_256: 48,
    NpuAccelerator.Ethos_U65_256: 48,
    NpuAccelerator.Ethos_U65_512: 48,
}


def round_up(a, b):
    return (a + b - 1) // b * b


def fm_bytes(shape, dtype, layout):
    es = dtype.size_in_bytes()
    d = shape.depth if layout == NpuLayout.NHWC else round_up(shape.depth, 16)
    return shape.height * shape.width * d * es


def make_fm(shape, region, address, dtype=NpuDataType.INT8, layout=NpuLayout.NHWC, tiles=None, scale=1.0):
    fm = NpuFeatureMap()
    fm.data_type = dtype
    fm.shape = shape
    fm.region = region
    fm.layout = layout
    fm.quantization = NpuQuantization(scale_f32=scale, zero_point=0)
    if tiles is None:
        fm.tiles = NpuTileBox(
            height_0=shape.height, height_1=shape.height, width_0=shape.width, addresses=[address, 0, 0, 0]
        )
    else:
        fm.tiles = tiles
    return fm


class Gen:
    def __init__(self, rng: random.Random, accelerator, arena=4096, const_region=0, fm_region=1):
        self.rng = rng
        self.acc = accelerator
        self.arena = arena
        self.const_region = const_region
        self.fm_region = fm_region
        self.slots = []  # remembered feature maps (shape, dtype, layout, fm) that later ops like to reuse
        self.u65 = accelerator in (NpuAccelerator.Ethos_U65_256, NpuAccelerator.Ethos_U65_512)
        self.views = True
        self.upscale = True

    # -- feature maps -------------------------------------------------------------------------------------------------
    def rand_addr(self, size, align=16):
        hi = max(0, self.arena - size)
        return self.rng.randrange(0, hi + 1, align) if hi >= align else 0

    def new_fm(self, shape, dtype, layout, allow_tiles=True):
        r = self.rng
        size = fm_bytes(shape, dtype, layout)
        tiles = None
        if allow_tiles and r.random() < 0.3 and shape.height > 1:
            kind = r.choice(["h", "v", "4"]) if shape.width > 1 else "h"
            h0 = r.randrange(1, shape.height)
            w0 = r.randrange(1, shape.width) if shape.width > 1 else shape.width
            if kind == "h":
                tiles = NpuTileBox(
                    height_0=h0,
                    height_1=h0,
                    width_0=shape.width,
                    addresses=[self.rand_addr(size), 0, self.rand_addr(size), 0],
                )
            elif kind == "v":
                tiles = NpuTileBox(
                    height_0=shape.height,
                    height_1=shape.height,
                    width_0=w0,
                    addresses=[self.rand_addr(size), self.rand_addr(size), 0, 0],
                )
            else:
                h1 = r.randrange(1, shape.height)
                tiles = NpuTileBox(
                    height_0=h0,
                    height_1=h1,
                    width_0=w0,
                    addresses=[self.rand_addr(size) for _ in range(4)],
                )
        fm = make_fm(shape, self.fm_region, self.rand_addr(size), dtype, layout, tiles)
        self.slots.append(fm)
        return fm

    def view(self, shape, dtype, layout):
        """A feature map that is a sub-volume (stripe / slice) of an existing single-tile feature map, or None"""
        r = self.rng
        cands = [
            f
            for f in self.slots
            if f.data_type == dtype
            and f.layout == layout
            and f.tiles.addresses[1:] == [0, 0, 0]
            and f.tiles.height_0 >= f.shape.height
            and f.tiles.width_0 >= f.shape.width
            and f.shape.height >= shape.height
            and f.shape.width >= shape.width
            and f.shape.depth >= shape.depth
            and f.shape != shape
        ]
        if not cands:
            return None
        parent = cands[-1] if r.random() < 0.6 else r.choice(cands)
        es = dtype.size_in_bytes()
        if parent.strides is not None:
            sy, sx, sc = parent.strides.height, parent.strides.width, parent.strides.depth
        elif layout == NpuLayout.NHWC:
            sc = es
            sx = parent.shape.depth * es
            sy = parent.shape.width * sx
        else:
            sx = 16 * es
            sc = sx * parent.shape.width
            sy = es * parent.shape.width * round_up(parent.shape.depth, 16)
        y0 = r.randint(0, parent.shape.height - shape.height)
        x0 = r.randint(0, parent.shape.width - shape.width)
        c0 = r.randint(0, parent.shape.depth - shape.depth)
        if layout == NpuLayout.NHCWB16:
            c0 = c0 // 16 * 16
            addr = parent.tiles.addresses[0] + y0 * sy + (c0 // 16) * sc + x0 * 16 * es
        else:
            addr = parent.tiles.addresses[0] + y0 * sy + x0 * sx + c0 * es
        fm = make_fm(shape, parent.region, addr, dtype, layout)
        fm.strides = NpuShape3D(height=sy, width=sx, depth=sc)
        self.slots.append(fm)
        return fm

    def pick_fm(self, shape, dtype, layout, reuse_prob=0.6):
        """Either an already used feature map with the same geometry, a view into a bigger one, or a new one"""
        r = self.rng
        cands = [f for f in self.slots if f.shape == shape and f.data_type == dtype and f.layout == layout]
        if cands and r.random() < reuse_prob:
            # prefer recent ones
            return cands[-1] if r.random() < 0.6 else r.choice(cands)
        if self.views and r.random() < 0.5:
            fm = self.view(shape, dtype, layout)
            if fm is not None:
                return fm
        return self.new_fm(shape, dtype, layout)

    def rand_shape(self, max_hw=8, max_d=24):
        r = self.rng
        return NpuShape3D(height=r.randint(1, max_hw), width=r.randint(1, max_hw), depth=r.choice([1, 3, 4, 8, 16, 17, max_d]))

    def rand_dtype(self):
        return self.rng.choice([NpuDataType.INT8, NpuDataType.INT8, NpuDataType.UINT8, NpuDataType.INT16])

    def rand_layout(self):
        return self.rng.choice([NpuLayout.NHWC, NpuLayout.NHWC, NpuLayout.NHCWB16])

    def const_range(self, length, region=None):
        length = round_up(length, 16)
        if region is None:
            region = self.const_region if self.rng.random() < 0.6 else self.fm_region
        limit = self.arena
        return NpuAddressRange(region, self.rng.randrange(0, max(16, limit - length), 16), length)

    # -- operations ---------------------------------------------------------------------------------------------------
    def finish(self, op):
        cfgs = npu_find_block_configs(op, self.acc)
        r = self.rng
        # small blocks make many block jobs, which is where BLOCKDEP matters
        cfgs = sorted(cfgs, key=lambda c: c.height * c.width * c.depth)
        op.block_config = cfgs[0] if r.random() < 0.5 else r.choice(cfgs)
        return op

    def maybe_lut(self, op):
        if self.rng.random() < 0.15:
            op.activation = NpuActivation(NpuActivationOp.TABLE_LOOKUP)
            op.activation.lookup_table_index = self.rng.randrange(8)

    def elementwise(self):
        r = self.rng
        dtype = self.rand_dtype()
        layout = self.rand_layout()
        shape = self.rand_shape()
        kind = r.choice(["ADD", "SUB", "MUL", "MIN", "MAX", "ABS", "LRELU"])
        op = NpuElementWiseOperation(getattr(NpuElementWiseOp, kind))
        op.ifm = self.pick_fm(shape, dtype, layout)
        if kind not in ("ABS", "LRELU"):
            mode = r.choice(["full", "full", "bcast", "scalar"])
            if mode == "full":
                op.ifm2 = self.pick_fm(shape, dtype, layout)
            elif mode == "scalar":
                op.ifm2 = make_fm(NpuShape3D(1, 1, 1), self.fm_region, 0, dtype, layout)
                op.ifm2_scalar = 3
            else:
                s2 = NpuShape3D(
                    height=1 if r.random() < 0.5 else shape.height,
                    width=1 if r.random() < 0.5 else shape.width,
                    depth=1 if r.random() < 0.5 else shape.depth,
                )
                op.ifm2 = self.pick_fm(s2, dtype, layout)
        op.ofm = self.pick_fm(shape, dtype, r.choice([layout, self.rand_layout()]), reuse_prob=0.4)
        self.maybe_lut(op)
        return self.finish(op)

    def _spatial(self, depthwise_or_pool=True):
        r = self.rng
        kw, kh = r.choice([(1, 1), (2, 2), (3, 3), (3, 1), (1, 3), (2, 3), (5, 5), (9, 1), (1, 9), (4, 10)])
        sx, sy = r.choice([(1, 1), (1, 1), (2, 2), (1, 2), (2, 1), (3, 3), (1, 3), (3, 1)])
        dx, dy = (1, 1)
        if not depthwise_or_pool or r.random() < 0.3:
            dx, dy = r.choice([(1, 1), (2, 2), (1, 2), (2, 1)])
        ow, oh = r.randint(1, 6), r.randint(1, 8)
        pl, pr = r.choice([(0, 0), (1, 0), (0, 1), (1, 1)]) if kw > 1 else (0, 0)
        pt, pb = r.choice([(0, 0), (1, 0), (0, 1), (1, 1)]) if kh > 1 else (0, 0)
        iw = (ow - 1) * sx + (kw - 1) * dx + 1 - pl - pr
        ih = (oh - 1) * sy + (kh - 1) * dy + 1 - pt - pb
        if iw < 1 or ih < 1:
            return self._spatial(depthwise_or_pool)
        return NpuKernel(kw, kh, sx, sy, dx, dy), NpuPadding(top=pt, left=pl, bottom=pb, right=pr), (iw, ih), (ow, oh)

    def maybe_upscale(self, op, iw, ih):
        """With IFM upscaling the IFM has half the size (rounded up) of what the kernel walks over"""
        if self.upscale and self.rng.random() < 0.2 and iw % 2 == 0 and ih % 2 == 0:
            op.ifm_upscale = self.rng.choice([NpuResamplingMode.NEAREST, NpuResamplingMode.TRANSPOSE])
            return iw // 2, ih // 2
        return iw, ih

    def pool(self):
        r = self.rng
        kernel, padding, (iw, ih), (ow, oh) = self._spatial()
        kernel.dilation_x = kernel.dilation_y = 1
        iw = (ow - 1) * kernel.stride_x + kernel.width - padding.left - padding.right
        ih = (oh - 1) * kernel.stride_y + kernel.height - padding.top - padding.bottom
        if iw < 1 or ih < 1:
            return self.pool()
        dtype = self.rand_dtype()
        d = r.choice([1, 4, 8, 16, 20])
        op = NpuPoolingOperation(r.choice([NpuPoolingOp.MAX, NpuPoolingOp.AVERAGE]))
        iw, ih = self.maybe_upscale(op, iw, ih)
        op.ifm = self.pick_fm(NpuShape3D(ih, iw, d), dtype, self.rand_layout())
        op.ofm = self.pick_fm(NpuShape3D(oh, ow, d), dtype, self.rand_layout(), reuse_prob=0.4)
        op.kernel = kernel
        op.padding = padding
        self.maybe_lut(op)
        return self.finish(op)

    def depthwise(self):
        r = self.rng
        kernel, padding, (iw, ih), (ow, oh) = self._spatial()
        dtype = r.choice([NpuDataType.INT8, NpuDataType.UINT8, NpuDataType.INT16])
        d = r.choice([1, 4, 8, 16, 20])
        op = NpuConvDepthWiseOperation()
        iw, ih = self.maybe_upscale(op, iw, ih)
        op.ifm = self.pick_fm(NpuShape3D(ih, iw, d), dtype, self.rand_layout())
        op.ofm = self.pick_fm(NpuShape3D(oh, ow, d), dtype, self.rand_layout(), reuse_prob=0.4)
        op.kernel = kernel
        op.padding = padding
        n = 2 if self.acc == NpuAccelerator.Ethos_U65_512 and r.random() < 0.5 else 1
        self.consts(op, n, r.choice([16, 48, 96]), 10 * d)
        self.maybe_lut(op)
        return self.finish(op)

    def conv(self):
        r = self.rng
        kernel, padding, (iw, ih), (ow, oh) = self._spatial(False)
        dtype = r.choice([NpuDataType.INT8, NpuDataType.UINT8, NpuDataType.INT16])
        di = r.choice([1, 3, 8, 16, 33, 40, 70])
        do = r.choice([1, 4, 8, 16, 24])
        op = NpuConv2DOperation()
        iw, ih = self.maybe_upscale(op, iw, ih)
        op.ifm = self.pick_fm(NpuShape3D(ih, iw, di), dtype, self.rand_layout())
        op.ofm = self.pick_fm(NpuShape3D(oh, ow, do), dtype, self.rand_layout(), reuse_prob=0.4)
        op.kernel = kernel
        op.padding = padding
        op.block_traversal = r.choice([NpuBlockTraversal.DEPTH_FIRST, NpuBlockTraversal.PART_KERNEL_FIRST])
        n = 2 if self.acc == NpuAccelerator.Ethos_U65_512 and r.random() < 0.5 else 1
        self.consts(op, n, r.choice([16, 48, 96, 208]), 10 * do)
        self.maybe_lut(op)
        return self.finish(op)

    def consts(self, op, n, wlen, blen):
        # all cores use the same region (the hardware has only one WEIGHT_REGION / SCALE_REGION register)
        op.weights = [self.const_range(wlen)]
        op.biases = [self.const_range(blen)]
        for _ in range(1, n):
            op.weights.append(self.const_range(wlen, op.weights[0].region))
            op.biases.append(self.const_range(blen, op.biases[0].region))

    def reduce_sum(self):
        r = self.rng
        dtype = r.choice([NpuDataType.INT8, NpuDataType.UINT8, NpuDataType.INT16])
        h, w = r.randint(1, 8), r.randint(1, 6)
        d = r.choice([3, 8, 16, 33, 40, 70])
        op = NpuPoolingOperation(NpuPoolingOp.REDUCE_SUM)
        op.ifm = self.pick_fm(NpuShape3D(h, w, d), dtype, NpuLayout.NHWC)
        op.ofm = self.pick_fm(NpuShape3D(h, w, 1), r.choice([dtype, NpuDataType.INT32]), self.rand_layout(), 0.4)
        op.kernel = NpuKernel(1, 1)
        op.padding = NpuPadding(0, 0, 0, 0)
        return self.finish(op)

    def int32_elementwise(self):
        r = self.rng
        shape = self.rand_shape()
        layout = self.rand_layout()
        kind = r.choice(["CLZ", "SHL", "SHR", "ADD", "MIN"])
        op = NpuElementWiseOperation(getattr(NpuElementWiseOp, kind))
        op.ifm = self.pick_fm(shape, NpuDataType.INT32, layout)
        if kind != "CLZ":
            op.ifm2 = self.pick_fm(shape, NpuDataType.INT32, layout)
        op.ofm = self.pick_fm(shape, NpuDataType.INT32, layout, reuse_prob=0.4)
        return self.finish(op)

    def dma(self):
        r = self.rng
        length = r.choice([16, 32, 64, 128, 256])
        kind = r.random()
        if kind < 0.15:
            # LUT load into the SHRAM
            banks = SHRAM_BANKS[self.acc]
            slot = r.randrange(8)
            src = NpuAddressRange(self.const_region, r.randrange(0, self.arena, 16), 256)
            dest = NpuAddressRange(MEM2MEM, banks * 1024 - 2048 + slot * 256, 256)
            return NpuDmaOperation(src, dest)
        src_region = self.const_region if r.random() < 0.5 else self.fm_region
        dst_region = self.fm_region if r.random() < 0.8 else self.const_region
        src = NpuAddressRange(src_region, r.randrange(0, self.arena - length + 1, 16), length)
        dest = NpuAddressRange(dst_region, r.randrange(0, self.arena - length + 1, 16), length)
        if self.slots and r.random() < 0.5:
            # aim at a feature map that is in use
            fm = r.choice(self.slots)
            a = fm.tiles.addresses[0] // 16 * 16
            if r.random() < 0.5:
                dest = NpuAddressRange(fm.region, a, length)
            else:
                src = NpuAddressRange(fm.region, a, length)
        return NpuDmaOperation(src, dest)

    def op_list(self, n):
        r = self.rng
        ops = []
        for _ in range(n):
            x = r.random()
            if x < 0.3:
                ops.append(self.dma())
            elif x < 0.6:
                ops.append(self.elementwise())
            elif x < 0.63:
                ops.append(self.reduce_sum())
            elif x < 0.66:
                ops.append(self.int32_elementwise())
            elif x < 0.75:
                ops.append(self.pool())
            elif x < 0.88:
                ops.append(self.depthwise())
            else:
                ops.append(self.conv())
        return ops


ALL_ACCELERATORS = list(NpuAccelerator)
_ = NpuResamplingMode

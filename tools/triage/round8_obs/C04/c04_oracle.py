"""
Independent checker for property C04:

  "Conflicting NPU/DMA accesses are always separated by a wait or block dependency"

The checker works on the EMITTED register command stream (a list of 32 bit words).  It decodes the stream with its
own opcode tables, reconstructs for every kernel / DMA operation the exact set of bytes that the hardware would read
and write (feature map tiles, strides, layouts, weights, scales, SHRAM/LUT), and then replays the stream under the
hardware execution model:

  * kernels and DMA transfers are queued in two separate in-order queues that run asynchronously;
    at most MAX_KERNELS kernels / MAX_DMA[accelerator] DMA transfers can be outstanding,
  * NPU_OP_KERNEL_WAIT n / NPU_OP_DMA_WAIT n block until at most n kernels / DMA transfers are outstanding,
  * two consecutive kernels overlap by at most the programmed BLOCKDEP: with BLOCKDEP = b, block job f (f = 0, 1, ..)
    of a kernel may execute together with the last (b - f) OFM blocks of the previous kernel.

Nothing from the code under test is used, except (optionally) the public api objects handed to the generator, which
are only used to cross-check the decoded stream and to know whether an operation has weights / biases.
"""
from collections import namedtuple

import numpy as np

# ----------------------------------------------------------------------------------------------------------------------
# Hardware facts (Ethos-U55/U65 TRM), deliberately not imported from the package under test
# ----------------------------------------------------------------------------------------------------------------------
OP_STOP, OP_IRQ, OP_CONV, OP_DEPTHWISE, OP_POOL, OP_ELEMENTWISE = 0x000, 0x001, 0x002, 0x003, 0x005, 0x006
OP_DMA_START, OP_DMA_WAIT, OP_KERNEL_WAIT, OP_PMU_MASK = 0x010, 0x011, 0x012, 0x013

C0 = dict(
    IFM_PAD_TOP=0x100,
    IFM_PAD_LEFT=0x101,
    IFM_PAD_RIGHT=0x102,
    IFM_PAD_BOTTOM=0x103,
    IFM_DEPTH_M1=0x104,
    IFM_PRECISION=0x105,
    IFM_UPSCALE=0x107,
    IFM_WIDTH0_M1=0x10A,
    IFM_HEIGHT0_M1=0x10B,
    IFM_HEIGHT1_M1=0x10C,
    IFM_IB_END=0x10D,
    IFM_REGION=0x10F,
    OFM_WIDTH_M1=0x111,
    OFM_HEIGHT_M1=0x112,
    OFM_DEPTH_M1=0x113,
    OFM_PRECISION=0x114,
    OFM_BLK_WIDTH_M1=0x115,
    OFM_BLK_HEIGHT_M1=0x116,
    OFM_BLK_DEPTH_M1=0x117,
    OFM_WIDTH0_M1=0x11A,
    OFM_HEIGHT0_M1=0x11B,
    OFM_HEIGHT1_M1=0x11C,
    OFM_REGION=0x11F,
    KERNEL_WIDTH_M1=0x120,
    KERNEL_HEIGHT_M1=0x121,
    KERNEL_STRIDE=0x122,
    PARALLEL_MODE=0x123,
    ACC_FORMAT=0x124,
    ACTIVATION=0x125,
    WEIGHT_REGION=0x128,
    SCALE_REGION=0x129,
    AB_START=0x12D,
    BLOCKDEP=0x12F,
    DMA0_SRC_REGION=0x130,
    DMA0_DST_REGION=0x131,
    IFM2_BROADCAST=0x180,
    IFM2_PRECISION=0x185,
    IFM2_WIDTH0_M1=0x18A,
    IFM2_HEIGHT0_M1=0x18B,
    IFM2_HEIGHT1_M1=0x18C,
    IFM2_IB_START=0x18D,
    IFM2_REGION=0x18F,
)
C1 = dict(
    IFM_BASE0=0x000,
    IFM_STRIDE_X=0x004,
    IFM_STRIDE_Y=0x005,
    IFM_STRIDE_C=0x006,
    OFM_BASE0=0x010,
    OFM_STRIDE_X=0x014,
    OFM_STRIDE_Y=0x015,
    OFM_STRIDE_C=0x016,
    WEIGHT_BASE=0x020,
    WEIGHT_LENGTH=0x021,
    SCALE_BASE=0x022,
    SCALE_LENGTH=0x023,
    DMA0_SRC=0x030,
    DMA0_DST=0x031,
    DMA0_LEN=0x032,
    IFM2_BASE0=0x080,
    IFM2_STRIDE_X=0x084,
    IFM2_STRIDE_Y=0x085,
    IFM2_STRIDE_C=0x086,
    WEIGHT1_BASE=0x090,
    WEIGHT1_LENGTH=0x091,
    SCALE1_BASE=0x092,
    SCALE1_LENGTH=0x093,
)

EW_UNARY_MODES = (5, 6, 7)  # LRELU, ABS, CLZ
POOL_REDUCE_SUM = 2

MAX_KERNELS = 2  # kernel operations that can be outstanding
MAX_DMA = {"u55": 1, "u65": 2}  # DMA transfers that can be outstanding
SHRAM_BANKS = {
    "ethos-u55-32": 16,
    "ethos-u55-64": 16,
    "ethos-u55-128": 24,
    "ethos-u55-256": 48,
    "ethos-u65-256": 48,
    "ethos-u65-512": 48,
}
SHRAM_BANK_BYTES = 1024
LUT_BYTES = 2048  # the activation LUT lives in the last 2 KB of the SHRAM
MAX_BLOCKDEP = 3
SHRAM = "shram"


def accel_name(accelerator) -> str:
    """'ethos-u55-128' from a string, NpuAccelerator or Accelerator enum member"""
    if isinstance(accelerator, str):
        return accelerator.lower()
    name = accelerator.name.lower().replace("_", "-")  # Ethos_U55_128
    return name


# ----------------------------------------------------------------------------------------------------------------------
# Interval sets
# ----------------------------------------------------------------------------------------------------------------------
class IntervalSet:
    """Set of bytes, kept as sorted disjoint half open intervals [start, end)"""

    __slots__ = ("s", "e")

    def __init__(self, starts=None, ends=None):
        if starts is None or len(starts) == 0:
            self.s = np.zeros(0, np.int64)
            self.e = np.zeros(0, np.int64)
            return
        s = np.asarray(starts, np.int64).ravel()
        e = np.asarray(ends, np.int64).ravel()
        keep = e > s
        s, e = s[keep], e[keep]
        order = np.argsort(s, kind="stable")
        s, e = s[order], e[order]
        if len(s) > 1:
            run_end = np.maximum.accumulate(e)
            new = np.ones(len(s), bool)
            new[1:] = s[1:] > run_end[:-1]
            idx = np.flatnonzero(new)
            s = s[idx]
            e = np.maximum.reduceat(e, idx)
        self.s, self.e = s, e

    def empty(self):
        return len(self.s) == 0

    def union(self, other):
        if other.empty():
            return self
        if self.empty():
            return other
        return IntervalSet(np.concatenate([self.s, other.s]), np.concatenate([self.e, other.e]))

    def first_overlap(self, other):
        """Returns (start, end) of an overlapping byte range, or None"""
        if self.empty() or other.empty():
            return None
        j = np.searchsorted(other.e, self.s, side="right")  # first interval of other that ends after my start
        ok = j < len(other.s)
        jj = np.minimum(j, len(other.s) - 1)
        hit = ok & (other.s[jj] < self.e)
        idx = np.flatnonzero(hit)
        if len(idx) == 0:
            return None
        i = idx[0]
        return int(max(self.s[i], other.s[jj[i]])), int(min(self.e[i], other.e[jj[i]]))

    def size(self):
        return int((self.e - self.s).sum())


class Access:
    """Bytes read and written by (part of) an operation, per address space"""

    def __init__(self):
        self.rd = {}
        self.wr = {}

    def add(self, is_write, space, iset):
        d = self.wr if is_write else self.rd
        d[space] = d[space].union(iset) if space in d else iset

    def add_range(self, is_write, space, start, length):
        self.add(is_write, space, IntervalSet([start], [start + length]))

    def merge(self, other):
        for space, iset in other.rd.items():
            self.add(False, space, iset)
        for space, iset in other.wr.items():
            self.add(True, space, iset)
        return self


def _overlap(d1, d2):
    for space in d1.keys() & d2.keys():
        ov = d1[space].first_overlap(d2[space])
        if ov is not None:
            return space, ov
    return None


def find_conflict(first: Access, second: Access, kinds=("RAW", "WAR", "WAW")):
    """first is issued before second. Returns (kind, space, (start, end)) or None"""
    if "RAW" in kinds:
        ov = _overlap(first.wr, second.rd)
        if ov:
            return ("RAW",) + ov
    if "WAR" in kinds:
        ov = _overlap(first.rd, second.wr)
        if ov:
            return ("WAR",) + ov
    if "WAW" in kinds:
        ov = _overlap(first.wr, second.wr)
        if ov:
            return ("WAW",) + ov
    return None


# ----------------------------------------------------------------------------------------------------------------------
# Decoding
# ----------------------------------------------------------------------------------------------------------------------
Event = namedtuple("Event", "kind opcode param regs0 regs1 word_index")


def decode(words):
    """Splits the stream in events; every event carries a snapshot of the register state"""
    regs0 = {}
    regs1 = {}
    events = []
    i = 0
    n = len(words)
    while i < n:
        w = int(words[i]) & 0xFFFFFFFF
        code = w & 0xFFFF
        param = (w >> 16) & 0xFFFF
        opcode = code & 0x3FF
        if code & 0x4000:
            payload = int(words[i + 1]) & 0xFFFFFFFF
            regs1[opcode] = (payload, param)
            i += 2
            continue
        if opcode < 0x100:
            if opcode in (OP_CONV, OP_DEPTHWISE, OP_POOL, OP_ELEMENTWISE):
                kind = "kernel"
            elif opcode == OP_DMA_START:
                kind = "dma"
            elif opcode == OP_DMA_WAIT:
                kind = "dma_wait"
            elif opcode == OP_KERNEL_WAIT:
                kind = "kernel_wait"
            elif opcode == OP_STOP:
                kind = "stop"
            else:
                kind = "other"
            events.append(Event(kind, opcode, param, dict(regs0), dict(regs1), i))
        else:
            regs0[opcode] = param
        i += 1
    return events


def _r0(ev, name, default=0):
    return ev.regs0.get(C0[name], default)


def _addr(ev, opcode):
    payload, param = ev.regs1.get(opcode, (0, 0))
    return payload | (param << 32)


def _a1(ev, name):
    return _addr(ev, C1[name])


class FM:
    """Feature map as the hardware sees it"""

    def __init__(self, ev, which):
        is_ofm = which == "OFM"
        prec = _r0(ev, which + "_PRECISION")
        if is_ofm:
            bits = 8 << ((prec >> 1) & 3)
        else:
            bits = 8 << ((prec >> 2) & 3)
        self.es = bits // 8
        self.nhcwb16 = ((prec >> 6) & 3) == 1
        self.region = _r0(ev, which + "_REGION") & 7
        base0 = C1[which + "_BASE0"]
        self.base = [_addr(ev, base0 + t) for t in range(4)]
        self.w0 = _r0(ev, which + "_WIDTH0_M1") + 1
        self.h0 = _r0(ev, which + "_HEIGHT0_M1") + 1
        self.h1 = _r0(ev, which + "_HEIGHT1_M1") + 1
        self.sx = _a1(ev, which + "_STRIDE_X")
        self.sy = _a1(ev, which + "_STRIDE_Y")
        self.sc = _a1(ev, which + "_STRIDE_C")
        self.space = ("mem", self.region)

    def bytes_of(self, ys, xs, c0, c1) -> IntervalSet:
        """Bytes of the elements (y, x, c) with y in ys, x in xs, c0 <= c < c1"""
        ys = np.asarray(ys, np.int64)
        xs = np.asarray(xs, np.int64)
        if len(ys) == 0 or len(xs) == 0 or c1 <= c0:
            return IntervalSet()
        yy, xx = np.meshgrid(ys, xs, indexing="ij")
        left = xx < self.w0
        upper = np.where(left, yy < self.h0, yy < self.h1)
        tile = np.where(left, 0, 1) + np.where(upper, 0, 2)
        ly = yy - np.where(upper, 0, np.where(left, self.h0, self.h1))
        lx = xx - np.where(left, 0, self.w0)
        base = np.asarray(self.base, np.int64)[tile]
        if not self.nhcwb16:
            start = base + ly * self.sy + lx * self.sx + c0 * self.es
            return IntervalSet(start, start + (c1 - c0) * self.es)
        starts, ends = [], []
        for brick in range(c0 // 16, (c1 - 1) // 16 + 1):
            lo = max(c0, brick * 16) - brick * 16
            hi = min(c1, brick * 16 + 16) - brick * 16
            a = base + ly * self.sy + brick * self.sc + lx * 16 * self.es
            starts.append((a + lo * self.es).ravel())
            ends.append((a + hi * self.es).ravel())
        return IntervalSet(np.concatenate(starts), np.concatenate(ends))


def _ceil_div(a, b):
    return -(-a // b)


class Kernel:
    """A kernel operation (conv / depthwise / pool / elementwise) reconstructed from the register state"""

    def __init__(self, ev, accel, api_op=None):
        self.ev = ev
        self.accel = accel
        self.api_op = api_op
        self.opcode = ev.opcode
        self.mode = ev.param
        self.ofm = FM(ev, "OFM")
        self.ifm = FM(ev, "IFM")
        self.ow = _r0(ev, "OFM_WIDTH_M1") + 1
        self.oh = _r0(ev, "OFM_HEIGHT_M1") + 1
        self.od = _r0(ev, "OFM_DEPTH_M1") + 1
        self.bw = _r0(ev, "OFM_BLK_WIDTH_M1") + 1
        self.bh = _r0(ev, "OFM_BLK_HEIGHT_M1") + 1
        self.bd = _r0(ev, "OFM_BLK_DEPTH_M1") + 1
        self.blockdep = _r0(ev, "BLOCKDEP")
        self.ifm_depth = _r0(ev, "IFM_DEPTH_M1") + 1
        self.is_ew = self.opcode == OP_ELEMENTWISE
        self.uses_lut = (_r0(ev, "ACTIVATION") & 0x1F) >= 16
        self.banks = SHRAM_BANKS[accel]
        self.ifm2 = None
        self.bc = (False, False, False)
        if self.is_ew:
            self.kw = self.kh = 1
            self.sx = self.sy = self.dx = self.dy = 1
            self.pt = self.pl = 0
            self.up = 1
            self.iw, self.ih = self.ow, self.oh
            bcast = _r0(ev, "IFM2_BROADCAST")
            if self.mode not in EW_UNARY_MODES and not (bcast & 0x80):
                self.ifm2 = FM(ev, "IFM2")
                self.bc = (bool(bcast & 1), bool(bcast & 2), bool(bcast & 4))  # H, W, C
        else:
            ks = _r0(ev, "KERNEL_STRIDE")
            self.sx = ((ks & 1) | (((ks >> 6) & 7) << 1)) + 1
            self.sy = (((ks >> 1) & 1) | (((ks >> 9) & 7) << 1)) + 1
            self.dx = ((ks >> 3) & 1) + 1
            self.dy = ((ks >> 4) & 1) + 1
            self.kw = _r0(ev, "KERNEL_WIDTH_M1") // self.dx + 1
            self.kh = _r0(ev, "KERNEL_HEIGHT_M1") // self.dy + 1
            self.pt, self.pl = _r0(ev, "IFM_PAD_TOP"), _r0(ev, "IFM_PAD_LEFT")
            pb, pr = _r0(ev, "IFM_PAD_BOTTOM"), _r0(ev, "IFM_PAD_RIGHT")
            self.up = 1 if _r0(ev, "IFM_UPSCALE") == 0 else 2
            # extent of the (upscaled) IFM that the hardware derives from OFM size, kernel, stride and padding
            self.iw = max(1, (self.ow - 1) * self.sx + (self.kw - 1) * self.dx + 1 - self.pl - pr)
            self.ih = max(1, (self.oh - 1) * self.sy + (self.kh - 1) * self.dy + 1 - self.pt - pb)
            if api_op is not None and api_op.ifm is not None:
                # never read more than the declared IFM (protects against inconsistent user input only)
                self.iw = min(self.iw, api_op.ifm.shape.width * self.up)
                self.ih = min(self.ih, api_op.ifm.shape.height * self.up)
        self.reduces_depth = self.opcode == OP_CONV or (self.opcode == OP_POOL and self.mode == POOL_REDUCE_SUM)
        if self.reduces_depth:
            ifm_bits = self.ifm.es * 8
            self.ifm_blk_depth = min(256 // ifm_bits, _ceil_div(self.ifm_depth, 8) * 8)
            self.depth_slices = _ceil_div(self.ifm_depth, self.ifm_blk_depth)
        else:
            self.ifm_blk_depth = None
            self.depth_slices = 1
        self.nbx = _ceil_div(self.ow, self.bw)
        self.nby = _ceil_div(self.oh, self.bh)
        self.nbz = _ceil_div(self.od, self.bd)
        self.nblocks = self.nbx * self.nby * self.nbz
        self.njobs = self.nblocks * self.depth_slices
        has_weights = self.opcode in (OP_CONV, OP_DEPTHWISE)
        has_scales = has_weights
        if api_op is not None:
            has_weights = len(api_op.weights) > 0
            has_scales = len(api_op.biases) > 0
        self.const = Access()  # weights / scales / LUT / SHRAM, accessed by every job
        dual = accel == "ethos-u65-512" and _r0(ev, "PARALLEL_MODE") == 1
        if has_weights:
            reg = ("mem", _r0(ev, "WEIGHT_REGION") & 7)
            self.const.add_range(False, reg, _a1(ev, "WEIGHT_BASE"), _a1(ev, "WEIGHT_LENGTH") & 0xFFFFFFFF)
            if dual:
                self.const.add_range(False, reg, _a1(ev, "WEIGHT1_BASE"), _a1(ev, "WEIGHT1_LENGTH") & 0xFFFFFFFF)
        if has_scales:
            reg = ("mem", _r0(ev, "SCALE_REGION") & 7)
            self.const.add_range(False, reg, _a1(ev, "SCALE_BASE"), _a1(ev, "SCALE_LENGTH") & 0xFFFFFFFF)
            if dual:
                self.const.add_range(False, reg, _a1(ev, "SCALE1_BASE"), _a1(ev, "SCALE1_LENGTH") & 0xFFFFFFFF)
        # SHRAM: banks 0-1 (OFM), the input buffers [2, IB_END) and the accumulators from AB_START on
        self.lut_start = self.banks * SHRAM_BANK_BYTES - LUT_BYTES
        self.shram_end_bank = self._shram_end_bank()
        self.const.add_range(True, SHRAM, 0, self.shram_end_bank * SHRAM_BANK_BYTES)
        if self.uses_lut:
            self.const.add_range(False, SHRAM, self.lut_start, LUT_BYTES)
        self._whole = None

    def _shram_end_bank(self):
        ib_end = _r0(self.ev, "IFM_IB_END")
        if self.is_ew:
            return ib_end
        acc_bits = {0: 32, 1: 40, 2: 16}.get(_r0(self.ev, "ACC_FORMAT") & 3, 32)
        bh = 1 if self.oh == 1 and self.kh == 1 else self.bh
        acc_bytes = self.bw * bh * (_ceil_div(self.bd, 8) * 8) * acc_bits // 8
        acc_banks = _ceil_div(acc_bytes, SHRAM_BANK_BYTES) * 2
        return max(ib_end, min(self.banks, _r0(self.ev, "AB_START") + acc_banks))

    # -- geometry -----------------------------------------------------------------------------------------------------
    def block_coords(self, index):
        """OFM block number index in hardware traversal order (depth, then width, then height)"""
        z = index % self.nbz
        x = (index // self.nbz) % self.nbx
        y = index // (self.nbz * self.nbx)
        x0, y0, z0 = x * self.bw, y * self.bh, z * self.bd
        return (x0, min(x0 + self.bw, self.ow)), (y0, min(y0 + self.bh, self.oh)), (z0, min(z0 + self.bd, self.od))

    def _ifm_index(self, o0, o1, stride, pad, k, dil, limit):
        """IFM rows (or columns) needed for the OFM rows (columns) o0 <= o < o1"""
        o = np.arange(o0, o1, dtype=np.int64)[:, None] * stride - pad
        kk = np.arange(k, dtype=np.int64)[None, :] * dil
        idx = (o + kk).ravel()
        idx = idx[(idx >= 0) & (idx < limit)]
        return np.unique(idx // self.up)

    def area_access(self, xr, yr, zr, depth_slice=None, with_write=True) -> Access:
        """Bytes read/written to produce the OFM volume xr x yr x zr"""
        acc = Access()
        if with_write:
            acc.add(True, self.ofm.space, self.ofm.bytes_of(np.arange(*yr), np.arange(*xr), zr[0], zr[1]))
        if self.is_ew:
            ys, xs = np.arange(*yr), np.arange(*xr)
            c0, c1 = zr
            acc.add(False, self.ifm.space, self.ifm.bytes_of(ys, xs, c0, min(c1, self.ifm_depth)))
            if self.ifm2 is not None:
                bh, bw, bc = self.bc
                ys2 = np.zeros(1, np.int64) if bh else ys
                xs2 = np.zeros(1, np.int64) if bw else xs
                z2 = (0, 1) if bc else zr
                acc.add(False, self.ifm2.space, self.ifm2.bytes_of(ys2, xs2, z2[0], z2[1]))
            return acc
        ys = self._ifm_index(yr[0], yr[1], self.sy, self.pt, self.kh, self.dy, self.ih)
        xs = self._ifm_index(xr[0], xr[1], self.sx, self.pl, self.kw, self.dx, self.iw)
        if self.reduces_depth:
            if depth_slice is None:
                c0, c1 = 0, self.ifm_depth
            else:
                c0 = depth_slice * self.ifm_blk_depth
                c1 = min(self.ifm_depth, c0 + self.ifm_blk_depth)
        else:
            c0, c1 = zr[0], min(zr[1], self.ifm_depth)
        acc.add(False, self.ifm.space, self.ifm.bytes_of(ys, xs, c0, c1))
        return acc

    def whole(self) -> Access:
        if self._whole is None:
            acc = self.area_access((0, self.ow), (0, self.oh), (0, self.od))
            acc.merge(self.const)
            self._whole = acc
        return self._whole

    def block_access(self, index, with_const=True) -> Access:
        """Everything that is read / written while OFM block 'index' is produced"""
        xr, yr, zr = self.block_coords(index)
        acc = self.area_access(xr, yr, zr)
        return acc.merge(self.const) if with_const else acc

    def job_access(self, job, with_const=True) -> Access:
        """Block job number 'job' (an OFM block is produced by depth_slices consecutive jobs)"""
        xr, yr, zr = self.block_coords(job // self.depth_slices)
        ds = job % self.depth_slices if self.reduces_depth else None
        # the OFM block is written when its last job has finished
        with_write = (job % self.depth_slices) == self.depth_slices - 1
        acc = self.area_access(xr, yr, zr, ds, with_write)
        return acc.merge(self.const) if with_const else acc

    def describe(self):
        names = {OP_CONV: "CONV", OP_DEPTHWISE: "DEPTHWISE", OP_POOL: "POOL", OP_ELEMENTWISE: "ELEMENTWISE"}
        return f"{names[self.opcode]}(ofm {self.oh}x{self.ow}x{self.od}, blk {self.bh}x{self.bw}x{self.bd})"


class Dma:
    def __init__(self, ev):
        self.ev = ev
        src_region = _r0(ev, "DMA0_SRC_REGION")
        dst_region = _r0(ev, "DMA0_DST_REGION")
        self.length = _a1(ev, "DMA0_LEN")
        self.src = _a1(ev, "DMA0_SRC")
        self.dst = _a1(ev, "DMA0_DST")
        self.src_space = SHRAM if src_region & 0x100 else ("mem", src_region & 7)
        self.dst_space = SHRAM if dst_region & 0x100 else ("mem", dst_region & 7)
        acc = Access()
        acc.add_range(False, self.src_space, self.src, self.length)
        acc.add_range(True, self.dst_space, self.dst, self.length)
        self._acc = acc

    def whole(self):
        return self._acc

    def describe(self):
        return f"DMA({self.src_space}:{self.src:#x} -> {self.dst_space}:{self.dst:#x}, {self.length} bytes)"


Violation = namedtuple("Violation", "category kind first second detail")


def _fmt(v):
    return f"[{v.category}] {v.kind}: op#{v.first} and op#{v.second} can be in flight together: {v.detail}"


# ----------------------------------------------------------------------------------------------------------------------
# The checker
# ----------------------------------------------------------------------------------------------------------------------
def check_stream(
    words, accelerator, npu_ops=None, kinds_blockdep=("RAW",), check_shram_lut_blockdep=True, check_transitive=False
):
    """
    Replays the command stream and returns a list of Violation.

    kinds_blockdep: the hazards that are checked between two consecutive kernels that overlap because of BLOCKDEP.
    The (asynchronous) DMA/kernel check always looks at RAW, WAR and WAW hazards.
    """
    accel = accel_name(accelerator)
    max_dma = MAX_DMA["u65" if "u65" in accel else "u55"]
    events = decode(words)
    ops = []  # (kind, object) in issue order
    violations = []
    kernels = []  # indices into ops
    dmas = []
    kernels_done = 0  # number of kernels (in issue order) that are guaranteed to have completed
    dmas_done = 0
    api_iter = iter(npu_ops) if npu_ops is not None else None
    for ev in events:
        if ev.kind == "kernel_wait":
            kernels_done = max(kernels_done, len(kernels) - (ev.param & 0xF))
        elif ev.kind == "dma_wait":
            dmas_done = max(dmas_done, len(dmas) - (ev.param & 0xF))
        elif ev.kind == "dma":
            if api_iter is not None:
                next(api_iter)
            op = Dma(ev)
            idx = len(ops)
            ops.append(op)
            # a new DMA can only be queued when at most max_dma - 1 transfers are outstanding
            dmas_done = max(dmas_done, len(dmas) + 1 - max_dma)
            for k in kernels[kernels_done:]:
                c = find_conflict(ops[k].whole(), op.whole())
                if c:
                    violations.append(
                        Violation(
                            "kernel->dma",
                            c[0],
                            k,
                            idx,
                            f"{ops[k].describe()} / {op.describe()} overlap in {c[1]} at [{c[2][0]:#x}, {c[2][1]:#x});"
                            f" no sufficient KERNEL_WAIT before the DMA",
                        )
                    )
            dmas.append(idx)
        elif ev.kind == "kernel":
            api_op = next(api_iter) if api_iter is not None else None
            op = Kernel(ev, accel, api_op)
            idx = len(ops)
            ops.append(op)
            kernels_done = max(kernels_done, len(kernels) + 1 - MAX_KERNELS)
            for d in dmas[dmas_done:]:
                c = find_conflict(ops[d].whole(), op.whole())
                if c:
                    violations.append(
                        Violation(
                            "dma->kernel",
                            c[0],
                            d,
                            idx,
                            f"{ops[d].describe()} / {op.describe()} overlap in {c[1]} at [{c[2][0]:#x}, {c[2][1]:#x});"
                            f" no sufficient DMA_WAIT before the kernel",
                        )
                    )
            if kernels and kernels[-1] >= 0:
                prev = ops[kernels[-1]]
                prev_done = kernels_done >= len(kernels)  # a KERNEL_WAIT 0 separates the two kernels
                if not prev_done:
                    violations.extend(
                        _check_blockdep(prev, kernels[-1], op, idx, kinds_blockdep, check_shram_lut_blockdep)
                    )
                    if check_transitive:
                        older = [k for k in kernels[kernels_done:-1]]
                        violations.extend(_check_transitive(ops, older, prev, op, idx, kinds_blockdep))
            kernels.append(idx)
    return violations


def _check_blockdep(prev: Kernel, pidx, cur: Kernel, cidx, kinds, check_lut):
    b = min(cur.blockdep, MAX_BLOCKDEP)
    res = []
    if b == 0:
        return res
    if check_lut and prev.uses_lut and not cur.uses_lut and cur.shram_end_bank * SHRAM_BANK_BYTES > prev.lut_start:
        res.append(
            Violation(
                "blockdep",
                "WAR",
                pidx,
                cidx,
                f"BLOCKDEP={b}: {cur.describe()} uses SHRAM up to bank {cur.shram_end_bank}, i.e. it overwrites the"
                f" activation LUT at {prev.lut_start:#x} that {prev.describe()} is still reading",
            )
        )
    data_kinds = tuple(kinds)
    # first the feature maps only, then also weights / scales (constants that the previous kernel would have produced)
    for category, with_const in (("blockdep", False), ("blockdep-weights", True)):
        for f in range(min(b, cur.njobs)):
            job = _strip_shram(cur.job_access(f, with_const))
            for k in range(min(b - f, prev.nblocks)):
                blk = _strip_shram(prev.block_access(prev.nblocks - 1 - k, with_const))
                c = find_conflict(blk, job, data_kinds)
                if c:
                    res.append(
                        Violation(
                            category,
                            c[0],
                            pidx,
                            cidx,
                            f"BLOCKDEP={b} lets block job {f} of {cur.describe()} run together with the last {b - f}"
                            f" block(s) of {prev.describe()}, but job {f} and block -{k + 1} overlap in {c[1]} at"
                            f" [{c[2][0]:#x}, {c[2][1]:#x})",
                        )
                    )
                    return res
    return res


def _check_transitive(ops, older, prev: Kernel, cur: Kernel, cidx, kinds):
    """
    BLOCKDEP = b means: a block job may start when all block jobs that are more than b jobs ahead of it in the
    (global, in-order) sequence of block jobs have completed.  If the previous kernel consists of fewer than b block
    jobs, job f of the current kernel can therefore still overlap the last blocks of the kernel BEFORE the previous one.
    """
    b = min(cur.blockdep, MAX_BLOCKDEP)
    res = []
    for f in range(min(b, cur.njobs)):
        budget = b - f - prev.njobs
        job = None
        for oidx in reversed(older):
            if budget <= 0:
                break
            old = ops[oidx]
            if job is None:
                job = _strip_shram(cur.job_access(f, False))
            for k in range(min(budget, old.nblocks)):
                blk = _strip_shram(old.block_access(old.nblocks - 1 - k, False))
                c = find_conflict(blk, job, tuple(kinds))
                if c:
                    res.append(
                        Violation(
                            "blockdep-transitive",
                            c[0],
                            oidx,
                            cidx,
                            f"BLOCKDEP={b}: only {prev.njobs} block job(s) of {prev.describe()} lie between block"
                            f" -{k + 1} of {old.describe()} and block job {f} of {cur.describe()}, which overlap in"
                            f" {c[1]} at [{c[2][0]:#x}, {c[2][1]:#x})",
                        )
                    )
                    return res
            budget -= old.njobs
    return res


def _strip_shram(acc: Access) -> Access:
    out = Access()
    out.rd = {k: v for k, v in acc.rd.items() if k != SHRAM}
    out.wr = {k: v for k, v in acc.wr.items() if k != SHRAM}
    return out


def format_violations(violations):
    return "\n".join(_fmt(v) for v in violations)


def summarize_stream(words):
    """Human readable list of the operations / waits / blockdeps of a stream (for reports)"""
    out = []
    n = 0
    for ev in decode(words):
        if ev.kind == "kernel":
            out.append(f"op#{n} KERNEL opcode={ev.opcode} blockdep={_r0(ev, 'BLOCKDEP')}")
            n += 1
        elif ev.kind == "dma":
            out.append(f"op#{n} DMA_START")
            n += 1
        elif ev.kind == "dma_wait":
            out.append(f"      DMA_WAIT {ev.param & 0xF}")
        elif ev.kind == "kernel_wait":
            out.append(f"      KERNEL_WAIT {ev.param & 0xF}")
    return "\n".join(out)

# Observation 3 (unmodified tree): the Greedy allocator overlaps two live buffers when a live range of size 0 is
# present.  A zero sized range fits into the "gap" of width 0 in front of an allocation, so it is placed at the same
# address as a live buffer; in the sorted list current_allocs it then follows that buffer and the gap scan
# (current_offset = start_addr + lr.size) jumps back to the start of the buffer, so the next range is put on top of it.
# Vela's own tensors never have size 0 (Tensor.storage_size forces at least one allocation quantum), so this needs a
# caller that builds LiveRange objects itself; HillClimb and LinearAlloc handle the same input correctly.
# Run as: cd /tmp/seed8/C05 && /venv/bin/python out/observation3.py   (exit 1 = violation observed)
import os
import sys

sys.path.insert(0, os.getcwd())
sys.path.insert(0, os.path.join(os.getcwd(), "out"))

from alloc_oracle import check  # noqa: E402
from alloc_oracle import run_greedy  # noqa: E402
from alloc_oracle import run_hillclimb  # noqa: E402

# (start_time, end_time, size, alignment)
specs = [(1, 3, 16, 16), (2, 2, 0, 64), (2, 2, 16, 64), (2, 2, 16, 64)]
_, addrs, total = run_greedy(specs)
errs = check(specs, addrs, total, exact_total=False)
print("Greedy    addresses", addrs, "total", total)
for e in errs:
    print("   VIOLATION:", e)
_, addrs_hc, total_hc = run_hillclimb(specs)
print("HillClimb addresses", addrs_hc, "total", total_hc, check(specs, addrs_hc, total_hc))
sys.exit(1 if errs else 0)

# Independent oracle + helpers for the tensor allocator property (C05).
# Only builds inputs with Vela's public classes and checks the outputs with plain interval arithmetic.
import os
import sys

sys.path.insert(0, os.getcwd())

from ethosu.vela import greedy_allocation  # noqa: E402
from ethosu.vela import hillclimb_allocation  # noqa: E402
from ethosu.vela import tensor_allocation  # noqa: E402
from ethosu.vela.data_type import DataType  # noqa: E402
from ethosu.vela.live_range import LiveRangeGraph  # noqa: E402
from ethosu.vela.tensor import MemArea  # noqa: E402
from ethosu.vela.tensor import MemType  # noqa: E402
from ethosu.vela.tensor import Tensor  # noqa: E402


def make_tensor(name, size, cpu=False):
    t = Tensor([max(size, 1)], DataType.int8, name)
    t.mem_area = MemArea.Sram
    t.mem_type = MemType.Scratch
    if cpu:
        # a consumer that does not run on the NPU makes verify_alignment look at the tensor
        t.consumer_list = [None]
    return t


def make_graph(specs, cpu=False):
    """specs: list of (start_time, end_time, size, alignment) -> LiveRangeGraph with one tensor per range"""
    g = LiveRangeGraph()
    for i, (s, e, sz, al) in enumerate(specs):
        t = make_tensor("t%d" % i, sz, cpu)
        lr = g.get_or_create_range(t, al)
        lr.start_time = s
        lr.end_time = e
        lr.size = sz
    return g


def addresses_of(g):
    return [lr.tensors[0].address for lr in g.lrs]


def round_up(a, b):
    return -(-a // b) * b


def check(specs, addrs, total, exact_total=True, pad=16, shared=()):
    """Returns a list of violation strings (empty = property holds).
    shared: set of frozenset({i, j}) index pairs that are allowed (required) to share an address."""
    errs = []
    n = len(specs)
    if len(addrs) != n:
        return ["%d addresses for %d ranges" % (len(addrs), n)]
    for i, a in enumerate(addrs):
        if not isinstance(a, int) or isinstance(a, bool) or a < 0:
            errs.append("range %d %r has invalid address %r" % (i, specs[i], a))
    if errs:
        return errs
    for i in range(n):
        si, ei, zi, ali = specs[i]
        if addrs[i] % ali:
            errs.append("range %d %r at %d is not aligned to %d" % (i, specs[i], addrs[i], ali))
        for j in range(i + 1, n):
            sj, ej, zj, alj = specs[j]
            if frozenset((i, j)) in shared:
                if addrs[i] != addrs[j]:
                    errs.append("ranges %d and %d should share an address: %d vs %d" % (i, j, addrs[i], addrs[j]))
                continue
            if si <= ej and sj <= ei:  # alive at a common time step (end inclusive)
                if addrs[i] < addrs[j] + zj and addrs[j] < addrs[i] + zi:
                    errs.append(
                        "ranges %d %r @[%d,%d) and %d %r @[%d,%d) are alive together and overlap"
                        % (i, specs[i], addrs[i], addrs[i] + zi, j, specs[j], addrs[j], addrs[j] + zj)
                    )
    top = max(a + s[2] for a, s in zip(addrs, specs))
    if exact_total:
        if total != top:
            errs.append("reported total %r != highest end address %d" % (total, top))
    else:
        # Greedy / Linear pad the size of each range to the alignment / granularity in their total
        top_padded = max(a + round_up(s[2], max(pad, s[3])) for a, s in zip(addrs, specs))
        if not (top <= total <= top_padded):
            errs.append("reported total %r outside [%d, %d] (highest end / padded highest end)" % (total, top, top_padded))
    return errs


def peak(specs):
    ts = sorted(set(t for s in specs for t in (s[0], s[1])))
    return max(sum(s[2] for s in specs if s[0] <= t <= s[1]) for t in ts)


def run_greedy(specs, gran=16, cpu=False):
    g = make_graph(specs, cpu)
    total = greedy_allocation.allocate_live_ranges(g, gran)
    return g, addresses_of(g), total


def run_linear(specs, gran=16, cpu=False):
    g = make_graph(specs, cpu)
    total = tensor_allocation.linear_allocate_live_ranges(g, gran)
    return g, addresses_of(g), total


def run_hillclimb_raw(specs, max_iterations=None, mem_limit=1 << 32):
    g = make_graph(specs)
    addrs = hillclimb_allocation.allocate_live_ranges(g.lrs, max_iterations, mem_limit)
    addrs = [int(a) for a in addrs]
    total = max((a + s[2] for a, s in zip(addrs, specs)), default=0)
    return g, addrs, total


def run_hillclimb(specs, gran=16, max_iterations=None, mem_limit=1 << 32, cpu=False):
    g = make_graph(specs, cpu)
    total = tensor_allocation.hillclimb_allocate_live_ranges(g, gran, max_iterations, mem_limit)
    return g, addresses_of(g), total

# Observation 1 (unmodified tree): Greedy and LinearAlloc do not report the highest end address as their total.
# Both pad the size of every range (Greedy: to the range's alignment, LinearAlloc: to the allocation granularity), so
# the reported total is larger than the highest end address whenever the topmost range has a size that is not a
# multiple of that quantum.  HillClimb (tensor_allocation.hillclimb_allocate_live_ranges) reports the exact value, so
# the three allocators disagree about what "total" means.
# Run as: cd /tmp/seed8/C05 && /venv/bin/python out/observation1.py   (exit 1 = deviation observed)
import os
import sys

sys.path.insert(0, os.getcwd())
sys.path.insert(0, os.path.join(os.getcwd(), "out"))

from alloc_oracle import run_greedy  # noqa: E402
from alloc_oracle import run_hillclimb  # noqa: E402
from alloc_oracle import run_linear  # noqa: E402

seen = 0
for specs in ([(0, 0, 100, 16)], [(0, 1, 100, 128), (0, 1, 40, 16)]):
    for name, run in (("Greedy", run_greedy), ("LinearAlloc", run_linear), ("HillClimb", run_hillclimb)):
        _, addrs, total = run(specs)
        top = max(a + s[2] for a, s in zip(addrs, specs))
        print("%-11s ranges %s addresses %s highest end address %d reported total %d" % (name, specs, addrs, top, total))
        if total != top:
            seen += 1
print("deviations:", seen)
sys.exit(1 if seen else 0)

# Observation 4 (unmodified tree, weak): LiveRangeGraph.get_or_create_range returns the range of an equivalent tensor
# without looking at the size of the new tensor (fuse_ranges/add_tensor assert that the tensor fits, this path does
# not).  If a clone (same equivalence_id) needs more bytes than the tensor that created the range, all three
# allocators place it at the shared address with the smaller size, so its tail lies on other live buffers and above
# the reported total, and verify_allocation (which only looks at lr.tensors / lr.size) accepts that.  Whether Vela
# ever produces equivalent tensors of different storage size is doubtful (a clone normally keeps the number of bytes).
# Run as: cd /tmp/seed8/C05 && /venv/bin/python out/observation4.py   (exit 1 = overlap observed)
import os
import sys

sys.path.insert(0, os.getcwd())
sys.path.insert(0, os.path.join(os.getcwd(), "out"))

from alloc_oracle import make_tensor  # noqa: E402
from ethosu.vela import greedy_allocation  # noqa: E402
from ethosu.vela import tensor_allocation  # noqa: E402
from ethosu.vela.live_range import LiveRangeGraph  # noqa: E402

seen = 0
for name in ("Greedy", "HillClimb", "LinearAlloc"):
    g = LiveRangeGraph()
    b = make_tensor("b", 1008)
    b_clone = b.clone()
    b_clone.set_all_shapes([3008])
    c = make_tensor("c", 48)
    for t, time in ((b, 0), (b_clone, 2), (c, 2)):
        g.get_or_create_range(t).mark_usage(time)
    if name == "Greedy":
        total = greedy_allocation.allocate_live_ranges(g, 16)
        tensor_allocation.verify_allocation(g, 16)
    elif name == "HillClimb":
        total = tensor_allocation.hillclimb_allocate_live_ranges(g, 16, 10, 1 << 32)
    else:
        total = tensor_allocation.linear_allocate_live_ranges(g, 16)
    print(
        "%-11s b_clone @[%d,%d)  c @[%d,%d)  reported total %d"
        % (name, b_clone.address, b_clone.address + b_clone.storage_size(), c.address, c.address + c.storage_size(), total)
    )
    if b_clone.address < c.address + c.storage_size() and c.address < b_clone.address + b_clone.storage_size():
        seen += 1
sys.exit(1 if seen else 0)

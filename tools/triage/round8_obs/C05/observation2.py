# Observation 2 (unmodified tree): --hillclimb-max-iterations / max_iterations is not a bound on the number of search
# iterations.  OPTIONS.md: "Sets the maximum number of iterations the Hill Climb tensor allocator will run. This is a
# hard limit on the total number of iterations of the algorithm."  HillClimbAllocator.search keeps going while
# i - last_improvement_iteration < MIN_ITERATIONS_IMPROVE (500), whatever max_iterations says, so every search that
# does not reach min_required_size runs at least 500 iterations - also for max_iterations = 0, 1, 10, 100.
# (min_required_size ignores alignment, so three 100 byte ranges aligned to 128 can never reach it.)
# Run as: cd /tmp/seed8/C05 && /venv/bin/python out/observation2.py   (exit 1 = deviation observed)
import contextlib
import io
import os
import sys

sys.path.insert(0, os.getcwd())
sys.path.insert(0, os.path.join(os.getcwd(), "out"))

from alloc_oracle import run_hillclimb_raw  # noqa: E402
from ethosu.vela.hillclimb_allocation import HillClimbAllocator  # noqa: E402

calls = [0]
orig = HillClimbAllocator.allocate_indices


def counting(self, indices):
    calls[0] += 1
    return orig(self, indices)


HillClimbAllocator.allocate_indices = counting

specs = [(0, 1, 100, 128), (0, 1, 100, 128), (0, 1, 100, 128)]
seen = 0
for max_iterations in (0, 1, 10, 100):
    for mem_limit in (0, 1 << 32):
        calls[0] = 0
        with contextlib.redirect_stdout(io.StringIO()):
            run_hillclimb_raw(specs, max_iterations, mem_limit)
        trials = calls[0] - 1  # the first call is the initial heuristic allocation
        print("max_iterations=%d memory_limit=%d -> %d search iterations" % (max_iterations, mem_limit, trials))
        if trials > max_iterations:
            seen += 1
print("configurations that exceed their iteration limit:", seen)
sys.exit(1 if seen else 0)

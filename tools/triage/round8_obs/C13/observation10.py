# Observation 10 (unmodified tree): a subgraph in which no operator reads a graph input or a constant, e.g. a stateful model
# that only returns its variable (VAR_HANDLE -> READ_VARIABLE -> output, no inputs), or a custom operator without operands that
# produces the output. pass_packing.pack_into_passes() never creates the start-up pass and ends with
# "UnboundLocalError: cannot access local variable 'startup_ps' where it is not associated with a value".
import sys

import obs_util
from tflgen import O, T, single

sh = [1, 8, 8, 4]

var_read = single([T("h", [], "INT32", noquant=True), T("out", sh, "INT8")],
                  [O("VAR_HANDLE", [], ["h"], "VarHandleOptions"), O("READ_VARIABLE", ["h"], ["out"], "ReadVariableOptions")], [], ["out"])
var_read_relu = single([T("h", [], "INT32", noquant=True), T("r", sh, "INT8"), T("out", sh, "INT8")],
                       [O("VAR_HANDLE", [], ["h"], "VarHandleOptions"), O("READ_VARIABLE", ["h"], ["r"], "ReadVariableOptions"),
                        O("RELU", ["r"], ["out"])], [], ["out"])
var_read_add = single([T("in", sh, "INT8"), T("h", [], "INT32", noquant=True), T("r", sh, "INT8"), T("out", sh, "INT8")],
                      [O("VAR_HANDLE", [], ["h"], "VarHandleOptions"), O("READ_VARIABLE", ["h"], ["r"], "ReadVariableOptions"),
                       O("ADD", ["in", "r"], ["out"], "AddOptions")], ["in"], ["out"])
custom_gen = single([T("in", sh, "INT8"), T("out", sh, "INT8")], [O("CUSTOM", [], ["out"], custom_code="Generator", custom_options=[1])],
                    ["in"], ["out"])

cases = [
    ("VAR_HANDLE, READ_VARIABLE, ADD with a graph input (control)", var_read_add, []),
    ("VAR_HANDLE, READ_VARIABLE only", var_read, []),
    ("VAR_HANDLE, READ_VARIABLE, RELU", var_read_relu, []),
    ("custom operator without operands produces the output", custom_gen, []),
]
sys.exit(obs_util.run(cases))

# Observation 13 (unmodified tree, medium severity): quantisation parameters that have a scale vector but no zero_point vector
# (zero_point is an optional field of QuantizationParameters; converters normally write it, symmetric int16 files from other
# producers may leave it out). The reader keeps the quantisation with zero_point = None and many consumers subtract or convert it:
#   * CONV_2D / DEPTHWISE_CONV_2D / FULLY_CONNECTED: TypeError in TFLiteSupportedOperators.constraint_weights_limit (the
#     supported operator check itself) or AssertionError in weight_compressor.encode_weight_and_scale_tensor
#   * EXP / LOG / RSQRT / LEAKY_RELU / PRELU: TypeError while the lookup table is generated (lut.py, convert_lrelu_to_lut, convert_prelu)
#   * PAD: TypeError in tensor.create_const_tensor
#   * every other NPU operator (e.g. a plain RELU): TypeError "int() argument must be ... not 'NoneType'" in
#     high_level_command_to_npu_op.get_ifm_or_ifm2_quantization
# This script strips the zero_point vectors with the generator switch C13_STRIP=zp.
import os
import sys

os.environ["C13_STRIP"] = "zp"

import numpy as np

import obs_util
from tflgen import O, T, single

sh = [1, 8, 8, 4]
rng = np.random.default_rng(7)

conv = single([T("in", sh, "INT8"), T("w", [8, 3, 3, 4], "INT8", data=rng.integers(-127, 128, (8, 3, 3, 4)), scale=0.01),
               T("b", [8], "INT32", data=np.zeros(8), scale=0.0005), T("out", [1, 8, 8, 8], "INT8")],
              [O("CONV_2D", ["in", "w", "b"], ["out"], "Conv2DOptions", dict(Padding=0, StrideW=1, StrideH=1, DilationWFactor=1, DilationHFactor=1))],
              ["in"], ["out"])
fc = single([T("in", [1, 16], "INT8"), T("w", [8, 16], "INT8", data=rng.integers(-127, 128, (8, 16)), scale=0.01),
             T("b", [8], "INT32", data=np.zeros(8), scale=0.0005), T("out", [1, 8], "INT8")],
            [O("FULLY_CONNECTED", ["in", "w", "b"], ["out"], "FullyConnectedOptions")], ["in"], ["out"])
exp16 = single([T("in", sh, "INT16"), T("out", sh, "INT16")], [O("EXP", ["in"], ["out"], "ExpOptions")], ["in"], ["out"])
lrelu = single([T("in", sh, "INT8"), T("out", sh, "INT8")], [O("LEAKY_RELU", ["in"], ["out"], "LeakyReluOptions", dict(Alpha=0.1))], ["in"], ["out"])
pad = single([T("in", sh, "INT8"), T("p", [4, 2], "INT32", data=[[0, 0], [1, 1], [1, 1], [0, 0]]), T("out", [1, 10, 10, 4], "INT8")],
             [O("PAD", ["in", "p"], ["out"], "PadOptions")], ["in"], ["out"])
relu = single([T("in", sh, "INT8"), T("out", sh, "INT8")], [O("RELU", ["in"], ["out"])], ["in"], ["out"])
relu_f32 = single([T("in", sh, "FLOAT32"), T("out", sh, "FLOAT32")], [O("RELU", ["in"], ["out"])], ["in"], ["out"])

cases = [
    ("RELU float32, no quantisation at all (control)", relu_f32, []),
    ("RELU int8, scale without zero_point", relu, []),
    ("CONV_2D, scale without zero_point", conv, []),
    ("FULLY_CONNECTED, scale without zero_point", fc, []),
    ("EXP int16, scale without zero_point", exp16, []),
    ("LEAKY_RELU int8, scale without zero_point", lrelu, []),
    ("PAD int8, scale without zero_point", pad, []),
]
sys.exit(obs_util.run(cases))

# Shared driver for the observation scripts: runs (name, model, options) cases through the Vela command line entry point and
# reports the ones for which the compiler neither produced an output model nor a Vela error (property C13).
import os
import sys

sys.path.insert(0, os.getcwd())
sys.path.insert(0, os.path.dirname(os.path.abspath(__file__)))

import warnings

warnings.filterwarnings("ignore")

from tflgen import op_names, run_vela  # noqa: E402


def run(cases):
    bad = 0
    for name, model, opts in cases:
        r = run_vela(model, opts)
        if r.ok:
            ops = op_names(r.output_bytes) if r.output_written else None
            print(f"  ok        {name} {list(opts)}: status={r.status} operators={ops}")
        else:
            bad += 1
            print(f"  VIOLATION {name} {list(opts)}: {r.brief()}")
    if bad:
        print(f"FAIL: {bad} of {len(cases)} cases end in an internal exception on this tree")
        return 1
    print("PASS: no violation reproduced")
    return 0

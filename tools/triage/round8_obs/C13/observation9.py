# Observation 9 (unmodified tree): a constant tensor of type INT4 (TensorType 17, used for 4-bit weights since TFLite 2.13).
# tflite_mapping.datatype_map knows INT4 but datatype_map_numpy has no row for it, so TFLiteSubgraph.parse_tensor raises
# "KeyError: 17"; KeyError is not one of the exceptions the reader converts into an "Invalid tflite file" message.
# An INT4 tensor without data (a graph input) is read without problems.
import sys

import numpy as np

import obs_util
import tflgen
from tflgen import O, T, single

tflgen.NP_TYPES["INT4"] = np.int8  # two 4-bit values per byte: 8 bytes for the 16 weights below


def fc(const_weights):
    tens = [T("in", [1, 8], "INT8"), T("w", [2, 8], "INT4", scale=0.01, zp=0, data=np.arange(8) if const_weights else None),
            T("b", [2], "INT32", data=[0, 0], scale=0.0005), T("out", [1, 2], "INT8")]
    ins = ["in"] if const_weights else ["in", "w"]
    return single(tens, [O("FULLY_CONNECTED", ["in", "w", "b"], ["out"], "FullyConnectedOptions")], ins, ["out"])


cases = [
    ("FULLY_CONNECTED with int4 weights that are a graph input (control)", fc(False), []),
    ("FULLY_CONNECTED with constant int4 weights", fc(True), []),
]
sys.exit(obs_util.run(cases))

# Observation 8 (unmodified tree): a model that already contains an Ethos-U custom operator (the shape of a file written by
# Vela: custom code "ethos-u", custom options 01 04 01, operands command stream / flash / "<name>_scratch" / "<name>_scratch_fast"
# / IFM) followed by an operator that Vela can still place on the NPU. mark_tensors gives the existing scratch tensor the purpose
# Scratch, the new NPU subgraph gets its own scratch tensor, and tflite_writer.serialise_subgraph stops with
# "AssertionError: Multiple scratch tensors". Without the trailing operator the same file is passed through.
import sys

import numpy as np

import obs_util
from tflgen import O, T, single

sh = [1, 8, 8, 4]


def model(post):
    tens = [T("cs", [32], "UINT8", data=np.zeros(32), noquant=True), T("fl", [16], "UINT8", data=np.zeros(16), noquant=True),
            T("sg_scratch", [1024], "UINT8", noquant=True), T("sg_scratch_fast", [0], "UINT8", noquant=True),
            T("in", sh, "INT8"), T("mid", sh, "INT8"), T("out", sh, "INT8")]
    ops = [O("CUSTOM", ["cs", "fl", "sg_scratch", "sg_scratch_fast", "in"], ["mid"], custom_code="ethos-u", custom_options=[1, 4, 1])]
    if post:
        ops.append(O("TANH", ["mid"], ["out"]))
    return single(tens, ops, ["in"], ["out" if post else "mid"])


cases = [
    ("existing ethos-u operator only (control)", model(False), []),
    ("existing ethos-u operator followed by TANH", model(True), []),
]
sys.exit(obs_util.run(cases))

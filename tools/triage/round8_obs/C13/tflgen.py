# Minimal stand-alone TensorFlow Lite flatbuffer generator + Vela CLI runner used by the C13 demos/observations.
# It only uses the generated flatbuffer schema classes in ethosu/vela/tflite (plain data accessors) to build the
# input file, and ethosu.vela.vela.main() to run the compiler exactly as the command line does.
import contextlib
import importlib
import io
import os
import shutil
import sys
import tempfile
import traceback

import flatbuffers
import numpy as np

from ethosu.vela.tflite import Buffer
from ethosu.vela.tflite import Model
from ethosu.vela.tflite import Operator
from ethosu.vela.tflite import OperatorCode
from ethosu.vela.tflite import QuantizationParameters
from ethosu.vela.tflite import SubGraph
from ethosu.vela.tflite import Tensor
from ethosu.vela.tflite.BuiltinOperator import BuiltinOperator
from ethosu.vela.tflite.BuiltinOptions import BuiltinOptions
from ethosu.vela.tflite.TensorType import TensorType

NP_TYPES = {
    "FLOAT32": np.float32,
    "FLOAT16": np.float16,
    "INT32": np.int32,
    "UINT8": np.uint8,
    "INT64": np.int64,
    "INT16": np.int16,
    "INT8": np.int8,
    "BOOL": np.bool_,
    "UINT32": np.uint32,
    "UINT16": np.uint16,
    "FLOAT64": np.float64,
}


class T:
    """Tensor description"""

    def __init__(self, name, shape, dtype="INT8", scale=None, zp=None, data=None, qdim=0, variable=False, noquant=False):
        self.name = name
        self.shape = None if shape is None else list(shape)
        self.dtype = dtype
        self.scale = scale
        self.zp = zp
        self.data = data
        self.qdim = qdim
        self.variable = variable
        self.noquant = noquant
        if not noquant and scale is None and dtype in ("INT8", "UINT8", "INT16"):
            self.scale = 0.05 if dtype != "INT16" else 0.001
            self.zp = 0 if dtype != "UINT8" else 128
        if self.scale is not None and self.zp is None:
            self.zp = 0


class O:
    """Operator description"""

    def __init__(self, code, inputs, outputs, opt=None, optargs=None, custom_code=None, custom_options=None, version=1,
                 intermediates=None):
        self.code = code  # name in BuiltinOperator
        self.inputs = inputs  # list of tensor names or None (-> -1)
        self.outputs = outputs
        self.opt = opt  # name of options table, e.g. "Conv2DOptions"
        self.optargs = optargs or {}
        self.custom_code = custom_code
        self.custom_options = custom_options
        self.version = version
        self.intermediates = intermediates


def _vec(builder, start_fn, values, prepend):
    start_fn(builder, len(values))
    for v in reversed(values):
        prepend(v)
    return builder.EndVector()


def _build_options(builder, opt, optargs):
    mod = importlib.import_module("ethosu.vela.tflite." + opt)
    pending = {}
    for field, value in optargs.items():
        if isinstance(value, (list, tuple)):
            start = getattr(mod, f"{opt}Start{field}Vector")
            pending[field] = _vec(builder, start, list(value), builder.PrependInt32)
        else:
            pending[field] = value
    getattr(mod, opt + "Start")(builder)
    for field, value in pending.items():
        getattr(mod, f"{opt}Add{field}")(builder, value)
    return getattr(mod, opt + "End")(builder)


def build_model(subgraphs, description="gen", metadata=None):
    """subgraphs: list of dict(name=, tensors=[T], ops=[O], inputs=[names], outputs=[names])"""
    b = flatbuffers.Builder(1024)
    buffers = [None]  # buffer 0 is empty
    # corpus-wide transformations (all keep the file structurally valid): C13_STRIP=options,quant,names,zp
    strip = set(filter(None, os.environ.get("C13_STRIP", "").split(",")))

    # operator codes
    codes = []
    for sg in subgraphs:
        for op in sg["ops"]:
            key = (op.code, op.custom_code, op.version)
            if key not in codes:
                codes.append(key)

    sg_offsets = []
    for sg in subgraphs:
        tidx = {t.name: i for i, t in enumerate(sg["tensors"])}
        tens_offsets = []
        for t in sg["tensors"]:
            name = b.CreateString(t.name) if "names" not in strip else None
            shape = None
            if t.shape is not None:
                shape = _vec(b, Tensor.TensorStartShapeVector, t.shape, b.PrependInt32)
            q = None
            if t.scale is not None and "quant" not in strip:
                scales = list(np.atleast_1d(np.asarray(t.scale, dtype=np.float32)))
                zps = list(np.atleast_1d(np.asarray(t.zp, dtype=np.int64)))
                s_off = _vec(b, QuantizationParameters.QuantizationParametersStartScaleVector, scales, b.PrependFloat32)
                z_off = _vec(b, QuantizationParameters.QuantizationParametersStartZeroPointVector, zps, b.PrependInt64)
                QuantizationParameters.QuantizationParametersStart(b)
                QuantizationParameters.QuantizationParametersAddScale(b, s_off)
                if "zp" not in strip:
                    QuantizationParameters.QuantizationParametersAddZeroPoint(b, z_off)
                QuantizationParameters.QuantizationParametersAddQuantizedDimension(b, t.qdim)
                q = QuantizationParameters.QuantizationParametersEnd(b)
            buf_idx = 0
            if t.data is not None:
                arr = np.asarray(t.data).astype(NP_TYPES[t.dtype])
                buffers.append(arr.tobytes())
                buf_idx = len(buffers) - 1
            Tensor.TensorStart(b)
            if shape is not None:
                Tensor.TensorAddShape(b, shape)
            Tensor.TensorAddType(b, getattr(TensorType, t.dtype))
            Tensor.TensorAddBuffer(b, buf_idx)
            if name is not None:
                Tensor.TensorAddName(b, name)
            if q is not None:
                Tensor.TensorAddQuantization(b, q)
            if t.variable:
                Tensor.TensorAddIsVariable(b, True)
            tens_offsets.append(Tensor.TensorEnd(b))

        op_offsets = []
        for op in sg["ops"]:
            ins = [tidx[n] if n is not None else -1 for n in op.inputs]
            outs = [tidx[n] if n is not None else -1 for n in op.outputs]
            in_off = _vec(b, Operator.OperatorStartInputsVector, ins, b.PrependInt32)
            out_off = _vec(b, Operator.OperatorStartOutputsVector, outs, b.PrependInt32)
            inter_off = None
            if op.intermediates is not None:
                inter = [tidx[n] if n is not None else -1 for n in op.intermediates]
                inter_off = _vec(b, Operator.OperatorStartIntermediatesVector, inter, b.PrependInt32)
            opt_off = None
            if op.opt is not None and "options" not in strip:
                opt_off = _build_options(b, op.opt, op.optargs)
            cust_off = None
            if op.custom_options is not None:
                cust_off = _vec(b, Operator.OperatorStartCustomOptionsVector, list(op.custom_options), b.PrependUint8)
            Operator.OperatorStart(b)
            Operator.OperatorAddOpcodeIndex(b, codes.index((op.code, op.custom_code, op.version)))
            Operator.OperatorAddInputs(b, in_off)
            Operator.OperatorAddOutputs(b, out_off)
            if opt_off is not None:
                Operator.OperatorAddBuiltinOptionsType(b, getattr(BuiltinOptions, op.opt))
                Operator.OperatorAddBuiltinOptions(b, opt_off)
            if cust_off is not None:
                Operator.OperatorAddCustomOptions(b, cust_off)
            if inter_off is not None:
                Operator.OperatorAddIntermediates(b, inter_off)
            op_offsets.append(Operator.OperatorEnd(b))

        t_vec = _vec(b, SubGraph.SubGraphStartTensorsVector, tens_offsets, b.PrependUOffsetTRelative)
        i_vec = _vec(b, SubGraph.SubGraphStartInputsVector, [tidx[n] for n in sg["inputs"]], b.PrependInt32)
        o_vec = _vec(b, SubGraph.SubGraphStartOutputsVector, [tidx[n] for n in sg["outputs"]], b.PrependInt32)
        op_vec = _vec(b, SubGraph.SubGraphStartOperatorsVector, op_offsets, b.PrependUOffsetTRelative)
        sg_name = b.CreateString(sg.get("name", "main"))
        SubGraph.SubGraphStart(b)
        SubGraph.SubGraphAddTensors(b, t_vec)
        SubGraph.SubGraphAddInputs(b, i_vec)
        SubGraph.SubGraphAddOutputs(b, o_vec)
        SubGraph.SubGraphAddOperators(b, op_vec)
        SubGraph.SubGraphAddName(b, sg_name)
        sg_offsets.append(SubGraph.SubGraphEnd(b))

    code_offsets = []
    for code, custom_code, version in codes:
        cc = b.CreateString(custom_code) if custom_code is not None else None
        val = getattr(BuiltinOperator, code)
        OperatorCode.OperatorCodeStart(b)
        OperatorCode.OperatorCodeAddDeprecatedBuiltinCode(b, min(val, 127))
        OperatorCode.OperatorCodeAddBuiltinCode(b, val)
        if cc is not None:
            OperatorCode.OperatorCodeAddCustomCode(b, cc)
        OperatorCode.OperatorCodeAddVersion(b, version)
        code_offsets.append(OperatorCode.OperatorCodeEnd(b))

    buf_offsets = []
    for data in buffers:
        d_off = None
        if data is not None:
            b.StartVector(1, len(data), 16)
            b.head = b.head - len(data)
            b.Bytes[b.head : b.head + len(data)] = data
            d_off = b.EndVector()
        Buffer.BufferStart(b)
        if d_off is not None:
            Buffer.BufferAddData(b, d_off)
        buf_offsets.append(Buffer.BufferEnd(b))

    c_vec = _vec(b, Model.ModelStartOperatorCodesVector, code_offsets, b.PrependUOffsetTRelative)
    s_vec = _vec(b, Model.ModelStartSubgraphsVector, sg_offsets, b.PrependUOffsetTRelative)
    b_vec = _vec(b, Model.ModelStartBuffersVector, buf_offsets, b.PrependUOffsetTRelative)
    desc = b.CreateString(description)
    Model.ModelStart(b)
    Model.ModelAddVersion(b, 3)
    Model.ModelAddOperatorCodes(b, c_vec)
    Model.ModelAddSubgraphs(b, s_vec)
    Model.ModelAddDescription(b, desc)
    Model.ModelAddBuffers(b, b_vec)
    model = Model.ModelEnd(b)
    b.Finish(model, b"TFL3")
    return bytes(b.Output())


def single(tensors, ops, inputs, outputs, name="main"):
    return build_model([dict(name=name, tensors=tensors, ops=ops, inputs=inputs, outputs=outputs)])


class Result:
    def __init__(self):
        self.status = None
        self.exc = None
        self.tb = ""
        self.out = ""
        self.output_written = False
        self.output_path = None
        self.output_bytes = None

    @property
    def ok(self):
        """property C13: either (status 0 and an output file) or (non-zero status with a diagnosis), never a crash"""
        if self.exc is not None:
            return False
        if self.status == 0:
            return self.output_written
        return len(self.out.strip()) > 0

    def brief(self):
        if self.exc is not None:
            frames = [ln.strip() for ln in self.tb.splitlines() if ln.strip().startswith("File")]
            where = frames[-1] if frames else ""
            return f"internal exception {type(self.exc).__name__}: {self.exc} [{where}]"
        tail = " ".join(self.out.strip().splitlines()[-2:])[-200:]
        return f"status={self.status} output_written={self.output_written} last output: {tail!r}"

    def describe(self):
        if self.exc is not None:
            return f"internal exception {type(self.exc).__name__}: {self.exc}\n{self.tb}"
        return f"status={self.status} output_written={self.output_written}"


def run_vela(model_bytes, args=(), name="model", keep=False):
    """Writes the model to a temporary directory and runs the Vela command line driver on it."""
    res = Result()
    tmp = tempfile.mkdtemp(prefix="c13_")
    try:
        path = os.path.join(tmp, name + ".tflite")
        with open(path, "wb") as f:
            f.write(model_bytes)
        outdir = os.path.join(tmp, "output")
        buf = io.StringIO()
        with contextlib.redirect_stdout(buf), contextlib.redirect_stderr(buf):
            try:
                # imported here so that module level references to sys.stdout are captured as well
                from ethosu.vela import vela

                res.status = vela.main([path, "--output-dir", outdir] + list(args))
            except SystemExit as e:
                res.status = e.code if isinstance(e.code, int) else (0 if e.code is None else 1)
            except BaseException as e:  # noqa: B902 - this is exactly what the property forbids
                res.exc = e
                res.tb = traceback.format_exc()
        res.out = buf.getvalue()
        res.output_path = os.path.join(outdir, name + "_vela.tflite")
        res.output_written = os.path.isfile(res.output_path) and os.path.getsize(res.output_path) > 0
        if res.output_written:
            with open(res.output_path, "rb") as f:
                res.output_bytes = f.read()
    finally:
        if not keep:
            shutil.rmtree(tmp, ignore_errors=True)
    return res


def npu_op_count(model_bytes):
    """Number of ethos-u custom operators in a compiled file (read with the plain schema accessors)."""
    m = Model.Model.GetRootAsModel(bytearray(model_bytes), 0)
    n = 0
    for s in range(m.SubgraphsLength()):
        sg = m.Subgraphs(s)
        for i in range(sg.OperatorsLength()):
            code = m.OperatorCodes(sg.Operators(i).OpcodeIndex())
            if code.CustomCode() is not None and code.CustomCode() == b"ethos-u":
                n += 1
    return n


def op_names(model_bytes):
    m = Model.Model.GetRootAsModel(bytearray(model_bytes), 0)
    inv = {v: k for k, v in vars(BuiltinOperator).items() if not k.startswith("_")}
    names = []
    for s in range(m.SubgraphsLength()):
        sg = m.Subgraphs(s)
        for i in range(sg.OperatorsLength()):
            code = m.OperatorCodes(sg.Operators(i).OpcodeIndex())
            c = code.BuiltinCode() or code.DeprecatedBuiltinCode()
            if code.CustomCode() is not None:
                names.append("CUSTOM:" + code.CustomCode().decode())
            else:
                names.append(inv.get(c, str(c)))
    return names

# Observation 2 (unmodified tree): PRELU whose input and alpha broadcast against each other in both directions
# (input [1,4,1,3] with alpha [1,1,4,1], or input [3,1] with alpha [1,5]; the TFLite reference kernel supports this generic
# broadcast) is accepted for the NPU and then hits "assert ifm2.shape.height == 1" / "assert ifm2.shape.width == 1" in
# register_command_stream_generator.generate_ifm2_broadcast (int8 / uint8 / int16, constant or computed alpha, all option sets).
import sys

import numpy as np

import obs_util
from tflgen import O, T, single


def prelu(sa, sb, so, dt="INT8", const_alpha=True):
    tens = [T("in", sa, dt), T("alpha", sb, dt, scale=0.03, zp=0 if dt != "UINT8" else 3, data=(np.arange(int(np.prod(sb))).reshape(sb) % 7) - 3 if const_alpha else None),
            T("out", so, dt, scale=0.1)]
    return single(tens, [O("PRELU", ["in", "alpha"], ["out"])], ["in"] if const_alpha else ["in", "alpha"], ["out"])


cases = [
    ("PRELU [1,4,4,3] alpha [3] (control)", prelu([1, 4, 4, 3], [3], [1, 4, 4, 3]), []),
    ("PRELU [1,4,1,3] alpha [1,1,4,1]", prelu([1, 4, 1, 3], [1, 1, 4, 1], [1, 4, 4, 3]), []),
    ("PRELU [3,1] alpha [1,5]", prelu([3, 1], [1, 5], [3, 5]), []),
    ("PRELU [3,1] alpha [1,5] int16, alpha is a graph input", prelu([3, 1], [1, 5], [3, 5], "INT16", False), ["--optimise", "Size"]),
]
sys.exit(obs_util.run(cases))

# Observation 14 (unmodified tree, low severity: TFLite itself requires a [rank, 2] paddings operand): a PAD / PADV2 / MIRROR_PAD is
# fine, but a PAD whose constant paddings tensor has fewer rows than the input has dimensions (e.g. [3, 2] for a 4-D input) makes
# the semantic check itself fail: TFLiteSemantic.constraint_pad_output_shape adds arrays of different length and raises
# "ValueError: operands could not be broadcast together with shapes (4,) (3,)" instead of reporting the operator as unsupported.
import sys

import obs_util
from tflgen import O, T, single


def pad(pads, out_shape):
    tens = [T("in", [1, 4, 4, 3], "INT8"), T("pads", [len(pads), 2], "INT32", data=pads), T("out", out_shape, "INT8")]
    return single(tens, [O("PAD", ["in", "pads"], ["out"], "PadOptions")], ["in"], ["out"])


cases = [
    ("PAD with [4,2] paddings (control)", pad([[0, 0], [1, 1], [1, 1], [0, 0]], [1, 6, 6, 3]), []),
    ("PAD with [3,2] paddings on a 4-D input", pad([[1, 1], [1, 1], [0, 0]], [1, 6, 6, 3]), []),
]
sys.exit(obs_util.run(cases))

# Observation 11 (unmodified tree): a model with a second subgraph that no operator of the first subgraph calls (the layout of
# multi-signature models: every signature is a subgraph of its own) and that contains an operator for the NPU. The tensors of
# the unreferenced subgraph are never allocated, because live ranges are only collected from the root subgraph downwards, and
# the register command stream generation of its NPU subgraph ends with
# "TypeError: unsupported operand type(s) for +: 'NoneType' and 'float'" in Tensor.address_for_coordinate (tensor.address is None).
# An unreferenced subgraph that stays completely on the CPU is passed through.
import sys

import obs_util
from tflgen import O, T, build_model

sh = [1, 4, 4, 3]


def sg(name, code):
    return dict(name=name, tensors=[T("in", sh, "INT8"), T("out", sh, "INT8")], ops=[O(code, ["in"], ["out"])], inputs=["in"], outputs=["out"])


cases = [
    ("one subgraph (control)", build_model([sg("main", "RELU")]), []),
    ("main + unreferenced subgraph with a CPU operator (control)", build_model([sg("main", "RELU"), sg("second", "FLOOR")]), []),
    ("main + unreferenced subgraph with an NPU operator", build_model([sg("main", "RELU"), sg("second", "TANH")]), []),
    ("CPU-only main + unreferenced subgraph with an NPU operator", build_model([sg("main", "FLOOR"), sg("second", "TANH")]), ["--optimise", "Size"]),
]
sys.exit(obs_util.run(cases))

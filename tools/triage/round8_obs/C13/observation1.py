# Observation 1 (unmodified tree): RESIZE_NEAREST_NEIGHBOR with align_corners=True and an upscaling of 2x / 4x computed the
# align_corners way ((out - 1) / (in - 1)), e.g. 4x4 -> 7x7, 3x3 -> 5x5, 2x2 -> 3x3, 4x4 -> 13x13, passes every supported
# operator check and then dies in tflite_graph_optimiser.convert_resizenn_ac_to_depthwise_conv with
# "ValueError: cannot reshape array of size 16 into shape (4,4,3,3)" (int8, uint8 and int16, every accelerator / option set).
import sys

import obs_util
from tflgen import O, T, single


def resize(src, size, dt="INT8", align_corners=True, half_pixel=False):
    tens = [T("in", src, dt), T("size", [2], "INT32", data=size), T("out", [src[0]] + list(size) + [src[3]], dt)]
    op = O("RESIZE_NEAREST_NEIGHBOR", ["in", "size"], ["out"], "ResizeNearestNeighborOptions",
           dict(AlignCorners=align_corners, HalfPixelCenters=half_pixel))
    return single(tens, [op], ["in"], ["out"])


cases = [
    ("4x4 -> 8x8 align_corners=False (control)", resize([1, 4, 4, 3], [8, 8], align_corners=False), []),
    ("4x4 -> 7x7 align_corners", resize([1, 4, 4, 3], [7, 7]), []),
    ("2x2 -> 3x3 align_corners", resize([1, 2, 2, 3], [3, 3]), []),
    ("3x3 -> 5x5 align_corners uint8", resize([1, 3, 3, 3], [5, 5], "UINT8"), []),
    ("4x4 -> 13x13 align_corners int16", resize([1, 4, 4, 3], [13, 13], "INT16"), ["--accelerator-config", "ethos-u55-128"]),
]
sys.exit(obs_util.run(cases))

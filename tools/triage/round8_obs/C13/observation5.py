# Observation 5 (unmodified tree): a UNIDIRECTIONAL_SEQUENCE_LSTM (int8 or int16, 1 batch, 3 time steps, 4 features, 5 units - or
# 1/1/1/1) compiles with the default options, but dies with "AssertionError: Tensors assigned to the same LiveRange need to fit
# the size of the LiveRange." (live_range.py LiveRange.add_tensor, reached from the Memcpy branch of _get_ifm_to_fuse) with
# --optimise Size, or for the Ethos-U55 configurations (ethos-u55-32, ethos-u55-64, ethos-u55-128, ethos-u55-256).
import sys

import numpy as np

import obs_util
from tflgen import O, T, single

rng = np.random.default_rng(1)


def lstm(b=1, t=3, f=4, o=5, dt="INT8"):
    def w(shape):
        return rng.integers(-127, 128, shape)

    tens = [T("in", [b, t, f], dt)]
    for nm in ("wi", "wf", "wc", "wo"):
        tens.append(T(nm, [o, f], "INT8", data=w([o, f]), scale=0.01))
    for nm in ("ri", "rf", "rc", "ro"):
        tens.append(T(nm, [o, o], "INT8", data=w([o, o]), scale=0.01))
    for nm in ("bi", "bf", "bc", "bo"):
        tens.append(T(nm, [o], "INT32", data=w([o]), scale=0.0001))
    tens += [T("os", [b, o], dt, variable=True), T("cs", [b, o], "INT16", variable=True, scale=2 ** -11, zp=0)]
    for k in range(4):
        tens.append(T(f"im{k}", [], "INT16", scale=0.001, zp=0))
    tens.append(T("im4", [], "INT8", scale=0.001, zp=0))
    tens.append(T("out", [b, t, o], dt))
    ins = ["in", "wi", "wf", "wc", "wo", "ri", "rf", "rc", "ro", None, None, None, "bi", "bf", "bc", "bo", None, None,
           "os", "cs", None, None, None, None]
    op = O("UNIDIRECTIONAL_SEQUENCE_LSTM", ins, ["out"], "UnidirectionalSequenceLSTMOptions",
           dict(TimeMajor=False, FusedActivationFunction=4), intermediates=[f"im{k}" for k in range(5)])
    return single(tens, [op], ["in"], ["out"])


cases = [
    ("LSTM 1x3x4 -> 5, default options (control)", lstm(), []),
    ("LSTM 1x3x4 -> 5, --optimise Size", lstm(), ["--optimise", "Size"]),
    ("LSTM 1x3x4 -> 5, ethos-u55-128", lstm(), ["--accelerator-config", "ethos-u55-128"]),
    ("LSTM int16 1x1x1 -> 1, ethos-u55-32", lstm(1, 1, 1, 1, "INT16"), ["--accelerator-config", "ethos-u55-32"]),
]
sys.exit(obs_util.run(cases))

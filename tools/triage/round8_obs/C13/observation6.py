# Observation 6 (unmodified tree): degenerate but structurally valid quantisation parameters reach the code generator.
# The semantic checks only reject infinite scales (and an OFM scale below the smallest normal float32); NaN, zero, negative and
# very large scales are accepted and end in ValueError / ZeroDivisionError / AssertionError / "negative shift count":
#   * IFM scale NaN or 0.0 on TANH (int8/uint8/int16), MUL with a NaN input scale, ADD with a NaN output scale
#   * IFM scale 1e30 or NaN on AVERAGE_POOL_2D
#   * one NaN or one negative entry in the per-channel weight scales of a CONV_2D
import sys

import numpy as np

import obs_util
from tflgen import O, T, single

sh = [1, 8, 8, 4]
rng = np.random.default_rng(2)


def tanh(scale, dt="INT8"):
    return single([T("in", sh, dt, scale=scale), T("out", sh, dt)], [O("TANH", ["in"], ["out"])], ["in"], ["out"])


def mul(scale):
    tens = [T("a", sh, "INT8", scale=scale), T("b", sh, "INT8"), T("out", sh, "INT8")]
    return single(tens, [O("MUL", ["a", "b"], ["out"], "MulOptions")], ["a", "b"], ["out"])


def add_out(scale):
    tens = [T("a", sh, "INT8"), T("b", sh, "INT8"), T("out", sh, "INT8", scale=scale)]
    return single(tens, [O("ADD", ["a", "b"], ["out"], "AddOptions")], ["a", "b"], ["out"])


def pool(scale):
    args = dict(Padding=1, StrideW=2, StrideH=2, FilterWidth=2, FilterHeight=2)
    tens = [T("a", sh, "INT8", scale=scale), T("out", [1, 4, 4, 4], "INT8")]
    return single(tens, [O("AVERAGE_POOL_2D", ["a"], ["out"], "Pool2DOptions", args)], ["a"], ["out"])


def conv(scales):
    oc = len(scales)
    tens = [T("in", sh, "INT8"), T("w", [oc, 3, 3, 4], "INT8", data=rng.integers(-127, 128, (oc, 3, 3, 4)), scale=scales, zp=np.zeros(oc)),
            T("b", [oc], "INT32", data=np.arange(oc), scale=np.full(oc, 0.0005), zp=np.zeros(oc)), T("out", [1, 8, 8, oc], "INT8")]
    args = dict(Padding=0, StrideW=1, StrideH=1, DilationWFactor=1, DilationHFactor=1)
    return single(tens, [O("CONV_2D", ["in", "w", "b"], ["out"], "Conv2DOptions", args)], ["in"], ["out"])


cases = [
    ("TANH, IFM scale inf (control: rejected by the semantic check)", tanh(np.inf), []),
    ("TANH, IFM scale NaN", tanh(np.nan), []),
    ("TANH, IFM scale 0.0", tanh(0.0), []),
    ("TANH int16, IFM scale -1.0", tanh(-1.0, "INT16"), []),
    ("MUL, IFM scale NaN", mul(np.nan), []),
    ("ADD, OFM scale NaN", add_out(np.nan), []),
    ("AVERAGE_POOL_2D, IFM scale 1e30", pool(1e30), []),
    ("AVERAGE_POOL_2D, IFM scale NaN", pool(np.nan), []),
    ("CONV_2D, per-channel weight scales with one NaN", conv([0.01] * 7 + [np.nan]), []),
    ("CONV_2D, per-channel weight scales with one negative entry", conv([0.01] * 7 + [-0.01]), []),
]
sys.exit(obs_util.run(cases))

# Observation 4 (unmodified tree): CONCATENATION with a fused activation function (RELU), two inputs, compiled for any
# Ethos-U55 configuration (e.g. --accelerator-config ethos-u55-32 / ethos-u55-128 / ethos-u55-256) dies with an AssertionError at
# scheduler.py build_cascades_for_min_schedule ("assert non_local_mem_usage[sched_op] >= 0"). The same model compiles for the
# default ethos-u65-256. Seen for int8 / uint8 / int16, axis 1 or 3, equal or different input scales.
import sys

import obs_util
from tflgen import O, T, single


def concat(dt="INT8", act=1, axis=3):
    shp = [1, 4, 4, 3]
    out = list(shp)
    out[axis] *= 2
    tens = [T("a", shp, dt), T("b", shp, dt), T("out", out, dt)]
    op = O("CONCATENATION", ["a", "b"], ["out"], "ConcatenationOptions", dict(Axis=axis, FusedActivationFunction=act))
    return single(tens, [op], ["a", "b"], ["out"])


cases = [
    ("concat + RELU, default accelerator (control)", concat(), []),
    ("concat without activation, ethos-u55-128 (control)", concat(act=0), ["--accelerator-config", "ethos-u55-128"]),
    ("concat + RELU, ethos-u55-128", concat(), ["--accelerator-config", "ethos-u55-128"]),
    ("concat + RELU int16 axis 1, ethos-u55-32", concat("INT16", axis=1), ["--accelerator-config", "ethos-u55-32"]),
    ("concat + RELU, ethos-u55-256", concat(), ["--accelerator-config", "ethos-u55-256"]),
]
sys.exit(obs_util.run(cases))

# Runs the C13 oracle (compile or diagnose, never crash) over the corpus with several option sets.
# usage: python out/fuzz.py [groups=unary,binary,...] [opts=0,1,..] [filter=substr] [jobs=N]
import os
import sys

sys.path.insert(0, os.getcwd())
sys.path.insert(0, os.path.dirname(os.path.abspath(__file__)))

import collections
import multiprocessing
import re
import warnings

warnings.filterwarnings("ignore")

OPTION_SETS = [
    [],
    ["--optimise", "Size"],
    ["--accelerator-config", "ethos-u55-32"],
    ["--accelerator-config", "ethos-u55-128", "--config", "Arm/vela.ini", "--system-config", "Ethos_U55_High_End_Embedded", "--memory-mode", "Shared_Sram"],
    ["--accelerator-config", "ethos-u65-512", "--config", "Arm/vela.ini", "--system-config", "Ethos_U65_High_End", "--memory-mode", "Dedicated_Sram"],
    ["--verbose-all", "--show-cpu-operations", "--show-subgraph-io-summary", "--timing"],
    ["--tensor-allocator", "Greedy", "--enable-debug-db", "--cpu-tensor-alignment", "128"],
    ["--tensor-allocator", "LinearAlloc", "--force-symmetric-int-weights", "--max-block-dependency", "0"],
    ["--accelerator-config", "ethos-u55-64", "--arena-cache-size", "2048", "--subgraph-output"],
    ["--accelerator-config", "ethos-u55-256", "--config", "Arm/vela.ini", "--system-config", "Ethos_U55_High_End_Embedded", "--memory-mode", "Sram_Only", "--optimise", "Size"],
]


def work(item):
    name, model, opt_idx = item
    from tflgen import run_vela

    import time

    t0 = time.time()
    try:
        r = run_vela(model, OPTION_SETS[opt_idx])
    except BaseException as e:  # noqa
        return name, opt_idx, False, f"harness: {type(e).__name__}: {e}", "", 0
    el = time.time() - t0
    sig = ""
    if r.exc is not None:
        tb = r.tb.strip().splitlines()
        loc = [ln.strip() for ln in tb if ln.strip().startswith("File")]
        sig = f"{type(r.exc).__name__}: {str(r.exc)[:100]} @ {loc[-1] if loc else ''}"
    elif not r.ok:
        sig = f"status={r.status} written={r.output_written} out={r.out[-200:]!r}"
    return name, opt_idx, r.ok, sig, r.tb, el


def main():
    args = dict(a.split("=", 1) for a in sys.argv[1:])
    groups = args.get("groups", "").split(",") if args.get("groups") else None
    opts = [int(x) for x in args.get("opts", "0").split(",")]
    flt = args.get("filter")
    jobs = int(args.get("jobs", "8"))
    import corpus

    items = []
    for name, m in corpus.all_models(groups):
        if flt and not re.search(flt, name):
            continue
        for o in opts:
            items.append((name, m, o))
    print(f"{len(items)} runs")
    fails = collections.defaultdict(list)
    tbs = {}
    slow = []
    results = {}
    with multiprocessing.Pool(jobs, maxtasksperchild=200) as pool:
        for i, (name, o, ok, sig, tb, el) in enumerate(pool.imap_unordered(work, items, chunksize=4)):
            slow.append((el, name, o))
            results[f"{name}|{o}"] = re.sub(r"/\S*/ethosu/", "ethosu/", sig)
            if not ok:
                key = re.sub(r"\d+", "N", sig.split(" @ ")[0])[:80] + " @ " + (sig.split(" @ ")[1] if " @ " in sig else "")
                fails[key].append((name, o))
                tbs.setdefault(key, tb)
    if args.get("json"):
        import json

        with open(args["json"], "w") as f:
            json.dump(results, f, indent=0, sort_keys=True)
    print("slowest:", sorted(slow)[-5:])
    print(f"{sum(len(v) for v in fails.values())} failing runs in {len(fails)} classes")
    for key, lst in sorted(fails.items(), key=lambda kv: -len(kv[1])):
        print("=" * 100)
        print(key, len(lst))
        print("  e.g.", lst[:6])
        print("\n".join(tbs[key].strip().splitlines()[-8:]))


if __name__ == "__main__":
    main()

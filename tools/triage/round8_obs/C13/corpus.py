# Corpus of structurally valid TFLite models for the C13 totality oracle (used by fuzz.py and the observations).
import itertools

import numpy as np

from tflgen import O
from tflgen import T
from tflgen import single
from tflgen import build_model

rng = np.random.default_rng(1234)

SHAPES = [[], [1], [7], [1, 1], [3, 5], [1, 4, 4, 3], [2, 4, 4, 3], [1, 1, 1, 1], [1, 7, 1, 13], [1, 2, 3, 4, 5],
          [2, 1, 3, 1, 5], [4, 6, 8], [1, 1, 1, 70000 // 7], [1, 9, 9, 17]]
DTYPES = ["INT8", "UINT8", "INT16", "INT32", "FLOAT32", "INT64", "BOOL", "FLOAT16"]


def rdata(shape, dtype):
    n = int(np.prod(shape)) if len(shape) else 1
    if dtype.startswith("FLOAT"):
        return rng.normal(size=n).reshape(shape)
    if dtype == "BOOL":
        return rng.integers(0, 2, n).reshape(shape)
    lo, hi = {"INT8": (-128, 127), "UINT8": (0, 255), "INT16": (-32768, 32767)}.get(dtype, (-1000, 1000))
    return rng.integers(lo, hi + 1, n).reshape(shape)


UNARY = [
    ("ABS", "AbsOptions"), ("RELU", None), ("RELU6", None), ("RELU_N1_TO_1", None), ("RELU_0_TO_1", None), ("TANH", None),
    ("LOGISTIC", None), ("HARD_SWISH", "HardSwishOptions"), ("EXP", "ExpOptions"), ("LOG", None), ("SQRT", None),
    ("RSQRT", None), ("NEG", "NegOptions"), ("QUANTIZE", "QuantizeOptions"), ("DEQUANTIZE", "DequantizeOptions"),
    ("FLOOR", None), ("CEIL", None), ("ROUND", None), ("SIN", None), ("COS", "CosOptions"), ("SQUARE", "SquareOptions"),
    ("ZEROS_LIKE", "ZerosLikeOptions"), ("LOGICAL_NOT", "LogicalNotOptions"), ("ELU", None), ("SIGN", "SignOptions"),
    ("L2_NORMALIZATION", "L2NormOptions"), ("LOG_SOFTMAX", "LogSoftmaxOptions"), ("GELU", "GeluOptions"),
]
UNARY_ARGS = [
    ("LEAKY_RELU", "LeakyReluOptions", dict(Alpha=0.1)), ("LEAKY_RELU", "LeakyReluOptions", dict(Alpha=-0.5)),
    ("LEAKY_RELU", "LeakyReluOptions", dict(Alpha=1.5)), ("LEAKY_RELU", "LeakyReluOptions", dict(Alpha=0.0)),
    ("SOFTMAX", "SoftmaxOptions", dict(Beta=1.0)), ("SOFTMAX", "SoftmaxOptions", dict(Beta=0.0)),
    ("SOFTMAX", "SoftmaxOptions", dict(Beta=100.0)),
]


def unary_models(shapes=SHAPES, dtypes=DTYPES):
    for (code, opt), shape, dt in itertools.product(UNARY, shapes, dtypes):
        odt = dt
        if code == "DEQUANTIZE":
            odt = "FLOAT32"
        tens = [T("in", shape, dt), T("out", shape, odt)]
        yield f"un_{code}_{dt}_{'x'.join(map(str, shape))}", single(tens, [O(code, ["in"], ["out"], opt)], ["in"], ["out"])
    for (code, opt, args), shape, dt in itertools.product(UNARY_ARGS, shapes, dtypes):
        tens = [T("in", shape, dt), T("out", shape, dt)]
        yield (f"una_{code}_{list(args.values())[0]}_{dt}_{'x'.join(map(str, shape))}",
               single(tens, [O(code, ["in"], ["out"], opt, args)], ["in"], ["out"]))
    # quantize between types
    for a, bb in itertools.permutations(["INT8", "UINT8", "INT16", "INT32", "FLOAT32"], 2):
        for shape in ([1, 4, 4, 3], [5], []):
            tens = [T("in", shape, a, scale=0.1 if a != "FLOAT32" else None), T("out", shape, bb, scale=0.07 if bb != "FLOAT32" else None)]
            yield f"q_{a}_{bb}_{len(shape)}", single(tens, [O("QUANTIZE", ["in"], ["out"], "QuantizeOptions")], ["in"], ["out"])
            yield f"cast_{a}_{bb}_{len(shape)}", single(tens, [O("CAST", ["in"], ["out"], "CastOptions")], ["in"], ["out"])


BINARY = [
    ("ADD", "AddOptions"), ("SUB", "SubOptions"), ("MUL", "MulOptions"), ("DIV", "DivOptions"),
    ("MINIMUM", "MaximumMinimumOptions"), ("MAXIMUM", "MaximumMinimumOptions"),
    ("SQUARED_DIFFERENCE", "SquaredDifferenceOptions"), ("POW", "PowOptions"), ("FLOOR_DIV", "FloorDivOptions"),
    ("FLOOR_MOD", "FloorModOptions"), ("LESS", "LessOptions"), ("GREATER", "GreaterOptions"), ("EQUAL", "EqualOptions"),
    ("LOGICAL_AND", "LogicalAndOptions"), ("PRELU", None), ("RIGHT_SHIFT", "RightShiftOptions"),
    ("BITWISE_XOR", "BitwiseXorOptions"),
]
BSHAPES = [([1, 4, 4, 3], [1, 4, 4, 3]), ([1, 4, 4, 3], [3]), ([1, 4, 4, 3], []), ([], [1, 4, 4, 3]), ([], []),
           ([1, 4, 1, 3], [1, 1, 4, 1]), ([2, 4, 4, 3], [1, 4, 4, 3]), ([5], [5]), ([5], [1]), ([3, 1], [1, 5]),
           ([1, 2, 3, 4, 5], [5]), ([1, 2, 3, 4, 5], [1, 2, 3, 4, 5]), ([1, 2, 3, 4, 5], [2, 1, 1, 5]),
           ([1, 1, 1, 1], [1, 3, 3, 2]), ([4, 1, 1], [1, 4, 4, 3]), ([1], [1, 1, 1, 8]), ([1, 1, 8], [2, 1, 4, 1])]


def bshape(a, b):
    n = max(len(a), len(b))
    aa = [1] * (n - len(a)) + list(a)
    bb = [1] * (n - len(b)) + list(b)
    return [max(x, y) for x, y in zip(aa, bb)]


def binary_models(dtypes=DTYPES):
    for (code, opt), (sa, sb), dt in itertools.product(BINARY, BSHAPES, dtypes):
        odt = dt if code not in ("LESS", "GREATER", "EQUAL") else "BOOL"
        for const in (None, "b", "a"):
            for act in (0, 1, 3, 4):
                if act and (opt not in ("AddOptions", "SubOptions", "MulOptions", "DivOptions") or const):
                    continue
                tens = [T("a", sa, dt, data=rdata(sa, dt) if const == "a" else None),
                        T("b", sb, dt, scale=0.03 if dt in ("INT8", "UINT8", "INT16") else None, zp=0 if dt != "UINT8" else 3,
                          data=rdata(sb, dt) if const == "b" else None),
                        T("out", bshape(sa, sb), odt, scale=0.1 if odt in ("INT8", "UINT8", "INT16") else None)]
                args = dict(FusedActivationFunction=act) if act else None
                ins = [n for n in ("a", "b") if n != const]
                yield (f"bin_{code}_{dt}_{'x'.join(map(str, sa))}_{'x'.join(map(str, sb))}_c{const}_a{act}",
                       single(tens, [O(code, ["a", "b"], ["out"], opt, args)], ins, ["out"]))
    # same tensor twice
    for code, opt in BINARY[:7]:
        for dt in ("INT8", "INT16", "INT32"):
            tens = [T("a", [1, 4, 4, 3], dt), T("out", [1, 4, 4, 3], dt)]
            yield f"bin_same_{code}_{dt}", single(tens, [O(code, ["a", "a"], ["out"], opt)], ["a"], ["out"])


def conv_models():
    for dt, wdt in (("INT8", "INT8"), ("UINT8", "UINT8"), ("INT16", "INT8"), ("FLOAT32", "FLOAT32"), ("INT8", "INT16"),
                    ("INT16", "INT16"), ("INT32", "INT8")):
        for (n, h, w, c), (kh, kw), oc, (sh, sw), (dh, dw), pad in [
            ((1, 8, 8, 4), (3, 3), 8, (1, 1), (1, 1), 0), ((1, 8, 8, 4), (3, 3), 8, (2, 2), (1, 1), 1),
            ((1, 8, 8, 4), (1, 1), 1, (1, 1), (1, 1), 0), ((2, 8, 8, 4), (3, 3), 8, (1, 1), (1, 1), 0),
            ((1, 1, 1, 1), (1, 1), 1, (1, 1), (1, 1), 1), ((1, 9, 7, 3), (5, 3), 7, (3, 2), (1, 1), 0),
            ((1, 16, 16, 4), (3, 3), 8, (1, 1), (2, 2), 0), ((1, 16, 16, 4), (3, 3), 8, (1, 1), (3, 3), 0),
            ((1, 16, 16, 4), (3, 3), 8, (1, 1), (4, 1), 1), ((1, 70, 70, 2), (65, 65), 2, (1, 1), (1, 1), 1),
            ((1, 8, 8, 4), (3, 3), 8, (4, 4), (1, 1), 0), ((1, 8, 8, 4), (8, 8), 3, (1, 1), (1, 1), 1),
            ((1, 3, 300, 2), (1, 9), 3, (1, 3), (1, 1), 0), ((1, 4, 4, 600), (1, 1), 5, (1, 1), (1, 1), 0),
            ((1, 8, 8, 4), (2, 2), 8, (1, 1), (1, 1), 0), ((1, 8, 8, 4), (2, 2), 8, (2, 2), (1, 1), 1),
        ]:
            if pad == 0:  # SAME
                oh, ow = -(-h // sh), -(-w // sw)
            else:
                oh, ow = (h - (kh - 1) * dh - 1) // sh + 1, (w - (kw - 1) * dw - 1) // sw + 1
            if oh < 1 or ow < 1:
                continue
            for peraxis, bias in ((False, True), (True, True), (False, False), (False, None)):
                wq = dict(scale=0.01) if not peraxis else dict(scale=np.linspace(0.01, 0.02, oc), zp=np.zeros(oc), qdim=0)
                if wdt == "FLOAT32":
                    wq = {}
                bdt = {"INT8": "INT32", "UINT8": "INT32", "INT16": "INT64", "FLOAT32": "FLOAT32", "INT32": "INT32"}[dt]
                tens = [T("in", [n, h, w, c], dt), T("w", [oc, kh, kw, c], wdt, data=rdata([oc, kh, kw, c], wdt), **wq),
                        T("b", [oc], bdt, data=rdata([oc], bdt), scale=0.0005 if bdt != "FLOAT32" else None),
                        T("out", [n, oh, ow, oc], dt)]
                ins = ["in", "w", "b"] if bias else (["in", "w"] if bias is False else ["in", "w", None])
                args = dict(Padding=pad, StrideW=sw, StrideH=sh, DilationWFactor=dw, DilationHFactor=dh)
                yield (f"conv_{dt}_{wdt}_{n}x{h}x{w}x{c}_k{kh}x{kw}_o{oc}_s{sh}x{sw}_d{dh}x{dw}_p{pad}_pa{peraxis}_b{bias}",
                       single(tens, [O("CONV_2D", ins, ["out"], "Conv2DOptions", args)], ["in"], ["out"]))
                # depthwise
                for dm in (1, 2):
                    if dm == 2 and c != 1 and c != 4:
                        continue
                    oc2 = c * dm
                    wq2 = dict(scale=0.01) if not peraxis else dict(scale=np.linspace(0.01, 0.02, oc2), zp=np.zeros(oc2), qdim=3)
                    if wdt == "FLOAT32":
                        wq2 = {}
                    tens = [T("in", [n, h, w, c], dt), T("w", [1, kh, kw, oc2], wdt, data=rdata([1, kh, kw, oc2], wdt), **wq2),
                            T("b", [oc2], bdt, data=rdata([oc2], bdt), scale=0.0005 if bdt != "FLOAT32" else None),
                            T("out", [n, oh, ow, oc2], dt)]
                    args2 = dict(args, DepthMultiplier=dm)
                    yield (f"dw_{dt}_{wdt}_{n}x{h}x{w}x{c}_k{kh}x{kw}_m{dm}_s{sh}x{sw}_d{dh}x{dw}_p{pad}_pa{peraxis}_b{bias}",
                           single(tens, [O("DEPTHWISE_CONV_2D", ins, ["out"], "DepthwiseConv2DOptions", args2)], ["in"], ["out"]))


def pool_models():
    for code in ("AVERAGE_POOL_2D", "MAX_POOL_2D", "L2_POOL_2D"):
        for dt in ("INT8", "UINT8", "INT16", "FLOAT32", "INT32"):
            for (n, h, w, c), (kh, kw), (sh, sw), pad in [
                ((1, 8, 8, 4), (2, 2), (2, 2), 1), ((1, 8, 8, 4), (3, 3), (1, 1), 0), ((2, 8, 8, 4), (2, 2), (2, 2), 1),
                ((1, 8, 8, 4), (8, 8), (1, 1), 1), ((1, 8, 8, 4), (8, 8), (8, 8), 0), ((1, 20, 20, 4), (9, 9), (1, 1), 0),
                ((1, 300, 2, 4), (257, 1), (1, 1), 1), ((1, 8, 8, 4), (1, 1), (1, 1), 1), ((1, 8, 8, 4), (1, 1), (2, 2), 1),
                ((1, 8, 8, 4), (2, 2), (4, 4), 1), ((1, 1, 1, 4), (1, 1), (1, 1), 0), ((1, 5, 5, 3), (2, 2), (3, 1), 0),
                ((1, 17, 17, 3), (2, 2), (1, 1), 0),
            ]:
                if pad == 0:
                    oh, ow = -(-h // sh), -(-w // sw)
                else:
                    oh, ow = (h - kh) // sh + 1, (w - kw) // sw + 1
                for act in (0, 1, 3):
                    for oscale in (None, 0.1):
                        tens = [T("in", [n, h, w, c], dt), T("out", [n, oh, ow, c], dt, scale=oscale if dt in ("INT8", "UINT8", "INT16") else None)]
                        args = dict(Padding=pad, StrideW=sw, StrideH=sh, FilterWidth=kw, FilterHeight=kh, FusedActivationFunction=act)
                        yield (f"pool_{code}_{dt}_{n}x{h}x{w}x{c}_k{kh}x{kw}_s{sh}x{sw}_p{pad}_a{act}_q{oscale}",
                               single(tens, [O(code, ["in"], ["out"], "Pool2DOptions", args)], ["in"], ["out"]))


def i32(name, vals, dtype="INT32"):
    vals = np.asarray(vals)
    return T(name, list(vals.shape), dtype, data=vals)


def shape_models():
    for dt in ("INT8", "UINT8", "INT16", "INT32", "FLOAT32", "BOOL", "INT64"):
        # RESHAPE variants
        for src, dst in (([1, 4, 4, 3], [1, 48]), ([1, 4, 4, 3], [48]), ([48], [1, 4, 4, 3]), ([1, 4, 4, 3], [2, 2, 2, 2, 3]),
                         ([2, 2, 2, 2, 3], [1, 4, 4, 3]), ([1], []), ([], [1]), ([], [1, 1, 1, 1]), ([2, 3, 4], [4, 3, 2]),
                         ([1, 4, 4, 3], [1, -1]), ([1, 4, 4, 3], [-1])):
            realdst = [48 // max(1, -int(np.prod(dst))) if d == -1 else d for d in dst] if -1 in dst else dst
            tens = [T("in", src, dt), i32("shape", dst), T("out", realdst, dt)]
            yield (f"reshape_t_{dt}_{len(src)}_{len(dst)}_{-1 in dst}",
                   single(tens, [O("RESHAPE", ["in", "shape"], ["out"], "ReshapeOptions", dict(NewShape=dst))], ["in"], ["out"]))
            tens = [T("in", src, dt), T("out", realdst, dt)]
            yield (f"reshape_a_{dt}_{len(src)}_{len(dst)}_{-1 in dst}",
                   single(tens, [O("RESHAPE", ["in"], ["out"], "ReshapeOptions", dict(NewShape=dst))], ["in"], ["out"]))
            yield (f"reshape_n_{dt}_{len(src)}_{len(dst)}_{-1 in dst}",
                   single(tens, [O("RESHAPE", ["in"], ["out"])], ["in"], ["out"]))
            # reshape followed by an NPU op and graph output both
            if dt in ("INT8", "INT16"):
                tens = [T("in", src, dt), i32("shape", dst), T("mid", realdst, dt), T("out", realdst, dt)]
                yield (f"reshape_relu_{dt}_{len(src)}_{len(dst)}_{-1 in dst}",
                       single(tens, [O("RESHAPE", ["in", "shape"], ["mid"], "ReshapeOptions", dict(NewShape=dst)),
                                     O("RELU", ["mid"], ["out"])], ["in"], ["out", "mid"]))
        # SQUEEZE / EXPAND_DIMS
        for src, dims, dst in (([1, 4, 1, 3], [0, 2], [4, 3]), ([1, 4, 1, 3], [], [4, 3]), ([1, 4, 1, 3], [-2], [1, 4, 3]),
                               ([1, 1, 1, 1], [], []), ([1, 2, 1, 4, 5], [2], [1, 2, 4, 5])):
            tens = [T("in", src, dt), T("out", dst, dt)]
            yield (f"squeeze_{dt}_{len(src)}_{len(dims)}",
                   single(tens, [O("SQUEEZE", ["in"], ["out"], "SqueezeOptions", dict(SqueezeDims=dims))], ["in"], ["out"]))
        for src, ax, dst in (([4, 3], 0, [1, 4, 3]), ([4, 3], -1, [4, 3, 1]), ([], 0, [1]), ([1, 2, 3, 4], 2, [1, 2, 1, 3, 4])):
            tens = [T("in", src, dt), i32("ax", ax), T("out", dst, dt)]
            yield (f"expand_{dt}_{len(src)}_{ax}",
                   single(tens, [O("EXPAND_DIMS", ["in", "ax"], ["out"], "ExpandDimsOptions")], ["in"], ["out"]))
        # TRANSPOSE
        for src, perm in (([1, 4, 5, 3], [0, 2, 1, 3]), ([1, 4, 5, 3], [0, 3, 1, 2]), ([1, 4, 5, 3], [0, 1, 2, 3]), ([4, 5], [1, 0]),
                          ([2, 3, 4], [2, 0, 1]), ([1, 2, 3, 4, 5], [0, 1, 3, 2, 4]), ([7], [0]), ([1, 1, 5, 3], [0, 2, 1, 3]),
                          ([1, 4, 5, 3], [3, 2, 1, 0]), ([2, 4, 5, 3], [0, 2, 1, 3])):
            dst = [src[p] for p in perm]
            tens = [T("in", src, dt), i32("perm", perm), T("out", dst, dt)]
            yield (f"transpose_{dt}_{'x'.join(map(str, src))}_{''.join(map(str, perm))}",
                   single(tens, [O("TRANSPOSE", ["in", "perm"], ["out"], "TransposeOptions")], ["in"], ["out"]))
        # PAD family
        for src, pads in (([1, 4, 4, 3], [[0, 0], [1, 1], [1, 1], [0, 0]]), ([1, 4, 4, 3], [[0, 0], [0, 0], [0, 0], [1, 2]]),
                          ([1, 4, 4, 3], [[1, 0], [0, 0], [0, 0], [0, 0]]), ([4, 3], [[1, 1], [2, 2]]), ([5], [[1, 2]]),
                          ([1, 4, 4, 3], [[0, 0], [0, 0], [0, 0], [0, 0]]), ([1, 2, 3, 4, 5], [[0, 0], [0, 0], [1, 1], [1, 1], [0, 0]]),
                          ([1, 4, 4, 3], [[1, 1], [1, 1], [0, 0]]), ([1, 4, 4, 3], [[0, 0], [40, 40], [1, 1], [0, 0]]),
                          ([4, 4, 3], [[1, 1], [1, 1], [0, 0]]), ([1, 4, 4, 3], [[0, 0], [3, 0], [0, 5], [7, 0]])):
            pa = np.asarray(pads)
            if pa.shape[0] != len(src):
                dst = list(np.asarray(src[-pa.shape[0]:]) + pa.sum(axis=1))
                dst = src[: len(src) - pa.shape[0]] + [int(d) for d in dst]
            else:
                dst = [int(s + a + b) for s, (a, b) in zip(src, pads)]
            for pdt in ("INT32", "INT64"):
                tens = [T("in", src, dt), i32("pads", pads, pdt), T("out", dst, dt)]
                yield (f"pad_{dt}_{'x'.join(map(str, src))}_{pa.sum()}_{pa.shape[0]}_{pdt}",
                       single(tens, [O("PAD", ["in", "pads"], ["out"], "PadOptions")], ["in"], ["out"]))
            tens = [T("in", src, dt), i32("pads", pads), T("cv", [1] if dt != "BOOL" else [], dt, data=rdata([1], dt)), T("out", dst, dt)]
            yield (f"padv2_{dt}_{'x'.join(map(str, src))}_{pa.sum()}_{pa.shape[0]}",
                   single(tens, [O("PADV2", ["in", "pads", "cv"], ["out"], "PadV2Options")], ["in"], ["out"]))
            for mode in (0, 1):
                tens = [T("in", src, dt), i32("pads", pads), T("out", dst, dt)]
                yield (f"mirrorpad_{dt}_{'x'.join(map(str, src))}_{pa.sum()}_{pa.shape[0]}_{mode}",
                       single(tens, [O("MIRROR_PAD", ["in", "pads"], ["out"], "MirrorPadOptions", dict(Mode=mode))], ["in"], ["out"]))
            # pad followed by conv / pool (fused pad path)
            if dt in ("INT8", "INT16", "UINT8") and len(dst) == 4 and dst[0] == 1:
                for k, pd in ((3, 1), (2, 1), (5, 1), (3, 0)):
                    if dst[1] < k or dst[2] < k:
                        continue
                    oh, ow = (dst[1] - k + 1, dst[2] - k + 1) if pd == 1 else (dst[1], dst[2])
                    tens = [T("in", src, dt), i32("pads", pads), T("mid", dst, dt), T("out", [1, oh, ow, dst[3]], dt)]
                    args = dict(Padding=pd, StrideW=1, StrideH=1, FilterWidth=k, FilterHeight=k)
                    for pool in ("AVERAGE_POOL_2D", "MAX_POOL_2D"):
                        yield (f"pad_{pool}_{dt}_{'x'.join(map(str, src))}_{pa.sum()}_k{k}_p{pd}",
                               single(tens, [O("PAD", ["in", "pads"], ["mid"], "PadOptions"),
                                             O(pool, ["mid"], ["out"], "Pool2DOptions", args)], ["in"], ["out"]))
                    oc = 4
                    tens = [T("in", src, dt), i32("pads", pads), T("mid", dst, dt), T("w", [oc, k, k, dst[3]], "INT8", data=rdata([oc, k, k, dst[3]], "INT8"), scale=0.01),
                            T("b", [oc], "INT32" if dt != "INT16" else "INT64", data=np.zeros(oc), scale=0.0005), T("out", [1, oh, ow, oc], dt)]
                    cargs = dict(Padding=pd, StrideW=1, StrideH=1, DilationWFactor=1, DilationHFactor=1)
                    yield (f"pad_conv_{dt}_{'x'.join(map(str, src))}_{pa.sum()}_k{k}_p{pd}",
                           single(tens, [O("PAD", ["in", "pads"], ["mid"], "PadOptions"),
                                         O("CONV_2D", ["mid", "w", "b"], ["out"], "Conv2DOptions", cargs)], ["in"], ["out"]))
        # SLICE / STRIDED_SLICE
        for src, begin, size in (([1, 4, 4, 3], [0, 1, 1, 0], [1, 2, 2, 3]), ([1, 4, 4, 3], [0, 0, 0, 1], [1, 4, 4, -1]), ([8], [2], [3]),
                                 ([4, 6], [1, 2], [-1, 2]), ([1, 2, 3, 4, 5], [0, 0, 1, 1, 0], [1, 2, 2, 2, 5]), ([1, 4, 4, 3], [0, 0, 0, 0], [1, 4, 4, 3]),
                                 ([2, 4, 4, 3], [1, 0, 0, 0], [1, 4, 4, 3])):
            dst = [s - b if z == -1 else z for s, b, z in zip(src, begin, size)]
            for bdt in ("INT32", "INT64"):
                tens = [T("in", src, dt), i32("b", begin, bdt), i32("s", size, bdt), T("out", dst, dt)]
                yield (f"slice_{dt}_{'x'.join(map(str, src))}_{''.join(map(str, begin))}_{bdt}",
                       single(tens, [O("SLICE", ["in", "b", "s"], ["out"], "SliceOptions")], ["in"], ["out"]))
        for src, b, e, s, masks, dst in (
            ([1, 4, 4, 3], [0, 1, 1, 0], [1, 3, 3, 3], [1, 1, 1, 1], {}, [1, 2, 2, 3]),
            ([1, 4, 4, 3], [0, 0, 0, 0], [1, 4, 4, 3], [1, 2, 2, 1], {}, [1, 2, 2, 3]),
            ([1, 4, 4, 3], [0, 0, 0, 0], [0, 0, 0, 0], [1, 1, 1, 1], dict(BeginMask=15, EndMask=15), [1, 4, 4, 3]),
            ([1, 4, 4, 3], [0, -1, 0, 0], [1, -5, 4, 3], [1, -1, 1, 1], {}, [1, 4, 4, 3]),
            ([1, 4, 4, 3], [0, 1, 0, 0], [1, 2, 4, 3], [1, 1, 1, 1], dict(ShrinkAxisMask=2), [1, 4, 3]),
            ([1, 4, 4, 3], [0, 0, 0], [1, 4, 4], [1, 1, 1], dict(NewAxisMask=1), [1, 1, 4, 4, 3]),
            ([1, 4, 4, 3], [0, 0], [1, 2], [1, 1], dict(EllipsisMask=1), [1, 4, 4, 2]),
            ([8], [1], [7], [2], {}, [3]), ([8], [-3], [8], [1], {}, [3]), ([4, 6], [0, 0], [4, 6], [2, 3], {}, [2, 2]),
            ([1, 4, 4, 3], [0, 2], [1, 4], [1, 1], {}, [1, 2, 4, 3]),
            ([1, 4, 4, 3], [0, 3, 0, 0], [1, 4, 4, 3], [1, 1, 1, 1], dict(ShrinkAxisMask=2, Offset=True), [1, 4, 3]),
        ):
            tens = [T("in", src, dt), i32("b", b), i32("e", e), i32("s", s), T("out", dst, dt)]
            yield (f"sslice_{dt}_{'x'.join(map(str, src))}_{''.join(map(str, b))}_{''.join(map(str, s))}_{'_'.join(masks)}",
                   single(tens, [O("STRIDED_SLICE", ["in", "b", "e", "s"], ["out"], "StridedSliceOptions", masks)], ["in"], ["out"]))
        # CONCAT / PACK / SPLIT / UNPACK
        for shapes, axis in (([[1, 4, 4, 3], [1, 4, 4, 5]], 3), ([[1, 4, 4, 3], [1, 4, 4, 5]], -1), ([[1, 4, 4, 3], [1, 2, 4, 3]], 1),
                             ([[2, 4, 4, 3], [1, 4, 4, 3]], 0), ([[5], [3], [1]], 0), ([[4, 3], [4, 3]], 1), ([[1, 4, 4, 3]], 3),
                             ([[1, 2, 3, 4, 5], [1, 2, 3, 4, 5]], 2), ([[1, 2, 3, 4, 5], [1, 2, 3, 4, 1]], 4), ([[1, 4, 4, 16], [1, 4, 4, 16]], 3),
                             ([[1, 4, 4, 16], [1, 4, 4, 16], [1, 4, 4, 7]], 3)):
            dst = list(shapes[0])
            dst[axis] = sum(s[axis] for s in shapes)
            for act in (0, 1):
                for mix in (False, True):
                    tens = [T(f"i{i}", s, dt, scale=(0.05 + 0.01 * i * mix) if dt in ("INT8", "UINT8", "INT16") else None) for i, s in enumerate(shapes)] + [T("out", dst, dt)]
                    yield (f"concat_{dt}_{len(shapes)}_{'x'.join(map(str, shapes[0]))}_{axis}_a{act}_m{mix}",
                           single(tens, [O("CONCATENATION", [f"i{i}" for i in range(len(shapes))], ["out"], "ConcatenationOptions",
                                           dict(Axis=axis, FusedActivationFunction=act))], [f"i{i}" for i in range(len(shapes))], ["out"]))
            # concat with a constant operand and the same tensor twice
            tens = [T("i0", shapes[0], dt), T("c", shapes[0], dt, data=rdata(shapes[0], dt)), T("out", [2 * d if i == (axis % len(shapes[0])) else d for i, d in enumerate(shapes[0])], dt)]
            yield (f"concat_const_{dt}_{'x'.join(map(str, shapes[0]))}_{axis}",
                   single(tens, [O("CONCATENATION", ["i0", "c"], ["out"], "ConcatenationOptions", dict(Axis=axis))], ["i0"], ["out"]))
            yield (f"concat_same_{dt}_{'x'.join(map(str, shapes[0]))}_{axis}",
                   single(tens, [O("CONCATENATION", ["i0", "i0"], ["out"], "ConcatenationOptions", dict(Axis=axis))], ["i0"], ["out"]))
        for src, axis, n in (([1, 4, 4, 6], 3, 2), ([1, 4, 4, 6], -1, 3), ([1, 4, 4, 6], 1, 4), ([6], 0, 3), ([2, 4, 4, 6], 0, 2), ([4, 6], 1, 1),
                             ([1, 2, 3, 4, 6], 4, 2), ([1, 2, 3, 4, 6], 2, 3), ([1, 4, 4, 32], 3, 2)):
            dst = list(src)
            dst[axis] //= n
            tens = [i32("ax", axis), T("in", src, dt)] + [T(f"o{i}", dst, dt) for i in range(n)]
            yield (f"split_{dt}_{'x'.join(map(str, src))}_{axis}_{n}",
                   single(tens, [O("SPLIT", ["ax", "in"], [f"o{i}" for i in range(n)], "SplitOptions", dict(NumSplits=n))], ["in"], [f"o{i}" for i in range(n)]))
            # only some outputs used as graph outputs
            yield (f"split_part_{dt}_{'x'.join(map(str, src))}_{axis}_{n}",
                   single(tens, [O("SPLIT", ["ax", "in"], [f"o{i}" for i in range(n)], "SplitOptions", dict(NumSplits=n))], ["in"], [f"o{n - 1}"]))
            sizes = [src[axis] // n] * n
            for variant in ("plain", "minus1"):
                sz = list(sizes)
                if variant == "minus1":
                    sz[-1] = -1
                tens = [T("in", src, dt), i32("sz", sz), i32("ax", axis)] + [T(f"o{i}", dst, dt) for i in range(n)]
                yield (f"splitv_{variant}_{dt}_{'x'.join(map(str, src))}_{axis}_{n}",
                       single(tens, [O("SPLIT_V", ["in", "sz", "ax"], [f"o{i}" for i in range(n)], "SplitVOptions", dict(NumSplits=n))], ["in"], [f"o{i}" for i in range(n)]))
            dstu = [d for i, d in enumerate(src) if i != axis % len(src)]
            m = src[axis]
            tens = [T("in", src, dt)] + [T(f"o{i}", dstu, dt) for i in range(m)]
            yield (f"unpack_{dt}_{'x'.join(map(str, src))}_{axis}",
                   single(tens, [O("UNPACK", ["in"], [f"o{i}" for i in range(m)], "UnpackOptions", dict(Axis=axis, Num=m))], ["in"], [f"o{i}" for i in range(m)]))
            tens = [T(f"i{i}", dstu, dt) for i in range(m)] + [T("out", src, dt)]
            yield (f"pack_{dt}_{'x'.join(map(str, src))}_{axis}",
                   single(tens, [O("PACK", [f"i{i}" for i in range(m)], ["out"], "PackOptions", dict(Axis=axis, ValuesCount=m))], [f"i{i}" for i in range(m)], ["out"]))
        # reductions
        for code in ("MEAN", "SUM", "REDUCE_MAX", "REDUCE_MIN", "REDUCE_PROD", "REDUCE_ANY"):
            for src, axes, keep in (([1, 4, 4, 3], [1, 2], True), ([1, 4, 4, 3], [1, 2], False), ([1, 4, 4, 3], [3], True), ([1, 4, 4, 3], [3], False),
                                    ([1, 4, 4, 3], [-1], False), ([1, 4, 4, 3], [2], True), ([1, 4, 4, 3], [1], False), ([1, 4, 4, 3], [0], True),
                                    ([2, 4, 4, 3], [1, 2], True), ([4, 3], [0], False), ([4, 3], [1], True), ([5], [0], False), ([5], [0], True),
                                    ([1, 2, 3, 4, 5], [2, 3], True), ([1, 4, 4, 3], [0, 1, 2, 3], False), ([1, 4, 4, 3], [1, 1], True),
                                    ([1, 80, 80, 3], [1, 2], True), ([1, 4, 4, 3], [], True), ([1, 1, 1, 3], [1, 2], True), ([1, 4, 4, 3], [2, 1], False),
                                    ([1, 70, 3, 3], [1], True), ([1, 3, 5000, 2], [2], True)):
                ax = sorted(set(a % len(src) for a in axes))
                dst = [1 if i in ax else d for i, d in enumerate(src)] if keep else [d for i, d in enumerate(src) if i not in ax]
                tens = [T("in", src, dt), i32("ax", axes), T("out", dst, dt, scale=0.07 if dt in ("INT8", "UINT8", "INT16") else None)]
                yield (f"red_{code}_{dt}_{'x'.join(map(str, src))}_{'_'.join(map(str, axes))}_{keep}",
                       single(tens, [O(code, ["in", "ax"], ["out"], "ReducerOptions", dict(KeepDims=keep))], ["in"], ["out"]))
        for code, opt in (("ARG_MAX", "ArgMaxOptions"), ("ARG_MIN", "ArgMinOptions")):
            for src, axis in (([1, 4, 4, 3], 3), ([1, 4, 4, 3], -1), ([1, 4, 4, 3], 1), ([5], 0), ([1, 4, 4, 300], 3), ([2, 4, 4, 3], 3), ([1, 1, 1, 1], 3), ([4, 3], 1)):
                for odt in ("INT32", "INT64"):
                    dst = [d for i, d in enumerate(src) if i != axis % len(src)]
                    tens = [T("in", src, dt), i32("ax", axis), T("out", dst, odt)]
                    yield (f"{code}_{dt}_{'x'.join(map(str, src))}_{axis}_{odt}",
                           single(tens, [O(code, ["in", "ax"], ["out"], opt, dict(OutputType=2 if odt == "INT32" else 4))], ["in"], ["out"]))
        # RESIZE
        for code, opt in (("RESIZE_BILINEAR", "ResizeBilinearOptions"), ("RESIZE_NEAREST_NEIGHBOR", "ResizeNearestNeighborOptions")):
            for src, size in (([1, 4, 4, 3], [8, 8]), ([1, 4, 4, 3], [7, 7]), ([1, 4, 4, 3], [4, 4]), ([1, 1, 1, 3], [5, 5]), ([1, 4, 4, 3], [16, 16]),
                              ([1, 4, 4, 3], [13, 13]), ([1, 4, 4, 3], [2, 2]), ([1, 4, 4, 3], [12, 12]), ([2, 4, 4, 3], [8, 8]), ([1, 4, 6, 3], [8, 18]),
                              ([1, 4, 4, 3], [1, 1]), ([1, 2, 2, 3], [3, 3]), ([1, 3, 3, 3], [5, 5]), ([1, 1, 4, 3], [1, 8]), ([1, 4, 1, 3], [8, 1]),
                              ([1, 5, 5, 3], [17, 17]), ([1, 4, 4, 3], [32, 32]), ([1, 4, 4, 3], [64, 64])):
                for ac, hp in ((False, False), (True, False), (False, True), (True, True)):
                    tens = [T("in", src, dt), i32("size", size), T("out", [src[0]] + size + [src[3]], dt)]
                    yield (f"{code}_{dt}_{'x'.join(map(str, src))}_{size[0]}x{size[1]}_{ac}_{hp}",
                           single(tens, [O(code, ["in", "size"], ["out"], opt, dict(AlignCorners=ac, HalfPixelCenters=hp))], ["in"], ["out"]))
        # FULLY_CONNECTED
        for src, nout, keep in (([1, 16], 8, False), ([4, 16], 8, False), ([1, 4, 4, 16], 8, False), ([2, 3, 16], 8, True), ([16], 8, False), ([1, 1], 1, False),
                                ([1, 3000], 2, False), ([7, 16], 300, False)):
            wdt = dt if dt in ("INT8", "UINT8", "FLOAT32") else "INT8"
            bdt = {"INT8": "INT32", "UINT8": "INT32", "INT16": "INT64", "FLOAT32": "FLOAT32"}.get(dt, "INT32")
            k = src[-1]
            batch = int(np.prod(src)) // k
            dst = src[:-1] + [nout] if keep else [batch, nout]
            for bias in (True, False, None):
                for wconst in (True, False):
                    tens = [T("in", src, dt), T("w", [nout, k], wdt, data=rdata([nout, k], wdt) if wconst else None),
                            T("b", [nout], bdt, data=rdata([nout], bdt), scale=0.001 if bdt != "FLOAT32" else None), T("out", dst, dt)]
                    ins = ["in", "w", "b"] if bias else (["in", "w"] if bias is False else ["in", "w", None])
                    yield (f"fc_{dt}_{'x'.join(map(str, src))}_{nout}_{keep}_{bias}_{wconst}",
                           single(tens, [O("FULLY_CONNECTED", ins, ["out"], "FullyConnectedOptions", dict(KeepNumDims=keep))],
                                  ["in"] + ([] if wconst else ["w"]), ["out"]))
        # misc
        for src in ([1, 4, 4, 4], [1, 4, 4, 8], [2, 4, 4, 4]):
            tens = [T("in", src, dt), T("out", [src[0], 8, 8, src[3] // 4], dt)]
            yield (f"d2s_{dt}_{src[0]}_{src[3]}", single(tens, [O("DEPTH_TO_SPACE", ["in"], ["out"], "DepthToSpaceOptions", dict(BlockSize=2))], ["in"], ["out"]))
            tens = [T("in", src, dt), T("out", [src[0], 2, 2, src[3] * 4], dt)]
            yield (f"s2d_{dt}_{src[0]}_{src[3]}", single(tens, [O("SPACE_TO_DEPTH", ["in"], ["out"], "SpaceToDepthOptions", dict(BlockSize=2))], ["in"], ["out"]))
        for src, mult in (([1, 4, 4, 3], [1, 2, 2, 1]), ([4], [3]), ([1, 4, 4, 3], [1, 1, 1, 1]), ([1, 1, 1, 3], [1, 4, 4, 1])):
            tens = [T("in", src, dt), i32("m", mult), T("out", [a * b for a, b in zip(src, mult)], dt)]
            yield (f"tile_{dt}_{len(src)}_{sum(mult)}", single(tens, [O("TILE", ["in", "m"], ["out"], "TileOptions")], ["in"], ["out"]))
        tens = [T("in", [1, 4, 4, 3], dt), T("out", [4], "INT32")]
        yield f"shape_{dt}", single(tens, [O("SHAPE", ["in"], ["out"], "ShapeOptions", dict(OutType=2))], ["in"], ["out"])
        tens = [T("in", [10, 3], dt), i32("idx", [1, 5, 7]), T("out", [3, 3], dt)]
        yield f"gather_{dt}", single(tens, [O("GATHER", ["in", "idx"], ["out"], "GatherOptions", dict(Axis=0))], ["in"], ["out"])
        tens = [T("c", [1, 4, 4, 3], "BOOL"), T("a", [1, 4, 4, 3], dt), T("b", [1, 4, 4, 3], dt), T("out", [1, 4, 4, 3], dt)]
        yield f"select_{dt}", single(tens, [O("SELECT", ["c", "a", "b"], ["out"], "SelectOptions")], ["c", "a", "b"], ["out"])
        yield f"selectv2_{dt}", single(tens, [O("SELECT_V2", ["c", "a", "b"], ["out"], "SelectV2Options")], ["c", "a", "b"], ["out"])
        tens = [T("a", [1, 4, 4, 3], dt), T("b", [1, 4, 4, 3], dt), T("c", [1, 4, 4, 3], dt), T("out", [1, 4, 4, 3], dt)]
        yield f"addn_{dt}", single(tens, [O("ADD_N", ["a", "b", "c"], ["out"], "AddNOptions")], ["a", "b", "c"], ["out"])
        # BATCH_MATMUL, TRANSPOSE_CONV
        tens = [T("a", [1, 4, 6], dt), T("b", [1, 6, 5], dt), T("out", [1, 4, 5], dt)]
        yield f"bmm_{dt}", single(tens, [O("BATCH_MATMUL", ["a", "b"], ["out"], "BatchMatMulOptions")], ["a", "b"], ["out"])
        for (h, w, c), (kh, kw), oc, s, pad in (((4, 4, 3), (3, 3), 5, 2, 0), ((4, 4, 3), (2, 2), 5, 2, 1), ((4, 4, 3), (3, 3), 5, 1, 0), ((4, 4, 3), (4, 4), 2, 2, 0),
                                                ((1, 1, 3), (3, 3), 5, 2, 1), ((4, 4, 3), (3, 3), 5, 3, 0), ((4, 4, 3), (3, 3), 5, 2, 1), ((4, 4, 3), (1, 1), 5, 2, 1)):
            oh, ow = (h * s, w * s) if pad == 0 else ((h - 1) * s + kh, (w - 1) * s + kw)
            wdt = dt if dt in ("INT8", "UINT8", "FLOAT32") else "INT8"
            bdt = {"INT16": "INT64", "FLOAT32": "FLOAT32"}.get(dt, "INT32")
            for bias in (True, False):
                tens = [i32("os", [1, oh, ow, oc]), T("w", [oc, kh, kw, c], wdt, data=rdata([oc, kh, kw, c], wdt)), T("in", [1, h, w, c], dt),
                        T("b", [oc], bdt, data=rdata([oc], bdt), scale=0.001 if bdt != "FLOAT32" else None), T("out", [1, oh, ow, oc], dt)]
                yield (f"tconv_{dt}_{h}x{w}_k{kh}x{kw}_s{s}_p{pad}_{bias}",
                       single(tens, [O("TRANSPOSE_CONV", ["os", "w", "in"] + (["b"] if bias else []), ["out"], "TransposeConvOptions",
                                       dict(Padding=pad, StrideW=s, StrideH=s))], ["in"], ["out"]))


def graph_models():
    """small multi operator graphs with unusual structure"""
    for dt in ("INT8", "INT16", "UINT8"):
        sh = [1, 8, 8, 4]
        # no operators at all: the input is the output
        yield f"g_empty_{dt}", single([T("in", sh, dt)], [], ["in"], ["in"])
        # unused input
        yield f"g_unused_in_{dt}", single([T("in", sh, dt), T("in2", sh, dt), T("out", sh, dt)], [O("RELU", ["in"], ["out"])], ["in", "in2"], ["out"])
        # constant output
        yield f"g_const_out_{dt}", single([T("in", sh, dt), T("c", sh, dt, data=rdata(sh, dt)), T("out", sh, dt)], [O("RELU", ["in"], ["out"])], ["in"], ["out", "c"])
        # op on constant only
        yield f"g_const_relu_{dt}", single([T("c", sh, dt, data=rdata(sh, dt)), T("out", sh, dt)], [O("RELU", ["c"], ["out"])], [], ["out"])
        yield f"g_const_add_{dt}", single([T("c", sh, dt, data=rdata(sh, dt)), T("d", sh, dt, data=rdata(sh, dt)), T("out", sh, dt)],
                                           [O("ADD", ["c", "d"], ["out"], "AddOptions")], [], ["out"])
        # input is also an output
        yield f"g_in_is_out_{dt}", single([T("in", sh, dt), T("out", sh, dt)], [O("RELU", ["in"], ["out"])], ["in"], ["out", "in"])
        # same output twice
        yield f"g_out_twice_{dt}", single([T("in", sh, dt), T("out", sh, dt)], [O("RELU", ["in"], ["out"])], ["in"], ["out", "out"])
        # dead operator (output not a graph output)
        yield f"g_dead_{dt}", single([T("in", sh, dt), T("dead", sh, dt), T("out", sh, dt)], [O("RELU", ["in"], ["out"]), O("TANH", ["in"], ["dead"])], ["in"], ["out"])
        # cpu - npu - cpu sandwich, and diamond
        f32 = "FLOAT32"
        yield f"g_sandwich_{dt}", single([T("in", sh, f32), T("q", sh, dt), T("r", sh, dt), T("out", sh, f32)],
                                          [O("QUANTIZE", ["in"], ["q"], "QuantizeOptions"), O("TANH", ["q"], ["r"]), O("DEQUANTIZE", ["r"], ["out"], "DequantizeOptions")], ["in"], ["out"])
        yield f"g_diamond_{dt}", single([T("in", sh, dt), T("a", sh, dt), T("b", sh, dt), T("out", sh, dt)],
                                         [O("TANH", ["in"], ["a"]), O("FLOOR", ["in"], ["b"]), O("ADD", ["a", "b"], ["out"], "AddOptions")], ["in"], ["out"])
        yield f"g_diamond2_{dt}", single([T("in", sh, dt), T("a", sh, dt), T("b", sh, dt), T("c", sh, dt), T("out", sh, dt)],
                                          [O("TANH", ["in"], ["a"]), O("FLOOR", ["a"], ["b"]), O("LOGISTIC", ["a"], ["c"]), O("ADD", ["b", "c"], ["out"], "AddOptions")], ["in"], ["out", "a"])
        # intermediate NPU tensor is also graph output
        yield f"g_mid_out_{dt}", single([T("in", sh, dt), T("a", sh, dt), T("out", sh, dt)], [O("TANH", ["in"], ["a"]), O("RELU", ["a"], ["out"])], ["in"], ["out", "a"])
        # chain of reshapes
        yield f"g_reshapes_{dt}", single([T("in", sh, dt), i32("s1", [1, 256]), T("a", [1, 256], dt), i32("s2", [1, 8, 8, 4]), T("b", sh, dt), T("out", sh, dt)],
                                          [O("RESHAPE", ["in", "s1"], ["a"], "ReshapeOptions"), O("RESHAPE", ["a", "s2"], ["b"], "ReshapeOptions"), O("RELU", ["b"], ["out"])], ["in"], ["out"])
        yield f"g_reshape_only_chain_{dt}", single([T("in", sh, dt), i32("s1", [1, 256]), T("a", [1, 256], dt), i32("s2", [1, 8, 8, 4]), T("b", sh, dt)],
                                                    [O("RESHAPE", ["in", "s1"], ["a"], "ReshapeOptions"), O("RESHAPE", ["a", "s2"], ["b"], "ReshapeOptions")], ["in"], ["b", "a"])
        # custom third-party op
        yield f"g_custom_{dt}", single([T("in", sh, dt), T("out", sh, dt)], [O("CUSTOM", ["in"], ["out"], custom_code="MyOp", custom_options=[1, 2, 3])], ["in"], ["out"])
        yield f"g_custom_noopt_{dt}", single([T("in", sh, dt), T("a", sh, dt), T("out", sh, dt)], [O("CUSTOM", ["in"], ["a"], custom_code="MyOp"), O("RELU", ["a"], ["out"])], ["in"], ["out"])
        yield f"g_custom_noio_{dt}", single([T("in", sh, dt), T("out", sh, dt)], [O("CUSTOM", [], [], custom_code="MyOp"), O("RELU", ["in"], ["out"])], ["in"], ["out"])
        yield f"g_two_custom_{dt}", single([T("in", sh, dt), T("a", sh, dt), T("out", sh, dt)], [O("CUSTOM", ["in"], ["a"], custom_code="MyOp", custom_options=[1]), O("CUSTOM", ["a"], ["out"], custom_code="Other", custom_options=[2])], ["in"], ["out"])
        # no quantisation on int tensors
        yield f"g_noquant_{dt}", single([T("in", sh, dt, noquant=True), T("out", sh, dt, noquant=True)], [O("RELU", ["in"], ["out"])], ["in"], ["out"])
        yield f"g_noquant_add_{dt}", single([T("a", sh, dt, noquant=True), T("b", sh, dt), T("out", sh, dt)], [O("ADD", ["a", "b"], ["out"], "AddOptions")], ["a", "b"], ["out"])
        yield f"g_noquant_out_{dt}", single([T("a", sh, dt), T("b", sh, dt), T("out", sh, dt, noquant=True)], [O("ADD", ["a", "b"], ["out"], "AddOptions")], ["a", "b"], ["out"])
        # per-axis quantisation on a feature map
        yield f"g_peraxis_fm_{dt}", single([T("in", sh, dt, scale=[0.1, 0.2, 0.3, 0.4], zp=[0, 0, 0, 0], qdim=3), T("out", sh, dt)], [O("RELU", ["in"], ["out"])], ["in"], ["out"])
        yield f"g_peraxis_add_{dt}", single([T("a", sh, dt, scale=[0.1, 0.2, 0.3, 0.4], zp=[0, 0, 0, 0], qdim=3), T("b", sh, dt), T("out", sh, dt)], [O("ADD", ["a", "b"], ["out"], "AddOptions")], ["a", "b"], ["out"])
        # extreme quantisation
        for sc in (0.0, 1e-30, 1e30, float("inf"), float("nan"), -1.0):
            yield f"g_scale_{sc}_{dt}", single([T("in", sh, dt, scale=sc), T("out", sh, dt)], [O("TANH", ["in"], ["out"])], ["in"], ["out"])
            yield f"g_scale_out_{sc}_{dt}", single([T("a", sh, dt), T("b", sh, dt), T("out", sh, dt, scale=sc)], [O("ADD", ["a", "b"], ["out"], "AddOptions")], ["a", "b"], ["out"])
            yield f"g_scale_mul_{sc}_{dt}", single([T("a", sh, dt, scale=sc), T("b", sh, dt), T("out", sh, dt)], [O("MUL", ["a", "b"], ["out"], "MulOptions")], ["a", "b"], ["out"])
            yield f"g_scale_pool_{sc}_{dt}", single([T("a", sh, dt, scale=sc), T("out", [1, 4, 4, 4], dt)], [O("AVERAGE_POOL_2D", ["a"], ["out"], "Pool2DOptions", dict(Padding=1, StrideW=2, StrideH=2, FilterWidth=2, FilterHeight=2))], ["a"], ["out"])
        for zp in (-129, 200, 70000, -70000, 2 ** 40):
            yield f"g_zp_{zp}_{dt}", single([T("in", sh, dt, scale=0.1, zp=zp), T("out", sh, dt)], [O("TANH", ["in"], ["out"])], ["in"], ["out"])
            yield f"g_zp_add_{zp}_{dt}", single([T("a", sh, dt, scale=0.1, zp=zp), T("b", sh, dt), T("out", sh, dt)], [O("ADD", ["a", "b"], ["out"], "AddOptions")], ["a", "b"], ["out"])
        # zero-sized dimensions
        yield f"g_zero_dim_{dt}", single([T("in", [1, 0, 8, 4], dt), T("out", [1, 0, 8, 4], dt)], [O("RELU", ["in"], ["out"])], ["in"], ["out"])
        # shapeless tensors (shape absent)
        yield f"g_shapeless_{dt}", single([T("in", None, dt), T("out", None, dt)], [O("RELU", ["in"], ["out"])], ["in"], ["out"])
        # variable tensor
        yield f"g_variable_{dt}", single([T("in", sh, dt), T("v", sh, dt, variable=True), T("out", sh, dt)], [O("ADD", ["in", "v"], ["out"], "AddOptions")], ["in"], ["out"])
        # many LUT activations
        names = ["in"] + [f"t{i}" for i in range(12)]
        acts = ["TANH", "LOGISTIC", "HARD_SWISH", "EXP", "LOG", "SQRT", "RSQRT", "TANH", "LOGISTIC", "GELU", "TANH", "LOGISTIC"]
        tens = [T(n, sh, dt, scale=0.01 * (i + 1) if dt != "INT16" else 0.001) for i, n in enumerate(names)]
        yield f"g_luts_{dt}", single(tens, [O(a, [names[i]], [names[i + 1]]) for i, a in enumerate(acts)], ["in"], [names[-1]])
    # control flow
    sh = [1, 4, 4, 3]
    body = dict(name="body", tensors=[T("bi", sh, "INT8"), T("bo", sh, "INT8")], ops=[O("RELU", ["bi"], ["bo"])], inputs=["bi"], outputs=["bo"])
    cond = dict(name="cond", tensors=[T("ci", sh, "INT8"), T("co", [], "BOOL")], ops=[O("REDUCE_ANY", ["ci", "ax"], ["co"], "ReducerOptions")], inputs=["ci"], outputs=["co"])
    cond["tensors"].append(i32("ax", [0, 1, 2, 3]))
    main = dict(name="main", tensors=[T("in", sh, "INT8"), T("out", sh, "INT8")], ops=[O("WHILE", ["in"], ["out"], "WhileOptions", dict(CondSubgraphIndex=1, BodySubgraphIndex=2))], inputs=["in"], outputs=["out"])
    yield "g_while", build_model([main, cond, body])
    main = dict(name="main", tensors=[T("c", [], "BOOL"), T("in", sh, "INT8"), T("out", sh, "INT8")], ops=[O("IF", ["c", "in"], ["out"], "IfOptions", dict(ThenSubgraphIndex=1, ElseSubgraphIndex=2))], inputs=["c", "in"], outputs=["out"])
    body2 = dict(name="body2", tensors=[T("bi", sh, "INT8"), T("bo", sh, "INT8")], ops=[O("TANH", ["bi"], ["bo"])], inputs=["bi"], outputs=["bo"])
    yield "g_if", build_model([main, body, body2])
    yield "g_if_same", build_model([main, body, dict(body, name="b3")][:2] + [body2][:0] + [dict(name="e", tensors=[T("bi", sh, "INT8")], ops=[], inputs=["bi"], outputs=["bi"])])
    # variables
    main = dict(name="main", tensors=[T("in", sh, "INT8"), T("h", [], "INT32"), T("r", sh, "INT8"), T("out", sh, "INT8")],
                ops=[O("VAR_HANDLE", [], ["h"], "VarHandleOptions"), O("READ_VARIABLE", ["h"], ["r"], "ReadVariableOptions"), O("ADD", ["in", "r"], ["out"], "AddOptions"),
                     O("ASSIGN_VARIABLE", ["h", "out"], [], "AssignVariableOptions")], inputs=["in"], outputs=["out"])
    yield "g_vars", build_model([main])
    init = dict(name="init", tensors=[T("h", [], "INT32"), T("c", sh, "INT8", data=np.zeros(sh))], ops=[O("VAR_HANDLE", [], ["h"], "VarHandleOptions"), O("ASSIGN_VARIABLE", ["h", "c"], [], "AssignVariableOptions")], inputs=[], outputs=[])
    main2 = dict(main, ops=[O("CALL_ONCE", [], [], "CallOnceOptions", dict(InitSubgraphIndex=1))] + main["ops"])
    yield "g_callonce", build_model([main2, init])


def rnn_models():
    for dt in ("INT8", "INT16"):
        for (b, t, f, o), tm in (((1, 3, 4, 5), False), ((2, 3, 4, 5), False), ((2, 3, 4, 5), True), ((1, 1, 1, 1), False)):
            ishape = [t, b, f] if tm else [b, t, f]
            oshape = [t, b, o] if tm else [b, t, o]
            tens = [T("in", ishape, dt)]
            for nm in ("wi", "wf", "wc", "wo"):
                tens.append(T(nm, [o, f], "INT8", data=rdata([o, f], "INT8"), scale=0.01))
            for nm in ("ri", "rf", "rc", "ro"):
                tens.append(T(nm, [o, o], "INT8", data=rdata([o, o], "INT8"), scale=0.01))
            bdt = "INT32"
            for nm in ("bi", "bf", "bc", "bo"):
                tens.append(T(nm, [o], bdt, data=rdata([o], bdt), scale=0.0001))
            tens += [T("os", [b, o], dt, variable=True), T("cs", [b, o], "INT16", variable=True, scale=2 ** -11, zp=0)]
            for i in range(4):
                tens.append(T(f"im{i}", [], "INT16", scale=0.001, zp=0))
            tens.append(T("im4", [], "INT8", scale=0.001, zp=0))
            tens.append(T("out", oshape, dt))
            ins = ["in", "wi", "wf", "wc", "wo", "ri", "rf", "rc", "ro", None, None, None, "bi", "bf", "bc", "bo", None, None, "os", "cs", None, None, None, None]
            yield (f"lstm_{dt}_{b}_{t}_{f}_{o}_{tm}",
                   single(tens, [O("UNIDIRECTIONAL_SEQUENCE_LSTM", ins, ["out"], "UnidirectionalSequenceLSTMOptions", dict(TimeMajor=tm, FusedActivationFunction=4),
                                   intermediates=[f"im{i}" for i in range(5)])], ["in"], ["out"]))


class Net:
    """helper to build multi-operator networks"""

    def __init__(self, dt="INT8"):
        self.dt = dt
        self.tens = []
        self.ops = []
        self.n = 0

    def name(self, p):
        self.n += 1
        return f"{p}{self.n}"

    def inp(self, shape):
        nm = self.name("in")
        self.tens.append(T(nm, shape, self.dt))
        self.shapes = getattr(self, "shapes", {})
        self.shapes[nm] = list(shape)
        return nm

    def fm(self, shape, scale=None):
        nm = self.name("t")
        self.tens.append(T(nm, shape, self.dt, scale=scale))
        self.shapes[nm] = list(shape)
        return nm

    def conv(self, x, oc, k=3, s=1, pad=0, act=0, dil=1, dw=False):
        n, h, w, c = self.shapes[x]
        if pad == 0:
            oh, ow = -(-h // s), -(-w // s)
        else:
            oh, ow = (h - (k - 1) * dil - 1) // s + 1, (w - (k - 1) * dil - 1) // s + 1
        bdt = "INT64" if self.dt == "INT16" else "INT32"
        wn, bn = self.name("w"), self.name("b")
        if dw:
            oc = c
            self.tens.append(T(wn, [1, k, k, oc], "INT8", data=rdata([1, k, k, oc], "INT8"), scale=0.01))
        else:
            self.tens.append(T(wn, [oc, k, k, c], "INT8", data=rdata([oc, k, k, c], "INT8"), scale=0.01))
        self.tens.append(T(bn, [oc], bdt, data=rdata([oc], bdt), scale=0.0005))
        y = self.fm([n, oh, ow, oc])
        args = dict(Padding=pad, StrideW=s, StrideH=s, DilationWFactor=dil, DilationHFactor=dil, FusedActivationFunction=act)
        if dw:
            args["DepthMultiplier"] = 1
            self.ops.append(O("DEPTHWISE_CONV_2D", [x, wn, bn], [y], "DepthwiseConv2DOptions", args))
        else:
            self.ops.append(O("CONV_2D", [x, wn, bn], [y], "Conv2DOptions", args))
        return y

    def pool(self, x, code="MAX_POOL_2D", k=2, s=2, pad=1):
        n, h, w, c = self.shapes[x]
        oh, ow = (-(-h // s), -(-w // s)) if pad == 0 else ((h - k) // s + 1, (w - k) // s + 1)
        y = self.fm([n, oh, ow, c])
        self.ops.append(O(code, [x], [y], "Pool2DOptions", dict(Padding=pad, StrideW=s, StrideH=s, FilterWidth=k, FilterHeight=k)))
        return y

    def binary(self, code, a, b, act=0):
        y = self.fm(bshape(self.shapes[a], self.shapes[b]))
        opt = {"ADD": "AddOptions", "MUL": "MulOptions", "SUB": "SubOptions", "MAXIMUM": "MaximumMinimumOptions", "MINIMUM": "MaximumMinimumOptions"}[code]
        self.ops.append(O(code, [a, b], [y], opt, dict(FusedActivationFunction=act) if opt[0] in "AMS" and "imum" not in opt else None))
        return y

    def unary(self, code, x, opt=None, args=None, scale=None):
        y = self.fm(self.shapes[x], scale=scale)
        self.ops.append(O(code, [x], [y], opt, args))
        return y

    def reshape(self, x, shape):
        y = self.fm(shape)
        sn = self.name("s")
        self.tens.append(i32(sn, shape))
        self.ops.append(O("RESHAPE", [x, sn], [y], "ReshapeOptions", dict(NewShape=shape)))
        return y

    def fc(self, x, nout, act=0):
        k = self.shapes[x][-1]
        batch = int(np.prod(self.shapes[x])) // k
        bdt = "INT64" if self.dt == "INT16" else "INT32"
        wn, bn = self.name("w"), self.name("b")
        self.tens.append(T(wn, [nout, k], "INT8", data=rdata([nout, k], "INT8"), scale=0.01))
        self.tens.append(T(bn, [nout], bdt, data=rdata([nout], bdt), scale=0.0005))
        y = self.fm([batch, nout])
        self.ops.append(O("FULLY_CONNECTED", [x, wn, bn], [y], "FullyConnectedOptions", dict(FusedActivationFunction=act)))
        return y

    def concat(self, xs, axis=3):
        shp = list(self.shapes[xs[0]])
        shp[axis] = sum(self.shapes[x][axis] for x in xs)
        y = self.fm(shp)
        self.ops.append(O("CONCATENATION", xs, [y], "ConcatenationOptions", dict(Axis=axis)))
        return y

    def softmax(self, x):
        y = self.fm(self.shapes[x], scale=1 / 256 if self.dt != "INT16" else 1 / 32768)
        for t in self.tens:
            if t.name == y and self.dt == "INT8":
                t.zp = -128
        self.ops.append(O("SOFTMAX", [x], [y], "SoftmaxOptions", dict(Beta=1.0)))
        return y

    def resize(self, x, f=2, code="RESIZE_NEAREST_NEIGHBOR"):
        n, h, w, c = self.shapes[x]
        sn = self.name("s")
        self.tens.append(i32(sn, [h * f, w * f]))
        y = self.fm([n, h * f, w * f, c])
        self.ops.append(O(code, [x, sn], [y], "ResizeNearestNeighborOptions" if "NEAREST" in code else "ResizeBilinearOptions", dict(HalfPixelCenters=False, AlignCorners=False)))
        return y

    def build(self, inputs, outputs):
        return single(self.tens, self.ops, inputs, outputs)


def net_models():
    for dt in ("INT8", "INT16"):
        # plain chain of convolutions with large feature maps
        for hw, c, depth in ((64, 16, 5), (128, 8, 4), (32, 64, 6), (200, 3, 3)):
            n = Net(dt)
            x = i = n.inp([1, hw, hw, c])
            for d in range(depth):
                x = n.conv(x, c if d < depth - 1 else 2 * c, k=3, act=1 if d % 2 else 0)
            yield f"net_chain_{dt}_{hw}_{c}_{depth}", n.build([i], [x])
        # classifier
        n = Net(dt)
        i = n.inp([1, 32, 32, 3])
        x = n.conv(i, 16, k=3, s=1, act=1)
        x = n.pool(x)
        x = n.conv(x, 32, k=3, s=1, act=3)
        x = n.pool(x, "AVERAGE_POOL_2D")
        x = n.reshape(x, [1, 8 * 8 * 32])
        x = n.fc(x, 64, act=1)
        x = n.fc(x, 10)
        x = n.softmax(x)
        yield f"net_classifier_{dt}", n.build([i], [x])
        # residual
        n = Net(dt)
        i = n.inp([1, 48, 48, 16])
        x = n.conv(i, 16, act=1)
        y = n.conv(x, 16, act=1)
        y = n.conv(y, 16)
        x = n.binary("ADD", x, y, act=1)
        y = n.conv(x, 16, act=1, dw=True)
        y = n.conv(y, 16, k=1)
        x = n.binary("ADD", x, y)
        x = n.pool(x, "AVERAGE_POOL_2D", k=48, s=48)
        yield f"net_residual_{dt}", n.build([i], [x])
        # inception like with concat
        n = Net(dt)
        i = n.inp([1, 40, 40, 8])
        a = n.conv(i, 8, k=1)
        b = n.conv(n.conv(i, 4, k=1), 8, k=3)
        c = n.conv(n.pool(i, k=3, s=1, pad=0), 8, k=1)
        x = n.concat([a, b, c])
        x = n.conv(x, 16, s=2)
        yield f"net_inception_{dt}", n.build([i], [x])
        # big weights (weight streaming / double buffering)
        n = Net(dt)
        i = n.inp([1, 8, 8, 256])
        x = n.conv(i, 512, k=3)
        x = n.conv(x, 256, k=1, act=1)
        x = n.reshape(x, [1, 8 * 8 * 256])
        x = n.fc(x, 128)
        yield f"net_bigweights_{dt}", n.build([i], [x])
        # encoder/decoder with resize and skip connection
        n = Net(dt)
        i = n.inp([1, 64, 64, 8])
        e1 = n.conv(i, 16, s=2, act=1)
        e2 = n.conv(e1, 32, s=2, act=1)
        d1 = n.resize(e2)
        d1 = n.conv(d1, 16, act=1)
        d1 = n.binary("ADD", d1, e1)
        d0 = n.resize(d1, code="RESIZE_BILINEAR")
        d0 = n.conv(d0, 8)
        d0 = n.unary("LOGISTIC", d0, scale=1 / 256 if dt == "INT8" else 1 / 32768)
        yield f"net_unet_{dt}", n.build([i], [d0])
        # elementwise heavy with mixed CPU ops
        n = Net(dt)
        i = n.inp([1, 56, 56, 24])
        j = n.inp([1, 56, 56, 24])
        x = n.binary("MUL", i, j)
        y = n.unary("TANH", x)
        z = n.unary("FLOOR", y)
        w = n.binary("SUB", z, i)
        v = n.unary("LEAKY_RELU", w, "LeakyReluOptions", dict(Alpha=0.1))
        u = n.binary("MAXIMUM", v, x)
        yield f"net_elementwise_{dt}", n.build([i, j], [u, y])
        # two outputs from a shared trunk, strided / dilated convolutions
        n = Net(dt)
        i = n.inp([1, 96, 96, 4])
        x = n.conv(i, 8, k=5, s=2, act=1)
        a = n.conv(x, 8, k=3, dil=2)
        b = n.conv(x, 8, k=3, s=2, pad=1)
        b = n.pool(b, k=3, s=2, pad=0)
        yield f"net_twoheads_{dt}", n.build([i], [a, b])
        # depthwise separable stack (mobilenet like)
        n = Net(dt)
        x = i = n.inp([1, 96, 96, 3])
        x = n.conv(x, 8, s=2, act=3)
        for oc, s in ((16, 1), (32, 2), (32, 1), (64, 2), (64, 1)):
            x = n.conv(x, 0, s=s, act=3, dw=True)
            x = n.conv(x, oc, k=1, act=3)
        x = n.pool(x, "AVERAGE_POOL_2D", k=12, s=12)
        x = n.reshape(x, [1, 64])
        x = n.fc(x, 10)
        yield f"net_mobilenet_{dt}", n.build([i], [x])


GENERATORS = dict(unary=unary_models, binary=binary_models, conv=conv_models, pool=pool_models, shape=shape_models, graph=graph_models, rnn=rnn_models, net=net_models)


def all_models(groups=None):
    for g, fn in GENERATORS.items():
        if groups and g not in groups:
            continue
        seen = {}
        for name, m in fn():
            k = seen.get(name, 0)
            seen[name] = k + 1
            yield (name if k == 0 else f"{name}#{k}"), m

# Side observation on the UNMODIFIED tree (not a violation of C10 itself, found while sweeping resize variants):
# RESIZE_NEAREST_NEIGHBOR with align_corners=True and more than one channel cannot be compiled.  The conversion to a
# depthwise convolution (tflite_graph_optimiser.convert_resizenn_ac_to_depthwise_conv) builds upscale*upscale weight
# values but reshapes them to [upscale, upscale, depth, depth] and numpy raises
# "ValueError: cannot reshape array of size 4 into shape (2,2,16,16)".
import os
import sys

sys.path.insert(0, os.getcwd())
sys.path.insert(0, os.path.dirname(os.path.abspath(__file__)))
import c10lib as L  # noqa: E402


def main():
    net = L.Net(8, 8, 16, "obs2")
    net.conv(16, 3)
    net.resize_nearest(2, align_corners=True)
    net.conv(8, 3)
    try:
        res = L.compile_net(net, L.CONFIGS["size55"])
    except ValueError as e:
        print("compilation crashed:", e)
        return 1
    print("compiled, rc", res.rc)
    return 0


if __name__ == "__main__":
    sys.exit(main())

# Helper library for the C10 demos / observations ("splitting an operator into stripes does not change what it
# computes").  It only uses public Vela classes to
#   * build small quantised .tflite networks in memory (chains of conv / depthwise / pooling / resize / ... operators),
#   * compile them with the normal driver (ethosu.vela.vela.main) while capturing the high level command stream and the
#     NpuOperations that are handed to the register command stream generator,
#   * check the captured stripes against an oracle that is written from scratch (receptive field arithmetic and a row
#     level simulation of the feature map memory).
import contextlib
import io
import os
import sys
import tempfile

import numpy as np

from ethosu.vela import high_level_command_to_npu_op as hl2npu
from ethosu.vela import vela
from ethosu.vela.api import NpuLayout
from ethosu.vela.data_type import DataType
from ethosu.vela.high_level_command_stream import NpuStripe
from ethosu.vela.nn_graph import Graph
from ethosu.vela.nn_graph import Pass
from ethosu.vela.nn_graph import PassPlacement
from ethosu.vela.nn_graph import Subgraph
from ethosu.vela.operation import NpuBlockType
from ethosu.vela.operation import Op
from ethosu.vela.operation import Operation
from ethosu.vela.operation import Padding
from ethosu.vela.tensor import create_const_tensor
from ethosu.vela.tensor import QuantizationParameters
from ethosu.vela.tensor import Tensor
from ethosu.vela.tflite_writer import write_tflite


# ----------------------------------------------------------------------------------------------------------------------
# network construction
# ----------------------------------------------------------------------------------------------------------------------
def _quant(scale=0.05, zp=0):
    qp = QuantizationParameters()
    qp.scale_f32 = np.float32(scale)
    qp.zero_point = np.int64(zp)
    qp.quant_min = -128
    qp.quant_max = 127
    return qp


def _out_size(size, k, s, d, padding):
    kd = (k - 1) * d + 1
    if padding == "SAME":
        return (size + s - 1) // s
    return (size - kd + s) // s


class Net:
    """A linear chain (with optional side inputs) of int8 operators"""

    def __init__(self, h, w, c, name="net"):
        self.name = name
        self.ops = []
        self.n = 0
        self.rng = np.random.RandomState(1234)
        self.input = Tensor([1, h, w, c], DataType.int8, "input")
        self.input.quantization = _quant()
        self.cur = self.input
        self.inputs = [self.input]
        self.consts = []

    # -- helpers
    def _name(self, base):
        self.n += 1
        return f"{base}_{self.n}"

    def _fm(self, shape, name):
        t = Tensor(list(shape), DataType.int8, name)
        t.quantization = _quant()
        return t

    def _const(self, name, shape, dtype, values, quant=None):
        np_dt = {DataType.int8: np.int8, DataType.int32: np.int32}[dtype]
        t = create_const_tensor(name, list(shape), dtype, np.asarray(values, dtype=np_dt).reshape(shape), quantization=quant)
        self.consts.append(t)
        return t

    def _finish(self, op, ofm):
        op.set_output_tensor(ofm)
        self.ops.append(op)
        self.cur = ofm
        return ofm

    # -- operators
    def conv(self, oc, k=3, s=1, d=1, padding="SAME", kw=None, sw=None):
        kh, kw = k, (kw if kw is not None else k)
        sh, sw = s, (sw if sw is not None else s)
        _, h, w, c = self.cur.shape
        name = self._name("conv")
        op = Operation(Op.Conv2DBias, name)
        wq = _quant(0.02)
        weights = self._const(name + "_w", [oc, kh, kw, c], DataType.int8, self.rng.randint(-5, 6, (oc, kh, kw, c)), wq)
        bias = self._const(name + "_b", [oc], DataType.int32, self.rng.randint(-10, 10, (oc,)), _quant(0.001))
        op.inputs = [self.cur, weights, bias]
        op.attrs.update(
            dict(
                padding=Padding.SAME if padding == "SAME" else Padding.VALID,
                stride_h=sh,
                stride_w=sw,
                dilation_h_factor=d,
                dilation_w_factor=d,
                fused_activation_function=None,
            )
        )
        oh, ow = _out_size(h, kh, sh, d, padding), _out_size(w, kw, sw, d, padding)
        return self._finish(op, self._fm([1, oh, ow, oc], name + "_out"))

    def dw(self, k=3, s=1, d=1, padding="SAME", kw=None, sw=None):
        kh, kw = k, (kw if kw is not None else k)
        sh, sw = s, (sw if sw is not None else s)
        _, h, w, c = self.cur.shape
        name = self._name("dw")
        op = Operation(Op.DepthwiseConv2DBias, name)
        weights = self._const(
            name + "_w", [1, kh, kw, c], DataType.int8, self.rng.randint(-5, 6, (1, kh, kw, c)), _quant(0.02)
        )
        bias = self._const(name + "_b", [c], DataType.int32, self.rng.randint(-10, 10, (c,)), _quant(0.001))
        op.inputs = [self.cur, weights, bias]
        op.attrs.update(
            dict(
                padding=Padding.SAME if padding == "SAME" else Padding.VALID,
                stride_h=sh,
                stride_w=sw,
                dilation_h_factor=d,
                dilation_w_factor=d,
                depth_multiplier=1,
                fused_activation_function=None,
            )
        )
        oh, ow = _out_size(h, kh, sh, d, padding), _out_size(w, kw, sw, d, padding)
        return self._finish(op, self._fm([1, oh, ow, c], name + "_out"))

    def pool(self, kind="max", k=2, s=2, padding="VALID", kw=None, sw=None):
        kh, kw = k, (kw if kw is not None else k)
        sh, sw = s, (sw if sw is not None else s)
        _, h, w, c = self.cur.shape
        name = self._name(kind + "pool")
        op = Operation(Op.MaxPool if kind == "max" else Op.AvgPool, name)
        op.inputs = [self.cur]
        op.attrs.update(
            dict(
                padding=Padding.SAME if padding == "SAME" else Padding.VALID,
                stride_h=sh,
                stride_w=sw,
                filter_height=kh,
                filter_width=kw,
                fused_activation_function=None,
            )
        )
        oh, ow = _out_size(h, kh, sh, 1, padding), _out_size(w, kw, sw, 1, padding)
        return self._finish(op, self._fm([1, oh, ow, c], name + "_out"))

    def resize_nearest(self, factor=2, align_corners=False, half_pixel_centers=False):
        _, h, w, c = self.cur.shape
        name = self._name("resize")
        op = Operation(Op.ResizeNearestNeighbor, name)
        if align_corners:
            oh, ow = (h - 1) * factor + 1, (w - 1) * factor + 1
        else:
            oh, ow = h * factor, w * factor
        size = self._const(name + "_size", [2], DataType.int32, [oh, ow])
        op.inputs = [self.cur, size]
        op.attrs.update(dict(align_corners=align_corners, half_pixel_centers=half_pixel_centers))
        return self._finish(op, self._fm([1, oh, ow, c], name + "_out"))

    def resize_bilinear(self, factor=2, align_corners=False, half_pixel_centers=False):
        _, h, w, c = self.cur.shape
        name = self._name("bilinear")
        op = Operation(Op.ResizeBilinear, name)
        if align_corners:
            oh, ow = (h - 1) * factor + 1, (w - 1) * factor + 1
        else:
            oh, ow = h * factor, w * factor
        size = self._const(name + "_size", [2], DataType.int32, [oh, ow])
        op.inputs = [self.cur, size]
        op.attrs.update(dict(align_corners=align_corners, half_pixel_centers=half_pixel_centers))
        return self._finish(op, self._fm([1, oh, ow, c], name + "_out"))

    def transpose_conv(self, oc, k=3, s=2, padding="SAME"):
        _, h, w, c = self.cur.shape
        name = self._name("tconv")
        op = Operation(Op.Conv2DBackpropInput, name)
        if padding == "SAME":
            oh, ow = h * s, w * s
        else:
            oh, ow = (h - 1) * s + k, (w - 1) * s + k
        oshape = self._const(name + "_oshape", [4], DataType.int32, [1, oh, ow, oc])
        weights = self._const(
            name + "_w", [oc, k, k, c], DataType.int8, self.rng.randint(-5, 6, (oc, k, k, c)), _quant(0.02)
        )
        op.inputs = [oshape, weights, self.cur]
        op.attrs.update(dict(padding=Padding.SAME if padding == "SAME" else Padding.VALID, stride_h=s, stride_w=s))
        return self._finish(op, self._fm([1, oh, ow, oc], name + "_out"))

    def add_const(self):
        """elementwise ADD with a constant per channel vector"""
        _, h, w, c = self.cur.shape
        name = self._name("add")
        op = Operation(Op.Add, name)
        other = self._const(name + "_c", [1, 1, 1, c], DataType.int8, self.rng.randint(-20, 20, (1, 1, 1, c)), _quant())
        op.inputs = [self.cur, other]
        op.attrs.update(dict(fused_activation_function=None, pot_scale_int16=False))
        return self._finish(op, self._fm([1, h, w, c], name + "_out"))

    def add_tensors(self, a, b):
        name = self._name("add")
        op = Operation(Op.Add, name)
        op.inputs = [a, b]
        op.attrs.update(dict(fused_activation_function=None, pot_scale_int16=False))
        return self._finish(op, self._fm(list(a.shape), name + "_out"))

    def pad(self, top, bottom, left, right):
        _, h, w, c = self.cur.shape
        name = self._name("pad")
        op = Operation(Op.Pad, name)
        padv = self._const(
            name + "_paddings", [4, 2], DataType.int32, [[0, 0], [top, bottom], [left, right], [0, 0]]
        )
        op.inputs = [self.cur, padv]
        return self._finish(op, self._fm([1, h + top + bottom, w + left + right, c], name + "_out"))

    def slice_(self, begin, size):
        name = self._name("slice")
        op = Operation(Op.Slice, name)
        b = self._const(name + "_begin", [4], DataType.int32, begin)
        s = self._const(name + "_size", [4], DataType.int32, size)
        op.inputs = [self.cur, b, s]
        return self._finish(op, self._fm(list(size), name + "_out"))

    def strided_slice(self, begin, end):
        name = self._name("sslice")
        op = Operation(Op.StridedSlice, name)
        b = self._const(name + "_begin", [4], DataType.int32, begin)
        e = self._const(name + "_end", [4], DataType.int32, end)
        st = self._const(name + "_strides", [4], DataType.int32, [1, 1, 1, 1])
        op.inputs = [self.cur, b, e, st]
        op.attrs.update(
            dict(begin_mask=0, end_mask=0, ellipsis_mask=0, new_axis_mask=0, shrink_axis_mask=0, offset=False)
        )
        return self._finish(op, self._fm([e_ - b_ for b_, e_ in zip(begin, end)], name + "_out"))

    def concat(self, tensors, axis):
        name = self._name("concat")
        op = Operation(Op.ConcatTFLite, name)
        op.inputs = list(tensors)
        op.attrs.update(dict(axis=axis, fused_activation_function=None))
        shape = list(tensors[0].shape)
        shape[axis] = sum(t.shape[axis] for t in tensors)
        return self._finish(op, self._fm(shape, name + "_out"))

    def split(self, num, axis):
        name = self._name("split")
        op = Operation(Op.Split, name)
        ax = self._const(name + "_axis", [], DataType.int32, axis)
        op.inputs = [ax, self.cur]
        op.attrs.update(dict(num_splits=num))
        shape = list(self.cur.shape)
        shape[axis] //= num
        outs = [self._fm(shape, f"{name}_out{i}") for i in range(num)]
        op.outputs = outs
        for o in outs:
            o.ops = [op]
        self.ops.append(op)
        return outs

    # -- serialisation
    def write(self, filename, outputs=None):
        sg = Subgraph("main", PassPlacement.Cpu)
        ps = Pass("all", PassPlacement.Cpu, False, NpuBlockType.Default)
        ps.ops = list(self.ops)
        sg.passes = [ps]
        sg.original_inputs = list(self.inputs)
        sg.input_tensors = list(self.inputs)
        sg.output_tensors = list(outputs) if outputs else [self.cur]
        nng = Graph(self.name)
        nng.subgraphs = [sg]
        write_tflite(nng, filename)


# ----------------------------------------------------------------------------------------------------------------------
# compilation with capture
# ----------------------------------------------------------------------------------------------------------------------
class Compiled:
    def __init__(self):
        self.nng = None
        self.streams = []  # one entry per NPU subgraph: list of (npu_op, cmd) in execution order
        self.stdout = ""
        self.rc = None

    def npu_subgraphs(self):
        return [sg for sg in self.nng.subgraphs if sg.placement == PassPlacement.Npu]


def compile_net(net, args=(), outputs=None, quiet=True):
    """Writes the network to a temporary .tflite file and compiles it with the Vela driver. Returns a Compiled object"""
    res = Compiled()
    orig_process = vela.process
    orig_gen = hl2npu.generate_command_stream

    def process_wrapper(*a, **k):
        res.nng = orig_process(*a, **k)
        return res.nng

    def gen_wrapper(npu_op_list, arch, verbose, mem_limits, add_to_debug_db=None, npu_op_to_cmd=None):
        res.streams.append([(npu_op, npu_op_to_cmd.get(npu_op)) for npu_op in npu_op_list])
        return orig_gen(npu_op_list, arch, verbose, mem_limits, add_to_debug_db, npu_op_to_cmd)

    with tempfile.TemporaryDirectory() as tmp:
        fname = os.path.join(tmp, net.name + ".tflite")
        net.write(fname, outputs)
        vela.process = process_wrapper
        hl2npu.generate_command_stream = gen_wrapper
        buf = io.StringIO()
        saved_fd = None
        if quiet:
            # some of Vela's report functions captured sys.stdout at import time: silence the file descriptor as well
            sys.stdout.flush()
            saved_fd = os.dup(1)
            devnull = os.open(os.devnull, os.O_WRONLY)
            os.dup2(devnull, 1)
            os.close(devnull)
        try:
            with contextlib.redirect_stdout(buf) if quiet else contextlib.nullcontext():
                res.rc = vela.main([fname, "--output-dir", os.path.join(tmp, "out")] + list(args))
        finally:
            vela.process = orig_process
            hl2npu.generate_command_stream = orig_gen
            if saved_fd is not None:
                sys.stdout.flush()
                os.dup2(saved_fd, 1)
                os.close(saved_fd)
        res.stdout = buf.getvalue()
    return res


# ----------------------------------------------------------------------------------------------------------------------
# oracle
# ----------------------------------------------------------------------------------------------------------------------
def op_geometry(op):
    """Returns the geometry of an NPU operation from its (graph level) description"""
    k = op.kernel
    upscale = 1
    mode = op.ifm_resampling_mode.name  # NONE / NEAREST / TRANSPOSE
    if mode != "NONE":
        upscale = 2
    return dict(
        kh=k.height,
        kw=k.width,
        sy=k.stride.y,
        sx=k.stride.x,
        dy=k.dilation.y,
        dx=k.dilation.x,
        upscale=upscale,
        mode=mode,
    )


def expected_rows(a, b, pad_top_total, kd, stride, in_size):
    """Receptive field of the OFM rows [a, b) of an operator with the given total top padding, dilated kernel size and
    stride over an input with in_size rows (after upscaling). Returns (first row, end row, pad before, pad after)"""
    first = a * stride - pad_top_total
    last = (b - 1) * stride - pad_top_total + kd  # exclusive
    pad_before = max(0, -first)
    pad_after = max(0, last - in_size)
    return max(first, 0), min(last, in_size), pad_before, pad_after


class Violation(Exception):
    pass


def _rows_of_fm(fm, box):
    """Address of element (row, x=0, c=0) of every row of the box, derived from the tiles / strides of an
    NpuFeatureMap whose base address is the address of the first element of the box"""
    t = fm.tiles
    n_rows = int(box.end_coord[1]) - int(box.start_coord[1])
    x0 = int(box.start_coord[2])
    c0 = int(box.start_coord[3])
    elem = fm.data_type.size_in_bytes()
    if fm.layout == NpuLayout.NHCWB16:
        back = x0 * fm.strides.width + (c0 // 16) * fm.strides.depth + (c0 % 16) * elem
    else:
        back = x0 * fm.strides.width + c0 * elem
    res = []
    for y in range(n_rows):
        if y < t.height_0:
            res.append(t.addresses[0] + y * fm.strides.height - back)
        else:
            res.append(t.addresses[2] + (y - t.height_0) * fm.strides.height - back)
    return res


def _check_elementwise(ps, stripes):
    """Every input box of an elementwise operator is the OFM box moved to the window that the input is read from
    (a broadcast axis of the input always uses index 0)"""
    res = []
    op = ps.primary_op
    woff = op.write_offset.as_list() if op.write_offset is not None else [0, 0, 0, 0]
    # graph level inputs: (tensor, shape, read offset)
    graph_inputs = []
    for idx, tens in enumerate([op.ifm, op.ifm2]):
        if tens is None or tens.shape == []:
            continue
        graph_inputs.append((tens, op.ifm_shapes[idx].as_list(), op.read_offsets[idx], op.read_shapes[idx]))
    for npu_op, cmd in stripes:
        o_s = [int(v) - w for v, w in zip(cmd.ofm_box.start_coord, woff)]
        o_e = [int(v) - w for v, w in zip(cmd.ofm_box.end_coord, woff)]
        boxes = {}
        for tens, box in ((cmd.ifm_tensor, cmd.ifm_box), (cmd.ifm2_tensor, cmd.ifm2_box)):
            if tens is not None and len(box.start_coord) == 4:
                boxes[tens] = box
        for tens, shape, roff, rshape in graph_inputs:
            box = boxes.get(tens)
            if box is None:
                continue
            off = roff.as_list() if roff is not None else [0, 0, 0, 0]
            win = rshape.as_list() if rshape is not None else shape
            exp_s, exp_e = [], []
            for ax in range(4):
                if win[ax] == 1 and (o_e[ax] - o_s[ax] != 1 or o_s[ax] != 0):
                    exp_s.append(off[ax])
                    exp_e.append(off[ax] + 1)
                else:
                    exp_s.append(o_s[ax] + off[ax])
                    exp_e.append(o_e[ax] + off[ax])
            got_s = [int(v) for v in box.start_coord]
            got_e = [int(v) for v in box.end_coord]
            if got_s != exp_s or got_e != exp_e:
                res.append(
                    f"{op.name}: OFM box {o_s}-{o_e} reads {tens.name} box {got_s}-{got_e}, expected {exp_s}-{exp_e}"
                )
    return res


def check_stream(stream, log=None):
    """Checks one NPU subgraph's list of (npu_op, cmd). Raises Violation"""
    problems = []

    def bad(msg):
        problems.append(msg)

    # group the stripes per pass
    per_pass = {}
    order = []
    for npu_op, cmd in stream:
        if not isinstance(cmd, NpuStripe):
            continue
        if cmd.ps not in per_pass:
            per_pass[cmd.ps] = []
            order.append(cmd.ps)
        per_pass[cmd.ps].append((npu_op, cmd))

    # 1. OFM partition
    for ps in order:
        op = ps.primary_op
        if op.write_offset is not None:
            start = op.write_offset.as_list()
            end = (op.write_offset + op.write_shape).as_list()
        else:
            start = [0, 0, 0, 0]
            end = ps.ofm_shapes[0].as_list()
        cover = np.zeros([e - s for s, e in zip(start, end)], dtype=np.int32)
        for npu_op, cmd in per_pass[ps]:
            s = [int(v) for v in cmd.ofm_box.start_coord]
            e = [int(v) for v in cmd.ofm_box.end_coord]
            if any(x < lo for x, lo in zip(s, start)) or any(x > hi for x, hi in zip(e, end)):
                bad(f"{op.name}: OFM box {s}-{e} outside the written region {start}-{end}")
                continue
            sl = tuple(slice(a - o, b - o) for a, b, o in zip(s, e, start))
            cover[sl] += 1
        if cover.size and (cover.min() != 1 or cover.max() != 1):
            bad(
                f"{op.name}: stripes do not partition the OFM region {start}-{end}: "
                f"min cover {cover.min()}, max cover {cover.max()}"
            )

    # 2. receptive fields and padding
    for ps in order:
        op = ps.primary_op
        if op.type.npu_block_type == NpuBlockType.VectorProduct:
            continue
        if op.type.npu_block_type == NpuBlockType.ElementWise:
            problems.extend(_check_elementwise(ps, per_pass[ps]))
            continue
        if op.attrs.get("padding") == Padding.TILE:
            # edge replication through the tile base addresses (half pixel centre resize); not covered by this oracle
            continue
        g = op_geometry(op)
        ifm_shape = ps.ifm_shapes[0]
        roff = op.read_offsets[0]
        rshape = op.read_shapes[0]
        win_h, win_w = ifm_shape.height, ifm_shape.width
        off_h = off_w = 0
        if roff is not None:
            off_h, off_w = roff.height, roff.width
            win_h, win_w = rshape.height, rshape.width
        woff = op.write_offset.as_list() if op.write_offset is not None else [0, 0, 0, 0]
        pt, pl, pb, pr = op.attrs["explicit_padding"]
        if g["mode"] == "NONE" and op.attrs.get("padding") in (Padding.SAME, Padding.VALID):
            # the graph level padding follows from the TensorFlow Lite definition of SAME / VALID
            exp = []
            for size, k_, d_, s_ in ((win_h, g["kh"], g["dy"], g["sy"]), (win_w, g["kw"], g["dx"], g["sx"])):
                kd_ = (k_ - 1) * d_ + 1
                total = max(((size + s_ - 1) // s_ - 1) * s_ + kd_ - size, 0) if op.attrs["padding"] == Padding.SAME else 0
                exp.append(total // 2)
            if op.type.is_avgpool_op() and g["kh"] * g["kw"] == 1:
                exp = [0, 0]
            if [pt, pl] != exp:
                bad(f"{op.name}: top/left padding {pt}/{pl} of the operator, TensorFlow Lite semantics gives {exp[0]}/{exp[1]}")
        kdh = (g["kh"] - 1) * g["dy"] + 1
        kdw = (g["kw"] - 1) * g["dx"] + 1
        up = g["upscale"]
        for npu_op, cmd in per_pass[ps]:
            a = int(cmd.ofm_box.start_coord[1]) - woff[1]
            b = int(cmd.ofm_box.end_coord[1]) - woff[1]
            xa = int(cmd.ofm_box.start_coord[2]) - woff[2]
            xb = int(cmd.ofm_box.end_coord[2]) - woff[2]
            # rows in upscaled input coordinates
            f, l, pbef, paft = expected_rows(a, b, pt, kdh, g["sy"], win_h * up)
            xf, xl, xbef, xaft = expected_rows(xa, xb, pl, kdw, g["sx"], win_w * up)
            pad = npu_op.padding
            got_top, got_bottom, got_left, got_right = pad.top, pad.bottom, pad.left, pad.right
            ib_s = [int(v) for v in cmd.ifm_box.start_coord]
            ib_e = [int(v) for v in cmd.ifm_box.end_coord]
            where = f"{op.name} OFM rows [{a},{b}) cols [{xa},{xb})"
            if g["mode"] == "NONE":
                if got_top != pbef:
                    bad(f"{where}: pad_top {got_top}, expected {pbef}")
                if got_bottom != paft:
                    bad(f"{where}: pad_bottom {got_bottom}, expected {paft}")
                if got_left != xbef:
                    bad(f"{where}: pad_left {got_left}, expected {xbef}")
                if got_right != xaft:
                    bad(f"{where}: pad_right {got_right}, expected {xaft}")
                if ib_s[1] != f + off_h:
                    bad(f"{where}: IFM box starts at row {ib_s[1]}, expected {f + off_h}")
                if ib_e[1] < l + off_h or ib_e[1] > win_h + off_h:
                    bad(f"{where}: IFM box ends at row {ib_e[1]}, expected at least {l + off_h} (window end {win_h + off_h})")
                if ib_s[2] != xf + off_w:
                    bad(f"{where}: IFM box starts at column {ib_s[2]}, expected {xf + off_w}")
                if ib_e[2] < xl + off_w or ib_e[2] > win_w + off_w:
                    bad(f"{where}: IFM box ends at column {ib_e[2]}, expected at least {xl + off_w}")
            else:
                # upscaled input (2x nearest neighbour or 2x zero insertion): the box is in IFM coordinates, the padding
                # in upscaled coordinates. The hardware starts the upscaled image at the first row of the box, so the
                # first kernel tap is at upscaled row up * box_start - pad_top
                s_rel = ib_s[1] - off_h
                e_rel = ib_e[1] - off_h
                first_tap = a * g["sy"] - pt
                if up * s_rel - got_top != first_tap:
                    bad(
                        f"{where}: IFM box starts at row {ib_s[1]} with pad_top {got_top}: first kernel row is "
                        f"{up * s_rel - got_top} in upscaled coordinates, expected {first_tap}"
                    )
                if got_top >= up and s_rel > 0:
                    bad(f"{where}: pad_top {got_top} although the IFM box starts at row {ib_s[1]} (not the first row)")
                if e_rel * up < l or e_rel > win_h:
                    bad(f"{where}: IFM box ends at row {ib_e[1]}, needs upscaled rows up to {l}")
                if g["mode"] == "NEAREST":
                    if got_bottom != paft:
                        bad(f"{where}: pad_bottom {got_bottom}, expected {paft}")
                else:
                    zeros = up - 1  # the zero rows behind the last IFM row can be counted as padding or as data
                    if not (paft <= got_bottom <= paft + zeros):
                        bad(f"{where}: pad_bottom {got_bottom}, expected {paft}..{paft + zeros}")
            # channels: a convolution reads every channel of its (window of the) IFM, the other operators read the
            # channels that they write
            off_c = roff.depth if roff is not None else 0
            if op.type.npu_block_type in (NpuBlockType.ConvolutionMxN, NpuBlockType.ReduceSum):
                exp_c = (off_c, off_c + (rshape.depth if rshape is not None else ifm_shape.depth))
            else:
                exp_c = (
                    int(cmd.ofm_box.start_coord[3]) - woff[3] + off_c,
                    int(cmd.ofm_box.end_coord[3]) - woff[3] + off_c,
                )
            if (ib_s[3], ib_e[3]) != exp_c:
                bad(f"{where}: IFM box channels [{ib_s[3]},{ib_e[3]}), expected [{exp_c[0]},{exp_c[1]})")
            # the feature map handed to the hardware has the size of the box
            if npu_op.ifm.shape.height != ib_e[1] - ib_s[1] or npu_op.ifm.shape.width != ib_e[2] - ib_s[2]:
                bad(f"{where}: IFM shape {npu_op.ifm.shape} differs from the box {ib_s}-{ib_e}")

    # 3. memory simulation: every IFM row that is read must hold the row of the producer that was written last
    memory = {}  # (region, address) -> (tensor name, row)
    written_tensors = set()
    for npu_op, cmd in stream:
        if not isinstance(cmd, NpuStripe):
            continue
        op = cmd.ps.primary_op
        # reads
        reads = [(npu_op.ifm, cmd.ifm_tensor, cmd.ifm_box)]
        if getattr(npu_op, "ifm2", None) is not None and cmd.ifm2_tensor is not None and len(cmd.ifm2_box.start_coord) == 4:
            if cmd.ifm2_tensor.shape != [] and npu_op.ifm2.tiles is not None:
                reads.append((npu_op.ifm2, cmd.ifm2_tensor, cmd.ifm2_box))
        for fm, tens, box in reads:
            if tens.name not in written_tensors or len(box.start_coord) != 4:
                continue
            if op.attrs.get("padding") == Padding.TILE:
                # the tiles are used for edge replication, not for a (possibly wrapped) box
                continue
            r0, r1 = int(box.start_coord[1]), int(box.end_coord[1])
            c0 = int(box.start_coord[3])
            x0 = int(box.start_coord[2])
            addrs = _rows_of_fm(fm, box)
            for i, addr in enumerate(addrs):
                key = (fm.region, addr)
                want = (tens.name, r0 + i, x0, c0 // 16 if fm.layout == NpuLayout.NHCWB16 else c0)
                got = memory.get(key)
                if got is None:
                    # the row may have been written with another column / channel start; look it up by row only
                    cands = [v for k_, v in memory.items() if v[0] == tens.name and v[1] == r0 + i]
                    if not cands:
                        bad(f"{op.name}: reads row {r0 + i} of {tens.name} at address {addr} that was never written")
                    continue
                if got[:2] != want[:2]:
                    bad(
                        f"{op.name}: reads row {r0 + i} of {tens.name} at address {addr}, "
                        f"but that location holds row {got[1]} of {got[0]}"
                    )
        # writes
        fm, tens, box = npu_op.ofm, cmd.ofm_tensor, cmd.ofm_box
        r0, r1 = int(box.start_coord[1]), int(box.end_coord[1])
        c0 = int(box.start_coord[3])
        x0 = int(box.start_coord[2])
        for i, addr in enumerate(_rows_of_fm(fm, box)):
            memory[(fm.region, addr)] = (tens.name, r0 + i, x0, c0 // 16 if fm.layout == NpuLayout.NHCWB16 else c0)
        written_tensors.add(tens.name)

    if log is not None:
        for ps in order:
            op = ps.primary_op
            log(f"  {op.name}: {len(per_pass[ps])} stripes")
    return problems


def describe(stream):
    lines = []
    for npu_op, cmd in stream:
        if isinstance(cmd, NpuStripe):
            pad = getattr(npu_op, "padding", None)
            lines.append(
                f"{cmd.ps.primary_op.name}: ofm {list(map(int, cmd.ofm_box.start_coord))}-{list(map(int, cmd.ofm_box.end_coord))}"
                f" ifm {list(map(int, cmd.ifm_box.start_coord))}-{list(map(int, cmd.ifm_box.end_coord))}"
                f" pad {pad} ifm_tiles {npu_op.ifm.tiles} ofm_tiles {npu_op.ofm.tiles}"
            )
    return "\n".join(lines)


CONFIGS = {
    "size55": ["--accelerator-config", "ethos-u55-128", "--optimise", "Size"],
    "size65": ["--accelerator-config", "ethos-u65-256", "--optimise", "Size"],
    "perf_small": ["--accelerator-config", "ethos-u55-64", "--optimise", "Performance", "--arena-cache-size", "20000"],
    "hee": [
        "--accelerator-config", "ethos-u55-128", "--config", "Arm/vela.ini",
        "--system-config", "Ethos_U55_High_End_Embedded", "--memory-mode", "Shared_Sram", "--optimise", "Size",
    ],
    "ded": [
        "--accelerator-config", "ethos-u65-512", "--config", "Arm/vela.ini",
        "--system-config", "Ethos_U65_High_End", "--memory-mode", "Dedicated_Sram", "--arena-cache-size", "30000",
    ],
}


# ----------------------------------------------------------------------------------------------------------------------
# oracle that only uses the definition of the network (class Net), not the attributes that the graph optimiser computed
# ----------------------------------------------------------------------------------------------------------------------
def origin(net, tens):
    """Follows SLICE / STRIDED_SLICE / SPLIT producers back to the tensor that holds the data. Returns (tensor, offset)"""
    off = [0, 0, 0, 0]
    while tens.ops:
        op = tens.ops[0]
        if op.type == Op.Slice:
            begin = [int(v) for v in op.inputs[1].values]
            off = [o + b for o, b in zip(off, begin)]
            tens = op.inputs[0]
        elif op.type == Op.StridedSlice:
            begin = [int(v) for v in op.inputs[1].values]
            off = [o + b for o, b in zip(off, begin)]
            tens = op.inputs[0]
        elif op.type == Op.Split:
            axis = int(op.inputs[0].values)
            idx = op.outputs.index(tens)
            off[axis] += idx * tens.shape[axis]
            tens = op.inputs[1]
        else:
            break
    return tens, off


def check_definition(net, stream):
    """For every computing operator of the network: the IFM boxes of its stripes must lie inside the window of the
    tensor that the network reads (SLICE/SPLIT chains resolved), start/end exactly where the receptive field of the
    stripe's OFM rows starts/ends."""
    problems = []
    by_out = {}
    for op in net.ops:
        if op.type in (Op.Conv2DBias, Op.DepthwiseConv2DBias, Op.MaxPool, Op.AvgPool):
            by_out[op.outputs[0].name] = op
    for npu_op, cmd in stream:
        if not isinstance(cmd, NpuStripe):
            continue
        ofm_name = cmd.ofm_tensor.name
        for suffix in ("_cpu", "_npu"):
            if ofm_name.endswith(suffix):
                ofm_name = ofm_name[: -len(suffix)]
        op = by_out.get(ofm_name)
        if op is None or cmd.ps.primary_op.write_offset is not None:
            continue
        x = op.inputs[0]
        root, off = origin(net, x)
        if not cmd.ifm_tensor.name.startswith(root.name):
            continue  # something was inserted in between (e.g. an explicit copy); not handled here
        a, b = int(cmd.ofm_box.start_coord[1]), int(cmd.ofm_box.end_coord[1])
        xa, xb = int(cmd.ofm_box.start_coord[2]), int(cmd.ofm_box.end_coord[2])
        at = op.attrs
        if op.type in (Op.MaxPool, Op.AvgPool):
            kh, kw, dh, dw_ = at["filter_height"], at["filter_width"], 1, 1
        else:
            wshape = op.inputs[1].shape
            kh, kw = wshape[1], wshape[2]
            dh, dw_ = at["dilation_h_factor"], at["dilation_w_factor"]
        sh, sw = at["stride_h"], at["stride_w"]
        res = []
        for size, k_, d_, s_, lo, hi in ((x.shape[1], kh, dh, sh, a, b), (x.shape[2], kw, dw_, sw, xa, xb)):
            kd_ = (k_ - 1) * d_ + 1
            total = max(((size + s_ - 1) // s_ - 1) * s_ + kd_ - size, 0) if at["padding"] == Padding.SAME else 0
            res.append(expected_rows(lo, hi, total // 2, kd_, s_, size))
        (f, l, pbef, paft), (xf, xl, xbef, xaft) = res
        ib_s = [int(v) for v in cmd.ifm_box.start_coord]
        ib_e = [int(v) for v in cmd.ifm_box.end_coord]
        where = f"{op.name} OFM rows [{a},{b})"
        if ib_s[1] != f + off[1] or not (l + off[1] <= ib_e[1] <= x.shape[1] + off[1]):
            problems.append(
                f"{where}: reads rows [{ib_s[1]},{ib_e[1]}) of {cmd.ifm_tensor.name}; the network reads rows "
                f"[{f + off[1]},{l + off[1]}) (window [{off[1]},{off[1] + x.shape[1]}))"
            )
        if ib_s[2] != xf + off[2] or not (xl + off[2] <= ib_e[2] <= x.shape[2] + off[2]):
            problems.append(
                f"{where}: reads columns [{ib_s[2]},{ib_e[2]}) of {cmd.ifm_tensor.name}; the network reads columns "
                f"[{xf + off[2]},{xl + off[2]})"
            )
        if op.type != Op.Conv2DBias:
            c0 = int(cmd.ofm_box.start_coord[3]) + off[3]
            c1 = int(cmd.ofm_box.end_coord[3]) + off[3]
        else:
            c0, c1 = off[3], off[3] + x.shape[3]
        if (ib_s[3], ib_e[3]) != (c0, c1):
            problems.append(f"{where}: reads channels [{ib_s[3]},{ib_e[3]}), the network reads [{c0},{c1})")
        pad = npu_op.padding
        if (pad.top, pad.bottom, pad.left, pad.right) != (pbef, paft, xbef, xaft):
            problems.append(
                f"{where}: padding top/bottom/left/right {pad.top}/{pad.bottom}/{pad.left}/{pad.right}, "
                f"the network needs {pbef}/{paft}/{xbef}/{xaft}"
            )
    return problems

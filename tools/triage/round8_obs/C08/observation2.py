# Observation 2 (UNMODIFIED tree): a CONV_2D and a TRANSPOSE_CONV that use the SAME constant weight tensor (both take OHWI
# weights in TensorFlow Lite) share one cached encoding, because the cache key contains the NPU block type
# (ConvolutionMxN for both) but not the operator kind. encode_weight_and_scale_tensor flips the kernel in H and W for
# Conv2DBackpropInputSwitchedBias only, so whichever operator is encoded second gets the other one's (un)flipped stream.
import os
import sys

sys.path.insert(0, os.getcwd())
sys.path.insert(0, os.path.dirname(os.path.abspath(__file__)))

import numpy as np  # noqa: E402
from c08_model import bias_tensor  # noqa: E402
from c08_model import compile_model  # noqa: E402
from c08_model import conv_weights  # noqa: E402
from c08_model import DataType  # noqa: E402
from c08_model import ModelBuilder  # noqa: E402
from c08_model import Padding  # noqa: E402
from c08_oracle import check_compiled  # noqa: E402
from c08_oracle import Violation  # noqa: E402


def model(shared, k=3, cin=16, o=24):
    rng = np.random.default_rng(4)
    b = ModelBuilder()
    x = b.input("x", [1, 6, 6, cin], DataType.int8, 0.5)
    w = conv_weights(b, rng, "w", o, k, k, cin)
    bi = bias_tensor(b, rng, "b", o)
    shp = b.const("shape", np.array([1, 12, 12, o]), DataType.int32)
    y = b.fm("y", [1, 12, 12, o], DataType.int8, 0.25)
    b.transpose_conv(shp, w, x, bi, y, stride=(2, 2), padding=Padding.SAME)
    b.output(y)
    x2 = b.input("x2", [1, 12, 12, cin], DataType.int8, 0.5)
    w2 = w if shared else conv_weights(b, rng, "w2", o, k, k, cin)
    b2 = bias_tensor(b, rng, "b2", o)
    y2 = b.fm("y2", [1, 12 - k + 1, 12 - k + 1, o], DataType.int8, 0.25)
    b.conv2d(x2, w2, b2, y2)
    b.output(y2)
    return b.to_buffer()


def main():
    found = 0
    for acc in ("ethos-u55-128", "ethos-u65-512", "ethos-u55-32"):
        for shared in (False, True):
            nng, arch = compile_model(model(shared), accelerator=acc)
            try:
                n = check_compiled(nng, arch)
                print(f"{acc}, shared weights={shared}: ok ({n} stripes)")
            except Violation as e:
                found += 1
                print(f"{acc}, shared weights={shared}: VIOLATION: {e}")
    if found:
        print("VIOLATION reproduced on this tree")
        return 1
    print("no violation")
    return 0


if __name__ == "__main__":
    sys.exit(main())

# Observation 1 (UNMODIFIED tree): the compressed-weight cache key (WeightCompressionConfig) does not contain the IFM
# bit depth. An int8 Conv2D and an int16 (16x8) Conv2D that use the SAME constant weight tensor get one shared encoding:
# the operator that is encoded second receives the stream that was ordered for the other IFM precision
# (different IFM block depth / traversal), so its weight section does not decode to its weights in hardware order.
# The same happens for two FULLY_CONNECTED operators (int8 / int16) sharing one weight tensor.
import os
import sys
from types import SimpleNamespace

sys.path.insert(0, os.getcwd())
sys.path.insert(0, os.path.dirname(os.path.abspath(__file__)))

import numpy as np  # noqa: E402
from c08_model import bias_tensor  # noqa: E402
from c08_model import compile_model  # noqa: E402
from c08_model import conv_weights  # noqa: E402
from c08_model import DataType  # noqa: E402
from c08_model import ModelBuilder  # noqa: E402
from c08_oracle import check_compiled  # noqa: E402
from c08_oracle import check_encoded_tensor  # noqa: E402
from c08_oracle import Violation  # noqa: E402


def model(cin=40, k=1, o=24):
    rng = np.random.default_rng(3)
    b = ModelBuilder()
    x1 = b.input("x1", [1, 12, 12, cin], DataType.int8, 0.5)
    x2 = b.input("x2", [1, 12, 12, cin], DataType.int16, 0.5)
    w = conv_weights(b, rng, "w", o, k, k, cin)  # one int8 weight tensor, used by both convolutions
    b1 = bias_tensor(b, rng, "b1", o, DataType.int32)
    b2 = bias_tensor(b, rng, "b2", o, DataType.int64)
    y1 = b.fm("y1", [1, 12 - k + 1, 12 - k + 1, o], DataType.int8, 0.25)
    y2 = b.fm("y2", [1, 12 - k + 1, 12 - k + 1, o], DataType.int16, 0.25)
    b.conv2d(x1, w, b1, y1)
    b.conv2d(x2, w, b2, y2)
    b.output(y1)
    b.output(y2)
    return b.to_buffer()


def main():
    found = 0
    for acc in ("ethos-u55-128", "ethos-u65-512"):
        nng, arch = compile_model(model(), accelerator=acc)
        try:
            check_compiled(nng, arch)
            print(f"{acc}: end-to-end: no violation")
        except Violation as e:
            found += 1
            print(f"{acc}: end-to-end VIOLATION: {e}")

        # the same thing at the level of weight_compressor.encode_weight_and_scale_tensor (two calls, second one hits the cache)
        from ethosu.vela import weight_compressor

        sched_ops = [so for sg in nng.subgraphs for so in (sg.sched_ops or [])]
        weight_compressor.CompressedWeightCache.clear()
        block_config = SimpleNamespace(ofm_block=SimpleNamespace(depth=32))
        for so in sorted(sched_ops, key=lambda s: s.parent_op.ifm.dtype.size_in_bits(), reverse=True):
            op = so.parent_op
            slices = [0, op.weights.values.shape[-1]]
            w, s = weight_compressor.encode_weight_and_scale_tensor(arch, op, op.weights, op.bias, so.kernel, block_config, slices)
            try:
                check_encoded_tensor(arch, op, w, s, 32, slices)
                print(f"{acc}: encode for {op.name} ({op.ifm.dtype}): ok (tensor {w.name} id {id(w):#x})")
            except Violation as e:
                found += 1
                print(f"{acc}: encode for {op.name} ({op.ifm.dtype}) VIOLATION (tensor {w.name} id {id(w):#x}): {e}")
    if found:
        print("VIOLATION reproduced on this tree")
        return 1
    print("no violation")
    return 0


if __name__ == "__main__":
    sys.exit(main())

# Sweep of the end-to-end oracle over many small models/configurations (used to look for violations in the pristine tree)
import os
import sys
import traceback

sys.path.insert(0, os.getcwd())
sys.path.insert(0, os.path.dirname(os.path.abspath(__file__)))

import numpy as np  # noqa: E402
from c08_model import compile_model  # noqa: E402
from c08_model import DataType  # noqa: E402
from c08_model import ModelBuilder  # noqa: E402
from c08_model import Padding  # noqa: E402
from c08_model import qp  # noqa: E402
from c08_oracle import check_compiled  # noqa: E402
from c08_oracle import Violation  # noqa: E402

rng = np.random.default_rng(7)


def conv_weights(b, name, o, kh, kw, i, per_channel=True, dtype=DataType.int8, zp=0, wscale=0.02):
    lo, hi = (-127, 128) if dtype == DataType.int8 else (0, 256)
    vals = rng.integers(lo, hi, size=(o, kh, kw, i))
    if per_channel:
        q = qp([wscale * (1 + 0.07 * k) for k in range(o)], 0, 0)
    else:
        q = qp(wscale, zp)
    return b.const(name, vals, dtype, q)


def bias_tensor(b, name, n, dtype=DataType.int32, mag=20000):
    vals = rng.integers(-mag, mag, size=(n,))
    return b.const(name, vals, dtype, qp(1.0, 0))


def single_conv(ifm_shape, o, k, dtype=DataType.int8, bias_dtype=DataType.int32, per_channel=True, stride=(1, 1), dilation=(1, 1),
                wdtype=DataType.int8, wzp=0, ifm_zp=0, mag=20000):
    b = ModelBuilder()
    x = b.input("x", ifm_shape, dtype, 0.5, ifm_zp)
    w = conv_weights(b, "w", o, k[0], k[1], ifm_shape[3], per_channel, wdtype, wzp)
    bi = bias_tensor(b, "b", o, bias_dtype, mag)
    oh = (ifm_shape[1] - (dilation[1] * (k[0] - 1) + 1)) // stride[1] + 1
    ow = (ifm_shape[2] - (dilation[0] * (k[1] - 1) + 1)) // stride[0] + 1
    y = b.fm("y", [1, oh, ow, o], dtype, 0.25, ifm_zp)
    b.conv2d(x, w, bi, y, stride=stride, dilation=dilation)
    b.output(y)
    return b.to_buffer()


def single_depthwise(ifm_shape, k, mult=1, dtype=DataType.int8, bias_dtype=DataType.int32, stride=(1, 1), dilation=(1, 1)):
    b = ModelBuilder()
    c = ifm_shape[3]
    x = b.input("x", ifm_shape, dtype, 0.5, 0)
    vals = rng.integers(-127, 128, size=(1, k[0], k[1], c * mult))
    w = b.const("w", vals, DataType.int8, qp([0.02 * (1 + 0.07 * i) for i in range(c * mult)], 0, 3))
    bi = bias_tensor(b, "b", c * mult, bias_dtype)
    oh = (ifm_shape[1] - (dilation[1] * (k[0] - 1) + 1)) // stride[1] + 1
    ow = (ifm_shape[2] - (dilation[0] * (k[1] - 1) + 1)) // stride[0] + 1
    y = b.fm("y", [1, oh, ow, c * mult], dtype, 0.25, 0)
    b.depthwise(x, w, bi, y, stride=stride, dilation=dilation, mult=mult)
    b.output(y)
    return b.to_buffer()


def single_fc(i, o, dtype=DataType.int8, bias_dtype=DataType.int32, batch=1):
    b = ModelBuilder()
    x = b.input("x", [batch, i], dtype, 0.5, 0)
    vals = rng.integers(-127, 128, size=(o, i))
    w = b.const("w", vals, DataType.int8, qp(0.02, 0))
    bi = bias_tensor(b, "b", o, bias_dtype)
    y = b.fm("y", [batch, o], dtype, 0.25, 0)
    b.fully_connected(x, w, bi, y)
    b.output(y)
    return b.to_buffer()


def chain(ifm_shape, specs, dtype=DataType.int8, share=None):
    """specs: list of (out_channels, kernel) ; convs with SAME-less VALID padding"""
    b = ModelBuilder()
    x = b.input("x", ifm_shape, dtype, 0.5, 0)
    cur = x
    shape = list(ifm_shape)
    for n, (o, k) in enumerate(specs):
        w = conv_weights(b, f"w{n}", o, k, k, shape[3])
        bi = bias_tensor(b, f"b{n}", o)
        shape = [1, shape[1] - k + 1, shape[2] - k + 1, o]
        y = b.fm(f"y{n}", shape, dtype, 0.25 + 0.01 * n, 0)
        b.conv2d(cur, w, bi, y)
        cur = y
    b.output(cur)
    return b.to_buffer()


CASES = []


def case(name, buf_fn, **kw):
    CASES.append((name, buf_fn, kw))


ACCS = ["ethos-u55-32", "ethos-u55-64", "ethos-u55-128", "ethos-u55-256", "ethos-u65-256", "ethos-u65-512"]


def build_cases():
    for acc in ACCS:
        for k in [(1, 1), (3, 3), (2, 5), (9, 9), (1, 10)]:
            for o in (3, 16, 40):
                case(f"conv k{k} o{o} {acc}", lambda k=k, o=o: single_conv([1, 12, 12, 5 if k != (1, 1) else 19], o, k), accelerator=acc)
        case(f"conv int16/int64 {acc}", lambda: single_conv([1, 8, 8, 20], 24, (3, 3), DataType.int16, DataType.int64, mag=1 << 36), accelerator=acc)
        case(f"conv int16/int32 {acc}", lambda: single_conv([1, 8, 8, 20], 24, (3, 3), DataType.int16, DataType.int32), accelerator=acc)
        case(f"conv uint8 zp {acc}", lambda: single_conv([1, 8, 8, 20], 24, (3, 3), DataType.uint8, DataType.int32, False, wdtype=DataType.uint8, wzp=121, ifm_zp=7), accelerator=acc)
        case(f"conv dil2 {acc}", lambda: single_conv([1, 16, 16, 20], 24, (3, 3), dilation=(2, 2)), accelerator=acc)
        case(f"conv dil(2,1) 5x5 {acc}", lambda: single_conv([1, 20, 20, 8], 24, (5, 5), dilation=(2, 1)), accelerator=acc)
        case(f"conv stride2 {acc}", lambda: single_conv([1, 17, 17, 20], 24, (3, 3), stride=(2, 2)), accelerator=acc)
        case(f"conv stride3 {acc}", lambda: single_conv([1, 17, 17, 20], 24, (3, 3), stride=(3, 3)), accelerator=acc)
        case(f"dw 3x3 {acc}", lambda: single_depthwise([1, 12, 12, 24], (3, 3)), accelerator=acc)
        case(f"dw 3x3 c=21 {acc}", lambda: single_depthwise([1, 12, 12, 21], (3, 3)), accelerator=acc)
        case(f"dw 9x3 {acc}", lambda: single_depthwise([1, 12, 12, 24], (9, 3)), accelerator=acc)
        case(f"dw mult {acc}", lambda: single_depthwise([1, 12, 12, 1], (3, 3), mult=20), accelerator=acc)
        case(f"dw int16 {acc}", lambda: single_depthwise([1, 12, 12, 24], (3, 3), dtype=DataType.int16, bias_dtype=DataType.int64), accelerator=acc)
        case(f"fc {acc}", lambda: single_fc(70, 50), accelerator=acc)
        case(f"fc batch {acc}", lambda: single_fc(70, 50, batch=4), accelerator=acc)
        case(f"fc int16 {acc}", lambda: single_fc(70, 50, DataType.int16, DataType.int64), accelerator=acc)
        # big weights: depth slicing / buffering
        for cache in (None, 16 * 1024, 40 * 1024):
            case(f"bigconv cache={cache} {acc}", lambda: single_conv([1, 6, 6, 64], 200, (3, 3)), accelerator=acc, arena_cache_size=cache)
            case(f"bigconv1x1 o=333 cache={cache} {acc}", lambda: single_conv([1, 6, 6, 128], 333, (1, 1)), accelerator=acc, arena_cache_size=cache)
            case(f"chain cache={cache} {acc}", lambda: chain([1, 20, 20, 16], [(32, 3), (48, 3), (64, 1), (17, 3)]), accelerator=acc, arena_cache_size=cache)


def main():
    build_cases()
    sel = sys.argv[1] if len(sys.argv) > 1 else ""
    bad = 0
    for name, fn, kw in CASES:
        if sel not in name:
            continue
        try:
            buf = fn()
            nng, arch = compile_model(buf, **kw)
            n = check_compiled(nng, arch)
            print(f"ok   {name}: {n} stripes")
        except Violation as e:
            bad += 1
            print(f"VIOL {name}: {e}")
        except Exception as e:  # noqa
            bad += 1
            print(f"ERR  {name}: {type(e).__name__}: {e}")
            if os.environ.get("TB"):
                traceback.print_exc()
    print("violations/errors:", bad)


if __name__ == "__main__":
    main()

# Helper: build small TensorFlow Lite models in memory with Vela's own classes and compile them with Vela
import os
import shutil
import sys
import tempfile
from types import SimpleNamespace

import numpy as np

sys.path.insert(0, os.getcwd())

from ethosu.vela import architecture_features  # noqa: E402
from ethosu.vela import compiler_driver  # noqa: E402
from ethosu.vela import model_reader  # noqa: E402
from ethosu.vela import scheduler  # noqa: E402
from ethosu.vela import tflite_writer  # noqa: E402
from ethosu.vela import vela  # noqa: E402
from ethosu.vela.data_type import DataType  # noqa: E402
from ethosu.vela.nn_graph import Graph  # noqa: E402
from ethosu.vela.nn_graph import Subgraph  # noqa: E402
from ethosu.vela.operation import Op  # noqa: E402
from ethosu.vela.operation import Operation  # noqa: E402
from ethosu.vela.operation import Padding  # noqa: E402
from ethosu.vela.tensor import create_const_tensor  # noqa: E402
from ethosu.vela.tensor import QuantizationParameters  # noqa: E402
from ethosu.vela.tensor import Tensor  # noqa: E402


def qp(scale, zero_point=0, quant_dim=None):
    q = QuantizationParameters()
    if np.ndim(scale) == 0:
        q.scale_f32 = np.float32(scale)
        q.zero_point = np.int64(zero_point)
    else:
        q.scale_f32 = np.array(scale, dtype=np.float32)
        if np.ndim(zero_point) == 0:
            zero_point = [zero_point] * len(scale)
        q.zero_point = np.array(zero_point, dtype=np.int64)
        q.quant_dim = quant_dim
    return q


class ModelBuilder:
    """Builds a single-subgraph TFLite model; tensors use the TFLite layouts (Conv2D weights OHWI, depthwise 1HWC)"""

    def __init__(self):
        self.ops = []
        self.inputs = []
        self.outputs = []
        self.count = 0

    def fm(self, name, shape, dtype=DataType.int8, scale=0.5, zero_point=0):
        t = Tensor(list(shape), dtype, name)
        t.quantization = qp(scale, zero_point)
        return t

    def input(self, name, shape, dtype=DataType.int8, scale=0.5, zero_point=0):
        t = self.fm(name, shape, dtype, scale, zero_point)
        op = Operation(Op.Placeholder, name)
        op.set_output_tensor(t)
        self.inputs.append(t)
        return t

    def const(self, name, values, dtype, quant=None):
        values = np.asarray(values)
        return create_const_tensor(name, list(values.shape), dtype, values, quantization=quant)

    def _add(self, op, inputs, ofm):
        for t in inputs:
            op.add_input_tensor(t)
        op.set_output_tensor(ofm)
        self.ops.append(op)
        return ofm

    def conv2d(self, ifm, weights, bias, ofm, stride=(1, 1), dilation=(1, 1), padding=Padding.VALID, name=None):
        self.count += 1
        op = Operation(Op.Conv2DBias, name or f"conv{self.count}")
        op.attrs = {
            "padding": padding,
            "stride_w": stride[0],
            "stride_h": stride[1],
            "dilation_w_factor": dilation[0],
            "dilation_h_factor": dilation[1],
            "fused_activation_function": None,
        }
        return self._add(op, [ifm, weights, bias], ofm)

    def depthwise(self, ifm, weights, bias, ofm, stride=(1, 1), dilation=(1, 1), padding=Padding.VALID, mult=1, name=None):
        self.count += 1
        op = Operation(Op.DepthwiseConv2DBias, name or f"dw{self.count}")
        op.attrs = {
            "padding": padding,
            "stride_w": stride[0],
            "stride_h": stride[1],
            "dilation_w_factor": dilation[0],
            "dilation_h_factor": dilation[1],
            "depth_multiplier": mult,
            "fused_activation_function": None,
        }
        return self._add(op, [ifm, weights, bias], ofm)

    def fully_connected(self, ifm, weights, bias, ofm, name=None):
        self.count += 1
        op = Operation(Op.FullyConnected, name or f"fc{self.count}")
        op.attrs = {
            "fused_activation_function": None,
            "weights_format": 0,
            "keep_num_dims": False,
            "asymmetric_quantize_inputs": False,
        }
        return self._add(op, [ifm, weights, bias], ofm)

    def transpose_conv(self, out_shape_tens, weights, ifm, bias, ofm, stride=(2, 2), padding=Padding.SAME, name=None):
        self.count += 1
        op = Operation(Op.Conv2DBackpropInput, name or f"tconv{self.count}")
        op.attrs = {
            "padding": padding,
            "stride_w": stride[0],
            "stride_h": stride[1],
            "fused_activation_function": None,
        }
        ins = [out_shape_tens, weights, ifm] + ([bias] if bias is not None else [])
        return self._add(op, ins, ofm)

    def mean(self, ifm, axes, ofm, keep_dims=True, name=None):
        self.count += 1
        op = Operation(Op.Mean, name or f"mean{self.count}")
        op.attrs = {"keep_dims": keep_dims}
        axis = create_const_tensor(f"axis{self.count}", [len(axes)], DataType.int32, np.array(axes))
        return self._add(op, [ifm, axis], ofm)

    def output(self, tens):
        self.outputs.append(tens)

    def to_buffer(self):
        nng = Graph("c08model")
        sg = Subgraph("main")
        sg.passes = [SimpleNamespace(ops=list(self.ops))]
        sg.original_inputs = list(self.inputs)
        sg.input_tensors = list(self.inputs)
        sg.output_tensors = list(self.outputs)
        nng.subgraphs.append(sg)
        return bytes(tflite_writer.write_tflite_buffer(nng))


def compile_model(
    buf,
    accelerator="ethos-u55-128",
    system_config=architecture_features.ArchitectureFeatures.DEFAULT_CONFIG,
    memory_mode=architecture_features.ArchitectureFeatures.DEFAULT_CONFIG,
    arena_cache_size=None,
    optimization_strategy=scheduler.OptimizationStrategy.Performance,
    quiet=True,
):
    """Compiles the model with Vela (same steps as vela.main below argument parsing); returns (nng, arch)"""
    outdir = tempfile.mkdtemp(prefix="c08_")
    path = os.path.join(outdir, "model.tflite")
    with open(path, "wb") as f:
        f.write(buf)
    arch = architecture_features.ArchitectureFeatures(
        vela_config_files=None,
        system_config=system_config,
        memory_mode=memory_mode,
        accelerator_config=accelerator,
        max_blockdep=architecture_features.ArchitectureFeatures.MAX_BLOCKDEP,
        verbose_config=False,
        arena_cache_size=arena_cache_size,
    )
    compiler_options = compiler_driver.CompilerOptions(output_dir=outdir)
    scheduler_options = scheduler.SchedulerOptions(
        optimization_strategy=optimization_strategy,
        sram_target=arch.arena_cache_size,
        verbose_schedule=False,
        verbose_progress=False,
    )
    model_reader_options = model_reader.ModelReaderOptions()
    if quiet:
        sys.stdout.flush()
        saved_fd = os.dup(1)
        devnull = os.open(os.devnull, os.O_WRONLY)
        os.dup2(devnull, 1)
    try:
        nng = vela.process(path, False, arch, model_reader_options, compiler_options, scheduler_options, False)
    finally:
        if quiet:
            sys.stdout.flush()
            os.dup2(saved_fd, 1)
            os.close(saved_fd)
            os.close(devnull)
        shutil.rmtree(outdir, ignore_errors=True)
    return nng, arch


# ---------------------------------------------------------------------------------------------------------------------
# small ready-made models (deterministic contents)
def conv_weights(b, rng, name, o, kh, kw, i, per_channel=True, dtype=DataType.int8, zp=0, wscale=0.02):
    lo, hi = (-127, 128) if dtype == DataType.int8 else (0, 256)
    vals = rng.integers(lo, hi, size=(o, kh, kw, i))
    if per_channel:
        q = qp([wscale * (1 + 0.07 * k) for k in range(o)], 0, 0)
    else:
        q = qp(wscale, zp)
    return b.const(name, vals, dtype, q)


def bias_tensor(b, rng, name, n, dtype=DataType.int32, mag=20000):
    vals = rng.integers(-mag, mag, size=(n,))
    return b.const(name, vals, dtype, qp(1.0, 0))


def single_conv_model(ifm_shape, o, k, seed=1, dtype=DataType.int8, bias_dtype=DataType.int32, per_channel=True, stride=(1, 1),
                      dilation=(1, 1)):
    """One Conv2D (VALID padding); returns the flatbuffer"""
    rng = np.random.default_rng(seed)
    b = ModelBuilder()
    x = b.input("x", ifm_shape, dtype, 0.5, 0)
    w = conv_weights(b, rng, "w", o, k[0], k[1], ifm_shape[3], per_channel)
    bi = bias_tensor(b, rng, "b", o, bias_dtype)
    oh = (ifm_shape[1] - (dilation[1] * (k[0] - 1) + 1)) // stride[1] + 1
    ow = (ifm_shape[2] - (dilation[0] * (k[1] - 1) + 1)) // stride[0] + 1
    y = b.fm("y", [1, oh, ow, o], dtype, 0.25, 0)
    b.conv2d(x, w, bi, y, stride=stride, dilation=dilation)
    b.output(y)
    return b.to_buffer()

# Independent oracle for property C08: what the weight/scale streams of a convolution-like operator must contain.
# Nothing in here calls the code that builds the streams (weight_compressor.encode_*, scaling.*); only the entropy
# DEcoder of the mlw_codec extension is used to turn a weight stream back into weight values.
import math
import os
import sys

import numpy as np

sys.path.insert(0, os.getcwd())

from ethosu import mlw_codec  # noqa: E402

# (ifm_ublock_depth, ofm_ublock_depth, cores) from the Ethos-U55/U65 technical reference manuals
ACCELERATORS = {
    "ethos-u55-32": (8, 4, 1),
    "ethos-u55-64": (8, 8, 1),
    "ethos-u55-128": (8, 8, 1),
    "ethos-u55-256": (8, 8, 1),
    "ethos-u65-256": (8, 8, 1),
    "ethos-u65-512": (8, 8, 2),
}


def accel_name(arch):
    return str(arch.accelerator_config.value).lower()


# ---------------------------------------------------------------------------------------------------------------------
# scales
def ref_round_half_away(x):
    return int(math.floor(abs(x) + 0.5)) * (1 if x >= 0 else -1)


def ref_quantise_scale(scale):
    """TensorFlow Lite QuantizeMultiplier expressed as (32-bit multiplier, right shift)"""
    if scale == 0:
        return 0, 16
    frac, exp = math.frexp(float(scale))
    q = ref_round_half_away(frac * (1 << 31))
    if q == (1 << 31):
        q //= 2
        exp += 1
    shift = 31 - exp
    if shift < 0 or shift > 63:
        return 0, 16
    return q, shift


def ref_reduced_quantise_scale(scale):
    mult, shift = ref_quantise_scale(scale)
    red = ((mult + (1 << 15)) >> 16) if mult < (32767 << 16) else 32767
    rshift = shift - 16
    if rshift < 0 or rshift > 63:
        return 0, 16
    return red, rshift


def ref_scales(ifm_bits, ifm_unsigned, is_fc, bias_is_int64, ifm_scale, weight_scales, ofm_scale, n, away_zero=False):
    ifm_scale = np.float32(ifm_scale)
    ofm_scale = np.float32(ofm_scale)
    ws = np.atleast_1d(np.asarray(weight_scales, dtype=np.float32))
    res = []
    for w in ws:
        if (ifm_bits == 8 and ifm_unsigned) or is_fc:
            s = np.double(np.float32(ifm_scale * w)) / np.double(ofm_scale)
        else:
            s = np.double(ifm_scale) * np.double(w) / np.double(ofm_scale)
        if ifm_bits == 16 and bias_is_int64:
            m, sh = ref_reduced_quantise_scale(s)
        else:
            m, sh = ref_quantise_scale(s)
        if away_zero:
            m += 1
        res.append((m, sh))
    if len(res) == 1:
        res = res * n
    return res


def pack_record(bias, mult, shift):
    bias = int(bias)
    assert -(1 << 39) <= bias < (1 << 39) and 0 <= mult < (1 << 32) and 0 <= shift < 64
    v = (bias & ((1 << 40) - 1)) | (mult << 40) | (shift << 72)
    return v.to_bytes(10, "little")


def unpack_record(rec):
    v = int.from_bytes(bytes(rec), "little")
    bias = v & ((1 << 40) - 1)
    if bias >= 1 << 39:
        bias -= 1 << 40
    return bias, (v >> 40) & 0xFFFFFFFF, (v >> 72) & 0xFF


# ---------------------------------------------------------------------------------------------------------------------
# weights
def ref_reorder(w, ifm_ub, ofm_ub, ofm_block_depth, is_depthwise, is_partkernel, ifm_bits, decomp_h, decomp_w):
    """w: OHWI integer array (already zero point corrected). Returns the weight sequence the hardware consumes"""
    ofm_depth, kh, kw, ifm_depth = w.shape
    out = []
    ifm_block_depth = 16 if (is_partkernel or ifm_bits == 16) else 32
    for ofm_block_z in range(0, ofm_depth, ofm_block_depth):
        clipped_ofm = min(ofm_block_depth, ofm_depth - ofm_block_z)
        for ifm_block_z in range(0, 1 if is_depthwise else ifm_depth, ifm_block_depth):
            if is_depthwise:
                clipped_ifm = ifm_ub
            elif is_partkernel:
                clipped_ifm = min(ifm_block_depth, ifm_depth - ifm_block_z)
            else:
                clipped_ifm = ifm_block_depth
            for sky in range(0, kh, decomp_h):
                sub_h = min(kh - sky, decomp_h)
                for skx in range(0, kw, decomp_w):
                    sub_w = min(kw - skx, decomp_w)
                    elements = sub_w * sub_h
                    if is_partkernel:
                        mult = 2 if ifm_bits == 16 else 4
                        elements = -(-elements // mult) * mult
                    elif is_depthwise:
                        elements = -(-elements // 4) * 4
                    outer = clipped_ifm if is_partkernel else 1
                    inner = 1 if is_partkernel else clipped_ifm
                    for ifm_ublk_outer in range(0, outer, ifm_ub):
                        for ofm_ublk in range(0, clipped_ofm, ofm_ub):
                            for element in range(elements):
                                kx = element % sub_w
                                ky = element // sub_w
                                for ifm_ublk_inner in range(0, inner, ifm_ub):
                                    for oz in range(ofm_ub):
                                        for iz in range(1 if is_depthwise else ifm_ub):
                                            ifm_z = ifm_block_z + ifm_ublk_inner + ifm_ublk_outer + iz
                                            ofm_z = ofm_block_z + ofm_ublk + oz
                                            if ifm_z < ifm_depth and ofm_z < ofm_depth and ky < sub_h:
                                                out.append(int(w[ofm_z, sky + ky, skx + kx, ifm_z]))
                                            else:
                                                out.append(0)
    return out


def decode_stream(data):
    return list(mlw_codec.decode(bytearray(data)))


class Violation(Exception):
    pass


def check_scale_section(data, biases, scales, what):
    """data: the bytes of the scale section (may be padded to 16); one record per channel expected"""
    n = len(biases)
    if len(data) < 10 * n:
        raise Violation(f"{what}: scale section has {len(data)} bytes, needs {10 * n} for {n} channels")
    if len(data) != -(-10 * n // 16) * 16 and len(data) != 10 * n:
        raise Violation(f"{what}: scale section length {len(data)} is not {10 * n} (rounded up to 16)")
    for i in range(n):
        got = bytes(data[10 * i : 10 * i + 10])
        exp = pack_record(biases[i], *scales[i])
        if got != exp:
            raise Violation(
                f"{what}: scale record {i} is (bias, mult, shift)={unpack_record(got)}, expected {unpack_record(exp)}"
            )
    if any(data[10 * n :]):
        raise Violation(f"{what}: padding after the scale records is not zero")


def check_weight_section(data, w_ohwi, ifm_ub, ofm_ub, block_depth, is_depthwise, is_partkernel, ifm_bits, dil_xy, what):
    exp = ref_reorder(w_ohwi, ifm_ub, ofm_ub, block_depth, is_depthwise, is_partkernel, ifm_bits, 8 // dil_xy[1], 8 // dil_xy[0])
    if len(data) % 16 != 0:
        raise Violation(f"{what}: weight section length {len(data)} is not a multiple of 16")
    if len(data) == 0:
        raise Violation(f"{what}: empty weight section")
    got = decode_stream(data)
    if got[: len(exp)] != exp or any(got[len(exp) :]):
        n = min(len(got), len(exp))
        first = next((i for i in range(n) if got[i] != exp[i]), n)
        raise Violation(
            f"{what}: weight section decodes to {len(got)} values, expected {len(exp)};"
            f" first difference at index {first}: got {got[first:first + 8]}, expected {exp[first:first + 8]}"
        )


# ---------------------------------------------------------------------------------------------------------------------
# Expected contents for one operator of a graph (taken from the operator's own constant tensors)
class Expect:
    def __init__(self, w_hwio, w_zero_point, biases, scales, is_depthwise, flip=False):
        w = np.asarray(w_hwio).astype(np.int64) - np.asarray(w_zero_point).astype(np.int64)
        if w.ndim == 2:
            w = w.reshape((1, 1) + w.shape)
        if flip:
            w = np.flip(w, axis=(0, 1))
        self.w_ohwi = np.transpose(w, (3, 0, 1, 2))
        self.biases = [int(b) for b in np.asarray(biases).flatten()]
        self.scales = list(scales)
        self.is_depthwise = is_depthwise


def expect_from_op(op):
    """Builds the expectation from the (optimised) operator: its weight values, zero points, bias and quantisation"""
    from ethosu.vela.data_type import DataType
    from ethosu.vela.operation import NpuBlockType
    from ethosu.vela.operation import Op
    from ethosu.vela.operation import RoundingMode

    wt = op.weights
    n = wt.values.shape[-1]
    ifm_dtype = op.ifm.dtype
    bias = op.bias
    iq = op.get_input_quantization()
    oq = op.get_output_quantization()
    ifm_scale = iq.scale_f32 if iq else 1.0
    ofm_scale = oq.scale_f32 if oq else 1.0
    if op.explicit_scaling:
        scales = [(int(m), int(s)) for s, m in zip(op.explicit_scaling.shift, op.explicit_scaling.multiplier)]
        if len(scales) == 1:
            scales = scales * n
    else:
        scales = ref_scales(
            ifm_dtype.size_in_bits(),
            ifm_dtype == DataType.uint8,
            op.original_type == Op.FullyConnected,
            bias.dtype == DataType.int64,
            ifm_scale,
            wt.quantization.scale_f32,
            ofm_scale,
            n,
            away_zero=(op.rounding_mode == RoundingMode.AwayZero),
        )
    return Expect(
        wt.values,
        wt.quantization.zero_point,
        bias.values,
        scales,
        op.type.npu_block_type == NpuBlockType.ConvolutionDepthWise,
        flip=(op.type == Op.Conv2DBackpropInputSwitchedBias),
    )


def check_encoded_tensor(arch, op, weights_tensor, scale_tensor, block_depth, depth_offsets, dilation_xy=(1, 1), expect=None):
    """Checks the return values of weight_compressor.encode_weight_and_scale_tensor against the property"""
    expect = expect or expect_from_op(op)
    ifm_ub, ofm_ub, ncores = ACCELERATORS[accel_name(arch)]
    ifm_bits = op.ifm.dtype.size_in_bits()
    from ethosu.vela.api import NpuBlockTraversal

    is_pk = weights_tensor.hw_traversal == NpuBlockTraversal.PART_KERNEL_FIRST
    buf = bytes(weights_tensor.buffer)
    sbuf = bytes(scale_tensor.buffer) if scale_tensor is not None else None
    prev_end = 0
    slice_sizes = []
    full_depth = expect.w_ohwi.shape[0]
    for idx, start in enumerate(depth_offsets[:-1]):
        end = depth_offsets[idx + 1]
        slice_start = None
        slice_end = None
        for core in range(ncores):
            chans = list(range(start + core, end, ncores))
            key = (core, start)
            rng = weights_tensor.encoded_ranges.get(key)
            what = f"slice [{start},{end}) core {core}"
            if not chans:
                if rng is not None and rng.total_bytes:
                    raise Violation(f"{what}: range for a core without channels")
                continue
            if rng is None:
                raise Violation(f"{what}: no encoded range")
            if rng.offset % 16 != 0:
                raise Violation(f"{what}: range offset {rng.offset} is not 16 byte aligned")
            if rng.offset < prev_end:
                raise Violation(f"{what}: range at {rng.offset} overlaps/precedes the previous range ending at {prev_end}")
            range_end = rng.offset + rng.weight_offset + rng.weight_bytes
            if range_end > len(buf):
                raise Violation(f"{what}: range end {range_end} beyond the buffer ({len(buf)})")
            core_block_depth = (block_depth + ncores - 1 - core) // ncores
            biases = [expect.biases[c] for c in chans]
            scales = [expect.scales[c] for c in chans]
            if scale_tensor is None:
                if rng.scale_bytes != 10 * len(chans):
                    raise Violation(f"{what}: scale_bytes {rng.scale_bytes}, expected {10 * len(chans)}")
                check_scale_section(buf[rng.offset : rng.offset + rng.weight_offset], biases, scales, what)
            else:
                srng = scale_tensor.encoded_ranges.get(key)
                if srng is None:
                    raise Violation(f"{what}: no range in the stand-alone scale tensor")
                if srng.offset % 16:
                    raise Violation(f"{what}: stand-alone scale range not aligned")
                if srng.scale_bytes != 10 * len(chans):
                    raise Violation(f"{what}: scale_bytes {srng.scale_bytes}, expected {10 * len(chans)}")
                send = srng.offset + -(-srng.scale_bytes // 16) * 16
                check_scale_section(sbuf[srng.offset : send], biases, scales, what + " (scale tensor)")
            wdata = buf[rng.offset + rng.weight_offset : range_end]
            check_weight_section(
                wdata, expect.w_ohwi[chans], ifm_ub, ofm_ub, core_block_depth, expect.is_depthwise, is_pk, ifm_bits, dilation_xy, what
            )
            prev_end = range_end
            slice_start = rng.offset if slice_start is None else slice_start
            slice_end = range_end
        slice_sizes.append(slice_end - slice_start)
    for idx, sz in enumerate(slice_sizes):
        if weights_tensor.double_buffer_sizes[idx % 2] < sz:
            raise Violation(
                f"double_buffer_sizes[{idx % 2}]={weights_tensor.double_buffer_sizes[idx % 2]} does not bound slice {idx} ({sz} bytes)"
            )
    if depth_offsets[-1] != full_depth:
        raise Violation("depth offsets do not end at the OFM depth")
    return slice_sizes


# ---------------------------------------------------------------------------------------------------------------------
# End to end: replay the register command stream of a compiled network and look at what every convolution will read
def _regs():
    from ethosu.vela.ethos_u55_regs.ethos_u55_regs import cmd0
    from ethosu.vela.ethos_u55_regs.ethos_u55_regs import cmd1

    return cmd0, cmd1


class ConvSnapshot:
    pass


def replay_command_stream(words, memories):
    """memories: dict region -> bytearray. Returns the list of ConvSnapshot (one per NPU_OP_CONV / NPU_OP_DEPTHWISE)"""
    cmd0, cmd1 = _regs()
    r0 = {}
    r1 = {}
    snaps = []
    dmas = []
    i = 0

    def mem(region, addr, length):
        m = memories.setdefault(region, bytearray())
        if len(m) < addr + length:
            m.extend(bytes(addr + length - len(m)))
        return m

    while i < len(words):
        w = int(words[i])
        code = w & 0x3FF
        param = (w >> 16) & 0xFFFF
        if w & 0x4000:
            payload = int(words[i + 1])
            i += 2
            r1[cmd1(code)] = (param << 32) | payload
            continue
        i += 1
        c = cmd0(code)
        r0[c] = param
        if c == cmd0.NPU_OP_DMA_START:
            length = r1[cmd1.NPU_SET_DMA0_LEN]
            src = mem(r0[cmd0.NPU_SET_DMA0_SRC_REGION] & 7, r1[cmd1.NPU_SET_DMA0_SRC], length)
            data = bytes(src[r1[cmd1.NPU_SET_DMA0_SRC] : r1[cmd1.NPU_SET_DMA0_SRC] + length])
            dreg = r0[cmd0.NPU_SET_DMA0_DST_REGION] & 7
            dst = mem(dreg, r1[cmd1.NPU_SET_DMA0_DST], length)
            dst[r1[cmd1.NPU_SET_DMA0_DST] : r1[cmd1.NPU_SET_DMA0_DST] + length] = data
            dmas.append((r0[cmd0.NPU_SET_DMA0_SRC_REGION] & 7, r1[cmd1.NPU_SET_DMA0_SRC], dreg, r1[cmd1.NPU_SET_DMA0_DST], length))
        elif c in (cmd0.NPU_OP_CONV, cmd0.NPU_OP_DEPTHWISE):
            s = ConvSnapshot()
            s.is_depthwise = c == cmd0.NPU_OP_DEPTHWISE
            s.block_depth = r0[cmd0.NPU_SET_OFM_BLK_DEPTH_M1] + 1
            s.ofm_depth = r0[cmd0.NPU_SET_OFM_DEPTH_M1] + 1
            ks = r0[cmd0.NPU_SET_KERNEL_STRIDE]
            s.part_kernel = bool(ks & 4)
            s.dilation_xy = (1 + ((ks >> 3) & 1), 1 + ((ks >> 4) & 1))
            s.ifm_bits = (8, 16, 32)[(r0[cmd0.NPU_SET_IFM_PRECISION] >> 2) & 3]
            s.weights = []
            s.scales = []
            wreg = r0[cmd0.NPU_SET_WEIGHT_REGION] & 7
            sreg = r0[cmd0.NPU_SET_SCALE_REGION] & 7
            for base, length in (
                (cmd1.NPU_SET_WEIGHT_BASE, cmd1.NPU_SET_WEIGHT_LENGTH),
                (cmd1.NPU_SET_WEIGHT1_BASE, cmd1.NPU_SET_WEIGHT1_LENGTH),
            ):
                if base in r1 and length in r1:
                    a, n = r1[base], r1[length]
                    s.weights.append((wreg, a, n, bytes(mem(wreg, a, n)[a : a + n])))
            for base, length in (
                (cmd1.NPU_SET_SCALE_BASE, cmd1.NPU_SET_SCALE_LENGTH),
                (cmd1.NPU_SET_SCALE1_BASE, cmd1.NPU_SET_SCALE1_LENGTH),
            ):
                if base in r1 and length in r1:
                    a, n = r1[base], r1[length]
                    s.scales.append((sreg, a, n, bytes(mem(sreg, a, n)[a : a + n])))
            snaps.append(s)
    replay_command_stream.last_dmas = dmas
    return snaps


def check_compiled(nng, arch, expectations=None, verbose=False):
    """For every convolution-like stripe of every NPU subgraph: the bytes the weight/scale registers point at (after the
    DMA transfers of the command stream have been replayed) must be the scale records / weights of exactly the OFM
    channels that the stripe produces. Returns the number of checked stripes."""
    from ethosu.vela.high_level_command_stream import NpuStripe
    from ethosu.vela.nn_graph import PassPlacement
    from ethosu.vela.operation import NpuBlockType

    ifm_ub, ofm_ub, ncores = ACCELERATORS[accel_name(arch)]
    checked = 0
    for sg in nng.subgraphs:
        if sg.placement != PassPlacement.Npu:
            continue
        memories = {0: bytearray(bytes(np.asarray(sg.flash_tensor.values, dtype=np.uint8).tobytes()))}
        snaps = replay_command_stream(sg.register_command_stream, memories)
        stripes = [
            cmd
            for cmd in sg.high_level_command_stream
            if isinstance(cmd, NpuStripe)
            and cmd.ps.primary_op.type.npu_block_type
            in (NpuBlockType.ConvolutionMxN, NpuBlockType.ConvolutionDepthWise, NpuBlockType.VectorProduct)
        ]
        if len(stripes) != len(snaps):
            raise Violation(f"{len(stripes)} convolution stripes but {len(snaps)} convolution commands")
        # every weight transfer must fit the buffer it is copied into (the buffers were sized from double_buffer_sizes)
        from ethosu.vela.high_level_command_stream import DMA
        from ethosu.vela.tensor import TensorPurpose

        dma_cmds = [cmd for cmd in sg.high_level_command_stream if isinstance(cmd, DMA)]
        dmas = replay_command_stream.last_dmas
        if len(dma_cmds) != len(dmas):
            raise Violation(f"{len(dma_cmds)} DMA commands but {len(dmas)} DMA operations in the register command stream")
        for cmd, (_, _, _, dst_addr, length) in zip(dma_cmds, dmas):
            if cmd.in_tensor.purpose != TensorPurpose.Weights:
                continue
            buf = cmd.out_tensor
            if dst_addr < buf.address or dst_addr + length > buf.address + buf.storage_size():
                raise Violation(
                    f"{cmd.ps.name}: weight DMA of {length} bytes to {dst_addr:#x} for channels from {cmd.box.start_coord[-1]} does not fit"
                    f" buffer '{buf.name}' [{buf.address:#x}, {buf.address + buf.storage_size():#x})"
                )
        for cmd, s in zip(stripes, snaps):
            op = cmd.ps.primary_op
            exp = (expectations or {}).get(op.ofm.name) or expect_from_op(op)
            c0 = cmd.ofm_box.start_coord[-1]
            c1 = cmd.ofm_box.end_coord[-1]
            what0 = f"{op.name} channels [{c0},{c1})"
            if s.ofm_depth != c1 - c0:
                raise Violation(f"{what0}: OFM_DEPTH register says {s.ofm_depth}")
            if verbose:
                print(what0, "blk", s.block_depth, "pk", s.part_kernel, [(r, hex(a), n) for r, a, n, _ in s.weights])
            for core in range(ncores):
                what = f"{what0} core {core}"
                chans = list(range(c0 + core, c1, ncores))
                if not chans:
                    if core < len(s.weights) and s.weights[core][2] != 0:
                        raise Violation(f"{what}: weight length {s.weights[core][2]} for a core without channels")
                    continue
                if core >= len(s.weights) or core >= len(s.scales):
                    raise Violation(f"{what}: no weight/scale registers")
                _, wa, wn, wdata = s.weights[core]
                _, sa, sn, sdata = s.scales[core]
                if wa % 16 or sa % 16:
                    raise Violation(f"{what}: unaligned weight/scale address {wa:#x}/{sa:#x}")
                check_scale_section(sdata, [exp.biases[c] for c in chans], [exp.scales[c] for c in chans], what)
                core_block_depth = (s.block_depth + ncores - 1 - core) // ncores
                check_weight_section(
                    wdata, exp.w_ohwi[chans], ifm_ub, ofm_ub, core_block_depth, s.is_depthwise, s.part_kernel, s.ifm_bits,
                    s.dilation_xy, what,
                )
            checked += 1
    return checked

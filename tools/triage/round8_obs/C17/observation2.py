# Observation 2 (unmodified tree): a model that already contains an Ethos-U custom operator (= output of an earlier Vela
# run) is accepted as input; the old operator is passed through as a CPU operator. When the second run targets another
# accelerator, the output model of that run contains a command stream tensor whose configuration action does not match
# the accelerator the model was compiled for (no error, no re-framing).
import os
import sys

sys.path.insert(0, os.getcwd())
sys.path.insert(0, os.path.join(os.getcwd(), "out"))

import c17_lib as L  # noqa: E402


def main():
    first, second = "ethos-u55-128", "ethos-u65-512"
    # NPU segment, an operator that stays on the CPU, NPU segment
    rc, out1, nng, log = L.compile_model(L.model_npu_cpu_npu(2), first)
    assert rc == 0 and not L.check_compiled_output(out1, nng, first)[0]
    rc, out2, nng2, log2 = L.compile_model(out1, second, name="again")
    print(f"second run (for {second}) return code {rc}")
    problems, n_ops = L.check_compiled_output(out2, None, second)
    print(f"{n_ops} Ethos-U operators in the output of the second run")
    for p in problems:
        print("  " + p)
    if problems:
        print(f"VIOLATION: the model generated for {second} contains command stream tensors configured for {first}")
        return 1
    print("no violation")
    return 0


if __name__ == "__main__":
    sys.exit(main())

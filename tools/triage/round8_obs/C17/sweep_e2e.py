import os, sys, itertools
sys.path.insert(0, os.getcwd()); sys.path.insert(0, os.path.join(os.getcwd(), "out"))
import c17_lib as L
models = {
 "add": L.model_add(), "add_big": L.model_add((1,64,64,32)), "chain9": L.model_chain(9), "chain_const": L.model_chain(4, const_operand=True),
 "ncn2": L.model_npu_cpu_npu(2), "ncn4": L.model_npu_cpu_npu(4), "conv": L.model_conv(), "conv_big": L.model_conv((1,32,32,16), 32),
 "add_1d": L.model_add((1,1,1,1)),
}
cfgs = []
for accel in L.ACCELS:
    cfgs.append((accel, []))
    if "u55" in accel:
        for sc in ["Ethos_U55_Deep_Embedded", "Ethos_U55_High_End_Embedded"]:
            for mm in ["Sram_Only", "Shared_Sram"]:
                cfgs.append((accel, ["--config", "Arm/vela.ini", "--system-config", sc, "--memory-mode", mm]))
    else:
        for sc in ["Ethos_U65_Embedded", "Ethos_U65_High_End", "Ethos_U65_Client_Server"]:
            for mm in ["Sram_Only", "Shared_Sram", "Dedicated_Sram", "Dedicated_Sram_512KB"]:
                cfgs.append((accel, ["--config", "Arm/vela.ini", "--system-config", sc, "--memory-mode", mm]))
extra_variants = [[], ["--optimise", "Size"], ["--cpu-tensor-alignment", "64"], ["--tensor-allocator", "LinearAlloc"], ["--enable-debug-db"]]
bad = 0; n = 0
for (accel, cfg) in cfgs:
    for nm, mdl in models.items():
        for ev in (extra_variants if nm in ("ncn4","conv") else [[]]):
            try:
                rc, out, nng, log = L.compile_model(mdl, accel, cfg + ev)
            except BaseException as e:
                print("EXC", accel, cfg, nm, ev, type(e).__name__, str(e)[:200]); bad += 1; continue
            n += 1
            if rc != 0 or out is None:
                print("RC", rc, accel, cfg, nm, ev, log[-300:]); bad += 1; continue
            probs, k = L.check_compiled_output(out, nng, accel)
            if probs or k == 0:
                print("PROB", accel, cfg, nm, ev, k, probs); bad += 1
print("runs", n, "bad", bad)

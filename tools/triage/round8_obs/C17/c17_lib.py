# Helper library for the C17 demos / observations (driver payload framing).
# Everything the oracle knows about the driver payload format is written down here independently of
# ethosu.vela.driver_actions / ethos_u55_regs (taken from the Ethos-U driver's documented custom-op payload layout).
import os
import struct
import sys
import tempfile

import flatbuffers
import numpy as np

ACCELS = ["ethos-u55-32", "ethos-u55-64", "ethos-u55-128", "ethos-u55-256", "ethos-u65-256", "ethos-u65-512"]

# accelerator -> (product, log2(MACs per clock cycle), SHRAM size in KiB)
EXPECTED_CONFIG = {
    "ethos-u55-32": (0, 5, 16),
    "ethos-u55-64": (0, 6, 16),
    "ethos-u55-128": (0, 7, 24),
    "ethos-u55-256": (0, 8, 48),
    "ethos-u65-256": (1, 8, 48),
    "ethos-u65-512": (1, 9, 96),
}
ARCH_VERSION = (1, 0, 6)

DA_CONFIG = 0x01
DA_CMD_STREAM = 0x02
DA_NOP = 0x05
FOURCC_COP1 = 0x31504F43  # "COP1", little endian


def expected_config_word(accel):
    product, log2_macs, shram_kb = EXPECTED_CONFIG[accel]
    return (product << 28) | (shram_kb << 8) | (0 << 4) | log2_macs


def expected_id_word():
    major, minor, patch = ARCH_VERSION
    return (major << 28) | (minor << 20) | (patch << 16)


def check_payload(payload, accel, expected_words=None):
    """Returns a list of problems (empty list = the payload frames the command stream correctly)"""
    problems = []
    payload = bytes(payload)
    if len(payload) % 4 != 0:
        return [f"payload length {len(payload)} is not a multiple of 4"]
    n = len(payload) // 4
    words = struct.unpack(f"<{n}I", payload)
    if n < 4:
        return [f"payload too short: {n} words"]
    if words[0] != FOURCC_COP1:
        problems.append(f"word 0 is {words[0]:#010x}, expected COP1 {FOURCC_COP1:#010x}")
    if words[1] & 0xFF != DA_CONFIG:
        problems.append(f"word 1 is {words[1]:#010x}, expected a Config driver action")
    if words[2] != expected_config_word(accel):
        w = words[2]
        problems.append(
            f"config word {w:#010x} != {expected_config_word(accel):#010x} for {accel}: product={w >> 28}, "
            f"shram_size={(w >> 8) & 0xFF}, log2_macs_per_cc={w & 0xF}, expected (product, log2_macs, shram)="
            f"{EXPECTED_CONFIG[accel]}"
        )
    if words[3] != expected_id_word():
        problems.append(f"id word {words[3]:#010x} != {expected_id_word():#010x} (arch version {ARCH_VERSION})")
    # walk over the remaining driver actions until the command stream action
    pos = 4
    while pos < n and words[pos] & 0xFF == DA_NOP:
        if words[pos] != DA_NOP:
            problems.append(f"NOP at word {pos} has non-zero fields: {words[pos]:#010x}")
        pos += 1
    if pos >= n:
        problems.append("no command stream driver action found")
        return problems
    hdr = words[pos]
    if hdr & 0xFF != DA_CMD_STREAM:
        problems.append(f"word {pos} is {hdr:#010x}, expected a CmdStream driver action")
        return problems
    declared = ((hdr >> 8) & 0xFF) << 16 | (hdr >> 16)
    start = pos + 1
    if (start * 4) % 16 != 0:
        problems.append(f"command words start at byte offset {start * 4}, which is not 16-byte aligned")
    following = n - start
    if declared != following:
        problems.append(f"header declares {declared} command words but {following} words follow")
    if expected_words is not None:
        exp = tuple(int(w) for w in expected_words)
        if len(exp) != following:
            problems.append(f"{following} command words in the payload, but the command stream has {len(exp)} words")
        got = words[start:]
        if got != exp:
            for i, (a, b) in enumerate(zip(got, exp)):
                if a != b:
                    problems.append(f"command word {i} is {a:#010x}, expected {b:#010x}")
                    break
    return problems


def command_words(payload):
    """The command words of a (correctly framed) payload"""
    n = len(payload) // 4
    words = struct.unpack(f"<{n}I", bytes(payload))
    pos = 4
    while words[pos] & 0xFF == DA_NOP:
        pos += 1
    return words[pos + 1 :]


# ---------------------------------------------------------------------------------------------------------------------
# A tiny TensorFlow Lite flatbuffer builder (only what is needed for small int8 test networks)
# ---------------------------------------------------------------------------------------------------------------------
def _vec_i32(b, vals):
    b.StartVector(4, len(vals), 4)
    for v in reversed(vals):
        b.PrependInt32(int(v))
    return b.EndVector()


def _vec_i64(b, vals):
    b.StartVector(8, len(vals), 8)
    for v in reversed(vals):
        b.PrependInt64(int(v))
    return b.EndVector()


def _vec_f32(b, vals):
    b.StartVector(4, len(vals), 4)
    for v in reversed(vals):
        b.PrependFloat32(float(v))
    return b.EndVector()


def _vec_off(b, offs):
    b.StartVector(4, len(offs), 4)
    for o in reversed(offs):
        b.PrependUOffsetTRelative(o)
    return b.EndVector()


def _vec_u8(b, data):
    data = bytes(data)
    b.StartVector(1, len(data), 16)
    b.head = b.head - len(data)
    b.Bytes[b.head : b.head + len(data)] = data
    return b.EndVector()


class ModelBuilder:
    """Collects tensors/operators of one or more subgraphs and serialises them as a .tflite flatbuffer"""

    INT8 = 9
    INT32 = 2

    def __init__(self):
        self.buffers = [b""]  # buffer 0 is the empty buffer
        self.subgraphs = []
        self.opcodes = []  # list of (builtin code, custom code or None)
        self.new_subgraph("main")

    def new_subgraph(self, name):
        self.sg = {"name": name, "tensors": [], "ops": [], "inputs": [], "outputs": []}
        self.subgraphs.append(self.sg)
        return len(self.subgraphs) - 1

    def tensor(self, name, shape, dtype=None, data=None, scale=0.5, zero_point=0):
        dtype = self.INT8 if dtype is None else dtype
        buf = 0
        if data is not None:
            np_type = {self.INT8: np.int8, self.INT32: np.int32}.get(dtype, np.uint8)
            self.buffers.append(np.asarray(data, dtype=np_type).tobytes())
            buf = len(self.buffers) - 1
        else:
            # every tensor has its own (empty) buffer, as the TensorFlow Lite converter does
            self.buffers.append(b"")
            buf = len(self.buffers) - 1
        self.sg["tensors"].append(
            {"name": name, "shape": list(shape), "type": dtype, "buffer": buf, "scale": scale, "zp": zero_point}
        )
        return len(self.sg["tensors"]) - 1

    def opcode(self, builtin, custom=None):
        key = (builtin, custom)
        if key not in self.opcodes:
            self.opcodes.append(key)
        return self.opcodes.index(key)

    def op(self, builtin, inputs, outputs, options=None, custom=None):
        """options: None or (BuiltinOptions type id, callable(builder) -> offset)"""
        self.sg["ops"].append(
            {"opcode": self.opcode(builtin, custom), "inputs": list(inputs), "outputs": list(outputs), "opt": options}
        )

    def set_io(self, inputs, outputs):
        self.sg["inputs"] = list(inputs)
        self.sg["outputs"] = list(outputs)

    # -- convenience operators ---------------------------------------------------------------------------------------
    def add(self, a, b, out):
        from ethosu.vela.tflite import AddOptions
        from ethosu.vela.tflite.BuiltinOptions import BuiltinOptions

        def opt(bld):
            AddOptions.AddOptionsStart(bld)
            AddOptions.AddOptionsAddFusedActivationFunction(bld, 0)
            return AddOptions.AddOptionsEnd(bld)

        self.op(0, [a, b], [out], (BuiltinOptions.AddOptions, opt))  # ADD = 0

    def mul(self, a, b, out):
        from ethosu.vela.tflite import MulOptions
        from ethosu.vela.tflite.BuiltinOptions import BuiltinOptions

        def opt(bld):
            MulOptions.MulOptionsStart(bld)
            MulOptions.MulOptionsAddFusedActivationFunction(bld, 0)
            return MulOptions.MulOptionsEnd(bld)

        self.op(18, [a, b], [out], (BuiltinOptions.MulOptions, opt))  # MUL = 18

    def cpu_op(self, a, out):
        """An operator that Vela leaves on the CPU (3rd party custom operator)"""
        self.op(32, [a], [out], None, custom="my_cpu_op")  # CUSTOM = 32

    def conv2d(self, ifm, weights, bias, out, stride=1):
        from ethosu.vela.tflite import Conv2DOptions
        from ethosu.vela.tflite.BuiltinOptions import BuiltinOptions

        def opt(bld):
            Conv2DOptions.Conv2DOptionsStart(bld)
            Conv2DOptions.Conv2DOptionsAddPadding(bld, 0)  # SAME
            Conv2DOptions.Conv2DOptionsAddStrideW(bld, stride)
            Conv2DOptions.Conv2DOptionsAddStrideH(bld, stride)
            Conv2DOptions.Conv2DOptionsAddDilationWFactor(bld, 1)
            Conv2DOptions.Conv2DOptionsAddDilationHFactor(bld, 1)
            Conv2DOptions.Conv2DOptionsAddFusedActivationFunction(bld, 0)
            return Conv2DOptions.Conv2DOptionsEnd(bld)

        self.op(3, [ifm, weights, bias], [out], (BuiltinOptions.Conv2DOptions, opt))  # CONV_2D = 3

    # -- serialisation -----------------------------------------------------------------------------------------------
    def build(self):
        from ethosu.vela.tflite import Buffer
        from ethosu.vela.tflite import Model
        from ethosu.vela.tflite import Operator
        from ethosu.vela.tflite import OperatorCode
        from ethosu.vela.tflite import QuantizationParameters
        from ethosu.vela.tflite import SubGraph
        from ethosu.vela.tflite import Tensor

        b = flatbuffers.Builder(1024)

        opcode_offs = []
        for builtin, custom in self.opcodes:
            custom_off = b.CreateString(custom) if custom is not None else None
            OperatorCode.OperatorCodeStart(b)
            OperatorCode.OperatorCodeAddDeprecatedBuiltinCode(b, min(builtin, 127))
            OperatorCode.OperatorCodeAddBuiltinCode(b, builtin)
            OperatorCode.OperatorCodeAddVersion(b, 1)
            if custom_off is not None:
                OperatorCode.OperatorCodeAddCustomCode(b, custom_off)
            opcode_offs.append(OperatorCode.OperatorCodeEnd(b))
        opcodes_vec = _vec_off(b, opcode_offs)

        sg_offs = []
        for sg in self.subgraphs:
            tens_offs = []
            for t in sg["tensors"]:
                shape = _vec_i32(b, t["shape"])
                name = b.CreateString(t["name"])
                q = None
                if t["scale"] is not None:
                    scale = _vec_f32(b, [t["scale"]])
                    zp = _vec_i64(b, [t["zp"]])
                    QuantizationParameters.QuantizationParametersStart(b)
                    QuantizationParameters.QuantizationParametersAddScale(b, scale)
                    QuantizationParameters.QuantizationParametersAddZeroPoint(b, zp)
                    q = QuantizationParameters.QuantizationParametersEnd(b)
                Tensor.TensorStart(b)
                Tensor.TensorAddShape(b, shape)
                Tensor.TensorAddType(b, t["type"])
                Tensor.TensorAddBuffer(b, t["buffer"])
                Tensor.TensorAddName(b, name)
                if q is not None:
                    Tensor.TensorAddQuantization(b, q)
                tens_offs.append(Tensor.TensorEnd(b))
            tensors_vec = _vec_off(b, tens_offs)
            op_offs = []
            for o in sg["ops"]:
                ins = _vec_i32(b, o["inputs"])
                outs = _vec_i32(b, o["outputs"])
                opt_off = None
                if o["opt"] is not None:
                    opt_off = o["opt"][1](b)
                Operator.OperatorStart(b)
                Operator.OperatorAddOpcodeIndex(b, o["opcode"])
                Operator.OperatorAddInputs(b, ins)
                Operator.OperatorAddOutputs(b, outs)
                if opt_off is not None:
                    Operator.OperatorAddBuiltinOptionsType(b, o["opt"][0])
                    Operator.OperatorAddBuiltinOptions(b, opt_off)
                op_offs.append(Operator.OperatorEnd(b))
            ops_vec = _vec_off(b, op_offs)
            ins = _vec_i32(b, sg["inputs"])
            outs = _vec_i32(b, sg["outputs"])
            name = b.CreateString(sg["name"])
            SubGraph.SubGraphStart(b)
            SubGraph.SubGraphAddTensors(b, tensors_vec)
            SubGraph.SubGraphAddInputs(b, ins)
            SubGraph.SubGraphAddOutputs(b, outs)
            SubGraph.SubGraphAddOperators(b, ops_vec)
            SubGraph.SubGraphAddName(b, name)
            sg_offs.append(SubGraph.SubGraphEnd(b))
        sgs_vec = _vec_off(b, sg_offs)

        buf_offs = []
        for data in self.buffers:
            data_off = _vec_u8(b, data) if len(data) else None
            Buffer.BufferStart(b)
            if data_off is not None:
                Buffer.BufferAddData(b, data_off)
            buf_offs.append(Buffer.BufferEnd(b))
        bufs_vec = _vec_off(b, buf_offs)
        desc = b.CreateString("c17 test model")

        Model.ModelStart(b)
        Model.ModelAddVersion(b, 3)
        Model.ModelAddOperatorCodes(b, opcodes_vec)
        Model.ModelAddSubgraphs(b, sgs_vec)
        Model.ModelAddDescription(b, desc)
        Model.ModelAddBuffers(b, bufs_vec)
        model = Model.ModelEnd(b)
        b.Finish(model, b"TFL3")
        return bytes(b.Output())


def model_add(shape=(1, 8, 8, 16)):
    m = ModelBuilder()
    a = m.tensor("a", shape)
    bb = m.tensor("b", shape)
    o = m.tensor("o", shape)
    m.add(a, bb, o)
    m.set_io([a, bb], [o])
    return m.build()


def model_chain(n_ops, shape=(1, 8, 8, 16), const_operand=False, vary_scales=False):
    """n_ops elementwise operators in a chain (alternating ADD / MUL)"""
    m = ModelBuilder()
    a = m.tensor("a", shape)
    bb = m.tensor("b", shape) if not const_operand else m.tensor("b", shape, data=np.ones(shape))
    cur = a
    for i in range(n_ops):
        o = m.tensor(f"t{i}", shape, scale=0.5 + (0.001 * (i % 977) if vary_scales else 0), zero_point=(i % 13) if vary_scales else 0)
        (m.add if i % 2 == 0 else m.mul)(cur, bb, o)
        cur = o
    m.set_io([a] if const_operand else [a, bb], [cur])
    return m.build()


def model_npu_cpu_npu(n_segments=2, shape=(1, 8, 8, 16), ops_per_segment=(1, 2, 3, 1)):
    """NPU segments separated by an operator that stays on the CPU -> several Ethos-U custom operators"""
    m = ModelBuilder()
    a = m.tensor("a", shape)
    bb = m.tensor("b", shape)
    cur = a
    k = 0
    for seg in range(n_segments):
        for i in range(ops_per_segment[seg % len(ops_per_segment)]):
            o = m.tensor(f"t{k}", shape)
            (m.add if k % 2 == 0 else m.mul)(cur, bb, o)
            cur = o
            k += 1
        if seg != n_segments - 1:
            o = m.tensor(f"c{seg}", shape)
            m.cpu_op(cur, o)
            cur = o
    m.set_io([a, bb], [cur])
    return m.build()


def model_while(shape=(1, 8, 8, 16), body_ops=2, main_ops=1):
    """main: [ADD..] -> WHILE(cond, body) ; body contains int8 ADD/MUL operators that run on the NPU"""
    from ethosu.vela.tflite import LessOptions
    from ethosu.vela.tflite import WhileOptions
    from ethosu.vela.tflite.BuiltinOptions import BuiltinOptions

    BOOL = 6
    m = ModelBuilder()
    # ---- main (subgraph 0)
    i0 = m.tensor("i", (1,), dtype=ModelBuilder.INT32, scale=None)
    a0 = m.tensor("a", shape)
    cur = a0
    for k in range(main_ops):
        o = m.tensor(f"m{k}", shape)
        (m.add if k % 2 == 0 else m.mul)(cur, a0, o)
        cur = o
    i_out = m.tensor("i_out", (1,), dtype=ModelBuilder.INT32, scale=None)
    a_out = m.tensor("a_out", shape)

    def while_opt(bld):
        WhileOptions.WhileOptionsStart(bld)
        WhileOptions.WhileOptionsAddCondSubgraphIndex(bld, 1)
        WhileOptions.WhileOptionsAddBodySubgraphIndex(bld, 2)
        return WhileOptions.WhileOptionsEnd(bld)

    m.op(119, [i0, cur], [i_out, a_out], (BuiltinOptions.WhileOptions, while_opt))  # WHILE = 119
    m.set_io([i0, a0], [i_out, a_out])
    # ---- cond (subgraph 1)
    m.new_subgraph("cond")
    ci = m.tensor("ci", (1,), dtype=ModelBuilder.INT32, scale=None)
    ca = m.tensor("ca", shape)
    lim = m.tensor("limit", (1,), dtype=ModelBuilder.INT32, data=[10], scale=None)
    res = m.tensor("cres", (1,), dtype=BOOL, scale=None)

    def less_opt(bld):
        LessOptions.LessOptionsStart(bld)
        return LessOptions.LessOptionsEnd(bld)

    m.op(58, [ci, lim], [res], (BuiltinOptions.LessOptions, less_opt))  # LESS = 58
    m.set_io([ci, ca], [res])
    # ---- body (subgraph 2)
    m.new_subgraph("body")
    bi = m.tensor("bi", (1,), dtype=ModelBuilder.INT32, scale=None)
    ba = m.tensor("ba", shape)
    one = m.tensor("one", (1,), dtype=ModelBuilder.INT32, data=[1], scale=None)
    bi_out = m.tensor("bi_out", (1,), dtype=ModelBuilder.INT32, scale=None)
    m.add(bi, one, bi_out)
    cur = ba
    for k in range(body_ops):
        o = m.tensor(f"b{k}", shape)
        (m.add if k % 2 == 0 else m.mul)(cur, ba, o)
        cur = o
    m.set_io([bi, ba], [bi_out, cur])
    return m.build()


def model_conv(ifm_shape=(1, 16, 16, 8), ofm_depth=16, kernel=3, seed=1):
    rng = np.random.default_rng(seed)
    m = ModelBuilder()
    a = m.tensor("a", ifm_shape)
    w = m.tensor(
        "w", (ofm_depth, kernel, kernel, ifm_shape[3]), data=rng.integers(-127, 128, (ofm_depth, kernel, kernel, ifm_shape[3])),
        scale=0.01,
    )
    bias = m.tensor("bias", (ofm_depth,), dtype=ModelBuilder.INT32, data=rng.integers(-100, 100, ofm_depth), scale=0.005)
    o = m.tensor("o", (ifm_shape[0], ifm_shape[1], ifm_shape[2], ofm_depth), scale=1.0)
    m.conv2d(a, w, bias, o)
    m.set_io([a], [o])
    return m.build()


# ---------------------------------------------------------------------------------------------------------------------
# Compiling and inspecting the output
# ---------------------------------------------------------------------------------------------------------------------
def compile_model(tflite_bytes, accel, extra_args=(), quiet=True, name="net"):
    """Runs the Vela driver (vela.main) on the model. Returns (return code, output .tflite bytes or None, nng, stdout)"""
    from ethosu.vela import vela

    captured = {}
    orig_process = vela.process

    def process_hook(*args, **kwargs):
        nng = orig_process(*args, **kwargs)
        captured["nng"] = nng
        return nng

    with tempfile.TemporaryDirectory() as tmp:
        in_name = os.path.join(tmp, name + ".tflite")
        with open(in_name, "wb") as f:
            f.write(tflite_bytes)
        out_dir = os.path.join(tmp, "out")
        args = [in_name, "--accelerator-config", accel, "--output-dir", out_dir] + list(extra_args)
        log_name = os.path.join(tmp, "stdout.txt")
        vela.process = process_hook
        sys.stdout.flush()
        saved_fd = os.dup(1) if quiet else None
        try:
            if quiet:
                # some modules keep their own reference to sys.stdout: redirect the file descriptor
                log_fd = os.open(log_name, os.O_WRONLY | os.O_CREAT | os.O_TRUNC)
                os.dup2(log_fd, 1)
                os.close(log_fd)
            rc = vela.main(args)
        finally:
            vela.process = orig_process
            sys.stdout.flush()
            if quiet:
                os.dup2(saved_fd, 1)
                os.close(saved_fd)
        log = ""
        if os.path.exists(log_name):
            with open(log_name, errors="replace") as f:
                log = f.read()
        out_name = os.path.join(out_dir, name + "_vela.tflite")
        out = None
        if os.path.exists(out_name):
            with open(out_name, "rb") as f:
                out = f.read()
    return rc, out, captured.get("nng"), log


def ethosu_ops_in_file(tflite_bytes):
    """Returns, for every 'ethos-u' custom operator of the file (in file order), a dict with the command stream tensor:
    {subgraph, op_index, name, shape, data (bytes)}"""
    from ethosu.vela.tflite.Model import Model

    model = Model.GetRootAsModel(bytearray(tflite_bytes), 0)
    res = []
    for sg_idx in range(model.SubgraphsLength()):
        sg = model.Subgraphs(sg_idx)
        for op_idx in range(sg.OperatorsLength()):
            op = sg.Operators(op_idx)
            code = model.OperatorCodes(op.OpcodeIndex())
            if code.CustomCode() != b"ethos-u":
                continue
            tens = sg.Tensors(op.Inputs(0))
            buf = model.Buffers(tens.Buffer())
            data = bytes(buf.DataAsNumpy()) if buf.DataLength() else b""
            # position of the first data byte in the file (field 'data' of table Buffer has vtable offset 4)
            field = buf._tab.Offset(4)
            file_offset = buf._tab.Vector(field) if field else None
            res.append(
                {
                    "subgraph": sg_idx,
                    "op_index": op_idx,
                    "name": tens.Name().decode(),
                    "shape": [tens.Shape(i) for i in range(tens.ShapeLength())],
                    "type": tens.Type(),
                    "data": data,
                    "n_inputs": op.InputsLength(),
                    "file_offset": file_offset,
                    "buffer": tens.Buffer(),
                }
            )
    return res


def npu_subgraph_streams(nng):
    """name of command stream tensor -> register command stream (list of words) taken from the compiler's graph"""
    from ethosu.vela.nn_graph import PassPlacement

    res = {}
    for sg in nng.subgraphs:
        if sg.placement == PassPlacement.Npu:
            res[sg.name + "_command_stream"] = list(sg.register_command_stream)
    return res


def check_compiled_output(out_bytes, nng, accel):
    """Checks every command stream tensor of a compiled file. Returns (problems, number of Ethos-U operators)"""
    problems = []
    ops = ethosu_ops_in_file(out_bytes)
    streams = npu_subgraph_streams(nng) if nng is not None else {}
    for o in ops:
        where = f"[{o['name']}]"
        if o["type"] != 3:  # UINT8
            problems.append(f"{where} tensor type {o['type']} is not UINT8")
        if o["shape"] != [len(o["data"])]:
            problems.append(f"{where} tensor shape {o['shape']} does not match its buffer of {len(o['data'])} bytes")
        if o["file_offset"] is None or o["file_offset"] % 16 != 0:
            problems.append(f"{where} buffer data is at file offset {o['file_offset']}, which is not 16-byte aligned")
        expected = streams.get(o["name"])
        if nng is not None and expected is None:
            problems.append(f"{where} no NPU subgraph of that name in the compiler's graph")
        for p in check_payload(o["data"], accel, expected):
            problems.append(f"{where} {p}")
    if nng is not None and len(ops) != len(streams):
        problems.append(f"{len(ops)} Ethos-U operators in the file, but {len(streams)} NPU subgraphs were compiled")
    return problems, len(ops)

# Observation 1 (unmodified tree): npu_create_driver_payload() accepts register command streams that are larger than
# the 16 MiB hardware limit of the Ethos-U command stream (QSIZE, the limit that generate_command_stream() enforces with
# "The command stream size exceeds the hardware limit of 16 MiB"). Only the driver limit (2^24 words = 64 MiB) is checked
# when the payload is framed, so streams of 2^22 .. 2^24-1 words are framed without any error.
import os
import struct
import sys

sys.path.insert(0, os.getcwd())

from ethosu.vela.api import npu_create_driver_payload  # noqa: E402
from ethosu.vela.api import NpuAccelerator  # noqa: E402
from ethosu.vela.errors import VelaError  # noqa: E402

HW_LIMIT_BYTES = 1 << 24  # 16 MiB, see register_command_stream_generator.generate_command_stream


def main():
    violations = []
    for n_words in (HW_LIMIT_BYTES // 4, HW_LIMIT_BYTES // 4 + 1, 3 * HW_LIMIT_BYTES // 4):
        stream = [0x00010000] * n_words  # NPU_OP_STOP-like words, the content does not matter
        try:
            payload = npu_create_driver_payload(stream, NpuAccelerator.Ethos_U55_128)
        except VelaError as e:
            print(f"{n_words} words ({4 * n_words / 2**20:.2f} MiB): rejected: {e}")
            continue
        hdr = struct.unpack_from("<I", payload, 28)[0]
        declared = ((hdr >> 8) & 0xFF) << 16 | (hdr >> 16)
        violations.append(n_words)
        print(
            f"{n_words} words ({4 * n_words / 2**20:.2f} MiB, beyond the 16 MiB hardware limit): accepted, payload of "
            f"{len(payload)} bytes declares {declared} command words"
        )
    if violations:
        print("VIOLATION: streams beyond the hardware size limit are framed instead of being rejected")
        return 1
    print("no violation")
    return 0


if __name__ == "__main__":
    sys.exit(main())

import os, sys, random, time
sys.path.insert(0, os.getcwd()); sys.path.insert(0, os.path.join(os.getcwd(), "out"))
import c17_lib as L
import numpy as np
from ethosu.vela.api import npu_create_driver_payload, NpuAccelerator
from ethosu.vela.errors import VelaError
amap = {a: getattr(NpuAccelerator, a.replace("ethos-","Ethos_").replace("-","_").replace("u","U",1)) for a in L.ACCELS}
print(amap)
random.seed(5)
lengths = [0,1,2,3,4,5,6,7,8,15,16,17,255,256,257,4095,4096,65534,65535,65536,65537,65538,131071,131072,(1<<20)-1,1<<20,(1<<20)+1, 1<<22, (1<<22)+3, (1<<23)+5]
lengths += [random.randrange(0, 1<<18) for _ in range(20)]
bad = 0
for n in lengths:
    stream = [random.getrandbits(32) for _ in range(n)]
    if n > 2: stream[0] = 0xFFFFFFFF; stream[1] = 0; stream[-1] = 0x80000000
    for accel in L.ACCELS:
        if n > (1<<20) and accel not in ("ethos-u55-64", "ethos-u65-512"): continue
        keep = list(stream)
        p = npu_create_driver_payload(stream, amap[accel])
        probs = L.check_payload(p, accel, keep)
        if stream != keep: probs.append("caller's list modified")
        if not isinstance(p, bytes): probs.append(f"type {type(p)}")
        if probs: print("PROB", n, accel, probs); bad += 1
print("bad", bad)
# other sequence types
for typ in (tuple, lambda s: np.array(s, dtype=np.uint32), lambda s: np.array(s, dtype=np.int64), lambda s: np.array(s, dtype=np.uint64)):
    s = [random.getrandbits(32) for _ in range(1000)]
    try:
        p = npu_create_driver_payload(typ(s), amap["ethos-u55-128"])
        print(typ, L.check_payload(p, "ethos-u55-128", s))
    except Exception as e:
        print(typ, "EXC", type(e).__name__, e)
# boundary
t=time.time()
big = [0x12345678] * ((1<<24)-1)
big[0]=1; big[-1]=0xFFFFFFFE
p = npu_create_driver_payload(big, amap["ethos-u65-256"])
print("2^24-1:", L.check_payload(p, "ethos-u65-256", big), time.time()-t)
del p
big.append(7)
for accel in L.ACCELS:
    try:
        p = npu_create_driver_payload(big, amap[accel]); print("2^24 accepted!", accel, len(p))
    except VelaError as e:
        print("2^24 rejected", accel, str(e)[:120])
big.append(7)
try:
    p = npu_create_driver_payload(big, amap[accel]); print("2^24+1 accepted!", accel, len(p))
except VelaError as e:
    print("2^24+1 rejected", accel, str(e)[:120])

"""Minimal TensorFlow Lite flatbuffer writer + Vela end-to-end helper + command stream / scale record decoder.

Used by the C09 demos and observations.  The flatbuffer is written with the flatbuffers runtime and the generated
schema modules only (ethosu.vela.tflite.*), i.e. not with Vela's own tflite_writer.
"""
import importlib
import os
import shutil
import struct
import sys
import tempfile

import flatbuffers
import numpy as np

T = importlib.import_module("ethosu.vela.tflite")


def _mod(name):
    return importlib.import_module("ethosu.vela.tflite." + name)


TensorType = _mod("TensorType").TensorType
BuiltinOperator = _mod("BuiltinOperator").BuiltinOperator
BuiltinOptions = _mod("BuiltinOptions").BuiltinOptions

NP_TO_TFL = {
    np.dtype(np.int8): TensorType.INT8,
    np.dtype(np.uint8): TensorType.UINT8,
    np.dtype(np.int16): TensorType.INT16,
    np.dtype(np.int32): TensorType.INT32,
    np.dtype(np.int64): TensorType.INT64,
    np.dtype(np.float32): TensorType.FLOAT32,
}


class Tens:
    def __init__(self, name, shape, dtype, scale=None, zero_point=0, data=None, quant_dim=0):
        self.name = name
        self.shape = list(shape)
        self.dtype = np.dtype(dtype)
        self.scale = scale  # None, float or sequence of floats
        self.zero_point = zero_point
        self.data = None if data is None else np.ascontiguousarray(np.asarray(data, dtype=self.dtype))
        self.quant_dim = quant_dim


class OpDef:
    def __init__(self, code, inputs, outputs, options_mod=None, options=None):
        self.code = code  # name in BuiltinOperator
        self.inputs = inputs
        self.outputs = outputs
        self.options_mod = options_mod  # e.g. "Conv2DOptions"
        self.options = options or {}  # {"Padding": 1, ...} -> Add<Key>


def build_model(tensors, ops, inputs, outputs):
    b = flatbuffers.Builder(1024)
    index = {id(t): i for i, t in enumerate(tensors)}

    # buffers: 0 is empty
    buffer_offsets = []
    Buffer = _mod("Buffer")
    Buffer.Start(b)
    buffer_offsets.append(Buffer.End(b))
    tens_buffer = {}
    for t in tensors:
        if t.data is not None:
            raw = t.data.tobytes()
            data_off = b.CreateByteVector(raw)
            Buffer.Start(b)
            Buffer.AddData(b, data_off)
            buffer_offsets.append(Buffer.End(b))
            tens_buffer[id(t)] = len(buffer_offsets) - 1
    Model = _mod("Model")
    Model.StartBuffersVector(b, len(buffer_offsets))
    for o in reversed(buffer_offsets):
        b.PrependUOffsetTRelative(o)
    buffers_vec = b.EndVector()

    # tensors
    Tensor = _mod("Tensor")
    QP = _mod("QuantizationParameters")
    tens_offsets = []
    for t in tensors:
        name_off = b.CreateString(t.name)
        Tensor.StartShapeVector(b, len(t.shape))
        for d in reversed(t.shape):
            b.PrependInt32(d)
        shape_off = b.EndVector()
        q_off = None
        if t.scale is not None:
            scales = list(np.atleast_1d(np.asarray(t.scale, dtype=np.float32)))
            zps = list(np.atleast_1d(np.asarray(t.zero_point, dtype=np.int64)))
            if len(zps) == 1 and len(scales) > 1:
                zps = zps * len(scales)
            QP.StartScaleVector(b, len(scales))
            for s in reversed(scales):
                b.PrependFloat32(float(s))
            sc_off = b.EndVector()
            QP.StartZeroPointVector(b, len(zps))
            for z in reversed(zps):
                b.PrependInt64(int(z))
            zp_off = b.EndVector()
            QP.Start(b)
            QP.AddScale(b, sc_off)
            QP.AddZeroPoint(b, zp_off)
            QP.AddQuantizedDimension(b, t.quant_dim)
            q_off = QP.End(b)
        Tensor.Start(b)
        Tensor.AddShape(b, shape_off)
        Tensor.AddType(b, NP_TO_TFL[t.dtype])
        Tensor.AddBuffer(b, tens_buffer.get(id(t), 0))
        Tensor.AddName(b, name_off)
        if q_off is not None:
            Tensor.AddQuantization(b, q_off)
        tens_offsets.append(Tensor.End(b))
    SubGraph = _mod("SubGraph")
    SubGraph.StartTensorsVector(b, len(tens_offsets))
    for o in reversed(tens_offsets):
        b.PrependUOffsetTRelative(o)
    tensors_vec = b.EndVector()

    # operator codes
    codes = []
    for op in ops:
        if op.code not in codes:
            codes.append(op.code)
    OperatorCode = _mod("OperatorCode")
    code_offsets = []
    for c in codes:
        val = getattr(BuiltinOperator, c)
        OperatorCode.Start(b)
        OperatorCode.AddDeprecatedBuiltinCode(b, min(val, 127))
        OperatorCode.AddBuiltinCode(b, val)
        OperatorCode.AddVersion(b, 1)
        code_offsets.append(OperatorCode.End(b))
    Model.StartOperatorCodesVector(b, len(code_offsets))
    for o in reversed(code_offsets):
        b.PrependUOffsetTRelative(o)
    codes_vec = b.EndVector()

    # operators
    Operator = _mod("Operator")
    op_offsets = []
    for op in ops:
        opt_off = None
        if op.options_mod:
            om = _mod(op.options_mod)
            om.Start(b)
            for k, v in op.options.items():
                getattr(om, "Add" + k)(b, v)
            opt_off = om.End(b)
        Operator.StartInputsVector(b, len(op.inputs))
        for t in reversed(op.inputs):
            b.PrependInt32(-1 if t is None else index[id(t)])
        in_off = b.EndVector()
        Operator.StartOutputsVector(b, len(op.outputs))
        for t in reversed(op.outputs):
            b.PrependInt32(index[id(t)])
        out_off = b.EndVector()
        Operator.Start(b)
        Operator.AddOpcodeIndex(b, codes.index(op.code))
        Operator.AddInputs(b, in_off)
        Operator.AddOutputs(b, out_off)
        if opt_off is not None:
            Operator.AddBuiltinOptionsType(b, getattr(BuiltinOptions, op.options_mod))
            Operator.AddBuiltinOptions(b, opt_off)
        op_offsets.append(Operator.End(b))
    SubGraph.StartOperatorsVector(b, len(op_offsets))
    for o in reversed(op_offsets):
        b.PrependUOffsetTRelative(o)
    ops_vec = b.EndVector()

    SubGraph.StartInputsVector(b, len(inputs))
    for t in reversed(inputs):
        b.PrependInt32(index[id(t)])
    sg_in = b.EndVector()
    SubGraph.StartOutputsVector(b, len(outputs))
    for t in reversed(outputs):
        b.PrependInt32(index[id(t)])
    sg_out = b.EndVector()
    sg_name = b.CreateString("main")
    SubGraph.Start(b)
    SubGraph.AddTensors(b, tensors_vec)
    SubGraph.AddInputs(b, sg_in)
    SubGraph.AddOutputs(b, sg_out)
    SubGraph.AddOperators(b, ops_vec)
    SubGraph.AddName(b, sg_name)
    sg_off = SubGraph.End(b)
    Model.StartSubgraphsVector(b, 1)
    b.PrependUOffsetTRelative(sg_off)
    sgs_vec = b.EndVector()

    desc = b.CreateString("c09 demo model")
    Model.Start(b)
    Model.AddVersion(b, 3)
    Model.AddOperatorCodes(b, codes_vec)
    Model.AddSubgraphs(b, sgs_vec)
    Model.AddDescription(b, desc)
    Model.AddBuffers(b, buffers_vec)
    m = Model.End(b)
    b.Finish(m, b"TFL3")
    return bytes(b.Output())


# ---------------------------------------------------------------------------------------------------------------
# compile with the real driver and pull the artefacts apart
# ---------------------------------------------------------------------------------------------------------------


last_log = ""


def compile_model(model_bytes, accelerator="ethos-u55-128", extra_args=()):
    """Runs ethosu.vela.vela.main on the model, returns (command_stream_words, readonly_blob_bytes).
    What the driver prints is kept in the module variable last_log"""
    global last_log
    from ethosu.vela import vela

    tmp = tempfile.mkdtemp(prefix="c09_tmp_", dir=os.path.dirname(os.path.abspath(__file__)))
    try:
        src = os.path.join(tmp, "m.tflite")
        with open(src, "wb") as f:
            f.write(model_bytes)
        out_dir = os.path.join(tmp, "o")
        argv = [src, "--output-dir", out_dir, "--accelerator-config", accelerator] + list(extra_args)
        log_path = os.path.join(tmp, "log.txt")
        sys.stdout.flush()
        saved = os.dup(1)
        logf = os.open(log_path, os.O_WRONLY | os.O_CREAT | os.O_TRUNC)
        try:
            os.dup2(logf, 1)
            vela.main(argv)
        finally:
            sys.stdout.flush()
            os.dup2(saved, 1)
            os.close(saved)
            os.close(logf)
            with open(log_path) as f:
                last_log = f.read()
        with open(os.path.join(out_dir, "m_vela.tflite"), "rb") as f:
            buf = f.read()
    finally:
        shutil.rmtree(tmp, ignore_errors=True)
    return extract_npu_payload(buf)


def extract_npu_payload(buf):
    """Finds the ethos-u custom operator in a compiled model: (list of command words, read-only blob)"""
    Model = _mod("Model").Model
    m = Model.GetRootAsModel(bytearray(buf), 0)
    sg = m.Subgraphs(0)
    for i in range(sg.OperatorsLength()):
        op = sg.Operators(i)
        code = m.OperatorCodes(op.OpcodeIndex())
        cc = code.CustomCode()
        if cc is not None and cc.decode() == "ethos-u":
            cs_t = sg.Tensors(op.Inputs(0))
            ro_t = sg.Tensors(op.Inputs(1))
            cs = m.Buffers(cs_t.Buffer()).DataAsNumpy().tobytes()
            ro_len = m.Buffers(ro_t.Buffer()).DataLength()
            ro = m.Buffers(ro_t.Buffer()).DataAsNumpy().tobytes() if ro_len else b""
            return parse_driver_payload(cs), ro
    raise RuntimeError("no ethos-u operator in compiled model (operator was not placed on the NPU)")


def parse_driver_payload(payload):
    """Strips the driver actions ('COP1' header, config words, ...) and returns the register command words"""
    words = list(struct.unpack("<%dI" % (len(payload) // 4), payload[: len(payload) // 4 * 4]))
    # driver action tags: id in bits 0..7, reserved (length high for the command stream) in 8..15, param in 16..31
    assert struct.pack("<I", words[0]) == b"COP1", struct.pack("<I", words[0])
    i = 1
    while i < len(words):
        w = words[i]
        action = w & 0xFF
        if action == 1:  # Config: tag + config word + id word
            i += 3
        elif action == 5:  # NOP
            i += 1
        elif action == 2:  # CmdStream
            length = ((w >> 16) & 0xFFFF) | (((w >> 8) & 0xFF) << 16)
            return words[i + 1 : i + 1 + length]
        else:
            raise RuntimeError("unexpected driver action %#x" % w)
    raise RuntimeError("no command stream action found")


def decode_commands(words):
    """Returns list of (name, param, payload_or_None)"""
    from ethosu.vela.ethos_u55_regs.ethos_u55_regs import cmd0, cmd1

    c0 = {c.value: c.name for c in cmd0}
    c1 = {c.value: c.name for c in cmd1}
    res = []
    i = 0
    while i < len(words):
        w = words[i]
        code = w & 0x3FF
        param = w >> 16
        if w & 0x4000:
            res.append((c1.get(code, hex(code)), param, words[i + 1]))
            i += 2
        else:
            res.append((c0.get(code, hex(code)), param, None))
            i += 1
    return res


def _addr(state, name):
    param, payload = state[name]
    return (param << 32) | payload


def split_ops(cmds):
    """Groups decoded commands per NPU operation: list of (op_command_name, param, state) where state holds the last
    value written to every register plus "_dmas": the DMA transfers issued so far"""
    state = {}
    dmas = []
    ops = []
    for name, param, payload in cmds:
        if name == "NPU_OP_DMA_START":
            dmas.append(
                (
                    state["NPU_SET_DMA0_SRC_REGION"][0],
                    _addr(state, "NPU_SET_DMA0_SRC"),
                    state["NPU_SET_DMA0_DST_REGION"][0],
                    _addr(state, "NPU_SET_DMA0_DST"),
                    _addr(state, "NPU_SET_DMA0_LEN"),
                )
            )
        elif name in ("NPU_OP_CONV", "NPU_OP_DEPTHWISE", "NPU_OP_POOL", "NPU_OP_ELEMENTWISE"):
            st = dict(state)
            st["_dmas"] = list(dmas)
            ops.append((name, param, st))
        elif not name.startswith("NPU_OP_"):
            state[name] = (param, payload)
    return ops


def scale_records(ro_blob, state, weights_region=0):
    """Decodes the 10-byte (bias, scale, shift) records that the operation in `state` reads (core 0). Records that were
    copied to SRAM by a DMA are looked up at the source of that DMA in the read-only blob"""
    region = state["NPU_SET_SCALE_REGION"][0]
    addr = _addr(state, "NPU_SET_SCALE_BASE")
    length = state["NPU_SET_SCALE_LENGTH"][1]
    if region != weights_region:
        for src_region, src, dst_region, dst, ln in reversed(state["_dmas"]):
            if dst_region == region and dst <= addr and addr + length <= dst + ln and src_region == weights_region:
                addr = src + (addr - dst)
                break
        else:
            raise RuntimeError("scale records are not in the read-only blob and no DMA brings them in")
    raw = ro_blob[addr : addr + length]
    assert len(raw) == length
    recs = []
    for k in range(0, len(raw) - 9, 10):
        r = raw[k : k + 10]
        bias = int.from_bytes(r[0:5], "little", signed=True)
        scale = int.from_bytes(r[5:9], "little")
        shift = r[9] & 0x3F
        recs.append((bias, scale, shift))
    return recs

"""Observation 3 (unmodified tree): scaling.elementwise_mul_scale does its arithmetic in float32 when it is called with
the reader's np.float32 scales (NumPy >= 2: float32 op Python float stays float32), so the pair is only good to 2^-24.

(a) int16 SOFTMAX: softmax.py derives the input multiplier with
        elementwise_mul_scale(ifm_scale, beta, 10.0 / 65535.0)
    The TFLite reference (activations.cc, SoftmaxPrepare, int16) computes
        double input_scale_beta_rescale = input->params.scale * params->beta / (10.0 / 65535.0);
    i.e. the float product is divided in double.  Vela's quotient is rounded to float32 first, and the int32 constant
    that is multiplied onto the input differences in the emitted model differs from the reference input_multiplier.
(b) MUL: register_command_stream_generator calls elementwise_mul_scale(ifm_scale, ifm2_scale, ofm_scale) with three
    np.float32, the whole expression is float32.  The emitted OFM_SCALE is off by up to ~2^-24 from the real scale
    s1*s2/so (and from the TFLite-Micro derivation, which casts every scale to double first; it is what
    tensorflow/lite/kernels/mul.cc gets when it evaluates the float expression, so this half is a precision observation
    only).  Vela itself is inconsistent here: convert_mul_max_to_abs_or_lrelu and the LSTM lowering derive the pair of
    the very same kind of Mul from np.double scales.

Run: cd /tmp/seed8/C09 && /venv/bin/python out/observation3.py     (exit code 1 = observed)
"""
import os
import struct
import sys
from fractions import Fraction

sys.path.insert(0, os.getcwd())
sys.path.insert(0, os.path.join(os.getcwd(), "out"))

import numpy as np  # noqa: E402

from c09_oracle import rel_error, vela_pair_from_tfl  # noqa: E402
from c09_tfl import OpDef, Tens, build_model, compile_model, decode_commands, split_ops  # noqa: E402


def softmax_int16(s_in):
    a = Tens("a", [1, 1, 4, 32], np.int16, s_in, 0)
    o = Tens("o", [1, 1, 4, 32], np.int16, np.float32(1 / 32768), 0)
    model = build_model([a, o], [OpDef("SOFTMAX", [a], [o], "SoftmaxOptions", {"Beta": 1.0})], [a], [o])
    words, ro = compile_model(model)
    assert len(split_ops(decode_commands(words))) > 5  # the softmax was lowered and runs on the NPU
    ref_mult, ref_shift = vela_pair_from_tfl(float(np.float32(s_in * np.float32(1.0))) / (10.0 / 65535.0))
    has_ref = struct.pack("<i", ref_mult) in ro
    # what is in the constant data instead?  the multipliers within +-200 of the reference
    near = [m for m in range(ref_mult - 200, ref_mult + 201) if struct.pack("<i", m) in ro]
    print(
        f"int16 SOFTMAX, input scale {s_in}: reference input_multiplier {ref_mult} (shift {ref_shift}) "
        f"{'found' if has_ref else 'NOT found'} in the constant data; found instead: {near}"
    )
    return 0 if has_ref else 1


def mul_int8(s1, s2, so):
    a = Tens("a", [1, 8, 8, 16], np.int8, s1, 3)
    b = Tens("b", [1, 8, 8, 16], np.int8, s2, -5)
    o = Tens("o", [1, 8, 8, 16], np.int8, so, 1)
    model = build_model([a, b, o], [OpDef("MUL", [a, b], [o], "MulOptions", {})], [a, b], [o])
    words, _ = compile_model(model)
    (op,) = [x for x in split_ops(decode_commands(words)) if x[0] == "NPU_OP_ELEMENTWISE"]
    shift, mult = op[2]["NPU_SET_OFM_SCALE"]
    real = Fraction(float(s1)) * Fraction(float(s2)) / Fraction(float(so))
    err = rel_error(mult, shift, real)
    ref = vela_pair_from_tfl(float(s1) * float(s2) / float(so))
    print(
        f"int8 MUL scales {s1} * {s2} / {so}: OFM_SCALE ({mult}, {shift}), double derivation {ref}, relative error "
        f"{float(err * (1 << 31)):.1f} * 2^-31"
    )
    return 1 if err > Fraction(1, 1 << 31) else 0


if __name__ == "__main__":
    n = 0
    n += softmax_int16(np.float32(0.0005))
    n += softmax_int16(np.float32(0.000305))
    n += mul_int8(np.float32(0.10325198), np.float32(0.016078206), np.float32(0.00021679181))
    print("OBSERVED" if n else "not observed")
    sys.exit(1 if n else 0)

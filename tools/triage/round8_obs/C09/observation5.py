"""Observation 5 (unmodified tree, minor): the OFM_SCALE pair of an average pool that also rescales (IFM scale != OFM
scale: AVERAGE_POOL_2D with different scales, the 1x1 pools behind requantising memory operations) represents the real
scale ifm_scale / (ofm_scale * n) only to about 2^-27, not 2^-31.

generate_ofm_scaling_for_pooling multiplies the 31-bit reciprocal of quantise_pooling_scale (which is deliberately
biased upwards by 2^-(31 - rescale_bits)) with the rescale factor.  For a factor > 1 three head-room bits are taken
(bias and rounding then amount to ~16 * 2^-31); for a factor < 1 and a kernel > 1x1 no bits are given back, so the
product has only 31 - log2(1/factor) significant bits and can also end up BELOW the real scale (ties then round down).
There is no TFLite reference for these pairs (the reference kernels require equal scales), so this is only a violation of
the accuracy clause of the property.

Run: cd /tmp/seed8/C09 && /venv/bin/python out/observation5.py     (exit code 1 = observed)
"""
import os
import sys
from fractions import Fraction

sys.path.insert(0, os.getcwd())
sys.path.insert(0, os.path.join(os.getcwd(), "out"))

import numpy as np  # noqa: E402

from c09_tfl import OpDef, Tens, build_model, compile_model, decode_commands, split_ops  # noqa: E402

if __name__ == "__main__":
    observed = 0
    for k, s1, s2 in ((2, 0.0123, 0.0456), (2, 0.0456, 0.0123), (1, 0.0456, 0.0123), (3, 0.001, 0.1), (2, 0.0123, 0.0123)):
        s1, s2 = np.float32(s1), np.float32(s2)
        a = Tens("a", [1, 8, 8, 16], np.int8, s1, 3)
        o = Tens("o", [1, 9 - k, 9 - k, 16], np.int8, s2, -4)
        opts = {"Padding": 1, "StrideW": 1, "StrideH": 1, "FilterWidth": k, "FilterHeight": k}
        words, _ = compile_model(build_model([a, o], [OpDef("AVERAGE_POOL_2D", [a], [o], "Pool2DOptions", opts)], [a], [o]))
        ((name, _, st),) = split_ops(decode_commands(words))
        shift, mult = st["NPU_SET_OFM_SCALE"]
        real = Fraction(float(s1)) / Fraction(float(s2)) / (k * k)
        err = (Fraction(mult, 1 << shift) - real) / real * (1 << 31)
        print(f"{k}x{k} average pool {s1} -> {s2}: OFM_SCALE ({mult}, {shift}), error {float(err):+.2f} * 2^-31")
        if abs(err) > 1.001:
            observed += 1
    print("OBSERVED" if observed else "not observed")
    sys.exit(1 if observed else 0)

"""Independent reference derivations (TFLite / TFLite-Micro reference kernels) used by the C09 demos and observations.

Nothing in here imports ethosu: everything is re-derived from the published reference algorithms with exact
integer / fractions arithmetic so that it can serve as an oracle for Vela's scaling code.
"""
import math
from fractions import Fraction


def cxx_round(x):
    """std::round(): halves are rounded away from zero"""
    return int(math.floor(x + 0.5)) if x >= 0 else -int(math.floor(-x + 0.5))


def tfl_quantize_multiplier(real):
    """tflite::QuantizeMultiplier(double) -> (quantized_multiplier, shift) in TFLite convention (x * m * 2^(shift-31))"""
    real = float(real)
    if real == 0.0:
        return 0, 0
    q, shift = math.frexp(real)
    q_fixed = cxx_round(q * (1 << 31))
    assert q_fixed <= (1 << 31)
    if q_fixed == (1 << 31):
        q_fixed //= 2
        shift += 1
    if shift < -31:
        shift = 0
        q_fixed = 0
    return q_fixed, shift


def vela_pair_from_tfl(real):
    """(multiplier, shift) in Vela/Ethos-U convention: value = multiplier * 2^-shift"""
    m, s = tfl_quantize_multiplier(real)
    return m, 31 - s


def pair_value(multiplier, shift):
    return Fraction(int(multiplier), 1 << int(shift))


def rel_error(multiplier, shift, real):
    real = Fraction(real)
    return abs(pair_value(multiplier, shift) - real) / real


def f32(x):
    """round a Python float to the nearest float32, returned as a Python float"""
    import struct

    return struct.unpack("<f", struct.pack("<f", x))[0]


# ---- element-wise reference derivations (tensorflow/lite/kernels/add.cc, sub.cc, mul.cc) -------------------------


def ref_add_sub_int8(s1, s2, so, left_shift=20):
    """General (non power-of-two) Add/Sub prepare: all arithmetic in double on the float32 scales.
    Returns ((in1_mult, in1_shift), (in2_mult, in2_shift), (out_mult, out_shift)) in TFLite convention"""
    s1, s2, so = float(s1), float(s2), float(so)
    twice_max = 2.0 * max(s1, s2)
    real1 = s1 / twice_max
    real2 = s2 / twice_max
    realo = twice_max / ((1 << left_shift) * so)
    return tfl_quantize_multiplier(real1), tfl_quantize_multiplier(real2), tfl_quantize_multiplier(realo)


def ref_mul(s1, s2, so):
    real = float(s1) * float(s2) / float(so)
    return tfl_quantize_multiplier(real)


# ---- integer application of a pair ------------------------------------------------------------------------------


def apply_round_half_up(acc, multiplier, shift):
    """(acc * multiplier) / 2^shift rounded half up (the 'natural' rounding of the Ethos-U output stage)"""
    if shift == 0:
        return acc * multiplier
    return (acc * multiplier + (1 << (shift - 1))) >> shift


def div_round_half_up(acc, n):
    """exact round-half-up division"""
    return (2 * acc + n) // (2 * n)


def srdhm(a, b):
    """gemmlowp SaturatingRoundingDoublingHighMul for int32"""
    if a == b == -(1 << 31):
        return (1 << 31) - 1
    ab = a * b
    nudge = (1 << 30) if ab >= 0 else 1 - (1 << 30)
    x = ab + nudge
    # C++ integer division truncates
    q = abs(x) // (1 << 31)
    return q if x >= 0 else -q


def rdbp(x, exponent):
    """gemmlowp RoundingDivideByPOT"""
    mask = (1 << exponent) - 1
    remainder = x & mask
    threshold = (mask >> 1) + (1 if x < 0 else 0)
    return (x >> exponent) + (1 if remainder > threshold else 0)


def tfl_multiply_by_quantized_multiplier(x, m, tfl_shift):
    left = tfl_shift if tfl_shift > 0 else 0
    right = -tfl_shift if tfl_shift < 0 else 0
    return rdbp(srdhm(x * (1 << left), m), right)


# ---- replay of the Ethos-U output stage on a decoded (multiplier, shift, rounding mode) ---------------------------


def sext(v, bits):
    v &= (1 << bits) - 1
    return v - (1 << bits) if v >> (bits - 1) else v


def output_stage(acc, mult, shift, rounding):
    """rounding: value of the OFM_PRECISION rounding field (0 TFL, 1 TRUNCATE, 2 NATURAL)"""
    if rounding == 2:
        return (acc * mult + (1 << (shift - 1))) >> shift if shift else acc * mult
    if rounding == 0:
        left = 31 - shift if shift < 31 else 0
        right = shift - 31 if shift > 31 else 0
        return rdbp(srdhm(acc * (1 << left), mult), right)
    if rounding == 1:
        v = acc * mult
        return -((-v) >> shift) if v < 0 else v >> shift
    raise AssertionError(rounding)


def tfl_avg_int8(acc, n):
    """reference_integer_ops::AveragePool: acc > 0 ? (acc + n / 2) / n : (acc - n / 2) / n with C++ division"""
    if acc > 0:
        return (acc + n // 2) // n
    return -((-acc + n // 2) // n)


def tfl_avg_uint8(acc, n):
    """reference_ops::AveragePool (uint8): (acc + n / 2) / n"""
    return (acc + n // 2) // n

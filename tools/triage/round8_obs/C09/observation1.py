"""Observation 1 (unmodified tree): uint8 AVERAGE_POOL_2D with stride 4 is lowered to a convolution whose divisor pair is
derived in float32, so exact .5 averages are rounded down.

convert_avg_pool_to_conv2d gives the unit weights the scale 1 / (h * w) as a Python float.  _prepare_scale_and_bias then
takes the uint8 flavour 'np.double(ifm_scale * weight_scale) / np.double(ofm_scale)': ifm_scale is the reader's
np.float32 and, with NumPy >= 2, float32 * Python float stays float32.  The reciprocal is therefore only good to 2^-24,
far more than the '+1' that rounding_mode AwayZero adds to the multiplier to make x.5 round up.  When the float32
product happens to be rounded down, every window sum that is an odd multiple of n/2 is averaged one too low compared
with reference_ops::AveragePool ((acc + n/2) / n).

Run: cd /tmp/seed8/C09 && /venv/bin/python out/observation1.py     (prints the wrong window sums; exit code 1 = observed)
"""
import os
import sys

sys.path.insert(0, os.getcwd())
sys.path.insert(0, os.path.join(os.getcwd(), "out"))

import numpy as np  # noqa: E402

from c09_oracle import output_stage, sext, tfl_avg_uint8, vela_pair_from_tfl  # noqa: E402
from c09_tfl import OpDef, Tens, build_model, compile_model, decode_commands, scale_records, split_ops  # noqa: E402


def check(kh, kw, stride, scale, zp):
    n = kh * kw
    width = 24
    a = Tens("a", [1, kh, width, 8], np.uint8, scale, zp)
    o = Tens("o", [1, 1, (width - kw) // stride + 1, 8], np.uint8, scale, zp)
    opts = {"Padding": 1, "StrideW": stride, "StrideH": stride, "FilterWidth": kw, "FilterHeight": kh}
    model = build_model([a, o], [OpDef("AVERAGE_POOL_2D", [a], [o], "Pool2DOptions", opts)], [a], [o])
    words, ro = compile_model(model)
    ops = split_ops(decode_commands(words))
    assert [x[0] for x in ops] == ["NPU_OP_CONV"], ops
    st = ops[0][2]
    bias, mult, shift = scale_records(ro, st)[0]
    ifm_zp = sext(st["NPU_SET_IFM_ZERO_POINT"][0], 16)
    ofm_zp = sext(st["NPU_SET_OFM_ZERO_POINT"][0], 16)
    rounding = (st["NPU_SET_OFM_PRECISION"][0] >> 14) & 3
    bad = []
    for raw in range(0, 255 * n + 1):
        got = min(255, max(0, output_stage(raw - n * ifm_zp + bias, mult, shift, rounding) + ofm_zp))
        exp = tfl_avg_uint8(raw, n)
        if got != exp:
            bad.append((raw, got, exp))
    exact = vela_pair_from_tfl(1.0 / n)
    print(
        f"uint8 {kh}x{kw} stride {stride} scale {scale}: record ({mult}, {shift}); exact reciprocal pair {exact} "
        f"(+1 for rounding away from zero); wrong window sums: {len(bad)} of {255 * n + 1}  e.g. (sum, got, reference) {bad[:4]}"
    )
    return len(bad)


if __name__ == "__main__":
    total = 0
    total += check(2, 5, 4, np.float32(0.0123), 3)
    total += check(1, 6, 4, np.float32(0.02), 0)
    total += check(2, 3, 6, np.float32(0.0123), 0)  # float32 product rounded up here: no visible effect
    print("OBSERVED" if total else "not observed")
    sys.exit(1 if total else 0)

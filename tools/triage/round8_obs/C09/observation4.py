"""Observation 4 (unmodified tree): for large int16 windows the average-pool divisor pair of quantise_pooling_scale does
not reproduce the rounded division for every reachable accumulator.

scale = ((1 << (31 + k)) + (1 << k)) // n over-estimates 2^(31+k) / n by up to 2^-31 (relative).  An int16 window of
n elements reaches |acc| = 32767 * n, i.e. quotients of 32767, so the over-estimate grows to 2^-16 of an output unit,
which exceeds the distance 1 / (2n) between a non-tie and the rounding boundary once n > 2^15.  AVERAGE_POOL_2D with
VALID padding accepts kernels up to 256 x 256 and is placed on the NPU for int16 (checked below with 199 x 211), so such
windows are reachable (8-bit windows are exact for every n <= 65536: checked exhaustively on the quotient boundaries).

Also shown: scales in [2^-33, 2^-32) get a non-zero pair with shift 63 from quantise_scale, where
tflite::QuantizeMultiplier flushes them to zero (shift < -31); harmless, but not 'the same value as the reference'.

Run: cd /tmp/seed8/C09 && /venv/bin/python out/observation4.py     (exit code 1 = observed)
"""
import os
import sys
from fractions import Fraction

sys.path.insert(0, os.getcwd())
sys.path.insert(0, os.path.join(os.getcwd(), "out"))

import numpy as np  # noqa: E402

from c09_oracle import tfl_avg_int8, tfl_quantize_multiplier  # noqa: E402

from ethosu.vela import scaling  # noqa: E402


def first_bad(n):
    scale, shift = scaling.quantise_pooling_scale(n)
    for q in range(32767, 32767 - 2000, -1):
        boundary = q * n - n // 2  # smallest accumulator the reference rounds to q
        for acc in (boundary - 1, boundary - 2):
            if acc <= 32767 * n:
                exact = Fraction(acc * scale, 1 << shift)
                got = (acc * scale + (1 << (shift - 1))) >> shift
                if got != tfl_avg_int8(acc, n):
                    return acc, scale, shift, float(exact), got, tfl_avg_int8(acc, n)
    return None


if __name__ == "__main__":
    observed = 0
    for kh, kw in ((181, 183), (256, 255), (199, 211), (128, 128), (64, 64)):
        n = kh * kw
        r = first_bad(n)
        if r:
            observed += 1
            acc, scale, shift, exact, got, ref = r
            print(
                f"int16 window {kh}x{kw} (n={n}): pair ({scale}, {shift}); accumulator {acc}: acc/n = {acc / n:.6f}, "
                f"acc*scale/2^shift = {exact:.6f} -> {got}, reference {ref}"
            )
        else:
            print(f"int16 window {kh}x{kw} (n={n}): ok on the top 2000 quotient boundaries")

    # the 199 x 211 int16 average pool really is compiled for the NPU with that global scale
    from c09_tfl import OpDef, Tens, build_model, compile_model, decode_commands, split_ops

    a = Tens("a", [1, 199, 211, 4], np.int16, np.float32(0.001), 0)
    o = Tens("o", [1, 1, 1, 4], np.int16, np.float32(0.001), 0)
    opts = {"Padding": 1, "StrideW": 1, "StrideH": 1, "FilterWidth": 211, "FilterHeight": 199}
    words, _ = compile_model(build_model([a, o], [OpDef("AVERAGE_POOL_2D", [a], [o], "Pool2DOptions", opts)], [a], [o]))
    for name, _, st in split_ops(decode_commands(words)):
        shift, mult = st["NPU_SET_OFM_SCALE"]
        print(f"compiled: {name} OFM_SCALE ({mult}, {shift}) = quantise_pooling_scale(41989) {scaling.quantise_pooling_scale(41989)}")

    for v in (2.0**-33, 1.5 * 2.0**-33):
        print(f"quantise_scale({v!r}) = {scaling.quantise_scale(v)}, tflite::QuantizeMultiplier -> {tfl_quantize_multiplier(v)}")
    print("OBSERVED" if observed else "not observed")
    sys.exit(1 if observed else 0)

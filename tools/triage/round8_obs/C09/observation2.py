"""Observation 2 (unmodified tree): uint8 PAD + AVERAGE_POOL_2D (VALID) is lowered by replace_pad_by_hw_pad to a
depthwise convolution with weight scale 1 / (k_h * k_w) and rounding_mode HalfUp.  Unlike the int8 flavour (AwayZero,
multiplier + 1, zero points forced to 0) nothing compensates for the rounding of the reciprocal, so for every window size
that is not a power of two the exact .5 averages on one side of the zero point are rounded the wrong way; on top of that
the uint8 flavour of _prepare_scale_and_bias evaluates ifm_scale * weight_scale in float32 (NumPy >= 2), which decides
at random (per ifm scale) which side is hit and makes the error 2^-24 instead of 2^-32.

Reference: PAD writes the zero point, reference_ops::AveragePool (uint8) computes (sum + n/2) / n.

Run: cd /tmp/seed8/C09 && /venv/bin/python out/observation2.py     (exit code 1 = observed)
"""
import os
import sys

sys.path.insert(0, os.getcwd())
sys.path.insert(0, os.path.join(os.getcwd(), "out"))

import numpy as np  # noqa: E402

from c09_oracle import output_stage, sext, tfl_avg_uint8, vela_pair_from_tfl  # noqa: E402
from c09_tfl import OpDef, Tens, build_model, compile_model, decode_commands, scale_records, split_ops  # noqa: E402


def check(kh, kw, ph, pw, scale, zp):
    n = kh * kw
    h = w = 12
    a = Tens("a", [1, h, w, 8], np.uint8, scale, zp)
    pads = Tens("pads", [4, 2], np.int32, data=[[0, 0], [ph, ph], [pw, pw], [0, 0]])
    p = Tens("p", [1, h + 2 * ph, w + 2 * pw, 8], np.uint8, scale, zp)
    o = Tens("o", [1, h + 2 * ph - kh + 1, w + 2 * pw - kw + 1, 8], np.uint8, scale, zp)
    opts = {"Padding": 1, "StrideW": 1, "StrideH": 1, "FilterWidth": kw, "FilterHeight": kh}
    ops = [OpDef("PAD", [a, pads], [p]), OpDef("AVERAGE_POOL_2D", [p], [o], "Pool2DOptions", opts)]
    words, ro = compile_model(build_model([a, pads, p, o], ops, [a], [o]))
    npu_ops = split_ops(decode_commands(words))
    assert [x[0] for x in npu_ops] == ["NPU_OP_DEPTHWISE"], npu_ops
    st = npu_ops[0][2]
    bias, mult, shift = scale_records(ro, st)[0]
    ifm_zp = sext(st["NPU_SET_IFM_ZERO_POINT"][0], 16)
    ofm_zp = sext(st["NPU_SET_OFM_ZERO_POINT"][0], 16)
    rounding = (st["NPU_SET_OFM_PRECISION"][0] >> 14) & 3
    bad = []
    for raw in range(0, 255 * n + 1):  # sum of the n raw uint8 values of a window (padding contributes the zero point)
        got = min(255, max(0, output_stage(raw - n * ifm_zp + bias, mult, shift, rounding) + ofm_zp))
        exp = tfl_avg_uint8(raw, n)
        if got != exp:
            bad.append((raw, got, exp))
    print(
        f"uint8 PAD({ph},{pw}) + AVERAGE_POOL {kh}x{kw}, scale {scale}, zero point {zp}: record ({mult}, {shift}), "
        f"nearest reciprocal pair {vela_pair_from_tfl(1.0 / n)}, rounding {rounding}, zero points {ifm_zp}/{ofm_zp}: "
        f"{len(bad)} of {255 * n + 1} window sums wrong, e.g. (sum, got, reference) {bad[:3]}"
    )
    return len(bad)


if __name__ == "__main__":
    total = 0
    total += check(2, 5, 1, 2, np.float32(0.0123), 3)
    total += check(2, 3, 1, 1, np.float32(0.0123), 3)
    total += check(2, 3, 1, 1, np.float32(0.05), 100)
    total += check(4, 4, 2, 2, np.float32(0.0123), 3)  # power of two: exact
    print("OBSERVED" if total else "not observed")
    sys.exit(1 if total else 0)

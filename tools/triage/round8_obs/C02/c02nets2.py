"""More unusual networks for the sweep over the unmodified tree."""
import os
import sys

sys.path.insert(0, os.getcwd())
sys.path.insert(0, os.path.dirname(os.path.abspath(__file__)))

import numpy as np  # noqa: E402
import c02lib as L  # noqa: E402
import c02nets as N  # noqa: E402
from ethosu.vela.data_type import DataType  # noqa: E402
from ethosu.vela.operation import Op  # noqa: E402
from ethosu.vela.operation import Padding  # noqa: E402


def e_argmax():
    b = L.NetBuilder("argmax")
    x = b.input([1, 9, 11, 20])
    y = b.conv(x, 20)
    out = b.fm([1, 9, 11], dtype=DataType.int32)
    out.quantization = None
    b._op(Op.ArgMax, [y, b.index_const(np.array(3))], out, dict(output_type=DataType.int32))
    b.output(out)
    return b.build()


def e_prelu():
    b = L.NetBuilder("prelu")
    x = b.input([1, 12, 12, 24])
    y = b.conv(x, 24)
    alpha = b.const([1, 1, 24], scale=0.01)
    out = b.fm([1, 12, 12, 24])
    b._op(Op.Prelu, [y, alpha], out, {})
    out = b.conv(out, 8)
    b.output(out)
    return b.build()


def e_sqdiff():
    b = L.NetBuilder("sqdiff")
    x = b.input([1, 10, 10, 16])
    y = b.conv(x, 16)
    z = b.conv(x, 16, k=(1, 1))
    out = b.fm([1, 10, 10, 16], scale=0.2)
    b._op(Op.SquaredDifference, [y, z], out, {})
    b.output(out)
    return b.build()


def e_unary_luts():
    b = L.NetBuilder("unary")
    x = b.input([1, 8, 8, 16], scale=0.02)
    y = b.conv(x, 16)
    for opt in (Op.Exp, Op.Rsqrt, Op.Log, Op.Sqrt):
        try:
            y = b.act(opt, y, oscale=0.05)
        except Exception:
            pass
    b.output(y)
    return b.build()


def e_quant():
    b = L.NetBuilder("quant")
    x = b.input([1, 8, 8, 16])
    y = b.conv(x, 16)
    q = b.fm([1, 8, 8, 16], scale=0.001, dtype=DataType.int16)
    b._op(Op.Quantize, [y], q, {})
    q2 = b.fm([1, 8, 8, 16], scale=0.07, dtype=DataType.int8, zp=3)
    b._op(Op.Quantize, [q], q2, {})
    b.output(q2)
    return b.build()


def e_pack_unpack():
    b = L.NetBuilder("pack")
    x = b.input([1, 6, 6, 16])
    y = b.conv(x, 16)
    z = b.conv(x, 16, k=(1, 1))
    out = b.fm([1, 2, 6, 6, 16])
    y3 = b.reshape(y, [6, 6, 16])
    z3 = b.reshape(z, [6, 6, 16])
    out = b.fm([2, 6, 6, 16])
    b._op(Op.Pack, [y3, z3], out, dict(axis=0, values_count=2))
    outs = [b.fm([6, 6, 16]) for _ in range(2)]
    b._op(Op.Unpack, [out], outs, dict(axis=0, num=2))
    o = b.add(outs[0], outs[1])
    b.output(o)
    return b.build()


def e_expand_squeeze():
    b = L.NetBuilder("expsq")
    x = b.input([1, 8, 8, 16])
    y = b.conv(x, 16)
    e = b.fm([1, 1, 8, 8, 16])
    b._op(Op.ExpandDims, [y, b.index_const(np.array(0))], e, {})
    s = b.fm([8, 8, 16])
    b._op(Op.Squeeze, [e], s, dict(squeeze_dims=[0, 1]))
    o = b.add(s, b.const([8, 8, 16], scale=0.05))
    b.output(o, y)
    return b.build()


def e_pads():
    b = L.NetBuilder("pads")
    x = b.input([1, 9, 9, 16])
    y = b.pad(x, [[0, 0], [2, 3], [1, 4], [0, 0]])
    y = b.conv(y, 16, k=(5, 5), padding=Padding.VALID, stride=(2, 2))
    y = b.pad(y, [[0, 0], [1, 1], [1, 1], [0, 0]])
    y = b.pool(y, "max", k=(3, 3), stride=(2, 2), padding=Padding.VALID)
    y = b.pad(y, [[0, 0], [0, 0], [0, 0], [3, 5]])
    y = b.pad(y, [[0, 0], [5, 6], [7, 8], [0, 0]])
    b.output(y)
    return b.build()


def e_big_fc():
    b = L.NetBuilder("bigfc")
    x = b.input([1, 2048])
    y = b.fc(x, 512)
    y = b.fc(y, 64)
    b.output(y)
    return b.build()


def e_fc3d():
    b = L.NetBuilder("fc3d")
    x = b.input([1, 5, 7, 48])
    y = b.fc(x, 32)
    y = b.fc(y, 20)
    b.output(y)
    return b.build()


def e_resize_many():
    b = L.NetBuilder("rsz")
    x = b.input([1, 5, 7, 8])
    y = b.resize(x, 10, 14, "bilinear", half_pixel_centers=True)
    y = b.resize(y, 40, 56, "nearest", align_corners=False)
    y = b.resize(y, 79, 111, "nearest", align_corners=True)
    z = b.resize(x, 40, 56, "bilinear", align_corners=False)
    w = b.resize(b.mean(x), 6, 6, "bilinear")
    b.output(y, z, w)
    return b.build()


def e_elt_cascade():
    b = L.NetBuilder("eltc")
    x = b.input([1, 120, 32, 16])
    y = b.conv(x, 16)
    y = b.add(y, b.const([1, 1, 1, 16], scale=0.05))
    y = b.mul(y, b.const([1, 1, 32, 16], scale=0.05))
    y = b.conv(y, 16)
    y = b.elementwise(Op.Maximum, y, b.const([1, 120, 1, 1], scale=0.1), oscale=0.1)
    y = b.dwconv(y, stride=(2, 2))
    b.output(y)
    return b.build()


def e_int16_big():
    b = L.NetBuilder("i16big", DataType.int16)
    x = b.input([1, 64, 64, 16], scale=0.001)
    y = b.conv(x, 32, oscale=0.001)
    y = b.conv(y, 32, oscale=0.001, stride=(2, 2))
    y = b.dwconv(y, oscale=0.001)
    y = b.resize(y, 64, 64, "bilinear", half_pixel_centers=True)
    y = b.conv(y, 8, oscale=0.001)
    b.output(y)
    return b.build()


def e_slice_convs():
    b = L.NetBuilder("slc")
    x = b.input([1, 20, 20, 48])
    a = b.slice(x, [0, 0, 0, 0], [1, 20, 20, 16])
    c = b.slice(x, [0, 0, 0, 16], [1, 20, 20, 32])
    d = b.slice(x, [0, 3, 5, 8], [1, 9, 11, 19])
    a = b.conv(a, 8)
    c = b.dwconv(c)
    d = b.pool(d, "avg", k=(3, 3), stride=(1, 1), padding=Padding.SAME)
    b.output(a, c, d)
    return b.build()


def e_concat_w_odd():
    b = L.NetBuilder("catw")
    x = b.input([1, 7, 5, 13])
    a = b.conv(x, 13)
    c = b.pool(x, "avg", k=(3, 3), stride=(1, 1), padding=Padding.SAME)
    y = b.concat([a, c, x], axis=2)
    z = b.concat([y, y], axis=3)
    z = b.conv(z, 5)
    b.output(z)
    return b.build()


def e_tconv_nonsq():
    b = L.NetBuilder("tcn")
    x = b.input([1, 9, 7, 16])
    y = b.transpose_conv(x, 8, k=(5, 3), stride=(2, 2))
    y = b.transpose_conv(y, 8, k=(2, 4), stride=(2, 2), padding=Padding.VALID)
    y = b.transpose_conv(y, 4, k=(3, 3), stride=(1, 1))
    b.output(y)
    return b.build()


def e_global_pool():
    b = L.NetBuilder("gpool")
    x = b.input([1, 7, 7, 64])
    y = b.conv(x, 64, k=(1, 1))
    y = b.pool(y, "avg", k=(7, 7), stride=(7, 7))
    y = b.reshape(y, [1, 64])
    y = b.fc(y, 10)
    b.output(y)
    return b.build()


def e_softmax_big():
    b = L.NetBuilder("smax")
    x = b.input([1, 3, 200, 21])
    y = b.conv(x, 21, k=(1, 1))
    y = b.act(Op.Softmax, y)
    b.output(y)
    return b.build()


def e_hswish_chain():
    b = L.NetBuilder("hsw")
    x = b.input([1, 56, 56, 16])
    y = b.conv(x, 16, stride=(2, 2))
    y = b.act(Op.HardSwish, y, oscale=0.05)
    y = b.dwconv(y)
    y = b.act(Op.HardSwish, y, oscale=0.05)
    y = b.conv(y, 24, k=(1, 1))
    z = b.mean(y)
    z = b.conv(z, 24, k=(1, 1))
    z = b.act(Op.Sigmoid, z)
    y = b.mul(y, z)
    b.output(y)
    return b.build()


CATALOGUE2 = dict(
    argmax=e_argmax, prelu=e_prelu, sqdiff=e_sqdiff, unary=e_unary_luts, quant=e_quant, pack=e_pack_unpack,
    expsq=e_expand_squeeze, pads=e_pads, bigfc=e_big_fc, fc3d=e_fc3d, rsz=e_resize_many, eltc=e_elt_cascade,
    i16big=e_int16_big, slc=e_slice_convs, catw=e_concat_w_odd, tcn=e_tconv_nonsq, gpool=e_global_pool,
    smax=e_softmax_big, hsw=e_hswish_chain,
)

if __name__ == "__main__":
    import argparse
    from collections import Counter

    p = argparse.ArgumentParser()
    p.add_argument("--nets", nargs="*")
    p.add_argument("--configs", nargs="*")
    p.add_argument("--arena", nargs="*", type=int)
    p.add_argument("--extra", default="")
    p.add_argument("-v", action="store_true")
    a = p.parse_args()
    N.CATALOGUE = CATALOGUE2
    r = N.run_sweep(a.nets, a.configs, tuple(a.arena) if a.arena else (None,), a.extra.split(), a.v)
    print(Counter(x[3] for x in r))

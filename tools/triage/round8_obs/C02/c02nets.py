"""Catalogue of small networks and configurations used for the sweeps over the unmodified tree."""
import os
import sys

sys.path.insert(0, os.getcwd())
sys.path.insert(0, os.path.dirname(os.path.abspath(__file__)))

import c02lib as L  # noqa: E402
from ethosu.vela.data_type import DataType  # noqa: E402
from ethosu.vela.operation import Op  # noqa: E402
from ethosu.vela.operation import Padding  # noqa: E402


def n_conv_chain(h=32, w=32, c=16, oc=32, depth=3, dtype=DataType.int8):
    b = L.NetBuilder("convchain", dtype)
    x = b.input([1, h, w, c])
    y = x
    for i in range(depth):
        y = b.conv(y, oc)
    b.output(y)
    return b.build()


def n_big_chain(dtype=DataType.int8):
    b = L.NetBuilder("bigchain", dtype)
    x = b.input([1, 96, 96, 8])
    y = b.conv(x, 24, stride=(2, 2))
    y = b.dwconv(y)
    y = b.conv(y, 48, k=(1, 1))
    y = b.dwconv(y, stride=(2, 2))
    y = b.conv(y, 96, k=(1, 1))
    y = b.dwconv(y)
    y = b.conv(y, 96, k=(1, 1))
    y = b.pool(y, "avg", k=(3, 3), stride=(2, 2), padding=Padding.SAME)
    b.output(y)
    return b.build()


def n_wide_weights():
    b = L.NetBuilder("wide")
    x = b.input([1, 16, 16, 64])
    y = b.conv(x, 256)
    y = b.conv(y, 256)
    y = b.conv(y, 64, k=(1, 1))
    b.output(y)
    return b.build()


def n_residual(c=24):
    b = L.NetBuilder("resid")
    x = b.input([1, 24, 24, c])
    y = b.conv(x, c)
    z = b.conv(y, c)
    a = b.add(y, z)
    y2 = b.conv(a, c)
    a2 = b.add(a, y2)
    b.output(a2)
    return b.build()


def n_eltwise_broadcast():
    b = L.NetBuilder("bcast")
    x = b.input([1, 16, 16, 20])
    y = b.conv(x, 20)
    c1 = b.const([1, 1, 1, 20], scale=0.05)
    c2 = b.const([1, 16, 1, 20], scale=0.05)
    c3 = b.const([1, 1, 16, 1], scale=0.05)
    y = b.add(y, c1)
    y = b.mul(y, c2)
    y = b.elementwise(Op.Sub, y, c3)
    y = b.elementwise(Op.Maximum, y, b.const([1, 16, 16, 20], scale=0.1), oscale=0.1)
    b.output(y)
    return b.build()


def n_concat_split():
    b = L.NetBuilder("concat")
    x = b.input([1, 20, 20, 16])
    a = b.conv(x, 16)
    c = b.conv(x, 24, k=(1, 1))
    d = b.pool(x, "max", k=(3, 3), stride=(1, 1), padding=Padding.SAME)
    y = b.concat([a, c, d], axis=3)
    y = b.conv(y, 32)
    s = b.split(y, 2, axis=3)
    o = b.add(s[0], s[1])
    b.output(o)
    return b.build()


def n_concat_h():
    b = L.NetBuilder("concath")
    x = b.input([1, 12, 20, 10])
    a = b.conv(x, 10)
    c = b.dwconv(x)
    y = b.concat([a, c], axis=1)
    y = b.conv(y, 12)
    b.output(y)
    return b.build()


def n_slices():
    b = L.NetBuilder("slices")
    x = b.input([1, 24, 24, 32])
    y = b.conv(x, 32)
    s1 = b.strided_slice(y, [0, 2, 3, 0], [1, 20, 19, 16])
    s2 = b.slice(y, [0, 4, 5, 16], [1, 18, 16, 16])
    o = b.add(s1, s2)
    o = b.conv(o, 8)
    b.output(o)
    return b.build()


def n_fc():
    b = L.NetBuilder("fc")
    x = b.input([1, 8, 8, 16])
    y = b.conv(x, 16, stride=(2, 2))
    y = b.reshape(y, [1, 256])
    y = b.fc(y, 100)
    y = b.fc(y, 10)
    y = b.act(Op.Softmax, y)
    b.output(y)
    return b.build()


def n_fc_batched(n=6):
    b = L.NetBuilder("fcb")
    x = b.input([n, 64])
    y = b.fc(x, 48)
    y = b.fc(y, 24)
    b.output(y)
    return b.build()


def n_resize():
    b = L.NetBuilder("resize")
    x = b.input([1, 8, 8, 16])
    y = b.conv(x, 16)
    y = b.resize(y, 16, 16, "bilinear", half_pixel_centers=True)
    y = b.conv(y, 16)
    y = b.resize(y, 32, 32, "nearest")
    y = b.conv(y, 8)
    y = b.resize(y, 63, 63, "bilinear", align_corners=True)
    b.output(y)
    return b.build()


def n_tconv():
    b = L.NetBuilder("tconv")
    x = b.input([1, 10, 10, 16])
    y = b.conv(x, 16)
    y = b.transpose_conv(y, 12, k=(3, 3), stride=(2, 2))
    y = b.transpose_conv(y, 8, k=(2, 2), stride=(2, 2), padding=Padding.VALID)
    b.output(y)
    return b.build()


def n_acts():
    b = L.NetBuilder("acts")
    x = b.input([1, 16, 16, 16])
    y = b.conv(x, 16)
    y = b.act(Op.Tanh, y)
    y = b.conv(y, 16)
    y = b.act(Op.Sigmoid, y)
    y = b.elementwise(Op.LeakyRelu, y)
    y = b.act(Op.HardSwish, y, oscale=0.05)
    y = b.elementwise(Op.Abs, y)
    b.output(y)
    return b.build()


def n_int16():
    b = L.NetBuilder("int16", DataType.int16)
    x = b.input([1, 20, 20, 12], scale=0.001)
    y = b.conv(x, 20, oscale=0.001)
    y = b.dwconv(y, oscale=0.001)
    z = b.conv(y, 20, k=(1, 1), oscale=0.001)
    y = b.add(y, z, oscale=0.001)
    y = b.pool(y, "max")
    y = b.act(Op.Tanh, y)
    b.output(y)
    return b.build()


def n_pad_mean():
    b = L.NetBuilder("padmean")
    x = b.input([1, 15, 15, 16])
    y = b.pad(x, [[0, 0], [1, 1], [2, 2], [0, 0]])
    y = b.conv(y, 24, padding=Padding.VALID)
    y = b.pad(y, [[0, 0], [2, 1], [1, 2], [0, 0]])
    y = b.pool(y, "avg", k=(3, 3), stride=(1, 1), padding=Padding.VALID)
    y = b.mean(y)
    b.output(y)
    return b.build()


def n_transpose():
    b = L.NetBuilder("transp")
    x = b.input([1, 12, 20, 16])
    y = b.conv(x, 16)
    y = b.transpose(y, [0, 2, 1, 3])
    y = b.conv(y, 8)
    b.output(y)
    return b.build()


def n_dilated():
    b = L.NetBuilder("dil")
    x = b.input([1, 40, 40, 8])
    y = b.conv(x, 16, dilation=(2, 2))
    y = b.dwconv(y, k=(3, 3), dilation=(2, 2), padding=Padding.VALID)
    y = b.conv(y, 16, k=(5, 5), stride=(2, 2), padding=Padding.VALID)
    y = b.conv(y, 16, k=(1, 7), stride=(1, 3))
    b.output(y)
    return b.build()


def n_cpu_middle():
    """A CPU-only operator between two NPU parts: two ethos-u custom operators sharing the region tensors"""
    b = L.NetBuilder("cpumid")
    x = b.input([1, 16, 16, 16])
    y = b.conv(x, 16)
    y = b.conv(y, 16)
    # ELU-like unsupported op: use Exp on int8 -> not supported -> CPU
    q = y.quantization
    out = b.fm(list(y.shape), scale=float(q.scale_f32))
    b._op(Op.Elu, [y], out, {})
    y = b.conv(out, 32)
    y = b.conv(y, 8)
    b.output(y)
    return b.build()


def n_two_outputs():
    b = L.NetBuilder("twoout")
    x = b.input([1, 16, 16, 16])
    y = b.conv(x, 16)
    z = b.conv(y, 8)
    w = b.pool(y, "avg")
    b.output(z, w)
    return b.build()


def n_tall_stripes():
    b = L.NetBuilder("tall")
    x = b.input([1, 200, 40, 16])
    y = b.conv(x, 32)
    y = b.conv(y, 32)
    y = b.conv(y, 32, stride=(2, 2))
    y = b.conv(y, 16)
    b.output(y)
    return b.build()


def n_odd_channels():
    b = L.NetBuilder("oddc")
    x = b.input([1, 17, 13, 5])
    y = b.conv(x, 19)
    y = b.dwconv(y)
    z = b.conv(y, 19, k=(1, 1))
    y = b.add(y, z)
    y = b.pool(y, "max", k=(2, 2), stride=(2, 2))
    y = b.conv(y, 3)
    b.output(y)
    return b.build()


def n_uint8():
    b = L.NetBuilder("u8", DataType.uint8)
    x = b.input([1, 16, 16, 8], zp=128)
    y = b.conv(x, 16, ozp=128)
    y = b.pool(y, "avg", k=(2, 2), stride=(2, 2))
    b.output(y)
    return b.build()


def n_reshape_mid():
    b = L.NetBuilder("reshmid")
    x = b.input([1, 8, 8, 8])
    y = b.conv(x, 8)
    y = b.reshape(y, [1, 4, 16, 8])
    y = b.conv(y, 12)
    y = b.reshape(y, [1, 8, 8, 12])
    z = b.reshape(y, [1, 64, 1, 12])
    y = b.conv(y, 4)
    b.output(y, z)
    return b.build()


def n_lut_many():
    b = L.NetBuilder("luts")
    x = b.input([1, 8, 8, 16])
    y = x
    for i, opt in enumerate([Op.Tanh, Op.Sigmoid, Op.Tanh, Op.Sigmoid]):
        y = b.conv(y, 16, oscale=0.02 + 0.01 * i)
        y = b.act(opt, y)
    b.output(y)
    return b.build()


def n_const_reshape_out():
    b = L.NetBuilder("creshape")
    x = b.input([1, 4, 4, 8])
    c = b.const([1, 64, 64, 8], scale=0.05)
    r = b.reshape(c, [1, 32, 128, 8])
    y = b.conv(x, 8)
    b.output(y, r)
    return b.build()


def n_scalar_ops():
    b = L.NetBuilder("scalar")
    x = b.input([1, 10, 10, 8])
    y = b.conv(x, 8)
    y = b.add(y, b.const([], scale=0.05, values=3))
    y = b.mul(b.const([1], scale=0.05, values=[3]), y)
    y = b.elementwise(Op.Minimum, y, b.const([1, 1, 1, 1], scale=0.1, values=[[[[7]]]]), oscale=0.1)
    b.output(y)
    return b.build()


CATALOGUE = dict(
    convchain=n_conv_chain, bigchain=n_big_chain, wide=n_wide_weights, resid=n_residual, bcast=n_eltwise_broadcast,
    concat=n_concat_split, concath=n_concat_h, slices=n_slices, fc=n_fc, fcb=n_fc_batched, resize=n_resize,
    tconv=n_tconv, acts=n_acts, int16=n_int16, padmean=n_pad_mean, transp=n_transpose, dil=n_dilated,
    cpumid=n_cpu_middle, twoout=n_two_outputs, tall=n_tall_stripes, oddc=n_odd_channels, u8=n_uint8,
    reshmid=n_reshape_mid, luts=n_lut_many, creshape=n_const_reshape_out, scalar=n_scalar_ops,
)

INI = ["--config", "Arm/vela.ini"]
CONFIGS = {
    # name: (extra args, accelerator, dedicated sram?)
    "default_u65": ([], "ethos-u65-256", True),
    "u65_512_ded": (INI + ["--system-config", "Ethos_U65_High_End", "--memory-mode", "Dedicated_Sram"],
                    "ethos-u65-512", True),
    "u65_256_shared": (INI + ["--system-config", "Ethos_U65_Mid_End", "--memory-mode", "Shared_Sram"],
                       "ethos-u65-256", False),
    "u55_128_shared": (INI + ["--system-config", "Ethos_U55_High_End_Embedded", "--memory-mode", "Shared_Sram"],
                       "ethos-u55-128", False),
    "u55_64_sramonly": (INI + ["--system-config", "Ethos_U55_High_End_Embedded", "--memory-mode", "Sram_Only"],
                        "ethos-u55-64", False),
    "u55_256_shared": (INI + ["--system-config", "Ethos_U55_Deep_Embedded", "--memory-mode", "Shared_Sram"],
                       "ethos-u55-256", False),
    "u55_32_shared": (INI + ["--system-config", "Ethos_U55_Deep_Embedded", "--memory-mode", "Shared_Sram"],
                      "ethos-u55-32", False),
}


def run_sweep(nets=None, configs=None, arena_sizes=(None,), extra=(), verbose=False):
    results = []
    for nname, fn in CATALOGUE.items():
        if nets and nname not in nets:
            continue
        try:
            model = fn()
        except Exception as e:  # builder problem
            print(f"BUILD-ERROR {nname}: {type(e).__name__}: {e}")
            continue
        for cname, (args, accel, ded) in CONFIGS.items():
            if configs and cname not in configs:
                continue
            for arena in arena_sizes:
                try:
                    v, res = L.compile_and_check(model, list(args) + list(extra), accel,
                                                 arena_cache_size=arena, dedicated_sram=ded, name=nname)
                except Exception as e:
                    import traceback
                    tb = traceback.format_exc().strip().splitlines()
                    print(f"EXC   {nname:10s} {cname:16s} arena={arena}: {type(e).__name__}: {e} @ {tb[-3].strip()}")
                    results.append((nname, cname, arena, "EXC"))
                    continue
                if v is None:
                    last = [ln for ln in res.log.strip().splitlines() if ln.strip()][-1:] or [""]
                    print(f"FAILC {nname:10s} {cname:16s} arena={arena}: rc={res.rc} {last[0][:150]}")
                    results.append((nname, cname, arena, "FAILC"))
                elif v:
                    print(f"VIOL  {nname:10s} {cname:16s} arena={arena}: {len(v)} violations; first: {v[0]}")
                    results.append((nname, cname, arena, "VIOL"))
                else:
                    if verbose:
                        print(f"ok    {nname:10s} {cname:16s} arena={arena}: {res.info['ops']} ops "
                              f"{res.info['extents']} {res.info['hi_seen']}")
                    results.append((nname, cname, arena, "ok"))
    return results


if __name__ == "__main__":
    import argparse

    p = argparse.ArgumentParser()
    p.add_argument("--nets", nargs="*")
    p.add_argument("--configs", nargs="*")
    p.add_argument("--arena", nargs="*", type=int)
    p.add_argument("--extra", nargs="*", default=[])
    p.add_argument("-v", action="store_true")
    a = p.parse_args()
    r = run_sweep(a.nets, a.configs, tuple(a.arena) if a.arena else (None,), a.extra, a.v)
    from collections import Counter

    print(Counter(x[3] for x in r))

"""Helper library for the C02 demos / observations.

 * NetBuilder   - builds small int8/int16 TFLite flatbuffers in memory with Vela's own graph classes
 * compile_net  - runs the complete Vela driver (ethosu.vela.vela.main) on such a model
 * check_output - reads the emitted *_vela.tflite with the raw flatbuffer accessors, decodes the Ethos-U command
                  stream of every ethos-u custom operator and checks every memory access of every NPU operation /
                  DMA against the extents (shapes) of the region tensors published in the same file.

The decoder is written from the register documentation (cmd0/cmd1 opcodes), it does not use Vela's generator code.
"""
import contextlib
import io
import os
import struct
import sys
import tempfile

import numpy as np

sys.path.insert(0, os.getcwd())

from ethosu.vela.data_type import DataType  # noqa: E402
from ethosu.vela.nn_graph import Graph  # noqa: E402
from ethosu.vela.nn_graph import PassPlacement  # noqa: E402
from ethosu.vela.nn_graph import Subgraph  # noqa: E402
from ethosu.vela.operation import Op  # noqa: E402
from ethosu.vela.operation import Operation  # noqa: E402
from ethosu.vela.operation import Padding  # noqa: E402
from ethosu.vela.tensor import QuantizationParameters  # noqa: E402
from ethosu.vela.tensor import Tensor  # noqa: E402


# ----------------------------------------------------------------------------------------------------------------
# Model building
# ----------------------------------------------------------------------------------------------------------------
class _FakePass:
    def __init__(self, ops):
        self.ops = ops


def quant(scale=0.05, zp=0, dtype=DataType.int8):
    qp = QuantizationParameters()
    qp.scale_f32 = np.float32(scale)
    qp.zero_point = np.int64(zp)
    qp.quant_min = dtype.min_value() if hasattr(dtype, "min_value") else None
    qp.quant_max = dtype.max_value() if hasattr(dtype, "max_value") else None
    qp.min = None
    qp.max = None
    return qp


class NetBuilder:
    def __init__(self, name="net", dtype=DataType.int8, seed=1):
        self.name = name
        self.dtype = dtype
        self.ops = []
        self.inputs = []
        self.outputs = []
        self.rng = np.random.RandomState(seed)
        self.cnt = 0

    # --- tensors
    def _n(self, base):
        self.cnt += 1
        return f"{base}_{self.cnt}"

    def fm(self, shape, name=None, scale=0.05, zp=0, dtype=None):
        dtype = dtype or self.dtype
        t = Tensor(list(shape), dtype, name or self._n("t"))
        t.quantization = quant(scale, zp, dtype)
        return t

    def input(self, shape, scale=0.05, zp=0, dtype=None):
        t = self.fm(shape, self._n("input"), scale, zp, dtype)
        op = Operation(Op.Placeholder, t.name + "_ph")
        op.set_output_tensor(t)
        self.inputs.append(t)
        return t

    def const(self, shape, dtype=None, values=None, scale=0.01, zp=0, name=None, per_channel=None, lo=-100, hi=100):
        dtype = dtype or self.dtype
        t = Tensor(list(shape), dtype, name or self._n("const"))
        if values is None:
            values = self.rng.randint(lo, hi, size=shape)
        t.values = np.array(values).astype(dtype.as_numpy_type()).reshape(shape)
        if dtype in (DataType.int8, DataType.uint8, DataType.int16, DataType.int32, DataType.int64):
            q = quant(scale, zp, dtype)
            if per_channel is not None:
                q.scale_f32 = np.array(per_channel, dtype=np.float32)
                q.zero_point = np.zeros(len(per_channel), dtype=np.int64)
            t.quantization = q
        op = Operation(Op.Const, t.name + "_c")
        op.set_output_tensor(t)
        return t

    def index_const(self, values, name=None):
        values = np.array(values, dtype=np.int32)
        t = Tensor(list(values.shape), DataType.int32, name or self._n("idx"))
        t.values = values
        t.quantization = None
        op = Operation(Op.Const, t.name + "_c")
        op.set_output_tensor(t)
        return t

    def _op(self, optype, inputs, out, attrs=None, name=None):
        op = Operation(optype, name or self._n(optype.name))
        op.run_on_npu = False
        for i in inputs:
            op.add_input_tensor(i)
        outs = out if isinstance(out, (list, tuple)) else [out]
        op.outputs = []
        for o in outs:
            op.outputs.append(o)
            o.ops = [op]
        if attrs:
            op.attrs.update(attrs)
        self.ops.append(op)
        return op

    # --- operators
    @staticmethod
    def _out_hw(h, w, kh, kw, sh, sw, padding, dh=1, dw=1):
        if padding == Padding.SAME:
            return (h + sh - 1) // sh, (w + sw - 1) // sw
        ekh, ekw = (kh - 1) * dh + 1, (kw - 1) * dw + 1
        return (h - ekh) // sh + 1, (w - ekw) // sw + 1

    def conv(self, ifm, oc, k=(3, 3), stride=(1, 1), padding=Padding.SAME, act=None, dilation=(1, 1), oscale=0.05,
             ozp=0, bias=True):
        n, h, w, c = ifm.shape
        oh, ow = self._out_hw(h, w, k[0], k[1], stride[0], stride[1], padding, dilation[0], dilation[1])
        wt = self.const([oc, k[0], k[1], c], DataType.int8 if self.dtype != DataType.uint8 else DataType.uint8,
                        scale=0.01, lo=-60, hi=60)
        bdt = DataType.int64 if ifm.dtype == DataType.int16 else DataType.int32
        ins = [ifm, wt]
        if bias:
            b = self.const([oc], bdt, scale=0.0005, lo=-500, hi=500)
            ins.append(b)
        out = self.fm([n, oh, ow, oc], scale=oscale, zp=ozp, dtype=ifm.dtype)
        self._op(Op.Conv2DBias, ins, out, dict(
            padding=padding, stride_w=stride[1], stride_h=stride[0], dilation_w_factor=dilation[1],
            dilation_h_factor=dilation[0], fused_activation_function=act))
        return out

    def dwconv(self, ifm, k=(3, 3), stride=(1, 1), padding=Padding.SAME, act=None, dilation=(1, 1), mult=1,
               oscale=0.05):
        n, h, w, c = ifm.shape
        oh, ow = self._out_hw(h, w, k[0], k[1], stride[0], stride[1], padding, dilation[0], dilation[1])
        oc = c * mult
        wt = self.const([1, k[0], k[1], oc], DataType.int8 if self.dtype != DataType.uint8 else DataType.uint8,
                        scale=0.01, lo=-60, hi=60)
        bdt = DataType.int64 if ifm.dtype == DataType.int16 else DataType.int32
        b = self.const([oc], bdt, scale=0.0005, lo=-500, hi=500)
        out = self.fm([n, oh, ow, oc], scale=oscale, dtype=ifm.dtype)
        self._op(Op.DepthwiseConv2DBias, [ifm, wt, b], out, dict(
            padding=padding, stride_w=stride[1], stride_h=stride[0], dilation_w_factor=dilation[1],
            dilation_h_factor=dilation[0], depth_multiplier=mult, fused_activation_function=act))
        return out

    def transpose_conv(self, ifm, oc, k=(3, 3), stride=(2, 2), padding=Padding.SAME):
        n, h, w, c = ifm.shape
        if padding == Padding.SAME:
            oh, ow = h * stride[0], w * stride[1]
        else:
            oh, ow = (h - 1) * stride[0] + k[0], (w - 1) * stride[1] + k[1]
        wt = self.const([oc, k[0], k[1], c], DataType.int8, scale=0.01, lo=-60, hi=60)
        shp = self.index_const([n, oh, ow, oc])
        b = self.const([oc], DataType.int32, scale=0.0005, lo=-500, hi=500)
        out = self.fm([n, oh, ow, oc], dtype=ifm.dtype)
        self._op(Op.Conv2DBackpropInput, [shp, wt, ifm, b], out, dict(
            padding=padding, stride_w=stride[1], stride_h=stride[0]))
        return out

    def pool(self, ifm, kind="max", k=(2, 2), stride=(2, 2), padding=Padding.VALID, act=None, oscale=None):
        n, h, w, c = ifm.shape
        oh, ow = self._out_hw(h, w, k[0], k[1], stride[0], stride[1], padding)
        out = self.fm([n, oh, ow, c], scale=oscale or float(ifm.quantization.scale_f32), dtype=ifm.dtype,
                      zp=int(ifm.quantization.zero_point))
        self._op(Op.MaxPool if kind == "max" else Op.AvgPool, [ifm], out, dict(
            padding=padding, stride_w=stride[1], stride_h=stride[0], filter_width=k[1], filter_height=k[0],
            fused_activation_function=act))
        return out

    def fc(self, ifm, oc, act=None):
        ic = ifm.shape[-1]
        wt = self.const([oc, ic], DataType.int8, scale=0.01, lo=-60, hi=60)
        bdt = DataType.int64 if ifm.dtype == DataType.int16 else DataType.int32
        b = self.const([oc], bdt, scale=0.0005, lo=-500, hi=500)
        out = self.fm(list(ifm.shape[:-1]) + [oc], dtype=ifm.dtype)
        self._op(Op.FullyConnected, [ifm, wt, b], out, dict(
            fused_activation_function=act, weights_format=0, keep_num_dims=len(ifm.shape) > 2,
            asymmetric_quantize_inputs=False))
        return out

    def elementwise(self, optype, a, b=None, act=None, oscale=0.1, oshape=None, odtype=None):
        if oshape is None:
            if b is None:
                oshape = list(a.shape)
            else:
                la, lb = list(a.shape), list(b.shape)
                while len(la) < len(lb):
                    la.insert(0, 1)
                while len(lb) < len(la):
                    lb.insert(0, 1)
                oshape = [max(x, y) for x, y in zip(la, lb)]
        out = self.fm(oshape, scale=oscale, dtype=odtype or a.dtype)
        attrs = {}
        if optype in (Op.Add, Op.Sub):
            attrs = dict(fused_activation_function=act, pot_scale_int16=False)
        elif optype == Op.Mul:
            attrs = dict(fused_activation_function=act)
        elif optype == Op.LeakyRelu:
            attrs = dict(alpha=0.1)
        ins = [a] if b is None else [a, b]
        self._op(optype, ins, out, attrs)
        return out

    def add(self, a, b, **kw):
        return self.elementwise(Op.Add, a, b, **kw)

    def mul(self, a, b, **kw):
        return self.elementwise(Op.Mul, a, b, **kw)

    def act(self, optype, a, oscale=None):
        scale = oscale
        zp = 0
        if optype in (Op.Sigmoid,):
            scale, zp = 1.0 / 256, -128 if a.dtype == DataType.int8 else 0
            if a.dtype == DataType.int16:
                scale, zp = 1.0 / 32768, 0
        elif optype == Op.Tanh:
            scale, zp = 1.0 / 128, 0
            if a.dtype == DataType.int16:
                scale, zp = 1.0 / 32768, 0
        elif scale is None:
            scale = float(a.quantization.scale_f32)
        out = self.fm(list(a.shape), scale=scale, zp=zp, dtype=a.dtype)
        attrs = {}
        if optype == Op.Softmax:
            attrs = dict(beta=1.0)
            out.quantization = quant(1.0 / 256, -128, a.dtype) if a.dtype == DataType.int8 else quant(
                1.0 / 32768, 0, a.dtype)
        self._op(optype, [a], out, attrs)
        return out

    def concat(self, tensors, axis=-1):
        shape = list(tensors[0].shape)
        ax = axis if axis >= 0 else len(shape) + axis
        shape[ax] = sum(t.shape[ax] for t in tensors)
        q = tensors[0].quantization
        out = self.fm(shape, scale=float(q.scale_f32), zp=int(q.zero_point), dtype=tensors[0].dtype)
        self._op(Op.ConcatTFLite, list(tensors), out, dict(axis=axis, fused_activation_function=None))
        return out

    def reshape(self, a, new_shape):
        shp = self.index_const(new_shape)
        q = a.quantization
        out = self.fm(new_shape, scale=float(q.scale_f32), zp=int(q.zero_point), dtype=a.dtype)
        self._op(Op.Reshape, [a, shp], out, dict(new_shape=list(new_shape)))
        return out

    def strided_slice(self, a, begin, end, strides=None):
        strides = strides or [1] * len(begin)
        q = a.quantization
        oshape = [(e - b + s - 1) // s for b, e, s in zip(begin, end, strides)]
        out = self.fm(oshape, scale=float(q.scale_f32), zp=int(q.zero_point), dtype=a.dtype)
        self._op(Op.StridedSlice, [a, self.index_const(begin), self.index_const(end), self.index_const(strides)], out,
                 dict(begin_mask=0, ellipsis_mask=0, end_mask=0, new_axis_mask=0, shrink_axis_mask=0, offset=False))
        return out

    def slice(self, a, begin, size):
        q = a.quantization
        out = self.fm(list(size), scale=float(q.scale_f32), zp=int(q.zero_point), dtype=a.dtype)
        self._op(Op.Slice, [a, self.index_const(begin), self.index_const(size)], out, {})
        return out

    def split(self, a, num, axis=-1):
        ax = axis if axis >= 0 else len(a.shape) + axis
        shape = list(a.shape)
        shape[ax] //= num
        q = a.quantization
        outs = [self.fm(shape, scale=float(q.scale_f32), zp=int(q.zero_point), dtype=a.dtype) for _ in range(num)]
        self._op(Op.Split, [self.index_const(np.array(ax)), a], outs, dict(num_splits=num))
        return outs

    def pad(self, a, paddings):
        q = a.quantization
        oshape = [d + p[0] + p[1] for d, p in zip(a.shape, paddings)]
        out = self.fm(oshape, scale=float(q.scale_f32), zp=int(q.zero_point), dtype=a.dtype)
        self._op(Op.Pad, [a, self.index_const(paddings)], out, {})
        return out

    def resize(self, a, oh, ow, kind="bilinear", align_corners=False, half_pixel_centers=False):
        q = a.quantization
        out = self.fm([a.shape[0], oh, ow, a.shape[3]], scale=float(q.scale_f32), zp=int(q.zero_point), dtype=a.dtype)
        optype = Op.ResizeBilinear if kind == "bilinear" else Op.ResizeNearestNeighbor
        self._op(optype, [a, self.index_const([oh, ow])], out,
                 dict(align_corners=align_corners, half_pixel_centers=half_pixel_centers))
        return out

    def mean(self, a, axes=(1, 2), keep_dims=True):
        oshape = [1 if i in axes else d for i, d in enumerate(a.shape)]
        if not keep_dims:
            oshape = [d for i, d in enumerate(a.shape) if i not in axes]
        q = a.quantization
        out = self.fm(oshape, scale=float(q.scale_f32), zp=int(q.zero_point), dtype=a.dtype)
        self._op(Op.Mean, [a, self.index_const(list(axes))], out, dict(keep_dims=keep_dims))
        return out

    def transpose(self, a, perm):
        q = a.quantization
        oshape = [a.shape[p] for p in perm]
        out = self.fm(oshape, scale=float(q.scale_f32), zp=int(q.zero_point), dtype=a.dtype)
        self._op(Op.Transpose, [a, self.index_const(perm)], out, {})
        return out

    def output(self, *tensors):
        self.outputs.extend(tensors)

    # --- serialisation
    def build(self):
        from ethosu.vela import tflite_writer

        sg = Subgraph(self.name, PassPlacement.Cpu)
        sg.input_tensors = list(self.inputs)
        sg.original_inputs = list(self.inputs)
        sg.output_tensors = list(self.outputs)
        sg.virtual_outputs = []
        sg.passes = [_FakePass(list(self.ops))]
        nng = Graph(self.name)
        nng.subgraphs = [sg]
        nng.metadata = []
        return bytes(tflite_writer.write_tflite_buffer(nng))


# ----------------------------------------------------------------------------------------------------------------
# Compilation
# ----------------------------------------------------------------------------------------------------------------
@contextlib.contextmanager
def quiet():
    """Silences everything written to file descriptors 1 and 2 (Vela prints its performance summary through a file
    object captured at import time, which contextlib.redirect_stdout does not reach)"""
    sys.stdout.flush()
    sys.stderr.flush()
    saved = os.dup(1), os.dup(2)
    devnull = os.open(os.devnull, os.O_WRONLY)
    try:
        os.dup2(devnull, 1)
        os.dup2(devnull, 2)
        yield
    finally:
        sys.stdout.flush()
        sys.stderr.flush()
        os.dup2(saved[0], 1)
        os.dup2(saved[1], 2)
        os.close(devnull)
        os.close(saved[0])
        os.close(saved[1])


class CompileResult:
    def __init__(self, rc, out_path, log, outdir):
        self.rc = rc
        self.out_path = out_path
        self.log = log
        self.outdir = outdir


def compile_net(model_bytes, args=(), name="net", workdir=None, quiet=True):
    """Runs the complete Vela driver. Returns CompileResult (rc != 0: Vela refused the model / configuration)"""
    from ethosu.vela import vela

    workdir = workdir or tempfile.mkdtemp(prefix="c02_")
    src = os.path.join(workdir, name + ".tflite")
    with open(src, "wb") as f:
        f.write(model_bytes)
    outdir = os.path.join(workdir, "out")
    argv = [src, "--output-dir", outdir] + list(args)
    buf = io.StringIO()
    if quiet:
        with contextlib.redirect_stdout(buf), contextlib.redirect_stderr(buf):
            rc = vela.main(argv)
    else:
        rc = vela.main(argv)
    out_path = os.path.join(outdir, name + "_vela.tflite")
    return CompileResult(rc, out_path if os.path.exists(out_path) else None, buf.getvalue(), outdir)


# ----------------------------------------------------------------------------------------------------------------
# Output file reading (raw flatbuffer accessors only)
# ----------------------------------------------------------------------------------------------------------------
class NpuCall:
    def __init__(self):
        self.cmd_stream = None  # bytes of the command stream tensor (driver payload)
        self.flash_size = None
        self.flash_data = None
        self.scratch_size = None
        self.scratch_fast_size = None
        self.io = []  # (name, shape, dtype size)


def read_npu_calls(path):
    from ethosu.vela.tflite import Model

    with open(path, "rb") as f:
        buf = bytearray(f.read())
    model = Model.Model.GetRootAsModel(buf, 0)
    calls = []
    for sgi in range(model.SubgraphsLength()):
        sg = model.Subgraphs(sgi)
        for oi in range(sg.OperatorsLength()):
            op = sg.Operators(oi)
            code = model.OperatorCodes(op.OpcodeIndex())
            cc = code.CustomCode()
            if cc is None or cc.decode() != "ethos-u":
                continue
            call = NpuCall()

            def tens(i):
                t = sg.Tensors(op.Inputs(i))
                shape = [t.Shape(k) for k in range(t.ShapeLength())]
                b = model.Buffers(t.Buffer())
                data = b.DataAsNumpy() if b.DataLength() else None
                return t, shape, data

            _, shp, data = tens(0)
            call.cmd_stream = bytes(data)
            assert shp == [len(call.cmd_stream)]
            _, shp, data = tens(1)
            call.flash_size = shp[0] if shp else 0
            call.flash_data = data
            _, shp, _ = tens(2)
            call.scratch_size = shp[0] if shp else 0
            _, shp, _ = tens(3)
            call.scratch_fast_size = shp[0] if shp else 0
            calls.append(call)
    return calls


# ----------------------------------------------------------------------------------------------------------------
# Command stream decoding
# ----------------------------------------------------------------------------------------------------------------
# cmd0 opcodes (Ethos-U55/U65 command stream, 10 bit)
OP_STOP, OP_IRQ, OP_CONV, OP_DEPTHWISE, OP_POOL, OP_ELEMENTWISE = 0x000, 0x001, 0x002, 0x003, 0x005, 0x006
OP_DMA_START, OP_DMA_WAIT, OP_KERNEL_WAIT = 0x010, 0x011, 0x012

C0 = dict(
    IFM_PAD_TOP=0x100, IFM_PAD_LEFT=0x101, IFM_PAD_RIGHT=0x102, IFM_PAD_BOTTOM=0x103, IFM_DEPTH_M1=0x104,
    IFM_PRECISION=0x105, IFM_UPSCALE=0x107, IFM_ZERO_POINT=0x109, IFM_WIDTH0_M1=0x10A, IFM_HEIGHT0_M1=0x10B,
    IFM_HEIGHT1_M1=0x10C, IFM_IB_END=0x10D, IFM_REGION=0x10F,
    OFM_WIDTH_M1=0x111, OFM_HEIGHT_M1=0x112, OFM_DEPTH_M1=0x113, OFM_PRECISION=0x114, OFM_BLK_WIDTH_M1=0x115,
    OFM_BLK_HEIGHT_M1=0x116, OFM_BLK_DEPTH_M1=0x117, OFM_ZERO_POINT=0x118, OFM_WIDTH0_M1=0x11A,
    OFM_HEIGHT0_M1=0x11B, OFM_HEIGHT1_M1=0x11C, OFM_REGION=0x11F,
    KERNEL_WIDTH_M1=0x120, KERNEL_HEIGHT_M1=0x121, KERNEL_STRIDE=0x122, PARALLEL_MODE=0x123, ACC_FORMAT=0x124,
    ACTIVATION=0x125, ACTIVATION_MIN=0x126, ACTIVATION_MAX=0x127, WEIGHT_REGION=0x128, SCALE_REGION=0x129,
    AB_START=0x12D, BLOCKDEP=0x12F,
    DMA0_SRC_REGION=0x130, DMA0_DST_REGION=0x131, DMA0_SIZE0=0x132, DMA0_SIZE1=0x133,
    IFM2_BROADCAST=0x180, IFM2_SCALAR=0x181, IFM2_PRECISION=0x185, IFM2_ZERO_POINT=0x189, IFM2_WIDTH0_M1=0x18A,
    IFM2_HEIGHT0_M1=0x18B, IFM2_HEIGHT1_M1=0x18C, IFM2_IB_START=0x18D, IFM2_REGION=0x18F,
)
C1 = dict(
    IFM_BASE0=0x000, IFM_BASE1=0x001, IFM_BASE2=0x002, IFM_BASE3=0x003, IFM_STRIDE_X=0x004, IFM_STRIDE_Y=0x005,
    IFM_STRIDE_C=0x006,
    OFM_BASE0=0x010, OFM_BASE1=0x011, OFM_BASE2=0x012, OFM_BASE3=0x013, OFM_STRIDE_X=0x014, OFM_STRIDE_Y=0x015,
    OFM_STRIDE_C=0x016,
    WEIGHT_BASE=0x020, WEIGHT_LENGTH=0x021, SCALE_BASE=0x022, SCALE_LENGTH=0x023, OFM_SCALE=0x024, OPA_SCALE=0x025,
    OPB_SCALE=0x026,
    DMA0_SRC=0x030, DMA0_DST=0x031, DMA0_LEN=0x032, DMA0_SKIP0=0x033, DMA0_SKIP1=0x034,
    IFM2_BASE0=0x080, IFM2_BASE1=0x081, IFM2_BASE2=0x082, IFM2_BASE3=0x083, IFM2_STRIDE_X=0x084,
    IFM2_STRIDE_Y=0x085, IFM2_STRIDE_C=0x086,
    WEIGHT1_BASE=0x090, WEIGHT1_LENGTH=0x091, SCALE1_BASE=0x092, SCALE1_LENGTH=0x093,
)
C0_INV = {v: k for k, v in C0.items()}
C1_INV = {v: k for k, v in C1.items()}
# cmd1 registers whose payload is a 40 bit address / stride (high bits in the param field)
ADDR40 = {k for k in C1 if ("BASE" in k or "STRIDE" in k or k in ("DMA0_SRC", "DMA0_DST", "DMA0_LEN"))}

DEBUG_GEOMETRY = False
REGION_SHRAM = 0x100  # pseudo region used in the reports for on-chip SHRAM (DMA "mem2mem"/internal)


class Access:
    def __init__(self, opidx, kind, what, region, ranges, write):
        self.opidx = opidx  # index of the NPU_OP in the stream
        self.kind = kind  # CONV/DEPTHWISE/POOL/ELEMENTWISE/DMA
        self.what = what  # IFM/IFM2/OFM/WEIGHT0/SCALE0/DMA_SRC...
        self.region = region
        self.ranges = ranges  # list of (start, end) byte ranges, end exclusive
        self.write = write

    def lo(self):
        return min(r[0] for r in self.ranges)

    def hi(self):
        return max(r[1] for r in self.ranges)

    def __repr__(self):
        region = "SHRAM" if self.region == REGION_SHRAM else self.region
        return (f"op#{self.opidx} {self.kind} {self.what} region={region} "
                f"[{self.lo()}, {self.hi()}) {'W' if self.write else 'R'}")


def split_payload(payload):
    """Driver payload -> (config words, list of 32 bit command stream words)"""
    words = struct.unpack("<%dI" % (len(payload) // 4), payload)
    assert words[0] == struct.unpack("<I", b"COP1")[0], "bad fourcc"
    i = 1
    stream = None
    config = None
    while i < len(words):
        tag = words[i]
        da = tag & 0xFF
        if da == 0x01:  # config
            config = (words[i + 1], words[i + 2])
            i += 3
        elif da == 0x05:  # nop
            i += 1
        elif da == 0x02:  # command stream
            length = ((tag >> 8) & 0xFF) << 16 | (tag >> 16)
            stream = list(words[i + 1:i + 1 + length])
            assert len(stream) == length, "command stream shorter than its header says"
            i += 1 + length
        else:
            raise AssertionError(f"unknown driver action {da}")
    return config, stream


def _elem_size(prec_reg, is_ofm):
    if is_ofm:
        return 1 << ((prec_reg >> 1) & 3)
    return 1 << ((prec_reg >> 2) & 3)


def _is_nhcwb16(prec_reg):
    return bool((prec_reg >> 6) & 1)


def fm_ranges(bases, h0, h1, w0, height, width, depth, sx, sy, sc, esize, nhcwb16):
    """Exact byte ranges touched by a (height x width x depth) feature map volume with the tile / stride
    description of the hardware. One range per (row, tile [, 16-channel brick]); end exclusive."""
    ranges = []
    for y in range(height):
        for (xa, xb, left) in ((0, min(width, w0), True), (w0, width, False)):
            if xb <= xa:
                continue
            if left:
                if y < h0:
                    base, yy = bases[0], y
                else:
                    base, yy = bases[2], y - h0
            else:
                if y < h1:
                    base, yy = bases[1], y
                else:
                    base, yy = bases[3], y - h1
            nx = xb - xa  # x is relative to the start of the tile
            if nhcwb16:
                for cb in range((depth + 15) // 16):
                    cn = min(16, depth - cb * 16)
                    a0 = base + yy * sy + cb * sc
                    # x stride is 16 elements
                    a1 = a0 + (nx - 1) * 16 * esize + cn * esize
                    ranges.append((a0, a1))
            else:
                a0 = base + yy * sy
                if sx == depth * esize:
                    ranges.append((a0, a0 + nx * sx))
                else:
                    a1 = a0 + (nx - 1) * sx + depth * esize
                    ranges.append((a0, a1))
    return ranges


def decode_stream(stream, ncores_hint=None):
    """Interprets the register writes and returns the list of memory accesses of every operation"""
    r0 = {}
    r1 = {}
    accesses = []
    ops = []
    i = 0
    opidx = 0
    n = len(stream)
    stopped = False
    while i < n:
        w = stream[i]
        code = w & 0x3FF
        has_payload = (w >> 14) & 3
        param = w >> 16
        if has_payload == 0:
            i += 1
            if code >= 0x100:
                r0[code] = param
                continue
            if code == OP_STOP:
                stopped = True
                break
            if code in (OP_IRQ, OP_DMA_WAIT, OP_KERNEL_WAIT):
                continue
            if code == OP_DMA_START:
                accesses.extend(_dma_accesses(opidx, r0, r1))
                ops.append("DMA")
                opidx += 1
                continue
            if code in (OP_CONV, OP_DEPTHWISE, OP_POOL, OP_ELEMENTWISE):
                kind = {OP_CONV: "CONV", OP_DEPTHWISE: "DEPTHWISE", OP_POOL: "POOL", OP_ELEMENTWISE: "ELEMENTWISE"}[code]
                accesses.extend(_kernel_accesses(opidx, kind, param, r0, r1))
                ops.append(kind)
                opidx += 1
                continue
            raise AssertionError(f"unknown cmd0 opcode {code:#x}")
        else:
            assert has_payload == 1
            payload = stream[i + 1]
            i += 2
            name = C1_INV.get(code)
            if name in ADDR40:
                r1[code] = ((param & 0xFF) << 32) | payload
            else:
                r1[code] = (payload, param)
    assert stopped, "command stream does not end with NPU_OP_STOP"
    return accesses, ops


def _g0(r0, name, default=None):
    v = r0.get(C0[name], default)
    assert v is not None, f"register {name} used before it was written"
    return v


def _g1(r1, name, default=None):
    v = r1.get(C1[name], default)
    assert v is not None, f"register {name} used before it was written"
    return v


def _dma_accesses(opidx, r0, r1):
    src_reg = _g0(r0, "DMA0_SRC_REGION")
    dst_reg = _g0(r0, "DMA0_DST_REGION")
    src = _g1(r1, "DMA0_SRC")
    dst = _g1(r1, "DMA0_DST")
    ln = _g1(r1, "DMA0_LEN")
    out = []
    # region register: bits 0-2 region, bit 8 = internal (SHRAM) for the destination; stride mode bits 9-10
    src_region = REGION_SHRAM if (src_reg >> 8) & 1 else (src_reg & 7)
    dst_internal = (dst_reg >> 8) & 1
    dst_region = REGION_SHRAM if dst_internal else (dst_reg & 7)
    out.append(Access(opidx, "DMA", "DMA_SRC", src_region, [(src, src + ln)], False))
    out.append(Access(opidx, "DMA", "DMA_DST", dst_region, [(dst, dst + ln)], True))
    return out


def _kernel_accesses(opidx, kind, op_param, r0, r1):
    out = []
    ofm_h = _g0(r0, "OFM_HEIGHT_M1") + 1
    ofm_w = _g0(r0, "OFM_WIDTH_M1") + 1
    ofm_d = _g0(r0, "OFM_DEPTH_M1") + 1
    ofm_prec = _g0(r0, "OFM_PRECISION")
    ifm_prec = _g0(r0, "IFM_PRECISION")
    upscale = _g0(r0, "IFM_UPSCALE", 0)
    ifm_d = _g0(r0, "IFM_DEPTH_M1") + 1

    # ---- OFM
    out.append(Access(opidx, kind, "OFM", _g0(r0, "OFM_REGION") & 7, fm_ranges(
        [_g1(r1, "OFM_BASE%d" % k) for k in range(4)],
        _g0(r0, "OFM_HEIGHT0_M1") + 1, _g0(r0, "OFM_HEIGHT1_M1") + 1, _g0(r0, "OFM_WIDTH0_M1") + 1,
        ofm_h, ofm_w, ofm_d,
        _g1(r1, "OFM_STRIDE_X"), _g1(r1, "OFM_STRIDE_Y"), _g1(r1, "OFM_STRIDE_C"),
        _elem_size(ofm_prec, True), _is_nhcwb16(ofm_prec)), True))

    # ---- IFM volume
    if kind == "ELEMENTWISE":
        ifm_h, ifm_w = ofm_h, ofm_w
        ifm_depth = ofm_d
    else:
        kh = _g0(r0, "KERNEL_HEIGHT_M1") + 1  # dilated size
        kw = _g0(r0, "KERNEL_WIDTH_M1") + 1
        ks = _g0(r0, "KERNEL_STRIDE")
        sx = 1 + (ks & 1) + (((ks >> 6) & 7) << 1)
        sy = 1 + ((ks >> 1) & 1) + (((ks >> 9) & 7) << 1)
        pt, pb = _g0(r0, "IFM_PAD_TOP"), _g0(r0, "IFM_PAD_BOTTOM")
        pl, pr = _g0(r0, "IFM_PAD_LEFT"), _g0(r0, "IFM_PAD_RIGHT")
        up = 2 if upscale in (1, 2) else 1
        need_h = (ofm_h - 1) * sy + kh - pt - pb
        need_w = (ofm_w - 1) * sx + kw - pl - pr
        ifm_h = max(1, -(-need_h // up))
        ifm_w = max(1, -(-need_w // up))
        ifm_depth = ifm_d
        if DEBUG_GEOMETRY:
            print(f"    op#{opidx} {kind}: ofm {ofm_h}x{ofm_w}x{ofm_d} kernel {kh}x{kw} stride y{sy} x{sx} "
                  f"pad t{pt} b{pb} l{pl} r{pr} upscale {upscale} -> ifm {ifm_h}x{ifm_w}x{ifm_depth}")
    out.append(Access(opidx, kind, "IFM", _g0(r0, "IFM_REGION") & 7, fm_ranges(
        [_g1(r1, "IFM_BASE%d" % k) for k in range(4)],
        _g0(r0, "IFM_HEIGHT0_M1") + 1, _g0(r0, "IFM_HEIGHT1_M1") + 1, _g0(r0, "IFM_WIDTH0_M1") + 1,
        ifm_h, ifm_w, ifm_depth,
        _g1(r1, "IFM_STRIDE_X"), _g1(r1, "IFM_STRIDE_Y"), _g1(r1, "IFM_STRIDE_C"),
        _elem_size(ifm_prec, False), _is_nhcwb16(ifm_prec)), False))

    # ---- IFM2 (binary elementwise: MUL ADD SUB MIN MAX SHR SHL = modes 0,1,2,3,4,8,9)
    if kind == "ELEMENTWISE" and op_param in (0, 1, 2, 3, 4, 8, 9):
        bc = _g0(r0, "IFM2_BROADCAST", 0)
        if not (bc & 0x80):  # not a scalar
            h2 = 1 if bc & 1 else ofm_h
            w2 = 1 if bc & 2 else ofm_w
            d2 = 1 if bc & 4 else ofm_d
            prec2 = _g0(r0, "IFM2_PRECISION")
            out.append(Access(opidx, kind, "IFM2", _g0(r0, "IFM2_REGION") & 7, fm_ranges(
                [_g1(r1, "IFM2_BASE%d" % k) for k in range(4)],
                _g0(r0, "IFM2_HEIGHT0_M1") + 1, _g0(r0, "IFM2_HEIGHT1_M1") + 1, _g0(r0, "IFM2_WIDTH0_M1") + 1,
                h2, w2, d2,
                _g1(r1, "IFM2_STRIDE_X"), _g1(r1, "IFM2_STRIDE_Y"), _g1(r1, "IFM2_STRIDE_C"),
                _elem_size(prec2, False), _is_nhcwb16(prec2)), False))

    # ---- weights and scales
    if kind in ("CONV", "DEPTHWISE"):
        ncores = _g0(r0, "PARALLEL_MODE", 0) + 1
        wreg = _g0(r0, "WEIGHT_REGION") & 7
        sreg = _g0(r0, "SCALE_REGION") & 7
        for core in range(ncores):
            sfx = "" if core == 0 else "1"
            wb = _g1(r1, f"WEIGHT{sfx}_BASE")
            wl = _g1(r1, f"WEIGHT{sfx}_LENGTH")[0]
            if wl:
                out.append(Access(opidx, kind, f"WEIGHT{core}", wreg, [(wb, wb + wl)], False))
            sb = _g1(r1, f"SCALE{sfx}_BASE")
            sl = _g1(r1, f"SCALE{sfx}_LENGTH")[0]
            if sl:
                out.append(Access(opidx, kind, f"SCALE{core}", sreg, [(sb, sb + sl)], False))
    elif kind == "POOL":
        # pooling with per-channel scale (use_global_scale bit clear) reads the scale stream
        if not ((ofm_prec >> 8) & 1) and C1["SCALE_LENGTH"] in r1 and C0["SCALE_REGION"] in r0:
            pass  # Vela never emits a scale stream for pooling; nothing to read
    # ---- LUT read from SHRAM
    act = _g0(r0, "ACTIVATION", 0)
    if (act & 0x1F) >= 16:
        lut_idx = (act & 0x1F) - 16
        out.append(Access(opidx, kind, "LUT", REGION_SHRAM, [(None, None, lut_idx)], False))
    return out


# ----------------------------------------------------------------------------------------------------------------
# The check
# ----------------------------------------------------------------------------------------------------------------
SHRAM_BYTES = {  # accelerator -> SHRAM size in bytes
    "ethos-u55-32": 16 * 1024, "ethos-u55-64": 16 * 1024, "ethos-u55-128": 24 * 1024, "ethos-u55-256": 48 * 1024,
    "ethos-u65-256": 48 * 1024, "ethos-u65-512": 48 * 1024,
}


def check_output(path, accelerator="ethos-u65-256", arena_cache_size=None, dedicated_sram=None, verbose=False):
    """Returns (violations, info). violations is a list of strings; empty means the property holds for this file.

    Region numbering used by Vela's driver contract: 0 = constants (flash tensor), 1 = tensor arena (scratch tensor),
    2 = fast scratch tensor; the DMA destination flag 'internal' = SHRAM.
    """
    violations = []
    info = dict(calls=0, ops=0, accesses=0)
    calls = read_npu_calls(path)
    for ci, call in enumerate(calls):
        info["calls"] += 1
        config, stream = split_payload(call.cmd_stream)
        accesses, ops = decode_stream(stream)
        info["ops"] += len(ops)
        info["accesses"] += len(accesses)
        extents = {0: call.flash_size, 1: call.scratch_size, 2: call.scratch_fast_size}
        info.setdefault("extents", []).append(dict(extents))
        hi_seen = {0: 0, 1: 0, 2: 0}
        for a in accesses:
            if a.region == REGION_SHRAM:
                if a.what == "LUT":
                    continue
                limit = SHRAM_BYTES[accelerator]
                if a.lo() < 0 or a.hi() > limit:
                    violations.append(f"call {ci}: {a} outside SHRAM of {limit} bytes")
                continue
            if a.region not in extents:
                violations.append(f"call {ci}: {a} names region {a.region} which the output file does not declare")
                continue
            if a.write and a.region == 0:
                violations.append(f"call {ci}: {a} WRITES to the read-only constants region")
            ext = extents[a.region]
            hi_seen[a.region] = max(hi_seen[a.region], a.hi())
            if a.lo() < 0 or a.hi() > ext:
                violations.append(
                    f"call {ci}: {a} is outside region {a.region} whose published extent is {ext} bytes")
        info.setdefault("hi_seen", []).append(hi_seen)
        if dedicated_sram:
            if arena_cache_size is None:
                arena_cache_size = 384 * 1024  # default of the --arena-cache-size option
            if call.scratch_fast_size > arena_cache_size:
                violations.append(
                    f"call {ci}: published fast-scratch extent {call.scratch_fast_size} exceeds the arena cache size "
                    f"{arena_cache_size}")
        if verbose:
            for a in accesses:
                print("   ", a)
    return violations, info


def compile_and_check(model_bytes, args=(), accelerator="ethos-u65-256", arena_cache_size=None, dedicated_sram=None,
                      name="net", verbose=False):
    args = list(args) + ["--accelerator-config", accelerator]
    if arena_cache_size is not None:
        args += ["--arena-cache-size", str(arena_cache_size)]
    res = compile_net(model_bytes, args, name=name)
    if res.rc != 0 or res.out_path is None:
        return None, res
    v, info = check_output(res.out_path, accelerator, arena_cache_size, dedicated_sram, verbose)
    res.info = info
    return v, res

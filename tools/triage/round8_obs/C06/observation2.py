# Observation 2 (unmodified tree): a DMA whose dest.length is smaller than src.length.
#
# generate_dma_op programs NPU_SET_DMA0_LEN with src.length (and check_dma_op validates src.length), i.e. the hardware
# writes src.length bytes starting at dest.address, but get_dma_memory_accesses records only dest.length bytes as
# written. A following convolution whose weights lie inside the area that is really written, but beyond dest.length,
# gets no NPU_OP_DMA_WAIT. Nothing rejects or warns about the inconsistent lengths.
# Run: cd /tmp/seed8/C06 && /venv/bin/python out/observation2.py     (prints VIOLATION, exits 1)
import os
import sys

sys.path.insert(0, os.getcwd())
sys.path.insert(0, os.path.dirname(os.path.abspath(__file__)))

import c06_oracle as oracle  # noqa: E402
from demo_common import conv2d  # noqa: E402
from demo_common import feature_map  # noqa: E402
from ethosu.vela.api import NpuAccelerator  # noqa: E402
from ethosu.vela.api import NpuAddressRange  # noqa: E402
from ethosu.vela.api import NpuDmaOperation  # noqa: E402
from ethosu.vela.api import NpuKernel  # noqa: E402
from ethosu.vela.api import NpuShape3D  # noqa: E402
from ethosu.vela.api import npu_generate_register_command_stream  # noqa: E402

conv = conv2d(
    feature_map(8, 8, 16, 1, 0x0, scale=0.5),
    feature_map(8, 8, 16, 1, 0x2000, scale=0.5),
    NpuKernel(1, 1),
    [NpuAddressRange(1, 0x4040, 256)],  # weights at 0x4040..0x4140
    [NpuAddressRange(0, 0x100, 160)],
    NpuShape3D(8, 8, 16),
)
# copies 512 bytes to 0x4000..0x4200 (DMA0_LEN = src.length), dest.length says 16
dma = NpuDmaOperation(NpuAddressRange(0, 0x1000, 512), NpuAddressRange(1, 0x4000, 16))
stream = npu_generate_register_command_stream([dma, conv], NpuAccelerator.Ethos_U55_128)
events = oracle.decode(stream)
print([(e.name, e.param) for e in events])
print("DMA0_LEN =", events[0].regs["DMA0_LEN"][1])
problems = oracle.check_stream([dma, conv], NpuAccelerator.Ethos_U55_128, stream)
for p in problems:
    print("VIOLATION:", p)
sys.exit(1 if problems else 0)

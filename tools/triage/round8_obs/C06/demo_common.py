# Helpers shared by the C06 demos: building feature maps / operations through the public API only.
from ethosu.vela.api import NpuAddressRange
from ethosu.vela.api import NpuBlockTraversal
from ethosu.vela.api import NpuConv2DOperation
from ethosu.vela.api import NpuDataType
from ethosu.vela.api import NpuFeatureMap
from ethosu.vela.api import NpuKernel
from ethosu.vela.api import NpuLayout
from ethosu.vela.api import NpuPadding
from ethosu.vela.api import NpuQuantization
from ethosu.vela.api import NpuShape3D
from ethosu.vela.api import NpuTileBox


def feature_map(h, w, c, region, address, dtype=NpuDataType.INT8, layout=NpuLayout.NHWC, scale=1.0, zero_point=0):
    fm = NpuFeatureMap()
    fm.data_type = dtype
    fm.shape = NpuShape3D(height=h, width=w, depth=c)
    fm.tiles = NpuTileBox(height_0=h, height_1=h, width_0=w, addresses=[address, 0, 0, 0])
    fm.region = region
    fm.layout = layout
    fm.quantization = NpuQuantization(scale_f32=scale, zero_point=zero_point)
    return fm


def conv2d(ifm, ofm, kernel, weights, biases, block_config, padding=NpuPadding(0, 0, 0, 0)):
    op = NpuConv2DOperation()
    op.ifm = ifm
    op.ofm = ofm
    op.kernel = kernel
    op.weights = list(weights)
    op.biases = list(biases)
    op.padding = padding
    op.block_traversal = NpuBlockTraversal.DEPTH_FIRST
    op.block_config = block_config
    return op


__all__ = [
    "feature_map",
    "conv2d",
    "NpuAddressRange",
    "NpuKernel",
    "NpuShape3D",
    "NpuPadding",
    "NpuDataType",
    "NpuLayout",
]

# Observation 4 (unmodified tree): exception path. NpuFeatureMap.quantization is Optional and every other consumer
# (get_zero_point, quantise, elementwise scaling, get_arch_block_config) accepts None, but
# generate_ofm_scaling_for_pooling dereferences ifm/ofm quantization unconditionally: an AVERAGE / REDUCE_SUM pool with
# zero padding (global scale path) and quantization None - the natural way to describe an INT32 REDUCE_SUM - dies with
# AttributeError instead of emitting unit scaling (1, 0), which is what it does for NpuQuantization(None, 0).
# Run: cd /tmp/seed8/C06 && /venv/bin/python out/observation4.py     (prints VIOLATION, exits 1)
import os
import sys

sys.path.insert(0, os.getcwd())
sys.path.insert(0, os.path.dirname(os.path.abspath(__file__)))

import c06_oracle as oracle  # noqa: E402
from demo_common import feature_map  # noqa: E402
from ethosu.vela.api import NpuAccelerator  # noqa: E402
from ethosu.vela.api import NpuDataType  # noqa: E402
from ethosu.vela.api import NpuKernel  # noqa: E402
from ethosu.vela.api import NpuPadding  # noqa: E402
from ethosu.vela.api import NpuPoolingOp  # noqa: E402
from ethosu.vela.api import NpuPoolingOperation  # noqa: E402
from ethosu.vela.api import NpuQuantization  # noqa: E402
from ethosu.vela.api import NpuShape3D  # noqa: E402
from ethosu.vela.api import npu_generate_register_command_stream  # noqa: E402

bad = 0
for quant in (NpuQuantization(scale_f32=None, zero_point=0), None):
    op = NpuPoolingOperation(NpuPoolingOp.REDUCE_SUM)
    op.ifm = feature_map(4, 4, 16, 1, 0x0, dtype=NpuDataType.INT32)
    op.ofm = feature_map(4, 4, 1, 1, 0x1000, dtype=NpuDataType.INT32)
    op.ifm.quantization = quant
    op.ofm.quantization = quant
    op.kernel = NpuKernel(1, 1)
    op.padding = NpuPadding(0, 0, 0, 0)
    op.block_config = NpuShape3D(2, 2, 8)
    try:
        stream = npu_generate_register_command_stream([op], NpuAccelerator.Ethos_U55_128)
        print(f"quantization={quant}: ok,", oracle.check_stream([op], NpuAccelerator.Ethos_U55_128, stream) or "stream correct")
    except AttributeError as ex:
        bad += 1
        print(f"VIOLATION: quantization={quant}: AttributeError: {ex}")
sys.exit(1 if bad else 0)

# Independent decoder / reference model for Ethos-U register command streams (property C06).
#
# Nothing in here imports the register command stream generator, its utilities, the register definition file or the
# block config allocator: all opcodes, bit fields, SHRAM parameters and scaling expectations are written down here from
# the hardware documentation, so the checks stay valid when one of those modules is changed.
#
# Only ethosu.vela.api is imported, for the input classes (and the public entry point under test).
import math

from ethosu.vela.api import NpuAccelerator
from ethosu.vela.api import NpuActivationOp
from ethosu.vela.api import NpuBlockTraversal
from ethosu.vela.api import NpuConv2DOperation
from ethosu.vela.api import NpuConvDepthWiseOperation
from ethosu.vela.api import NpuDmaOperation
from ethosu.vela.api import NpuElementWiseOp
from ethosu.vela.api import NpuElementWiseOperation
from ethosu.vela.api import NpuLayout
from ethosu.vela.api import NpuPoolingOp
from ethosu.vela.api import NpuPoolingOperation
from ethosu.vela.api import NpuResamplingMode
from ethosu.vela.api import NpuRoundingMode

# ---------------------------------------------------------------------------------------------------------------------
# Opcodes (Ethos-U55/U65 command stream)
# ---------------------------------------------------------------------------------------------------------------------
CMD0 = {
    0x000: "OP_STOP",
    0x001: "OP_IRQ",
    0x002: "OP_CONV",
    0x003: "OP_DEPTHWISE",
    0x005: "OP_POOL",
    0x006: "OP_ELEMENTWISE",
    0x010: "OP_DMA_START",
    0x011: "OP_DMA_WAIT",
    0x012: "OP_KERNEL_WAIT",
    0x100: "IFM_PAD_TOP",
    0x101: "IFM_PAD_LEFT",
    0x102: "IFM_PAD_RIGHT",
    0x103: "IFM_PAD_BOTTOM",
    0x104: "IFM_DEPTH_M1",
    0x105: "IFM_PRECISION",
    0x107: "IFM_UPSCALE",
    0x109: "IFM_ZERO_POINT",
    0x10A: "IFM_WIDTH0_M1",
    0x10B: "IFM_HEIGHT0_M1",
    0x10C: "IFM_HEIGHT1_M1",
    0x10D: "IFM_IB_END",
    0x10F: "IFM_REGION",
    0x111: "OFM_WIDTH_M1",
    0x112: "OFM_HEIGHT_M1",
    0x113: "OFM_DEPTH_M1",
    0x114: "OFM_PRECISION",
    0x115: "OFM_BLK_WIDTH_M1",
    0x116: "OFM_BLK_HEIGHT_M1",
    0x117: "OFM_BLK_DEPTH_M1",
    0x118: "OFM_ZERO_POINT",
    0x11A: "OFM_WIDTH0_M1",
    0x11B: "OFM_HEIGHT0_M1",
    0x11C: "OFM_HEIGHT1_M1",
    0x11F: "OFM_REGION",
    0x120: "KERNEL_WIDTH_M1",
    0x121: "KERNEL_HEIGHT_M1",
    0x122: "KERNEL_STRIDE",
    0x123: "PARALLEL_MODE",
    0x124: "ACC_FORMAT",
    0x125: "ACTIVATION",
    0x126: "ACTIVATION_MIN",
    0x127: "ACTIVATION_MAX",
    0x128: "WEIGHT_REGION",
    0x129: "SCALE_REGION",
    0x12D: "AB_START",
    0x12F: "BLOCKDEP",
    0x130: "DMA0_SRC_REGION",
    0x131: "DMA0_DST_REGION",
    0x132: "DMA0_SIZE0",
    0x133: "DMA0_SIZE1",
    0x180: "IFM2_BROADCAST",
    0x181: "IFM2_SCALAR",
    0x185: "IFM2_PRECISION",
    0x189: "IFM2_ZERO_POINT",
    0x18A: "IFM2_WIDTH0_M1",
    0x18B: "IFM2_HEIGHT0_M1",
    0x18C: "IFM2_HEIGHT1_M1",
    0x18D: "IFM2_IB_START",
    0x18F: "IFM2_REGION",
}

CMD1 = {
    0x000: "IFM_BASE0",
    0x001: "IFM_BASE1",
    0x002: "IFM_BASE2",
    0x003: "IFM_BASE3",
    0x004: "IFM_STRIDE_X",
    0x005: "IFM_STRIDE_Y",
    0x006: "IFM_STRIDE_C",
    0x010: "OFM_BASE0",
    0x011: "OFM_BASE1",
    0x012: "OFM_BASE2",
    0x013: "OFM_BASE3",
    0x014: "OFM_STRIDE_X",
    0x015: "OFM_STRIDE_Y",
    0x016: "OFM_STRIDE_C",
    0x020: "WEIGHT_BASE",
    0x021: "WEIGHT_LENGTH",
    0x022: "SCALE_BASE",
    0x023: "SCALE_LENGTH",
    0x024: "OFM_SCALE",
    0x025: "OPA_SCALE",
    0x026: "OPB_SCALE",
    0x030: "DMA0_SRC",
    0x031: "DMA0_DST",
    0x032: "DMA0_LEN",
    0x080: "IFM2_BASE0",
    0x081: "IFM2_BASE1",
    0x082: "IFM2_BASE2",
    0x083: "IFM2_BASE3",
    0x084: "IFM2_STRIDE_X",
    0x085: "IFM2_STRIDE_Y",
    0x086: "IFM2_STRIDE_C",
    0x090: "WEIGHT1_BASE",
    0x091: "WEIGHT1_LENGTH",
    0x092: "SCALE1_BASE",
    0x093: "SCALE1_LENGTH",
}

OPS = ("OP_CONV", "OP_DEPTHWISE", "OP_POOL", "OP_ELEMENTWISE", "OP_DMA_START")
WAITS = ("OP_DMA_WAIT", "OP_KERNEL_WAIT")
SHRAM_REGION = (1 << 8) | 3


class StreamError(Exception):
    pass


class Event:
    """An NPU_OP_* (operation, wait or stop) with the register state in force when it was issued"""

    def __init__(self, name, param, regs, pos):
        self.name = name
        self.param = param
        self.regs = regs  # name -> value; cmd1 registers hold (param16, payload32)
        self.pos = pos

    def __repr__(self):
        return f"<{self.name} {self.param} @{self.pos}>"


def decode(stream):
    """Decodes the stream; returns the list of Events. Register state is tracked over the whole stream."""
    regs = {}
    events = []
    i = 0
    n = len(stream)
    while i < n:
        word = stream[i]
        if not (0 <= word <= 0xFFFFFFFF):
            raise StreamError(f"word {i} is not a 32-bit value: {word}")
        code = word & 0x3FF
        param = word >> 16
        mode = word & 0xC000
        if word & 0x3C00:
            raise StreamError(f"word {i}: reserved bits set: {word:#x}")
        if mode == 0x4000:
            if i + 1 >= n:
                raise StreamError("truncated cmd1 at the end of the stream")
            if code not in CMD1:
                raise StreamError(f"word {i}: unknown cmd1 opcode {code:#x}")
            payload = stream[i + 1]
            if not (0 <= payload <= 0xFFFFFFFF):
                raise StreamError(f"word {i + 1} is not a 32-bit value: {payload}")
            regs[CMD1[code]] = (param, payload)
            i += 2
        elif mode == 0:
            if code not in CMD0:
                raise StreamError(f"word {i}: unknown cmd0 opcode {code:#x}")
            name = CMD0[code]
            if name.startswith("OP_"):
                events.append(Event(name, param, dict(regs), i))
            else:
                regs[name] = param
            i += 1
        else:
            raise StreamError(f"word {i}: bad payload mode {word:#x}")
    return events


# ---------------------------------------------------------------------------------------------------------------------
# Architecture parameters
# ---------------------------------------------------------------------------------------------------------------------
class Arch:
    def __init__(self, macs, cores, ublock_whd, banks, granules, u65):
        self.macs = macs
        self.cores = cores
        self.ublock_w, self.ublock_h, self.ublock_d = ublock_whd
        self.ifm_ublock_d = 8
        self.banks = banks
        # [IFM8, IFM16, IFM8_EW, IFM16_EW, IFM32, ACC16, ACC32, ACC40]
        self.granules = granules
        self.u65 = u65
        self.reserved_end = 2 if banks > 16 else 0
        self.addr_bits = 40 if u65 else 32


ARCH = {
    NpuAccelerator.Ethos_U55_32: Arch(32, 1, (1, 1, 4), 16, [2, 2, 2, 2, 4, 4, 4, 4], False),
    NpuAccelerator.Ethos_U55_64: Arch(64, 1, (1, 1, 8), 16, [2, 2, 2, 2, 4, 4, 4, 8], False),
    NpuAccelerator.Ethos_U55_128: Arch(128, 1, (2, 1, 8), 24, [4, 4, 4, 4, 8, 4, 8, 12], False),
    NpuAccelerator.Ethos_U55_256: Arch(256, 1, (2, 2, 8), 48, [8, 8, 8, 8, 16, 8, 16, 20], False),
    NpuAccelerator.Ethos_U65_256: Arch(256, 1, (2, 2, 8), 48, [8, 8, 8, 8, 16, 8, 16, 20], True),
    NpuAccelerator.Ethos_U65_512: Arch(256, 2, (2, 2, 8), 48, [8, 8, 8, 8, 16, 8, 16, 20], True),
}


def rup(a, b):
    return ((a + b - 1) // b) * b


def cdiv(a, b):
    return (a + b - 1) // b


# ---------------------------------------------------------------------------------------------------------------------
# Expected register values
# ---------------------------------------------------------------------------------------------------------------------
class Expect:
    """Collects expected register values and complaints about values that do not fit their register"""

    def __init__(self):
        self.regs = {}
        self.problems = []

    def p(self, name, value, bits=16, signed=False):
        """cmd0 register"""
        value = int(value)
        lo, hi = (-(1 << (bits - 1)), (1 << (bits - 1)) - 1) if signed else (0, (1 << bits) - 1)
        if not (lo <= value <= hi):
            self.problems.append(f"{name}: value {value} does not fit its {bits}-bit field")
        self.regs[name] = value & 0xFFFF

    def a(self, name, value, bits=40):
        """cmd1 register holding an address/stride/length: payload = low 32 bits, param = high bits"""
        value = int(value)
        if not (0 <= value < (1 << bits)):
            self.problems.append(f"{name}: value {value} does not fit its {bits}-bit field")
        self.regs[name] = ((value >> 32) & 0xFFFF, value & 0xFFFFFFFF)

    def s(self, name, scale, shift):
        scale = int(scale)
        shift = int(shift)
        if not (0 <= scale < (1 << 32)):
            self.problems.append(f"{name}: scale {scale} does not fit 32 bits")
        if not (0 <= shift < 64):
            self.problems.append(f"{name}: shift {shift} does not fit 6 bits")
        self.regs[name] = (shift & 0xFFFF, scale & 0xFFFFFFFF)


def default_strides(fm):
    if fm.strides is not None:
        return fm.strides.depth, fm.strides.height, fm.strides.width
    es = fm.data_type.size_in_bits() // 8
    if fm.layout == NpuLayout.NHWC:
        sc = es
        sx = fm.shape.depth * es
        sy = fm.shape.width * fm.shape.depth * es
    else:
        sx = 16 * es
        sc = 16 * es * fm.shape.width
        sy = es * fm.shape.width * rup(fm.shape.depth, 16)
    return sc, sy, sx


def zero_point(fm):
    q = getattr(fm, "quantization", None)
    return 0 if q is None else int(q.zero_point)


def expect_fm(e, pfx, fm, arch, with_depth, with_shape):
    es = fm.data_type.size_in_bits() // 8
    e.p(pfx + "_REGION", fm.region, 3)
    align = 16 if fm.layout == NpuLayout.NHCWB16 else es
    for i in range(4):
        addr = fm.tiles.addresses[i]
        if addr % align:
            e.problems.append(f"{pfx}_BASE{i}: address {addr} is not {align}-byte aligned")
        e.a(f"{pfx}_BASE{i}", addr, arch.addr_bits)
    e.p(pfx + "_HEIGHT0_M1", fm.tiles.height_0 - 1)
    e.p(pfx + "_HEIGHT1_M1", fm.tiles.height_1 - 1)
    e.p(pfx + "_WIDTH0_M1", fm.tiles.width_0 - 1)
    if with_depth:
        e.p(pfx + "_DEPTH_M1", fm.shape.depth - 1)
    if with_shape:
        e.p(pfx + "_HEIGHT_M1", fm.shape.height - 1)
        e.p(pfx + "_WIDTH_M1", fm.shape.width - 1)
    sc, sy, sx = default_strides(fm)
    if fm.layout == NpuLayout.NHCWB16:
        for nm, st in (("C", sc), ("Y", sy)):
            if st % 16:
                e.problems.append(f"{pfx}_STRIDE_{nm}: {st} is not a multiple of 16")
    else:
        for nm, st in (("Y", sy), ("X", sx)):
            if st % es:
                e.problems.append(f"{pfx}_STRIDE_{nm}: {st} is not a multiple of the element size {es}")
    e.a(pfx + "_STRIDE_C", sc, arch.addr_bits)
    e.a(pfx + "_STRIDE_Y", sy, arch.addr_bits)
    e.a(pfx + "_STRIDE_X", sx, arch.addr_bits)
    e.p(pfx + "_ZERO_POINT", zero_point(fm), 16, signed=True)


PREC = {8: 0, 16: 1, 32: 2}


def ifm_precision(fm, op_to_scale):
    v = 1 if fm.data_type.is_signed() else 0
    v |= PREC[fm.data_type.size_in_bits()] << 2
    if fm.layout == NpuLayout.NHCWB16:
        v |= 1 << 6
    v |= op_to_scale << 8
    return v


ROUNDING = {NpuRoundingMode.TFL: 0, NpuRoundingMode.TRUNCATE: 1, NpuRoundingMode.NATURAL: 2}
UPSCALE = {NpuResamplingMode.NONE: 0, NpuResamplingMode.NEAREST: 1, NpuResamplingMode.TRANSPOSE: 2}
EW_MODE = {
    NpuElementWiseOp.MUL: 0,
    NpuElementWiseOp.ADD: 1,
    NpuElementWiseOp.SUB: 2,
    NpuElementWiseOp.MIN: 3,
    NpuElementWiseOp.MAX: 4,
    NpuElementWiseOp.LRELU: 5,
    NpuElementWiseOp.ABS: 6,
    NpuElementWiseOp.CLZ: 7,
    NpuElementWiseOp.SHR: 8,
    NpuElementWiseOp.SHL: 9,
}
POOL_MODE = {NpuPoolingOp.MAX: 0, NpuPoolingOp.AVERAGE: 1, NpuPoolingOp.REDUCE_SUM: 2}
UNARY = (NpuElementWiseOp.ABS, NpuElementWiseOp.LRELU, NpuElementWiseOp.CLZ)


def quantise_f32(value, q):
    import numpy as np

    scale = 1 if q is None or q.scale_f32 is None else q.scale_f32
    zp = 0 if q is None else q.zero_point
    x = float(np.float32(value) / np.float32(scale))
    r = math.floor(abs(x) + 0.5)
    return int(zp + (r if x >= 0 else -r))


def uses_lut(op):
    return op.activation is not None and op.activation.op_type == NpuActivationOp.TABLE_LOOKUP


def is_scaled(op):
    fms = [op.ifm, op.ofm] + ([op.ifm2] if op.ifm2 is not None else [])
    return all(getattr(fm, "quantization", None) is not None and fm.quantization.scale_f32 is not None for fm in fms)


def kernel_of(op):
    k = op.kernel
    if k is None:
        return (1, 1, 1, 1, 1, 1)
    return (k.width, k.height, k.stride_x, k.stride_y, k.dilation_x, k.dilation_y)


def shram_layout(op, arch):
    """Returns (ib_end, ab_start, ib_start2 or None, acc_format)"""
    kw, kh, sx, sy, dx, dy = kernel_of(op)
    area_w = (kw - 1) * dx + 1
    area_h = (kh - 1) * dy + 1
    is_ew = isinstance(op, NpuElementWiseOperation)
    is_pool = isinstance(op, NpuPoolingOperation)
    is_reduce = is_pool and op.sub_op_type == NpuPoolingOp.REDUCE_SUM
    is_dw = isinstance(op, NpuConvDepthWiseOperation)
    is_conv = isinstance(op, NpuConv2DOperation)
    bits = op.ifm.data_type.size_in_bits()
    blk = op.block_config
    upscale = 1 if op.ifm_upscale == NpuResamplingMode.NONE else 2
    nearest = 1 if op.ifm_upscale == NpuResamplingMode.NEAREST else 0

    ifm_h = rup(-(-((blk.height - 1) * sy + min(area_h, 8) + nearest) // upscale), arch.ublock_h)
    ifm_w = rup(-(-((blk.width - 1) * sx + min(area_w, 8) + nearest) // upscale), arch.ublock_w)
    if is_ew or (is_pool and not is_reduce) or is_dw:
        ifm_d = blk.depth
    else:
        part_kernel = is_conv and op.block_traversal == NpuBlockTraversal.PART_KERNEL_FIRST
        if bits == 16:
            ifm_d = rup(min(op.ifm.shape.depth, 16), 4)
        else:
            ifm_d = rup(min(op.ifm.shape.depth, 16 if part_kernel else 32), arch.ifm_ublock_d)
    ifm_bytes = ifm_w * ifm_h * rup(ifm_d * bits // 8, 8)
    g = arch.granules
    if is_ew:
        ifm_gran = {8: g[2], 16: g[3], 32: g[4]}[bits]
    else:
        ifm_gran = {8: g[0], 16: g[1], 32: g[4]}[bits]
    ifm_banks = rup(cdiv(ifm_bytes, 1024) * 2, ifm_gran)

    lut_banks = max(2 if uses_lut(op) else 0, arch.reserved_end)
    lut_start = arch.banks - lut_banks

    acc40 = bits == 16 and not (is_pool and not is_reduce) and is_scaled(op)
    acc_bits = 40 if acc40 else 32
    acc_gran = g[7] if acc40 else g[6]
    acc_format = 1 if acc40 else 0  # INT_32BIT = 0, INT_40BIT = 1

    if is_ew:
        return lut_start, lut_start, 2 + ifm_banks, acc_format
    bh = blk.height
    if op.ofm.shape.height == 1 and kh == 1 and arch.ublock_h == 2:
        bh = min(bh, 1)
    acc_bytes = blk.width * bh * rup(blk.depth, 8) * acc_bits // 8
    acc_banks = rup(cdiv(acc_bytes, 1024) * 2, acc_gran)
    return 2 + ifm_banks, lut_start - acc_banks, None, acc_format


def expected_block_op(op, arch):
    e = Expect()
    semantic = []  # checks that need the actual register values: callables(regs) -> list of problems
    is_ew = isinstance(op, NpuElementWiseOperation)
    is_pool = isinstance(op, NpuPoolingOperation)
    binary = is_ew and op.sub_op_type not in UNARY
    has_scalar = op.ifm2_scalar is not None
    ifm_bits = op.ifm.data_type.size_in_bits()

    # --- scaling / precision prerequisites
    use_global_scale = False
    op_to_scale = None  # None: do not check the scale mode bits exactly
    if is_ew:
        use_global_scale = op.sub_op_type in (
            NpuElementWiseOp.ADD,
            NpuElementWiseOp.SUB,
            NpuElementWiseOp.MUL,
            NpuElementWiseOp.LRELU,
            NpuElementWiseOp.ABS,
        )
        semantic.append(lambda regs: check_elementwise_scaling(op, regs))
    elif is_pool:
        pad = op.padding
        use_global_scale = op.sub_op_type in (NpuPoolingOp.AVERAGE, NpuPoolingOp.REDUCE_SUM) and sum(pad) == 0
        if use_global_scale:
            semantic.append(lambda regs: check_pooling_scaling(op, regs))
    else:
        op_to_scale = 0
    if is_pool:
        op_to_scale = 0

    expect_fm(e, "IFM", op.ifm, arch, with_depth=True, with_shape=False)
    if op_to_scale is not None:
        e.p("IFM_PRECISION", ifm_precision(op.ifm, op_to_scale))
    else:
        base = ifm_precision(op.ifm, 0)
        semantic.append(
            lambda regs: []
            if (regs.get("IFM_PRECISION", -1) & ~0x300) == base
            else [f"IFM_PRECISION: got {regs.get('IFM_PRECISION')}, expected {base} (+ scale mode bits)"]
        )
    e.p("IFM_UPSCALE", UPSCALE[op.ifm_upscale], 2)
    if op.padding is not None:
        e.p("IFM_PAD_TOP", op.padding.top, 7)
        e.p("IFM_PAD_LEFT", op.padding.left, 7)
        e.p("IFM_PAD_BOTTOM", op.padding.bottom, 8)
        e.p("IFM_PAD_RIGHT", op.padding.right, 8)
    expect_fm(e, "OFM", op.ofm, arch, with_depth=True, with_shape=True)
    v = 1 if op.ofm.data_type.is_signed() else 0
    v |= PREC[op.ofm.data_type.size_in_bits()] << 1
    if op.ofm.layout == NpuLayout.NHCWB16:
        v |= 1 << 6
    if use_global_scale:
        v |= 1 << 8
    v |= ROUNDING[op.rounding_mode] << 14
    e.p("OFM_PRECISION", v)

    if not is_ew:
        kw, kh, sx, sy, dx, dy = kernel_of(op)
        e.p("KERNEL_HEIGHT_M1", dy * (kh - 1))
        e.p("KERNEL_WIDTH_M1", dx * (kw - 1))
        for nm, val, lim in (("stride_x", sx, 8), ("stride_y", sy, 8), ("dilation_x", dx, 2), ("dilation_y", dy, 2)):
            if not (1 <= val <= lim):
                e.problems.append(f"KERNEL_STRIDE: {nm} {val} does not fit its field")
        st = (sx - 1) & 1
        st |= ((sy - 1) & 1) << 1
        st |= ((sx - 1) >> 1) << 6
        st |= ((sy - 1) >> 1) << 9
        st |= (dx - 1) << 3
        st |= (dy - 1) << 4
        if isinstance(op, NpuConv2DOperation) and op.block_traversal == NpuBlockTraversal.PART_KERNEL_FIRST:
            st |= 1 << 2
        e.p("KERNEL_STRIDE", st)

    for lst, rpfx, names in (
        (op.weights, "WEIGHT", ("WEIGHT", "WEIGHT1")),
        (op.biases, "SCALE", ("SCALE", "SCALE1")),
    ):
        if len(lst) == 0:
            continue
        e.p(rpfx + "_REGION", lst[0].region, 3)
        for core in range(2):
            if core < len(lst):
                if rpfx == "WEIGHT" and lst[core].address % 16:
                    e.problems.append(f"{names[core]}_BASE {lst[core].address} is not 16-byte aligned")
                if lst[core].length % 16:
                    e.problems.append(f"{names[core]}_LENGTH {lst[core].length} is not a multiple of 16")
                e.a(names[core] + "_BASE", lst[core].address, arch.addr_bits)
                e.a(names[core] + "_LENGTH", lst[core].length, 32)
            elif core < arch.cores:
                e.a(names[core] + "_BASE", lst[0].address, arch.addr_bits)
                e.a(names[core] + "_LENGTH", 0, 32)

    # --- activation
    act = op.activation
    act_type = NpuActivationOp.NONE_OR_RELU if act is None else act.op_type
    dt = op.ofm.data_type
    dmin = -(1 << (dt.size_in_bits() - 1)) if dt.is_signed() else 0
    dmax = (1 << (dt.size_in_bits() - 1)) - 1 if dt.is_signed() else (1 << dt.size_in_bits()) - 1
    qmin = dmin if act is None or act.min is None else quantise_f32(act.min, op.ofm.quantization)
    qmax = dmax if act is None or act.max is None else quantise_f32(act.max, op.ofm.quantization)
    qmin = max(qmin, -32768, dmin)
    qmax = min(qmax, 32767, dmax)
    if act_type == NpuActivationOp.TABLE_LOOKUP:
        av = 16 + act.lookup_table_index
        if not (0 <= act.lookup_table_index < 8):
            e.problems.append("ACTIVATION: lookup table index out of range")
        if dt.size_in_bits() == 32:
            av |= 3 << 12
            qmin = max(-128, qmin)
            qmax = min(127, qmax)
    else:
        av = {NpuActivationOp.NONE_OR_RELU: 0, NpuActivationOp.TANH: 3, NpuActivationOp.SIGMOID: 4}[act_type]
    e.p("ACTIVATION", av)
    e.p("ACTIVATION_MIN", qmin, 16, signed=True)
    e.p("ACTIVATION_MAX", qmax, 16, signed=True)

    # --- block config and SHRAM
    blk = op.block_config
    e.p("OFM_BLK_HEIGHT_M1", blk.height - 1, 5)
    e.p("OFM_BLK_WIDTH_M1", blk.width - 1, 6)
    e.p("OFM_BLK_DEPTH_M1", blk.depth - 1, 7)
    ib_end, ab_start, ib_start2, acc_format = shram_layout(op, arch)
    e.p("IFM_IB_END", ib_end, 6)
    e.p("AB_START", ab_start, 6)
    if ib_start2 is not None and binary and not has_scalar:
        e.p("IFM2_IB_START", ib_start2, 6)
    e.p("ACC_FORMAT", acc_format, 2)

    # --- IFM2
    if binary:
        ifm2 = op.ifm2
        if not has_scalar:
            expect_fm(e, "IFM2", ifm2, arch, with_depth=False, with_shape=False)
        else:
            e.p("IFM2_ZERO_POINT", zero_point(ifm2), 16, signed=True)
        e.p("IFM2_PRECISION", ifm_precision(ifm2, 0))
        b = 0
        if op.reversed_operands:
            b |= 1 << 6
        if has_scalar:
            b |= 1 << 7
            qs = quantise_f32(op.ifm2_scalar, ifm2.quantization)
            signed = ifm2.data_type.is_signed()
            e.p("IFM2_SCALAR", qs, 16, signed=signed)
        else:
            if op.ifm.shape.height != ifm2.shape.height:
                b |= 1
            if op.ifm.shape.width != ifm2.shape.width:
                b |= 2
            if op.ifm.shape.depth != ifm2.shape.depth:
                b |= 4
        e.p("IFM2_BROADCAST", b)
    return e, semantic


def close(actual, expected, rel):
    if expected == 0:
        return actual == 0
    return abs(actual - expected) <= rel * abs(expected)


def scale_of(regs, name):
    shift, scale = regs.get(name, (None, None))
    return scale, shift


def check_pooling_scaling(op, regs):
    res = []
    scale, shift = scale_of(regs, "OFM_SCALE")
    if scale is None:
        return ["OFM_SCALE never written"]
    if shift > 63:
        res.append(f"OFM_SCALE shift {shift} does not fit 6 bits")
    actual = scale / float(1 << (shift & 63))
    k = op.kernel.width * op.kernel.height
    iq, oq = op.ifm.quantization, op.ofm.quantization
    act = op.activation
    if act is not None and act.op_type in (NpuActivationOp.SIGMOID, NpuActivationOp.TANH):
        want = 0x3000 * float(iq.scale_f32)
        if op.ifm.data_type.size_in_bits() != 16:
            want /= k
        if not close(actual, want, 1e-3):
            res.append(f"OFM_SCALE {scale}>>{shift} = {actual}, expected about {want}")
        return res
    if op.fused_quantize:
        want = float(iq.scale_f32) / float(oq.scale_f32)
    elif op.rescale is not None:
        if isinstance(op.rescale, (int, float)):
            want = float(op.rescale) / k
        else:
            want = None
            if (scale, shift) != (int(op.rescale.multiplier[0]), int(op.rescale.shift[0])):
                res.append("OFM_SCALE differs from the explicit scaling")
    elif iq is not None and oq is not None and iq.scale_f32 is not None and oq.scale_f32 is not None:
        want = float(iq.scale_f32) / float(oq.scale_f32) / k
    else:
        want = None
        if (scale, shift) != (1, 0):
            res.append(f"OFM_SCALE {scale}>>{shift}, expected unit scaling")
    if want is not None and not close(actual, want, 1e-4):
        res.append(f"OFM_SCALE {scale}>>{shift} = {actual}, expected about {want}")
    return res


def check_elementwise_scaling(op, regs):
    res = []
    scale, shift = scale_of(regs, "OFM_SCALE")
    if scale is None:
        return ["OFM_SCALE never written"]
    if shift > 63:
        res.append(f"OFM_SCALE shift {shift} does not fit 6 bits")
    mode = (regs.get("IFM_PRECISION", 0) >> 8) & 3
    t = op.sub_op_type

    def sc(fm):
        q = getattr(fm, "quantization", None)
        return None if q is None or q.scale_f32 is None else float(q.scale_f32)

    if t in (NpuElementWiseOp.ADD, NpuElementWiseOp.SUB, NpuElementWiseOp.MUL):
        s1, s2, so = sc(op.ifm), sc(op.ifm2), sc(op.ofm)
        if op.activation is not None and op.activation.op_type in (NpuActivationOp.SIGMOID, NpuActivationOp.TANH):
            so = 1 / 0x3000
        actual = scale / float(1 << (shift & 63))
        if t == NpuElementWiseOp.MUL:
            if mode != 0:
                res.append(f"IFM_PRECISION scale mode {mode} for MUL")
            if op.rescale:
                if (scale, shift) != tuple(int(x) for x in op.rescale):
                    res.append(f"OFM_SCALE {scale}>>{shift} differs from the explicit rescale {op.rescale}")
            elif None in (s1, s2, so):
                if (scale, shift) != (1, 0):
                    res.append(f"OFM_SCALE {scale}>>{shift}, expected unit scaling")
            else:
                want = s1 * s2 / so
                if not (scale == 0 and want < 2.0**-31) and not close(actual, want, 1e-6):
                    res.append(f"OFM_SCALE {scale}>>{shift} = {actual}, expected about {want}")
            return res
        opa_scale, opa_shift = scale_of(regs, "OPA_SCALE")
        opb_scale, opb_shift = scale_of(regs, "OPB_SCALE")
        if opa_scale is None or opb_scale is None:
            return res + ["OPA_SCALE/OPB_SCALE never written"]
        if opa_shift > 63:
            res.append(f"OPA_SCALE shift {opa_shift} does not fit 6 bits")
        if op.rescale is not None:
            if (scale, shift) != tuple(int(x) for x in op.rescale):
                res.append(f"OFM_SCALE {scale}>>{shift} differs from the explicit rescale {op.rescale}")
            if mode != 0 or (opa_scale, opa_shift, opb_scale) != (1, 0, 1):
                res.append("operand scaling is not the unit scaling with an explicit rescale")
        elif None in (s1, s2, so):
            if (scale, shift) != (1, 0) or mode != 0 or (opa_scale, opa_shift, opb_scale) != (1, 0, 1):
                res.append(f"expected unit scaling, got OFM {scale}>>{shift} OPA {opa_scale}>>{opa_shift} OPB {opb_scale}")
        else:
            bits = op.ifm.data_type.size_in_bits()
            if mode == 0:
                g1 = opa_scale * actual
                g2 = opb_scale * actual
                if op.reversed_operands:
                    g1, g2 = g2, g1
                tol = 2e-4
                if not close(g1, s1 / so, tol) or not close(g2, s2 / so, tol):
                    res.append(
                        f"simplified add/sub scaling: operand gains {g1}, {g2}; expected about {s1 / so}, {s2 / so}"
                    )
            else:
                input_shift = 20 if bits == 8 else 15
                gs = opa_scale / float(1 << (opa_shift & 63)) * actual
                # the operand that is not scaled is shifted up by input_shift - 1 (both operands carry the factor 1/2 of
                # the reference implementation, see TFLite's "twice_max_input_scale")
                gu = float(1 << (input_shift - 1)) * actual
                # mode 1: operand A is scaled, mode 2: operand B. Operand A is IFM unless the operands are reversed
                scaled_is_ifm = (mode == 1) != bool(op.reversed_operands)
                g1, g2 = (gs, gu) if scaled_is_ifm else (gu, gs)
                if not close(g1, s1 / so, 1e-5) or not close(g2, s2 / so, 1e-5):
                    res.append(
                        f"advanced add/sub scaling (mode {mode}): operand gains {g1}, {g2};"
                        f" expected about {s1 / so}, {s2 / so}"
                    )
    elif t in (NpuElementWiseOp.LRELU, NpuElementWiseOp.ABS):
        so = sc(op.ofm)
        actual = scale / float(1 << (shift & 63))
        if so is not None and not close(actual, so, 1e-6):
            res.append(f"OFM_SCALE {scale}>>{shift} = {actual}, expected about {so}")
    else:
        if (scale, shift) != (1, 0):
            res.append(f"OFM_SCALE {scale}>>{shift}, expected 1>>0")
    return res


def expected_dma(op, arch):
    e = Expect()
    for nm, r in (("src", op.src), ("dest", op.dest)):
        if not ((0 <= r.region <= 7) or r.region == SHRAM_REGION):
            e.problems.append(f"DMA {nm} region {r.region}")
    if arch.u65:
        if op.src.region == SHRAM_REGION and op.src.address % 16:
            e.problems.append("DMA0_SRC: internal address not 16-byte aligned")
        if op.dest.region == SHRAM_REGION:
            if op.dest.address % 16:
                e.problems.append("DMA0_DST: internal address not 16-byte aligned")
            if op.src.length % 16:
                e.problems.append("DMA0_LEN: not a multiple of 16")
    else:
        if op.src.address % 16:
            e.problems.append("DMA0_SRC: address not 16-byte aligned")
        if op.dest.address % 16:
            e.problems.append("DMA0_DST: address not 16-byte aligned")
        if op.src.length % 16:
            e.problems.append("DMA0_LEN: not a multiple of 16")
    e.regs["DMA0_SRC_REGION"] = op.src.region & 0xFFFF
    e.regs["DMA0_DST_REGION"] = op.dest.region & 0xFFFF
    e.a("DMA0_SRC", op.src.address, arch.addr_bits)
    e.a("DMA0_DST", op.dest.address, arch.addr_bits)
    e.a("DMA0_LEN", op.src.length, arch.addr_bits)
    return e, []


def expected_event_name(op):
    if isinstance(op, NpuDmaOperation):
        return "OP_DMA_START", op.channel * 16 + op.mode
    if isinstance(op, NpuConv2DOperation):
        return "OP_CONV", 0
    if isinstance(op, NpuConvDepthWiseOperation):
        return "OP_DEPTHWISE", 0
    if isinstance(op, NpuPoolingOperation):
        return "OP_POOL", POOL_MODE[op.sub_op_type]
    return "OP_ELEMENTWISE", EW_MODE[op.sub_op_type]


# ---------------------------------------------------------------------------------------------------------------------
# Memory hazards (exact byte sets; keep the feature maps small)
# ---------------------------------------------------------------------------------------------------------------------
def fm_bytes(fm):
    """Set of (region, byte address) touched by the feature map"""
    res = set()
    es = fm.data_type.size_in_bits() // 8
    sc, sy, sx = default_strides(fm)
    t = fm.tiles
    for y in range(fm.shape.height):
        for x in range(fm.shape.width):
            if x >= t.width_0:
                xx = x - t.width_0
                if y >= t.height_1:
                    base, yy = t.addresses[3], y - t.height_1
                else:
                    base, yy = t.addresses[1], y
            else:
                xx = x
                if y >= t.height_0:
                    base, yy = t.addresses[2], y - t.height_0
                else:
                    base, yy = t.addresses[0], y
            for c in range(fm.shape.depth):
                if fm.layout == NpuLayout.NHWC:
                    a = base + yy * sy + xx * sx + c * es
                else:
                    a = base + yy * sy + xx * 16 * es + (c // 16) * sc + (c % 16) * es
                for b in range(es):
                    res.add((fm.region, a + b))
    return res


def range_bytes(r):
    return set((r.region, a) for a in range(r.address, r.address + r.length))


def op_accesses(op, arch):
    """Returns (reads, writes) as sets of (region, address)"""
    if isinstance(op, NpuDmaOperation):
        src = set((op.src.region, a) for a in range(op.src.address, op.src.address + op.src.length))
        dst = set((op.dest.region, a) for a in range(op.dest.address, op.dest.address + op.src.length))
        return src, dst
    reads = fm_bytes(op.ifm)
    if op.ifm2 is not None and op.ifm2_scalar is None:
        reads |= fm_bytes(op.ifm2)
    for r in list(op.weights) + list(op.biases):
        reads |= range_bytes(r)
    writes = fm_bytes(op.ofm)
    if uses_lut(op):
        lut_addr = (arch.banks - 2) * 1024
        reads |= set((SHRAM_REGION, a) for a in range(lut_addr, lut_addr + 2048))
    return reads, writes


def conflicts(a, b):
    ra, wa = a
    rb, wb = b
    return bool(wa & rb) or bool(ra & wb) or bool(wa & wb)


def check_waits(ops, events, arch, max_bytes=2_000_000):
    """Every DMA <-> kernel hazard must be covered by a wait issued between the two operations"""
    problems = []
    acc = [op_accesses(op, arch) for op in ops]
    op_events = [ev for ev in events if ev.name in OPS]
    idx_in_events = [events.index(ev) for ev in op_events]
    for j, opj in enumerate(ops):
        j_dma = isinstance(opj, NpuDmaOperation)
        for i in range(j):
            i_dma = isinstance(ops[i], NpuDmaOperation)
            if i_dma == j_dma:
                continue
            if not conflicts(acc[i], acc[j]):
                continue
            # operations of the kind of op i issued after op i
            later_same_kind = [k for k in range(i + 1, j) if isinstance(ops[k], NpuDmaOperation) == i_dma]
            wait_name = "OP_DMA_WAIT" if i_dma else "OP_KERNEL_WAIT"
            # the hardware queues hold 2 kernel operations and 1 (U55) or 2 (U65) DMA operations: once that many
            # operations of the same kind have been issued after op i, op i has completed
            queue = (2 if arch.u65 else 1) if i_dma else 2
            ok = len(later_same_kind) >= queue
            for ev in events[idx_in_events[i] + 1 : idx_in_events[j]]:
                if ev.name != wait_name:
                    continue
                allowed_outstanding = ev.param & 0xF
                issued_after_i = sum(1 for k in later_same_kind if idx_in_events[k] < events.index(ev))
                if issued_after_i >= allowed_outstanding:
                    ok = True
                    break
            if not ok:
                problems.append(f"op {j} conflicts with op {i} but no {wait_name} between them completes op {i}")
    return problems


# ---------------------------------------------------------------------------------------------------------------------
# Entry point
# ---------------------------------------------------------------------------------------------------------------------
def check_stream(ops, accelerator, stream, waits=True):
    """Returns a list of problems (empty = the stream encodes exactly the given operations)"""
    arch = ARCH[accelerator]
    problems = []
    try:
        events = decode(stream)
    except StreamError as ex:
        return [f"decode: {ex}"]
    stops = [ev for ev in events if ev.name == "OP_STOP"]
    if len(stops) != 1 or events[-1].name != "OP_STOP" or events[-1].pos != len(stream) - 1:
        problems.append(f"stream does not end with exactly one stop command ({len(stops)} stops)")
    if stops and stops[-1].param != 0xFFFF:
        problems.append(f"stop command with mask {stops[-1].param:#x}")
    op_events = [ev for ev in events if ev.name in OPS]
    if len(op_events) != len(ops):
        problems.append(f"{len(op_events)} operations in the stream, {len(ops)} given")
        return problems
    for n, (op, ev) in enumerate(zip(ops, op_events)):
        name, param = expected_event_name(op)
        if (ev.name, ev.param) != (name, param):
            problems.append(f"op {n}: got {ev.name}({ev.param}), expected {name}({param})")
            continue
        if isinstance(op, NpuDmaOperation):
            e, semantic = expected_dma(op, arch)
        else:
            e, semantic = expected_block_op(op, arch)
        for p in e.problems:
            problems.append(f"op {n} ({name}): {p}")
        for reg, want in e.regs.items():
            got = ev.regs.get(reg)
            if got != want:
                problems.append(f"op {n} ({name}): register {reg} is {got}, expected {want}")
        for fn in semantic:
            for p in fn(ev.regs):
                problems.append(f"op {n} ({name}): {p}")
    if waits and not problems:
        problems.extend(check_waits(ops, events, arch))
    return problems


def generate_and_check(ops, accelerator, waits=True):
    from ethosu.vela.api import npu_generate_register_command_stream

    stream = npu_generate_register_command_stream(ops, accelerator)
    return check_stream(ops, accelerator, stream, waits=waits), stream

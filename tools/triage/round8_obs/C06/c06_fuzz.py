# Random generator of legal NPU operation lists for the C06 oracle (used to look for violations on the unmodified tree)
import os
import random
import sys

sys.path.insert(0, os.getcwd())
sys.path.insert(0, os.path.dirname(os.path.abspath(__file__)))

import numpy as np  # noqa: E402

from ethosu.vela.api import NpuAccelerator  # noqa: E402
from ethosu.vela.api import NpuActivation  # noqa: E402
from ethosu.vela.api import NpuActivationOp  # noqa: E402
from ethosu.vela.api import NpuAddressRange  # noqa: E402
from ethosu.vela.api import NpuBlockTraversal  # noqa: E402
from ethosu.vela.api import NpuConv2DOperation  # noqa: E402
from ethosu.vela.api import NpuConvDepthWiseOperation  # noqa: E402
from ethosu.vela.api import NpuDataType  # noqa: E402
from ethosu.vela.api import NpuDmaOperation  # noqa: E402
from ethosu.vela.api import NpuElementWiseOp  # noqa: E402
from ethosu.vela.api import NpuElementWiseOperation  # noqa: E402
from ethosu.vela.api import NpuFeatureMap  # noqa: E402
from ethosu.vela.api import NpuKernel  # noqa: E402
from ethosu.vela.api import NpuLayout  # noqa: E402
from ethosu.vela.api import NpuPadding  # noqa: E402
from ethosu.vela.api import NpuPoolingOp  # noqa: E402
from ethosu.vela.api import NpuPoolingOperation  # noqa: E402
from ethosu.vela.api import NpuQuantization  # noqa: E402
from ethosu.vela.api import NpuResamplingMode  # noqa: E402
from ethosu.vela.api import NpuRoundingMode  # noqa: E402
from ethosu.vela.api import NpuShape3D  # noqa: E402
from ethosu.vela.api import NpuTileBox  # noqa: E402
from ethosu.vela.api import npu_find_block_configs  # noqa: E402

import c06_oracle as oracle  # noqa: E402


def rup(a, b):
    return ((a + b - 1) // b) * b


class Alloc:
    """Hands out feature map memory; sometimes reuses an earlier buffer to provoke hazards"""

    def __init__(self, rng, u65):
        self.rng = rng
        self.next = {r: 0 for r in range(8)}
        self.high = u65 and rng.random() < 0.15
        self.buffers = []

    def get(self, size, region=None):
        rng = self.rng
        if region is None:
            region = rng.choice([0, 1, 1, 2, 5, 7])
        base = (1 << 35) if self.high and region == 1 else 0
        addr = rup(self.next[region], 16)
        self.next[region] = addr + rup(size, 16) + 16 * rng.randrange(3)
        return region, base + addr


def make_fm(rng, alloc, h, w, c, dtype, layout, quant, reuse=None, tiled=True):
    fm = NpuFeatureMap()
    fm.data_type = dtype
    fm.shape = NpuShape3D(height=h, width=w, depth=c)
    fm.layout = layout
    fm.quantization = quant
    es = dtype.size_in_bytes()
    if layout == NpuLayout.NHWC:
        row = w * c * es
    else:
        row = w * rup(c, 16) * es
    mode = rng.choice(["one", "one", "one", "h", "v", "four"]) if tiled else "one"
    if reuse is not None and reuse.shape == fm.shape and reuse.data_type == dtype and reuse.layout == layout:
        fm.region = reuse.region
        fm.tiles = reuse.tiles
        fm.strides = reuse.strides
        return fm
    if mode == "h" and h < 2 or mode == "v" and w < 2 or mode == "four" and (h < 3 or w < 2):
        mode = "one"
    # explicit strides describe the full (untiled) buffer when tiles are split by width
    if mode == "one":
        region, a0 = alloc.get(h * row)
        h1 = rng.choice([h, h, 0]) if False else h
        fm.tiles = NpuTileBox(height_0=h, height_1=h1, width_0=w, addresses=[a0, 0, 0, 0])
    elif mode == "h":
        h0 = rng.randrange(1, h)
        region, a0 = alloc.get(h0 * row)
        _, a2 = alloc.get((h - h0) * row, region)
        fm.tiles = NpuTileBox(height_0=h0, height_1=h0, width_0=w, addresses=[a0, 0, a2, 0])
    elif mode == "v":
        w0 = rng.randrange(1, w)
        region, a0 = alloc.get(h * row)
        _, a1 = alloc.get(h * row, region)
        fm.tiles = NpuTileBox(height_0=h, height_1=h, width_0=w0, addresses=[a0, a1, 0, 0])
    else:
        h0 = rng.randrange(1, h)
        h1 = rng.randrange(1, h)
        w0 = rng.randrange(1, w)
        region, a0 = alloc.get(h * row)
        _, a1 = alloc.get(h * row, region)
        _, a2 = alloc.get(h * row, region)
        _, a3 = alloc.get(h * row, region)
        fm.tiles = NpuTileBox(height_0=h0, height_1=h1, width_0=w0, addresses=[a0, a1, a2, a3])
    fm.region = region
    if rng.random() < 0.3:
        if layout == NpuLayout.NHWC:
            fm.strides = NpuShape3D(height=row, width=c * es, depth=es)
        else:
            fm.strides = NpuShape3D(height=row, width=16 * es, depth=16 * es * w)
    return fm


def rand_quant(rng, dtype, allow_none=True):
    r = rng.random()
    if allow_none and r < 0.08:
        return None
    if allow_none and r < 0.14:
        return NpuQuantization(scale_f32=None, zero_point=0)
    scale = np.float32(10 ** rng.uniform(-4, 0.5))
    if rng.random() < 0.2:
        scale = np.float32(2.0 ** rng.randrange(-12, 2))
    if dtype == NpuDataType.UINT8:
        zp = rng.randrange(0, 256)
    elif dtype == NpuDataType.INT8:
        zp = rng.randrange(-128, 128)
    else:
        zp = 0
    return NpuQuantization(scale_f32=scale, zero_point=zp)


def rand_activation(rng, ofm_dtype, allow_lut=True):
    r = rng.random()
    if r < 0.4:
        return None
    if r < 0.7:
        act = NpuActivation(NpuActivationOp.NONE_OR_RELU)
        if rng.random() < 0.7:
            act.min = 0.0
        if rng.random() < 0.5:
            act.max = rng.choice([1.0, 6.0, 100.0, 1e6])
        return act
    if r < 0.8 and allow_lut:
        act = NpuActivation(NpuActivationOp.TABLE_LOOKUP)
        act.lookup_table_index = rng.randrange(8)
        return act
    if r < 0.9:
        return NpuActivation(NpuActivationOp.TANH)
    return NpuActivation(NpuActivationOp.SIGMOID)


ACCS = list(NpuAccelerator)


def rand_block_op(rng, alloc, accelerator, prev_ofm):
    arch = oracle.ARCH[accelerator]
    kind = rng.choice(["conv", "conv", "dw", "pool", "pool", "ew", "ew", "ew"])
    dtype8 = rng.choice([NpuDataType.UINT8, NpuDataType.INT8])
    ifm_dtype = rng.choice([dtype8, dtype8, NpuDataType.INT16])
    layout_i = rng.choice([NpuLayout.NHWC, NpuLayout.NHCWB16])
    layout_o = rng.choice([NpuLayout.NHWC, NpuLayout.NHCWB16])
    oh, ow = rng.randrange(1, 9), rng.randrange(1, 9)
    oc = rng.choice([1, 3, 8, 16, 17, 24, 32, 40])
    if kind == "ew":
        op = NpuElementWiseOperation(rng.choice(list(NpuElementWiseOp)))
        t = op.sub_op_type
        if t in (NpuElementWiseOp.SHL, NpuElementWiseOp.CLZ):
            ifm_dtype = NpuDataType.INT32
        elif t == NpuElementWiseOp.SHR:
            ifm_dtype = NpuDataType.INT32
        ofm_dtype = ifm_dtype if t != NpuElementWiseOp.SHR else rng.choice([NpuDataType.INT32, NpuDataType.INT8])
        if t in (NpuElementWiseOp.ADD, NpuElementWiseOp.SUB, NpuElementWiseOp.MUL) and rng.random() < 0.2:
            ifm_dtype = ofm_dtype = NpuDataType.INT32
        if ifm_dtype == NpuDataType.INT32:
            q = None if rng.random() < 0.7 else NpuQuantization(scale_f32=None, zero_point=0)
            qi = qo = q2 = q
        else:
            qi = rand_quant(rng, ifm_dtype)
            q2 = rng.choice([qi, rand_quant(rng, ifm_dtype)])
            qo = rand_quant(rng, ofm_dtype)
        if t in (NpuElementWiseOp.LRELU, NpuElementWiseOp.ABS):
            qi = rand_quant(rng, ifm_dtype, False)
            qo = rand_quant(rng, ofm_dtype, False)
        op.ifm = make_fm(rng, alloc, oh, ow, oc, ifm_dtype, layout_i, qi, reuse=prev_ofm)
        op.ofm = make_fm(rng, alloc, oh, ow, oc, ofm_dtype, layout_o, qo)
        if t not in oracle.UNARY:
            r = rng.random()
            if r < 0.25:
                op.ifm2 = NpuFeatureMap()
                op.ifm2.data_type = ifm_dtype
                op.ifm2.quantization = q2
                op.ifm2.shape = NpuShape3D(1, 1, 1)
                lo, hi = (-3, 3) if ifm_dtype.is_signed() else (0, 3)
                if q2 is None or q2.scale_f32 is None:
                    op.ifm2_scalar = float(rng.randrange(lo, hi + 1))
                else:
                    zp = q2.zero_point
                    qv = rng.randrange(ifm_dtype.min_value(), ifm_dtype.max_value() + 1) if rng.random() < 0.7 else zp
                    op.ifm2_scalar = float((qv - zp) * np.float32(q2.scale_f32))
                    # make sure the round trip is exact enough to be legal
                    if oracle.quantise_f32(op.ifm2_scalar, q2) not in range(
                        ifm_dtype.min_value(), ifm_dtype.max_value() + 1
                    ):
                        op.ifm2_scalar = 0.0 if zp in range(ifm_dtype.min_value(), ifm_dtype.max_value() + 1) else None
            else:
                h2 = 1 if (r < 0.4 and oh > 1) else oh
                w2 = 1 if (0.35 < r < 0.5 and ow > 1) else ow
                c2 = 1 if (0.45 < r < 0.6 and oc > 1) else oc
                op.ifm2 = make_fm(rng, alloc, h2, w2, c2, ifm_dtype, rng.choice(list(NpuLayout)), q2)
            op.reversed_operands = rng.random() < 0.25
            if t in (NpuElementWiseOp.ADD, NpuElementWiseOp.SUB, NpuElementWiseOp.MUL) and rng.random() < 0.15:
                op.rescale = (rng.randrange(1, 1 << 31), rng.randrange(0, 63))
        if ofm_dtype != NpuDataType.INT32 and t in (
            NpuElementWiseOp.ADD,
            NpuElementWiseOp.SUB,
            NpuElementWiseOp.MUL,
            NpuElementWiseOp.MIN,
            NpuElementWiseOp.MAX,
        ):
            op.activation = rand_activation(rng, ofm_dtype)
            if (
                op.activation is not None
                and op.activation.op_type in (NpuActivationOp.TANH, NpuActivationOp.SIGMOID)
                and (qi is None or qi.scale_f32 is None or qo is None or qo.scale_f32 is None)
            ):
                op.activation = None
        if op.activation is not None and (op.activation.min is not None or op.activation.max is not None):
            if op.ofm.quantization is None:
                pass
    else:
        kw, kh = rng.randrange(1, 6), rng.randrange(1, 6)
        sx, sy = rng.choice([1, 1, 2, 3]), rng.choice([1, 1, 2, 3])
        dx, dy = rng.choice([1, 1, 2]), rng.choice([1, 1, 2])
        if kind == "pool":
            dx = dy = 1
        if rng.random() < 0.1:
            kw, kh = rng.randrange(1, 20), rng.randrange(1, 20)
        kernel = NpuKernel(kw, kh, sx, sy, dx, dy)
        aw, ah = (kw - 1) * dx + 1, (kh - 1) * dy + 1
        pt, pl = rng.randrange(0, min(ah, 4)), rng.randrange(0, min(aw, 4))
        pb, pr = rng.randrange(0, min(ah, 4)), rng.randrange(0, min(aw, 4))
        if rng.random() < 0.4:
            pt = pl = pb = pr = 0
        upscale = rng.choice([NpuResamplingMode.NONE] * 6 + [NpuResamplingMode.NEAREST, NpuResamplingMode.TRANSPOSE])
        ih = max(1, (oh - 1) * sy + ah - pt - pb)
        iw = max(1, (ow - 1) * sx + aw - pl - pr)
        if upscale != NpuResamplingMode.NONE:
            ih, iw = max(1, (ih + 1) // 2), max(1, (iw + 1) // 2)
        padding = NpuPadding(top=pt, left=pl, bottom=pb, right=pr)
        if kind == "conv":
            op = NpuConv2DOperation()
            op.block_traversal = rng.choice(list(NpuBlockTraversal))
            ic = rng.choice([1, 3, 8, 16, 20, 32, 48])
        elif kind == "dw":
            op = NpuConvDepthWiseOperation()
            ic = oc
        else:
            op = NpuPoolingOperation(rng.choice(list(NpuPoolingOp)))
            ic = oc
            if op.sub_op_type == NpuPoolingOp.REDUCE_SUM:
                ic = rng.choice([1, 3, 8, 16, 20, 32, 48])
                oc = 1
                kernel = NpuKernel(1, 1)
                padding = NpuPadding(0, 0, 0, 0)
                ih, iw = oh, ow
                upscale = NpuResamplingMode.NONE
                if rng.random() < 0.3:
                    ifm_dtype = NpuDataType.INT32
                if ifm_dtype == NpuDataType.INT32 or accelerator == NpuAccelerator.Ethos_U65_512:
                    layout_i = NpuLayout.NHWC
        ofm_dtype = ifm_dtype
        if kind in ("conv", "dw") and rng.random() < 0.2:
            ofm_dtype = rng.choice([NpuDataType.INT8, NpuDataType.UINT8, NpuDataType.INT16, NpuDataType.INT32])
        if kind == "pool" and op.sub_op_type == NpuPoolingOp.REDUCE_SUM:
            ofm_dtype = rng.choice([NpuDataType.INT32, ifm_dtype])
        if kind == "pool" and op.sub_op_type == NpuPoolingOp.AVERAGE and kw * kh > 256:
            kernel = NpuKernel(min(kw, 8), min(kh, 8), sx, sy)
        allow_none = kind == "pool" and op.sub_op_type == NpuPoolingOp.MAX
        if ifm_dtype == NpuDataType.INT32:
            qi = NpuQuantization(scale_f32=None, zero_point=0)
        else:
            qi = rand_quant(rng, ifm_dtype, allow_none)
        qo = rand_quant(rng, ofm_dtype, allow_none) if ofm_dtype != NpuDataType.INT32 else rand_quant(rng, ofm_dtype)
        if kind == "pool" and (qi is None or qo is None) and rng.random() < 0.7:
            qi = rand_quant(rng, ifm_dtype, False) if ifm_dtype != NpuDataType.INT32 else qi
            qo = rand_quant(rng, ofm_dtype, False)
        op.ifm = make_fm(rng, alloc, ih, iw, ic, ifm_dtype, layout_i, qi, reuse=prev_ofm)
        op.ofm = make_fm(rng, alloc, oh, ow, oc, ofm_dtype, layout_o, qo)
        op.kernel = kernel
        op.padding = padding
        op.ifm_upscale = upscale
        if kind in ("conv", "dw"):
            ncores = arch.cores
            nranges = rng.choice([1, ncores])
            region = rng.choice([0, 1, 3])
            op.weights = []
            op.biases = []
            for _ in range(nranges):
                _, a = alloc.get(256, region)
                op.weights.append(NpuAddressRange(region, a, 16 * rng.randrange(1, 16)))
            bregion = rng.choice([0, 1, 3])
            for _ in range(nranges):
                _, a = alloc.get(256, bregion)
                op.biases.append(NpuAddressRange(bregion, a, 16 * rng.randrange(1, 10)))
        if ofm_dtype != NpuDataType.INT32:
            op.activation = rand_activation(rng, ofm_dtype)
            if op.activation is not None and op.activation.op_type in (NpuActivationOp.TANH, NpuActivationOp.SIGMOID):
                if qi is None or qi.scale_f32 is None or qo is None or qo.scale_f32 is None:
                    op.activation = None
        if kind == "pool" and rng.random() < 0.1 and qi is not None and qo is not None and qi.scale_f32 is not None:
            if qo.scale_f32 is not None:
                op.fused_quantize = True
        if kind == "pool" and rng.random() < 0.08:
            op.rescale = rng.choice([0.5, 1.0, 1.7, 3.0, 100.5])
    op.rounding_mode = rng.choice(list(NpuRoundingMode))
    try:
        configs = npu_find_block_configs(op, accelerator)
    except AssertionError:
        return None
    op.block_config = rng.choice(configs)
    return op


def rand_dma(rng, alloc, accelerator, ops):
    arch = oracle.ARCH[accelerator]
    length = 16 * rng.randrange(1, 20)
    target = None
    blocks = [o for o in ops if not isinstance(o, NpuDmaOperation)]
    r = rng.random()
    src_region, src_addr = alloc.get(length, rng.choice([0, 2]))
    if r < 0.15:
        # LUT
        slot = rng.randrange(8)
        dest = NpuAddressRange(oracle.SHRAM_REGION, (arch.banks - 2) * 1024 + 256 * slot, 256)
        length = 256
    elif r < 0.6 and blocks:
        # something an earlier (or later) op uses
        o = rng.choice(blocks)
        cands = list(o.weights) + list(o.biases)
        if cands:
            target = rng.choice(cands)
            dest = target
            length = target.length
        else:
            region, a = alloc.get(length)
            dest = NpuAddressRange(region, a, length)
    else:
        region, a = alloc.get(length)
        dest = NpuAddressRange(region, a, length)
    src = NpuAddressRange(src_region, src_addr, length)
    return NpuDmaOperation(src, dest)


def rand_program(seed):
    rng = random.Random(seed)
    accelerator = rng.choice(ACCS)
    alloc = Alloc(rng, oracle.ARCH[accelerator].u65)
    n = rng.randrange(1, 6) if seed < 100000 else rng.randrange(6, 16)
    ops = []
    prev_ofm = None
    pending_dma_for = None
    for _ in range(n):
        if rng.random() < 0.25:
            ops.append(rand_dma(rng, alloc, accelerator, ops))
            continue
        op = rand_block_op(rng, alloc, accelerator, prev_ofm if rng.random() < 0.5 else None)
        if op is None:
            continue
        if (op.weights or op.biases) and rng.random() < 0.4:
            # DMA the weights in first
            tgt = rng.choice(list(op.weights) + list(op.biases))
            sr, sa = alloc.get(tgt.length, 0)
            ops.append(NpuDmaOperation(NpuAddressRange(sr, sa, tgt.length), tgt))
        ops.append(op)
        prev_ofm = op.ofm
    if not ops:
        return None
    return accelerator, ops


def describe(ops):
    out = []
    for op in ops:
        if isinstance(op, NpuDmaOperation):
            out.append(f"DMA {op.src} -> {op.dest}")
            continue
        d = {k: v for k, v in vars(op).items() if k not in ("ifm", "ifm2", "ofm", "kernel", "activation")}
        out.append(f"{type(op).__name__} {d}")
        for nm in ("ifm", "ifm2", "ofm"):
            fm = getattr(op, nm)
            if fm is not None:
                out.append(f"    {nm}: {vars(fm)}")
        if op.kernel is not None:
            out.append(f"    kernel: {vars(op.kernel)}")
        if op.activation is not None:
            out.append(f"    activation: {vars(op.activation)}")
    return "\n".join(out)


if __name__ == "__main__":
    start = int(sys.argv[1]) if len(sys.argv) > 1 else 0
    count = int(sys.argv[2]) if len(sys.argv) > 2 else 200
    verbose = len(sys.argv) > 3
    bad = 0
    errs = {}
    for seed in range(start, start + count):
        prog = rand_program(seed)
        if prog is None:
            continue
        accelerator, ops = prog
        try:
            problems, stream = oracle.generate_and_check(ops, accelerator)
        except Exception as ex:  # noqa: B902
            key = f"{type(ex).__name__}: {str(ex)[:100]}"
            errs.setdefault(key, []).append(seed)
            continue
        if problems:
            bad += 1
            print(f"seed {seed} {accelerator.name}:")
            for p in problems[:6]:
                print("   ", p)
            if verbose:
                print(describe(ops))
    print("violations:", bad)
    for k, v in errs.items():
        print("exception", k, v[:10], len(v))

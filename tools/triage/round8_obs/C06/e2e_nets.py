import os, sys
sys.path.insert(0, os.getcwd()); sys.path.insert(0, os.path.dirname(os.path.abspath(__file__)))
import numpy as np
from c06_e2e import *
import c06_oracle as oracle

tmp = os.path.join(os.path.dirname(os.path.abspath(__file__)), "e2e_tmp")
os.makedirs(tmp, exist_ok=True)
rng = np.random.default_rng(1)

def net1(dtype=DataType.int8):
    n = Net("net1")
    wdt = DataType.int8
    x = n.input([1, 16, 16, 8], dtype, 0.02, 0 if dtype != DataType.uint8 else 128)
    w = n.const([16, 3, 3, 8], wdt, rng.integers(-20, 20, [16, 3, 3, 8]), scale=[0.01] * 16, zp=np.zeros(16, np.int64))
    b = n.const([16], DataType.int32 if dtype != DataType.int16 else DataType.int64, rng.integers(-100, 100, [16]), scale=[0.0002] * 16, zp=np.zeros(16, np.int64))
    y = n.op(Op.Conv2DBias, [x, w, b], [1, 16, 16, 16], dtype, 0.05, 0, dict(padding=Padding.SAME, stride_w=1, stride_h=1, dilation_w_factor=1, dilation_h_factor=1, strides=(1, 1, 1, 1), dilation=(1, 1, 1, 1), fused_activation_function=Op.Relu))
    y = n.op(Op.MaxPool, [y], [1, 8, 8, 16], dtype, 0.05, 0, dict(padding=Padding.VALID, stride_w=2, stride_h=2, filter_width=2, filter_height=2, strides=(1, 2, 2, 1), ksize=(1, 2, 2, 1)))
    z = n.op(Op.AvgPool, [y], [1, 4, 4, 16], dtype, 0.07, 0, dict(padding=Padding.VALID, stride_w=2, stride_h=2, filter_width=2, filter_height=2, strides=(1, 2, 2, 1), ksize=(1, 2, 2, 1)))
    c = n.const([1, 1, 1, 16], dtype, rng.integers(-50, 50, [1, 1, 1, 16]), scale=0.03)
    a = n.op(Op.Add, [z, c], [1, 4, 4, 16], dtype, 0.09, 0)
    t = n.op(Op.Tanh, [a], [1, 4, 4, 16], dtype, 1 / 128 if dtype != DataType.int16 else 1 / 32768, 0)
    m = n.op(Op.Mul, [t, z], [1, 4, 4, 16], dtype, 0.01, 0)
    p = os.path.join(tmp, f"net1_{dtype}.tflite")
    n.write([m], p)
    return p

for dtype in (DataType.int8, DataType.int16):
    path = net1(dtype)
    for acc in ACCELERATORS:
        try:
            cap, problems = compile_and_check(path, acc)
            nops = sum(len(o) for o, _ in cap)
            print(dtype, acc, "npu ops:", nops, "problems:", problems[:5])
        except Exception as e:
            import traceback
            print(dtype, acc, "EXC", type(e).__name__, str(e)[:200])

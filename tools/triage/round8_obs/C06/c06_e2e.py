# End-to-end helper for C06: builds a small TFLite model in memory with Vela's own classes, compiles it with
# ethosu.vela.vela.main and hands every (npu_op_list, register command stream) pair that the compiler produced to the
# independent decoder in c06_oracle.
import os
import sys

import numpy as np

from ethosu.vela import high_level_command_to_npu_op as hl
from ethosu.vela import tflite_writer
from ethosu.vela import vela
from ethosu.vela.api import NpuAccelerator
from ethosu.vela.data_type import DataType
from ethosu.vela.nn_graph import Graph
from ethosu.vela.nn_graph import PassPlacement
from ethosu.vela.nn_graph import Subgraph
from ethosu.vela.operation import Op
from ethosu.vela.operation import Operation
from ethosu.vela.operation import Padding
from ethosu.vela.tensor import create_const_tensor
from ethosu.vela.tensor import QuantizationParameters
from ethosu.vela.tensor import Tensor

import c06_oracle as oracle

ACCELERATORS = {
    "ethos-u55-32": NpuAccelerator.Ethos_U55_32,
    "ethos-u55-64": NpuAccelerator.Ethos_U55_64,
    "ethos-u55-128": NpuAccelerator.Ethos_U55_128,
    "ethos-u55-256": NpuAccelerator.Ethos_U55_256,
    "ethos-u65-256": NpuAccelerator.Ethos_U65_256,
    "ethos-u65-512": NpuAccelerator.Ethos_U65_512,
}


def qp(scale=1.0, zp=0):
    q = QuantizationParameters()
    q.scale_f32 = np.float32(scale) if np.isscalar(scale) else np.array(scale, np.float32)
    q.zero_point = zp
    return q


class _Pass:
    def __init__(self, ops):
        self.ops = ops


class Net:
    def __init__(self, name):
        self.name = name
        self.ops = []
        self.inputs = []
        self.n = 0

    def input(self, shape, dtype=DataType.int8, scale=1.0, zp=0):
        t = Tensor(list(shape), dtype, f"input{len(self.inputs)}")
        t.quantization = qp(scale, zp)
        op = Operation(Op.Placeholder, t.name + "_op")
        op.set_output_tensor(t)
        self.ops.append(op)
        self.inputs.append(t)
        return t

    def const(self, shape, dtype, values, scale=1.0, zp=0):
        self.n += 1
        return create_const_tensor(f"const{self.n}", list(shape), dtype, values, quantization=qp(scale, zp))

    def op(self, op_type, inputs, out_shape, dtype, scale=1.0, zp=0, attrs=None):
        self.n += 1
        out = Tensor(list(out_shape), dtype, f"t{self.n}")
        out.quantization = qp(scale, zp)
        op = Operation(op_type, f"op{self.n}")
        for t in inputs:
            op.add_input_tensor(t)
        op.set_output_tensor(out)
        op.attrs.update(attrs or {})
        if "fused_activation_function" not in op.attrs and op_type not in (Op.Tanh, Op.Sigmoid, Op.LeakyRelu):
            op.attrs["fused_activation_function"] = None
        op.set_ifm_ofm_shapes()
        self.ops.append(op)
        return out

    def write(self, outputs, path):
        sg = Subgraph("main", PassPlacement.Cpu)
        sg.input_tensors = list(self.inputs)
        sg.original_inputs = list(self.inputs)
        sg.output_tensors = list(outputs)
        sg.passes = [_Pass(self.ops)]
        nng = Graph(self.name)
        nng.subgraphs.append(sg)
        tflite_writer.write_tflite(nng, path)


def compile_and_check(path, accelerator_config, extra_args=(), quiet=True):
    """Returns (list of (ops, stream)), list of problems)"""
    captured = []
    orig = hl.generate_command_stream

    def spy(npu_op_list, arch, *a, **kw):
        res = orig(npu_op_list, arch, *a, **kw)
        captured.append((list(npu_op_list), list(res)))
        return res

    hl.generate_command_stream = spy
    out_dir = os.path.join(os.path.dirname(path), "out")
    stdout = sys.stdout
    try:
        if quiet:
            sys.stdout = open(os.devnull, "w")
        vela.main([path, "--accelerator-config", accelerator_config, "--output-dir", out_dir] + list(extra_args))
    finally:
        if quiet:
            sys.stdout.close()
        sys.stdout = stdout
        hl.generate_command_stream = orig
    problems = []
    for ops, stream in captured:
        problems.extend(oracle.check_stream(ops, ACCELERATORS[accelerator_config], stream))
    return captured, problems


__all__ = ["Net", "compile_and_check", "qp", "Op", "Padding", "DataType", "ACCELERATORS"]

# Observation 5 (unmodified tree, low severity / extreme values): scale factors that do not fit are replaced silently.
#  a) scaling.quantise_scale returns (0, 16) when the shift is out of range. For a tiny factor that is the right thing,
#     but it is also what happens for a factor >= 2^31 (shift < 0): a MUL with ifm scales 100 and 100 and ofm scale 1e-6
#     (factor 1e10, every result saturates) is emitted with OFM_SCALE = 0 >> 16, i.e. every result becomes the zero point.
#  b) generate_ofm_scaling_for_pooling with ifm_scale/ofm_scale >= 2^20: quantise_pooling_scale is left with so few bits
#     that the +1 rounding term dominates: 2x2 average pool, rescale 1e9 -> factor 5e8 instead of 2.5e8 (100% off).
# Run: cd /tmp/seed8/C06 && /venv/bin/python out/observation5.py     (prints VIOLATION lines, exits 1)
import os
import sys

sys.path.insert(0, os.getcwd())
sys.path.insert(0, os.path.dirname(os.path.abspath(__file__)))

import numpy as np  # noqa: E402

import c06_oracle as oracle  # noqa: E402
from demo_common import feature_map  # noqa: E402
from ethosu.vela.api import NpuAccelerator  # noqa: E402
from ethosu.vela.api import NpuElementWiseOp  # noqa: E402
from ethosu.vela.api import NpuElementWiseOperation  # noqa: E402
from ethosu.vela.api import NpuKernel  # noqa: E402
from ethosu.vela.api import NpuPadding  # noqa: E402
from ethosu.vela.api import NpuPoolingOp  # noqa: E402
from ethosu.vela.api import NpuPoolingOperation  # noqa: E402
from ethosu.vela.api import NpuShape3D  # noqa: E402
from ethosu.vela.api import npu_generate_register_command_stream  # noqa: E402

A = NpuAccelerator.Ethos_U55_128
problems = []
mul = NpuElementWiseOperation(NpuElementWiseOp.MUL)
mul.ifm = feature_map(4, 4, 16, 1, 0x0, scale=np.float32(100))
mul.ifm2 = feature_map(4, 4, 16, 1, 0x1000, scale=np.float32(100))
mul.ofm = feature_map(4, 4, 16, 1, 0x2000, scale=np.float32(1e-6))
mul.block_config = NpuShape3D(2, 2, 16)
problems += oracle.check_stream([mul], A, npu_generate_register_command_stream([mul], A))
pool = NpuPoolingOperation(NpuPoolingOp.AVERAGE)
pool.ifm = feature_map(4, 4, 16, 1, 0x0, scale=np.float32(1e9))
pool.ofm = feature_map(2, 2, 16, 1, 0x1000, scale=np.float32(1.0))
pool.kernel = NpuKernel(2, 2, 2, 2)
pool.padding = NpuPadding(0, 0, 0, 0)
pool.block_config = NpuShape3D(2, 2, 16)
problems += oracle.check_stream([pool], A, npu_generate_register_command_stream([pool], A))
for p in problems:
    print("VIOLATION:", p)
sys.exit(1 if problems else 0)

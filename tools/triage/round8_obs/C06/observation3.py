# Observation 3 (unmodified tree): the documented value for an unused tile 1, NpuTileBox.height_1 == 0
# ("The height of tile 1, 0 if unused"; NpuFeatureMap: "In the normal case when only 1 tile is used ... height_1 is 0"),
# is emitted as xFM_HEIGHT1_M1 = 0xFFFF: generate_tiles writes tiles.height_1 - 1 = -1 and cmd0_with_param masks it.
# Run: cd /tmp/seed8/C06 && /venv/bin/python out/observation3.py     (prints VIOLATION, exits 1)
import os
import sys

sys.path.insert(0, os.getcwd())
sys.path.insert(0, os.path.dirname(os.path.abspath(__file__)))

import c06_oracle as oracle  # noqa: E402
from demo_common import feature_map  # noqa: E402
from ethosu.vela.api import NpuAccelerator  # noqa: E402
from ethosu.vela.api import NpuKernel  # noqa: E402
from ethosu.vela.api import NpuPadding  # noqa: E402
from ethosu.vela.api import NpuPoolingOp  # noqa: E402
from ethosu.vela.api import NpuPoolingOperation  # noqa: E402
from ethosu.vela.api import NpuShape3D  # noqa: E402
from ethosu.vela.api import NpuTileBox  # noqa: E402
from ethosu.vela.api import npu_generate_register_command_stream  # noqa: E402

op = NpuPoolingOperation(NpuPoolingOp.MAX)
op.ifm = feature_map(8, 8, 16, 1, 0x0)
op.ofm = feature_map(4, 4, 16, 1, 0x1000)
op.ifm.tiles = NpuTileBox(height_0=8, height_1=0, width_0=8, addresses=[0x0, 0, 0, 0])
op.ofm.tiles = NpuTileBox(height_0=4, height_1=0, width_0=4, addresses=[0x1000, 0, 0, 0])
op.kernel = NpuKernel(2, 2, 2, 2)
op.padding = NpuPadding(0, 0, 0, 0)
op.block_config = NpuShape3D(2, 2, 16)
stream = npu_generate_register_command_stream([op], NpuAccelerator.Ethos_U55_128)
ev = [e for e in oracle.decode(stream) if e.name == "OP_POOL"][0]
print("IFM_HEIGHT1_M1 =", hex(ev.regs["IFM_HEIGHT1_M1"]), " OFM_HEIGHT1_M1 =", hex(ev.regs["OFM_HEIGHT1_M1"]))
problems = oracle.check_stream([op], NpuAccelerator.Ethos_U55_128, stream)
for p in problems:
    print("VIOLATION:", p)
sys.exit(1 if problems else 0)

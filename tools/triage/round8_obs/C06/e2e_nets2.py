import os, sys
sys.path.insert(0, os.getcwd()); sys.path.insert(0, os.path.dirname(os.path.abspath(__file__)))
import numpy as np
from c06_e2e import *
import c06_oracle as oracle

tmp = os.path.join(os.path.dirname(os.path.abspath(__file__)), "e2e_tmp")
rng = np.random.default_rng(2)
CONV = dict(padding=Padding.SAME, stride_w=1, stride_h=1, dilation_w_factor=1, dilation_h_factor=1, strides=(1, 1, 1, 1), dilation=(1, 1, 1, 1))

def net2(dtype=DataType.int8, hw=96, c=16, layers=4):
    n = Net("net2")
    x = n.input([1, hw, hw, c], dtype, 0.02, 0)
    y = x
    for i in range(layers):
        w = n.const([c, 3, 3, c], DataType.int8, rng.integers(-20, 20, [c, 3, 3, c]), scale=[0.01] * c, zp=np.zeros(c, np.int64))
        b = n.const([c], DataType.int32, rng.integers(-100, 100, [c]), scale=[0.0002] * c, zp=np.zeros(c, np.int64))
        y = n.op(Op.Conv2DBias, [y, w, b], [1, hw, hw, c], dtype, 0.05 + 0.01 * i, 0, dict(CONV, fused_activation_function=Op.Relu6 if i % 2 else None))
    p = os.path.join(tmp, f"net2_{hw}_{c}_{layers}.tflite")
    n.write([y], p)
    return p

for hw, c, layers in ((96, 16, 4), (64, 32, 3)):
    path = net2(hw=hw, c=c, layers=layers)
    for acc in ("ethos-u55-32", "ethos-u55-128", "ethos-u65-512"):
        for extra in ((), ("--arena-cache-size", "60000"), ("--optimise", "Size")):
            try:
                cap, problems = compile_and_check(path, acc, extra)
                nops = sum(len(o) for o, _ in cap)
                multi = sum(1 for o, _ in cap for op in o if hasattr(op, "ifm") and (op.ifm.tiles.addresses[1] or op.ifm.tiles.addresses[2]))
                print("RESULT", hw, c, acc, extra, "npu ops:", nops, "multi-tile ifm ops:", multi, "problems:", len(problems), problems[:4])
            except Exception as e:
                print("RESULT", hw, c, acc, extra, "EXC", type(e).__name__, str(e)[:200])

"""Observation 7 (unmodified tree), lesser findings around the same property.

 a) shape_signature of interface tensors (dynamic dimensions, -1) is dropped: the output model declares the inputs and
    outputs fully static
 b) SQUARED_DIFFERENCE (NPU) with a constant second operand whose first operand comes from a CPU operator: the writer
    aborts with an AssertionError (the internal constant 'k_scaled' ends up as a CPU-side arena tensor with data)
 c) a third-party custom operator whose custom_options happen to be the three bytes 01 04 01 is classified as an
    existing Ethos-U operator (only the option bytes are compared, not the custom code): Vela stops with
    'Scratch tensor not found'"""
from obs_common import *  # noqa: F401,F403

bad = False
m = ModelB()
sg = m.subgraph()
x = sg.tensor("x", [1, 16], TT.FLOAT32, shape_signature=[-1, 16])
y = sg.tensor("y", [1, 16], TT.FLOAT32, shape_signature=[-1, 16])
sg.op(BO.RELU, [x], [y])
sg.inputs = [x]
sg.outputs = [y]
buf = m.build()
errs, res = run(buf, must_stay=["y"])
src_t = {t["name"]: t for t in parse(buf)["subgraphs"][0]["tensors"]}
for t in parse(res.out)["subgraphs"][0]["tensors"]:
    if t["shape_signature"] != src_t[t["name"]]["shape_signature"]:
        errs.append(f"tensor '{t['name']}': shape_signature {src_t[t['name']]['shape_signature']} -> {t['shape_signature']}")
bad |= report("a) float32 RELU with shape_signature [-1, 16] on input and output", errs)

m = ModelB()
sg = m.subgraph()
x = fm(sg, "x", [1, 8, 8, 8])
k = sg.const("k", rng.integers(-100, 100, (1, 1, 1, 8)), TT.INT8, quant=q(0.02, 1))
c0 = custom(sg, [x], "c0")
y = fm(sg, "y", [1, 8, 8, 8], quant=q(0.07, -3))
sg.op(BO.SQUARED_DIFFERENCE, [c0, k], [y], ("SquaredDifferenceOptions", {}))
sg.inputs = [x]
sg.outputs = [y]
try:
    errs, res = run(m.build(), must_stay=["c0"])
except BaseException as e:  # noqa: BLE001
    errs = [f"compilation fails: {type(e).__name__} {str(e)[:200]}"]
bad |= report("b) custom -> SQUARED_DIFFERENCE(., const)", errs)

m = ModelB()
sg = m.subgraph()
x = fm(sg, "x", [1, 8, 8, 4])
a = conv(sg, x, "a")
z = custom(sg, [a], "z", opts=b"\x01\x04\x01")
sg.inputs = [x]
sg.outputs = [z]
try:
    errs, res = run(m.build(), must_stay=["z"])
except BaseException as e:  # noqa: BLE001
    msg = [l for l in str(e).splitlines() if "Error" in l]
    errs = [f"compilation fails: {msg[0] if msg else str(e)[:200]}"]
bad |= report("c) CONV_2D -> third-party custom op 'MyOp' with custom_options 01 04 01", errs)
sys.exit(1 if bad else 0)

"""Observation 4 (unmodified tree): operators without output tensors are lost.

Only ASSIGN_VARIABLE and CALL_ONCE get a virtual output in the reader.  Any other operator without outputs is never
reached by the traversals that start at the subgraph outputs:
 a) a third-party custom operator without outputs (consumer of an NPU result) is silently missing from the output model
 b) HASHTABLE_IMPORT (no outputs) in the initialisation subgraph of a hashtable model: the subgraph ends up without a
    single pass and extract_npu_subgraphs crashes (TypeError: float() argument must be ... not 'PassPlacement')"""
from obs_common import *  # noqa: F401,F403

bad = False
m = ModelB()
sg = m.subgraph("main")
x = fm(sg, "x", [1, 8, 8, 4])
a = conv(sg, x, "a")
sg.op(BO.CUSTOM, [a], [], custom_code="Logger", custom_options=b"\x01")
sg.inputs = [x]
sg.outputs = [a]
buf = m.build()
errs, res = run(buf, may_vanish=["a"])
show(res.out)
bad |= report("a) CONV_2D -> custom 'Logger' (no outputs)", errs)

m = ModelB()
sg = m.subgraph("main")
init = m.subgraph("init")
x = sg.tensor("x", [4], TT.INT64)
sg.op(BO.CALL_ONCE, [], [], ("CallOnceOptions", {"InitSubgraphIndex": 1}))
h = sg.tensor("h", [], TT.RESOURCE)
sg.op(BO.HASHTABLE, [], [h], ("HashtableOptions", {"TableId": 3, "KeyDtype": TT.INT64, "ValueDtype": TT.INT64}))
d = sg.const("default", [-1], TT.INT64, shape=[])
y = sg.tensor("y", [4], TT.INT64)
sg.op(BO.HASHTABLE_FIND, [h, x, d], [y], ("HashtableFindOptions", {}))
sg.inputs = [x]
sg.outputs = [y]
h2 = init.tensor("h_i", [], TT.RESOURCE)
init.op(BO.HASHTABLE, [], [h2], ("HashtableOptions", {"TableId": 3, "KeyDtype": TT.INT64, "ValueDtype": TT.INT64}))
k = init.const("keys", [1, 2, 3], TT.INT64)
v = init.const("vals", [10, 20, 30], TT.INT64)
init.op(BO.HASHTABLE_IMPORT, [h2, k, v], [], ("HashtableImportOptions", {}))
try:
    errs, res = run(m.build(), may_vanish=[])
except BaseException as e:  # noqa: BLE001
    errs = [f"compilation fails: {type(e).__name__}: {str(e)[:200]}"]
bad |= report("b) CALL_ONCE + HASHTABLE / HASHTABLE_IMPORT / HASHTABLE_FIND", errs)
sys.exit(1 if bad else 0)

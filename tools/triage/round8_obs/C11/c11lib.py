"""Helpers for the C11 demos: build small .tflite models with a plain flatbuffers Builder, compile them with Vela's
command line driver, parse models with the flatc-generated accessors only and compare source and output models.

Nothing in here looks at Vela's source text; the only parts of Vela that are used are the public driver
(ethosu.vela.vela.main), the model reader (for the "reads back" check) and the flatc-generated schema accessors in
ethosu/vela/tflite (a plain flatbuffer parser)."""
import contextlib
import importlib
import io
import os
import shutil
import sys
import tempfile

import flatbuffers
import numpy as np

from ethosu.vela.tflite import Buffer as fbBuffer
from ethosu.vela.tflite import Model as fbModel
from ethosu.vela.tflite import Operator as fbOperator
from ethosu.vela.tflite import OperatorCode as fbOperatorCode
from ethosu.vela.tflite import QuantizationParameters as fbQuant
from ethosu.vela.tflite import SubGraph as fbSubGraph
from ethosu.vela.tflite import Tensor as fbTensor
from ethosu.vela.tflite.BuiltinOperator import BuiltinOperator
from ethosu.vela.tflite.BuiltinOptions import BuiltinOptions
from ethosu.vela.tflite.TensorType import TensorType

BO = BuiltinOperator
TT = TensorType

NP_TYPE = {
    TT.FLOAT32: np.float32,
    TT.FLOAT16: np.float16,
    TT.INT32: np.int32,
    TT.UINT8: np.uint8,
    TT.INT64: np.int64,
    TT.BOOL: np.bool_,
    TT.INT16: np.int16,
    TT.INT8: np.int8,
    TT.FLOAT64: np.float64,
    TT.UINT32: np.uint32,
    TT.UINT16: np.uint16,
}
TT_OF_NP = {np.dtype(v): k for k, v in NP_TYPE.items()}

OPNAME = {v: k for k, v in vars(BuiltinOperator).items() if not k.startswith("_")}
OPTNAME = {v: k for k, v in vars(BuiltinOptions).items() if not k.startswith("_")}


# ------------------------------------------------------------------------------------------------------------------
# building
# ------------------------------------------------------------------------------------------------------------------
class T:
    def __init__(self, name, shape, ttype, data=None, quant=None, is_variable=False, shared_buffer_with=None,
                 shape_signature=None):
        self.shape_signature = shape_signature
        self.name = name
        self.shape = None if shape is None else list(shape)
        self.ttype = ttype
        self.data = data
        self.quant = quant
        self.is_variable = is_variable
        self.shared_buffer_with = shared_buffer_with


class O:
    def __init__(self, code, inputs, outputs, options=None, version=1, custom_code=None, custom_options=None,
                 custom_options_format=0, intermediates=()):
        self.code = code
        self.inputs = list(inputs)
        self.outputs = list(outputs)
        self.options = options  # (OptionsTableName, {CamelCaseMember: value})
        self.version = version
        self.custom_code = custom_code
        self.custom_options = custom_options
        self.custom_options_format = custom_options_format
        self.intermediates = list(intermediates)


class SG:
    def __init__(self, name="main"):
        self.name = name
        self.tensors = []
        self.ops = []
        self.inputs = []
        self.outputs = []

    def tensor(self, name, shape, ttype, data=None, quant=None, **kw):
        if data is not None:
            data = np.asarray(data, dtype=NP_TYPE[ttype])
        t = T(name, shape, ttype, data, quant, **kw)
        self.tensors.append(t)
        return t

    def const(self, name, data, ttype=None, quant=None, shape=None, **kw):
        data = np.asarray(data)
        if ttype is None:
            ttype = TT_OF_NP[data.dtype]
        data = data.astype(NP_TYPE[ttype])
        return self.tensor(name, list(data.shape) if shape is None else shape, ttype, data, quant, **kw)

    def op(self, code, inputs, outputs, options=None, **kw):
        o = O(code, inputs, outputs, options, **kw)
        self.ops.append(o)
        return o


def q(scale, zero_point=0, dim=None, min=None, max=None):
    """quantisation record; scale / zero_point may be scalars or lists"""
    d = {
        "scale": list(np.atleast_1d(np.asarray(scale, dtype=np.float32))),
        "zero_point": list(np.atleast_1d(np.asarray(zero_point, dtype=np.int64))),
    }
    if dim is not None:
        d["dim"] = dim
    if min is not None:
        d["min"] = list(np.atleast_1d(np.asarray(min, dtype=np.float32)))
    if max is not None:
        d["max"] = list(np.atleast_1d(np.asarray(max, dtype=np.float32)))
    return d


class ModelB:
    def __init__(self, description="c11 test model"):
        self.subgraphs = []
        self.description = description
        self.metadata = []  # (name, bytes)

    def subgraph(self, name="main"):
        sg = SG(name)
        self.subgraphs.append(sg)
        return sg

    # -- serialisation ------------------------------------------------------------------------------------------
    def build(self):
        b = flatbuffers.Builder(1024)

        def ivec(vals, elem=4):
            b.StartVector(elem, len(vals), elem)
            for v in reversed(list(vals)):
                if elem == 4:
                    b.PrependInt32(int(v))
                elif elem == 8:
                    b.PrependInt64(int(v))
                else:
                    b.PrependUint8(int(v))
            return b.EndVector()

        def fvec(vals):
            b.StartVector(4, len(vals), 4)
            for v in reversed(list(vals)):
                b.PrependFloat32(float(v))
            return b.EndVector()

        def ovec(offs):
            b.StartVector(4, len(offs), 4)
            for o in reversed(offs):
                b.PrependUOffsetTRelative(o)
            return b.EndVector()

        def bytevec(data, align=16):
            data = bytes(data)
            b.StartVector(1, len(data), align)
            b.head = b.head - len(data)
            b.Bytes[b.head : b.head + len(data)] = data
            return b.EndVector()

        # operator codes
        codes = []
        for sg in self.subgraphs:
            for o in sg.ops:
                key = (o.code, o.custom_code, o.version)
                if key not in codes:
                    codes.append(key)

        # buffers: 0 is the empty one
        buffers = [None]
        tens_buf = {}
        for sg in self.subgraphs:
            for t in sg.tensors:
                if t.shared_buffer_with is not None:
                    tens_buf[t] = tens_buf[t.shared_buffer_with]
                elif t.data is not None:
                    buffers.append(t.data.tobytes())
                    tens_buf[t] = len(buffers) - 1
                else:
                    tens_buf[t] = 0
        meta = []
        for name, data in self.metadata:
            buffers.append(bytes(data))
            meta.append((name, len(buffers) - 1))

        sg_offs = []
        for sg in self.subgraphs:
            tidx = {t: i for i, t in enumerate(sg.tensors)}
            t_offs = []
            for t in sg.tensors:
                name = b.CreateString(t.name)
                shape = ivec(t.shape) if t.shape is not None else None
                shape_sig = ivec(t.shape_signature) if t.shape_signature is not None else None
                qoff = None
                if t.quant is not None:
                    qd = t.quant
                    sc = fvec(qd["scale"]) if "scale" in qd else None
                    zp = ivec(qd["zero_point"], 8) if "zero_point" in qd else None
                    mn = fvec(qd["min"]) if "min" in qd else None
                    mx = fvec(qd["max"]) if "max" in qd else None
                    fbQuant.QuantizationParametersStart(b)
                    if mn is not None:
                        fbQuant.QuantizationParametersAddMin(b, mn)
                    if mx is not None:
                        fbQuant.QuantizationParametersAddMax(b, mx)
                    if sc is not None:
                        fbQuant.QuantizationParametersAddScale(b, sc)
                    if zp is not None:
                        fbQuant.QuantizationParametersAddZeroPoint(b, zp)
                    if "dim" in qd:
                        fbQuant.QuantizationParametersAddQuantizedDimension(b, qd["dim"])
                    qoff = fbQuant.QuantizationParametersEnd(b)
                fbTensor.TensorStart(b)
                if shape is not None:
                    fbTensor.TensorAddShape(b, shape)
                fbTensor.TensorAddType(b, t.ttype)
                fbTensor.TensorAddBuffer(b, tens_buf[t])
                fbTensor.TensorAddName(b, name)
                if qoff is not None:
                    fbTensor.TensorAddQuantization(b, qoff)
                fbTensor.TensorAddIsVariable(b, t.is_variable)
                if shape_sig is not None:
                    fbTensor.TensorAddShapeSignature(b, shape_sig)
                t_offs.append(fbTensor.TensorEnd(b))
            tensors_off = ovec(t_offs)

            o_offs = []
            for o in sg.ops:
                ins = ivec([-1 if t is None else tidx[t] for t in o.inputs])
                outs = ivec([tidx[t] for t in o.outputs])
                inter = ivec([tidx[t] for t in o.intermediates]) if o.intermediates else None
                opt_off = None
                opt_type = 0
                if o.options is not None:
                    oname, members = o.options
                    mod = importlib.import_module("ethosu.vela.tflite." + oname)
                    vals = {}
                    for k, v in members.items():
                        if isinstance(v, str):
                            vals[k] = b.CreateString(v)
                        elif isinstance(v, tuple) and v[0] == "f":
                            vals[k] = fvec(v[1])
                        elif isinstance(v, (list, tuple, np.ndarray)):
                            vals[k] = ivec(v)
                        else:
                            vals[k] = v
                    getattr(mod, oname + "Start")(b)
                    for k, v in vals.items():
                        getattr(mod, oname + "Add" + k)(b, v)
                    opt_off = getattr(mod, oname + "End")(b)
                    opt_type = getattr(BuiltinOptions, oname)
                cust = None
                if o.custom_options is not None:
                    cust = bytevec(o.custom_options, 1)
                fbOperator.OperatorStart(b)
                fbOperator.OperatorAddOpcodeIndex(b, codes.index((o.code, o.custom_code, o.version)))
                fbOperator.OperatorAddInputs(b, ins)
                fbOperator.OperatorAddOutputs(b, outs)
                if opt_off is not None:
                    fbOperator.OperatorAddBuiltinOptionsType(b, opt_type)
                    fbOperator.OperatorAddBuiltinOptions(b, opt_off)
                if cust is not None:
                    fbOperator.OperatorAddCustomOptions(b, cust)
                    fbOperator.OperatorAddCustomOptionsFormat(b, o.custom_options_format)
                if inter is not None:
                    fbOperator.OperatorAddIntermediates(b, inter)
                o_offs.append(fbOperator.OperatorEnd(b))
            ops_off = ovec(o_offs)
            sin = ivec([tidx[t] for t in sg.inputs])
            sout = ivec([tidx[t] for t in sg.outputs])
            sname = b.CreateString(sg.name)
            fbSubGraph.SubGraphStart(b)
            fbSubGraph.SubGraphAddTensors(b, tensors_off)
            fbSubGraph.SubGraphAddInputs(b, sin)
            fbSubGraph.SubGraphAddOutputs(b, sout)
            fbSubGraph.SubGraphAddOperators(b, ops_off)
            fbSubGraph.SubGraphAddName(b, sname)
            sg_offs.append(fbSubGraph.SubGraphEnd(b))
        sgs_off = ovec(sg_offs)

        c_offs = []
        for code, custom_code, version in codes:
            cc = b.CreateString(custom_code) if custom_code is not None else None
            fbOperatorCode.OperatorCodeStart(b)
            fbOperatorCode.OperatorCodeAddDeprecatedBuiltinCode(b, code if code < 127 else 127)
            fbOperatorCode.OperatorCodeAddBuiltinCode(b, code)
            fbOperatorCode.OperatorCodeAddVersion(b, version)
            if cc is not None:
                fbOperatorCode.OperatorCodeAddCustomCode(b, cc)
            c_offs.append(fbOperatorCode.OperatorCodeEnd(b))
        codes_off = ovec(c_offs)

        b_offs = []
        for data in buffers:
            d = bytevec(data) if data is not None else None
            fbBuffer.BufferStart(b)
            if d is not None:
                fbBuffer.BufferAddData(b, d)
            b_offs.append(fbBuffer.BufferEnd(b))
        bufs_off = ovec(b_offs)

        from ethosu.vela.tflite import Metadata as fbMetadata

        m_offs = []
        for name, idx in meta:
            n = b.CreateString(name)
            fbMetadata.MetadataStart(b)
            fbMetadata.MetadataAddName(b, n)
            fbMetadata.MetadataAddBuffer(b, idx)
            m_offs.append(fbMetadata.MetadataEnd(b))
        meta_off = ovec(m_offs) if m_offs else None

        desc = b.CreateString(self.description)
        fbModel.ModelStart(b)
        fbModel.ModelAddVersion(b, 3)
        fbModel.ModelAddOperatorCodes(b, codes_off)
        fbModel.ModelAddSubgraphs(b, sgs_off)
        fbModel.ModelAddDescription(b, desc)
        fbModel.ModelAddBuffers(b, bufs_off)
        if meta_off is not None:
            fbModel.ModelAddMetadata(b, meta_off)
        root = fbModel.ModelEnd(b)
        b.Finish(root, b"TFL3")
        return bytes(b.Output())


# ------------------------------------------------------------------------------------------------------------------
# plain flatbuffer parsing
# ------------------------------------------------------------------------------------------------------------------
def _np_list(x):
    if isinstance(x, np.ndarray):
        return x.tolist()
    return None if (isinstance(x, int) and x == 0) else x


def dump_options(op):
    """generic dump of a builtin options table: every accessor that takes no argument"""
    otype = op.BuiltinOptionsType()
    tab = op.BuiltinOptions()
    if otype == 0 or tab is None:
        return (0, None)
    oname = OPTNAME[otype]
    mod = importlib.import_module("ethosu.vela.tflite." + oname)
    obj = getattr(mod, oname)()
    obj.Init(tab.Bytes, tab.Pos)
    res = {}
    for attr in dir(obj):
        if attr.startswith("_") or attr == "Init" or attr.startswith("GetRootAs") or attr.endswith("HasIdentifier"):
            continue
        fn = getattr(obj, attr)
        if not callable(fn):
            continue
        try:
            v = fn()
        except TypeError:
            continue
        if isinstance(v, np.ndarray):
            v = v.tolist()
        if isinstance(v, float) and v != v:
            v = "nan"
        res[attr] = v
    return (oname, res)


def parse(buf):
    """returns a plain python description of the model (dicts / lists / numpy arrays)"""
    buf = bytearray(buf)
    if bytes(buf[4:8]) != b"TFL3":
        raise ValueError("file identifier is %r" % bytes(buf[4:8]))
    model = fbModel.Model.GetRootAsModel(buf, 0)
    buffers = []
    for i in range(model.BuffersLength()):
        bb = model.Buffers(i)
        buffers.append(None if bb.DataLength() == 0 else bytes(bb.DataAsNumpy().tobytes()))
    codes = []
    for i in range(model.OperatorCodesLength()):
        c = model.OperatorCodes(i)
        code = max(c.BuiltinCode(), c.DeprecatedBuiltinCode())
        cc = c.CustomCode()
        codes.append((code, None if cc is None else cc.decode(), c.Version()))
    res = {"version": model.Version(), "subgraphs": [], "n_buffers": len(buffers), "metadata": []}
    for i in range(model.MetadataLength()):
        md = model.Metadata(i)
        res["metadata"].append((md.Name().decode(), buffers[md.Buffer()]))
    for si in range(model.SubgraphsLength()):
        sg = model.Subgraphs(si)
        tensors = []
        for ti in range(sg.TensorsLength()):
            t = sg.Tensors(ti)
            qq = t.Quantization()
            quant = None
            if qq is not None:
                quant = {
                    "scale": _np_list(qq.ScaleAsNumpy()),
                    "zero_point": _np_list(qq.ZeroPointAsNumpy()),
                    "min": _np_list(qq.MinAsNumpy()),
                    "max": _np_list(qq.MaxAsNumpy()),
                    "dim": qq.QuantizedDimension(),
                }
            shape = t.ShapeAsNumpy()
            shape = shape.tolist() if isinstance(shape, np.ndarray) else []
            bidx = t.Buffer()
            if bidx >= len(buffers):
                raise ValueError("tensor %r uses buffer %d of %d" % (t.Name(), bidx, len(buffers)))
            tensors.append(
                {
                    "name": t.Name().decode(),
                    "shape": shape,
                    "type": t.Type(),
                    "buffer": bidx,
                    "data": buffers[bidx],
                    "quant": quant,
                    "is_variable": bool(t.IsVariable()),
                    "shape_signature": _np_list(t.ShapeSignatureAsNumpy()),
                }
            )
        ops = []
        for oi in range(sg.OperatorsLength()):
            o = sg.Operators(oi)
            code, cc, ver = codes[o.OpcodeIndex()]
            ins = o.InputsAsNumpy()
            outs = o.OutputsAsNumpy()
            inter = o.IntermediatesAsNumpy()
            cust = None if o.CustomOptionsIsNone() else bytes(o.CustomOptionsAsNumpy().tobytes()) if o.CustomOptionsLength() else b""
            ops.append(
                {
                    "code": code,
                    "custom_code": cc,
                    "version": ver,
                    "inputs": ins.tolist() if isinstance(ins, np.ndarray) else [],
                    "outputs": outs.tolist() if isinstance(outs, np.ndarray) else [],
                    "intermediates": inter.tolist() if isinstance(inter, np.ndarray) else [],
                    "options": dump_options(o),
                    "custom_options": cust,
                    "custom_options_format": o.CustomOptionsFormat(),
                }
            )
        ins = sg.InputsAsNumpy()
        outs = sg.OutputsAsNumpy()
        for idx in list(ins.tolist() if isinstance(ins, np.ndarray) else []) + list(
            outs.tolist() if isinstance(outs, np.ndarray) else []
        ):
            if not 0 <= idx < len(tensors):
                raise ValueError("subgraph interface index %d out of range" % idx)
        for op in ops:
            for idx in op["inputs"] + op["outputs"] + op["intermediates"]:
                if not -1 <= idx < len(tensors):
                    raise ValueError("operator tensor index %d out of range" % idx)
        res["subgraphs"].append(
            {
                "name": (sg.Name() or b"").decode(),
                "tensors": tensors,
                "ops": ops,
                "inputs": ins.tolist() if isinstance(ins, np.ndarray) else [],
                "outputs": outs.tolist() if isinstance(outs, np.ndarray) else [],
            }
        )
    return res


# ------------------------------------------------------------------------------------------------------------------
# compiling
# ------------------------------------------------------------------------------------------------------------------
class CompileResult:
    def __init__(self, out, log, workdir):
        self.out = out
        self.log = log
        self.workdir = workdir


def compile_model(buf, extra_args=(), name="model", keep=False):
    """runs the Vela command line driver on the model; returns the bytes of <name>_vela.tflite and the log"""
    # stats_writer binds sys.stdout as a default argument when it is imported: import the driver with stdout redirected
    # so that the network summary does not clutter the output of the demos
    with contextlib.redirect_stdout(io.StringIO()):
        from ethosu.vela import vela

    work = tempfile.mkdtemp(prefix="c11_")
    try:
        src = os.path.join(work, name + ".tflite")
        with open(src, "wb") as f:
            f.write(buf)
        outdir = os.path.join(work, "out")
        log = io.StringIO()
        with contextlib.redirect_stdout(log), contextlib.redirect_stderr(log):
            try:
                rc = vela.main(["--output-dir", outdir, *extra_args, src])
            except SystemExit as e:
                rc = e.code
        if rc not in (0, None):
            raise RuntimeError("vela exited with %r\n%s" % (rc, log.getvalue()))
        with open(os.path.join(outdir, name + "_vela.tflite"), "rb") as f:
            out = f.read()
        return CompileResult(out, log.getvalue(), work)
    finally:
        if not keep:
            shutil.rmtree(work, ignore_errors=True)


def vela_reads_back(buf, name="model_vela"):
    """the written file must be readable with Vela's own reader"""
    from ethosu.vela import model_reader

    work = tempfile.mkdtemp(prefix="c11r_")
    try:
        fn = os.path.join(work, name + ".tflite")
        with open(fn, "wb") as f:
            f.write(buf)
        log = io.StringIO()
        with contextlib.redirect_stdout(log), contextlib.redirect_stderr(log):
            try:
                nng, _ = model_reader.read_model(fn, model_reader.ModelReaderOptions())
            except SystemExit as e:
                raise RuntimeError("reader exited with %r: %s" % (e.code, log.getvalue()))
        return nng
    finally:
        shutil.rmtree(work, ignore_errors=True)


# ------------------------------------------------------------------------------------------------------------------
# comparing
# ------------------------------------------------------------------------------------------------------------------
def _quant_eq(a, b):
    def norm(x):
        if x is None:
            return None
        d = dict(x)
        # absent and empty are the same thing
        for k in ("scale", "zero_point", "min", "max"):
            if d.get(k) in (None, []):
                d[k] = None
        if d["scale"] is None and d["zero_point"] is None and d["min"] is None and d["max"] is None:
            return None
        if d["scale"] is not None:
            d["scale"] = [np.float32(v) for v in d["scale"]]
        return d

    a, b = norm(a), norm(b)
    if a is None or b is None:
        return a is b
    for k in ("scale", "zero_point", "min", "max"):
        if (a[k] is None) != (b[k] is None):
            return False
        if a[k] is not None and list(a[k]) != list(b[k]):
            return False
    return a.get("dim", 0) == b.get("dim", 0)


def tensor_diff(ts, to, what, check_name=True, check_data=True):
    errs = []
    if check_name and ts["name"] != to["name"]:
        errs.append(f"{what}: name {ts['name']!r} -> {to['name']!r}")
    if ts["shape"] != to["shape"]:
        errs.append(f"{what} ({ts['name']}): shape {ts['shape']} -> {to['shape']}")
    if ts["type"] != to["type"]:
        errs.append(f"{what} ({ts['name']}): element type {ts['type']} -> {to['type']}")
    if not _quant_eq(ts["quant"], to["quant"]):
        errs.append(f"{what} ({ts['name']}): quantisation {ts['quant']} -> {to['quant']}")
    if check_data and (ts["data"] or None) != (to["data"] or None):
        errs.append(
            f"{what} ({ts['name']}): constant data changed "
            f"({None if ts['data'] is None else len(ts['data'])} bytes -> "
            f"{None if to['data'] is None else len(to['data'])} bytes)"
        )
    return errs


def is_ethosu(op):
    return op["code"] == BO.CUSTOM and op["custom_code"] == "ethos-u"


def uniq(seq):
    res = []
    for x in seq:
        if x not in res:
            res.append(x)
    return res


def live_ops(sg):
    """indices of the operators that contribute to a subgraph output"""
    prod = {}
    for i, op in enumerate(sg["ops"]):
        for t in op["outputs"]:
            prod[t] = i
    live = set()
    todo = list(sg["outputs"])
    # operators without outputs (ASSIGN_VARIABLE, CALL_ONCE) are always live, and so is what they read
    for i, op in enumerate(sg["ops"]):
        if not op["outputs"]:
            live.add(i)
            todo.extend(op["inputs"])
    seen = set()
    while todo:
        t = todo.pop()
        if t in seen or t < 0:
            continue
        seen.add(t)
        if t in prod:
            i = prod[t]
            if i not in live:
                live.add(i)
                todo.extend(sg["ops"][i]["inputs"])
    return live


def compare(src_buf, out_buf, must_stay=(), may_vanish=None, check_reader=True, check_state_order=True):
    """Returns a list of violations of the C11 property (empty list: property holds).

    must_stay: names (name of the first output tensor) of source operators that are known not to be supported by the
               NPU and not constant-foldable: they have to be in the output model.
    may_vanish: if not None, the only operators (by name) that may be missing from the output."""
    errs = []
    src = parse(src_buf)
    try:
        out = parse(out_buf)
    except Exception as e:  # noqa: BLE001
        return [f"output does not parse with a plain flatbuffer parser: {type(e).__name__}: {e}"]
    if check_reader:
        try:
            vela_reads_back(out_buf)
        except BaseException as e:  # noqa: BLE001
            errs.append(f"output does not read back with Vela's reader: {type(e).__name__}: {e}")

    if len(src["subgraphs"]) != len(out["subgraphs"]):
        errs.append(f"number of subgraphs {len(src['subgraphs'])} -> {len(out['subgraphs'])}")
        return errs

    for si, (ss, so) in enumerate(zip(src["subgraphs"], out["subgraphs"])):
        pre = f"sg{si}"
        # ---- interface
        for kind in ("inputs", "outputs"):
            a = uniq(ss[kind])
            b = so[kind]
            if len(a) != len(b):
                errs.append(
                    f"{pre} {kind}: {[ss['tensors'][i]['name'] for i in a]} -> {[so['tensors'][i]['name'] for i in b]}"
                )
                continue
            for pos, (ia, ib) in enumerate(zip(a, b)):
                errs += tensor_diff(ss["tensors"][ia], so["tensors"][ib], f"{pre} {kind}[{pos}]", check_data=True)

        # ---- operators
        def opname(sg, op):
            return sg["tensors"][op["outputs"][0]]["name"] if op["outputs"] else None

        # ethos-u operators that the source already contains are ordinary (pass-through) custom operators
        src_npu_names = {opname(ss, op) for op in ss["ops"] if is_ethosu(op)}
        out_cpu = [
            (i, op) for i, op in enumerate(so["ops"]) if not is_ethosu(op) or opname(so, op) in src_npu_names
        ]
        by_name = {}
        for i, op in out_cpu:
            by_name.setdefault(opname(so, op), []).append((i, op))
        live = live_ops(ss)
        matched_out = set()
        # operators without outputs are matched by type and position among their kind
        noout_src = [i for i, op in enumerate(ss["ops"]) if not op["outputs"]]
        noout_out = [i for i, op in out_cpu if not op["outputs"]]
        for i, sop in enumerate(ss["ops"]):
            if i not in live:
                continue
            nm = opname(ss, sop)
            what = f"{pre} op#{i} {OPNAME.get(sop['code'])} '{nm}'"
            if nm is None:
                k = noout_src.index(i)
                cands = [(noout_out[k], so["ops"][noout_out[k]])] if k < len(noout_out) else []
            else:
                cands = by_name.get(nm, [])
            if not cands:
                if nm in must_stay or (may_vanish is not None and nm not in may_vanish):
                    errs.append(f"{what}: missing from the output model")
                continue
            if len(cands) > 1:
                errs.append(f"{what}: appears {len(cands)} times in the output model")
            j, oop = cands[0]
            matched_out.add(j)
            if (sop["code"], sop["custom_code"]) != (oop["code"], oop["custom_code"]):
                errs.append(
                    f"{what}: operator code -> {OPNAME.get(oop['code'])} {oop['custom_code']!r}"
                )
                continue
            if sop["version"] != oop["version"]:
                errs.append(f"{what}: version {sop['version']} -> {oop['version']}")
            if sop["options"] != oop["options"]:
                errs.append(f"{what}: options {sop['options']} -> {oop['options']}")
            if (sop["custom_options"] or b"") != (oop["custom_options"] or b""):
                errs.append(f"{what}: custom options {sop['custom_options']} -> {oop['custom_options']}")
            if sop["custom_options_format"] != oop["custom_options_format"]:
                errs.append(f"{what}: custom options format changed")
            # wiring
            if len(sop["inputs"]) != len(oop["inputs"]):
                errs.append(
                    f"{what}: inputs {[ss['tensors'][t]['name'] if t >= 0 else None for t in sop['inputs']]} -> "
                    f"{[so['tensors'][t]['name'] if t >= 0 else None for t in oop['inputs']]}"
                )
            else:
                for pos, (ta, tb) in enumerate(zip(sop["inputs"], oop["inputs"])):
                    if (ta < 0) != (tb < 0):
                        errs.append(f"{what}: input {pos} absent/present changed ({ta} -> {tb})")
                    elif ta >= 0:
                        errs += tensor_diff(ss["tensors"][ta], so["tensors"][tb], f"{what} input {pos}")
            if len(sop["outputs"]) != len(oop["outputs"]):
                errs.append(f"{what}: number of outputs {len(sop['outputs'])} -> {len(oop['outputs'])}")
            else:
                for pos, (ta, tb) in enumerate(zip(sop["outputs"], oop["outputs"])):
                    errs += tensor_diff(ss["tensors"][ta], so["tensors"][tb], f"{what} output {pos}")
            src_int = [ss["tensors"][t]["name"] if t >= 0 else None for t in sop["intermediates"]]
            out_int = [so["tensors"][t]["name"] if t >= 0 else None for t in oop["intermediates"]]
            if src_int != out_int:
                errs.append(f"{what}: intermediates {src_int} -> {out_int}")
            else:
                for pos, (ta, tb) in enumerate(zip(sop["intermediates"], oop["intermediates"])):
                    if ta >= 0:
                        errs += tensor_diff(ss["tensors"][ta], so["tensors"][tb], f"{what} intermediate {pos}")
        for j, oop in out_cpu:
            if j not in matched_out:
                errs.append(
                    f"{pre}: output model has an extra CPU operator #{j} {OPNAME.get(oop['code'])} '{opname(so, oop)}'"
                )

        # ---- accesses to resource variables keep their order (the data dependency goes through the variable)
        stateful = (BO.CALL_ONCE, BO.ASSIGN_VARIABLE, BO.READ_VARIABLE)

        def state_seq(sg):
            return [
                (OPNAME[op["code"]], [sg["tensors"][t]["name"] for t in op["inputs"] if t >= 0][:1])
                for op in sg["ops"]
                if op["code"] in stateful
            ]

        if check_state_order and state_seq(ss) != state_seq(so):
            errs.append(
                f"{pre}: operators that initialise / write / read resource variables are reordered: "
                f"{state_seq(ss)} -> {state_seq(so)}"
            )

        # ---- order respects the data dependencies
        defined = set(so["inputs"])
        for ti, t in enumerate(so["tensors"]):
            if t["data"] is not None or t["is_variable"]:
                defined.add(ti)
        producers = set()
        for op in so["ops"]:
            producers.update(op["outputs"])
        for j, op in enumerate(so["ops"]):
            for t in op["inputs"]:
                if t < 0:
                    continue
                if t not in defined:
                    if t in producers:
                        errs.append(
                            f"{pre}: output operator #{j} {OPNAME.get(op['code'])} reads '{so['tensors'][t]['name']}' "
                            "before the operator that produces it"
                        )
                    elif not is_ethosu(op) and so["tensors"][t]["type"] not in (TT.RESOURCE, TT.VARIANT):
                        # a tensor nobody produces and that has no data: only fine if the source had the same
                        nm = so["tensors"][t]["name"]
                        src_prod = {ss["tensors"][k]["name"] for o2 in ss["ops"] for k in o2["outputs"]}
                        src_in = {ss["tensors"][k]["name"] for k in ss["inputs"]}
                        src_same = [x for x in ss["tensors"] if x["name"] == nm]
                        if not (src_same and src_same[0]["data"] is None and nm not in src_prod and nm not in src_in):
                            errs.append(
                                f"{pre}: output operator #{j} {OPNAME.get(op['code'])} reads '{nm}' which nothing produces"
                            )
            defined.update(op["outputs"])
        for t in so["outputs"]:
            if t not in defined:
                errs.append(f"{pre}: subgraph output '{so['tensors'][t]['name']}' is never produced")
    return errs


def run(buf, must_stay=(), may_vanish=None, extra_args=(), check_reader=True):
    res = compile_model(buf, extra_args)
    return compare(buf, res.out, must_stay, may_vanish, check_reader), res


def finish(errs, header=""):
    if errs:
        print("FAIL" + (": " + header if header else ""))
        for e in errs:
            print("  -", e)
        sys.exit(1)
    print("PASS")
    sys.exit(0)

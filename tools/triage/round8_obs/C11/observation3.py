"""Observation 3 (unmodified tree): the subgraph interface is not always preserved.

 a) a constant tensor that is listed as a subgraph output is silently dropped from the outputs (the writer only knows
    tensors that are attached to a written operator or are subgraph inputs): 3 outputs become 2
 b) a tensor that is listed twice in the inputs / outputs is listed once in the output model (the reader removes the
    duplicate with a warning): the number of inputs / outputs of the network changes
 c) quantisation records that only have min / max (no scale / zero point) are dropped from interface tensors"""
from obs_common import *  # noqa: F401,F403

bad = False
m = ModelB()
sg = m.subgraph()
x = fm(sg, "x", [1, 8, 8, 4])
a = conv(sg, x, "a")
k = sg.const("k", rng.integers(-5, 5, (1, 2)), TT.INT8, quant=Q)
sg.inputs = [x]
sg.outputs = [a, x, k]
errs, res = run(m.build())
bad |= report("a) outputs = [a (NPU), x (the input itself), k (constant)]", errs)

m = ModelB()
sg = m.subgraph()
x = fm(sg, "x", [1, 8, 8, 4])
a = conv(sg, x, "a")
sg.inputs = [x, x]
sg.outputs = [a, a]
buf = m.build()
res = compile_model(buf)
ps, po = parse(buf)["subgraphs"][0], parse(res.out)["subgraphs"][0]
errs = []
if len(ps["inputs"]) != len(po["inputs"]) or len(ps["outputs"]) != len(po["outputs"]):
    errs.append(
        f"source has {len(ps['inputs'])} inputs / {len(ps['outputs'])} outputs, "
        f"output model has {len(po['inputs'])} / {len(po['outputs'])}"
    )
bad |= report("b) inputs = [x, x], outputs = [a, a]", errs)

m = ModelB()
sg = m.subgraph()
x = sg.tensor("x", [1, 16], TT.FLOAT32, quant={"min": [-1.0], "max": [1.0]})
y = sg.tensor("y", [1, 16], TT.FLOAT32, quant={"min": [0.0], "max": [1.0]})
sg.op(BO.RELU, [x], [y])
sg.inputs = [x]
sg.outputs = [y]
errs, res = run(m.build(), must_stay=["y"])
bad |= report("c) float32 RELU whose tensors carry min/max only", errs)
sys.exit(1 if bad else 0)

"""Observation 6 (unmodified tree): operand lists and option tables of CPU operators are not always verbatim.

 a) FULLY_CONNECTED / TRANSPOSE_CONV (constant weights) without a bias operand get an additional absent (-1) operand
 b) TRANSPOSE_CONV loses fused_activation_function (the option table entry lists only padding / stride_w / stride_h)
 c) MULTINOMIAL loses its RandomOptions (seed, seed2) altogether (no serialiser in the table)
 d) an operator without a builtin options table is written with a default-initialised one (e.g. ADD gets AddOptions)
 e) BUCKETIZE and CONCAT_EMBEDDINGS with an options table are rejected as 'Invalid tflite file'"""
from obs_common import *  # noqa: F401,F403

bad = False
m = ModelB()
sg = m.subgraph()
x = fm(sg, "x", [1, 16], TT.FLOAT32)
w = sg.const("w", rng.normal(size=(4, 16)), TT.FLOAT32)
y = fm(sg, "y", [1, 4], TT.FLOAT32)
sg.op(BO.FULLY_CONNECTED, [x, w], [y], ("FullyConnectedOptions", {}))
osz = sg.const("osz", [1, 4, 4, 2], TT.INT32)
tw = sg.const("tw", rng.normal(size=(2, 2, 2, 3)), TT.FLOAT32)
t_in = fm(sg, "t_in", [1, 2, 2, 3], TT.FLOAT32)
t = fm(sg, "t", [1, 4, 4, 2], TT.FLOAT32)
sg.op(BO.TRANSPOSE_CONV, [osz, tw, t_in], [t],
      ("TransposeConvOptions", {"Padding": 1, "StrideW": 2, "StrideH": 2, "FusedActivationFunction": 1}), version=4)
mn_n = sg.const("n", [3], TT.INT32, shape=[])
mn = sg.tensor("samples", [1, 3], TT.INT64)
sg.op(BO.MULTINOMIAL, [y, mn_n], [mn], ("RandomOptions", {"Seed": 7, "Seed2": 9}))
p0 = fm(sg, "p0", [1, 4], TT.FLOAT32)
p = fm(sg, "p", [1, 4], TT.FLOAT32)
sg.op(BO.ADD, [y, p0], [p], None)
sg.inputs = [x, t_in, p0]
sg.outputs = [t, mn, p]
errs, res = run(m.build(), must_stay=["y", "t", "samples", "p"])
bad |= report("a-d) float32 FULLY_CONNECTED (no bias), TRANSPOSE_CONV (no bias, fused RELU), MULTINOMIAL, ADD (no options)", errs)

for code, oname, opts in ((BO.BUCKETIZE, "BucketizeOptions", {"Boundaries": ("f", [0.5, 1.5])}),
                          (BO.CONCAT_EMBEDDINGS, "ConcatEmbeddingsOptions", {"NumChannels": 2})):
    m = ModelB()
    sg = m.subgraph()
    x = fm(sg, "x", [1, 4], TT.FLOAT32)
    y = sg.tensor("y", [1, 4], TT.INT32)
    sg.op(code, [x], [y], (oname, opts))
    sg.inputs = [x]
    sg.outputs = [y]
    try:
        errs, res = run(m.build(), must_stay=["y"])
    except BaseException as e:  # noqa: BLE001
        msg = [l for l in str(e).splitlines() if "Error" in l]
        errs = [f"compilation fails: {msg[0] if msg else str(e)[:200]}"]
    bad |= report(f"e) {OPNAME[code]}", errs)
sys.exit(1 if bad else 0)

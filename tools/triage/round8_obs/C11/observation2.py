"""Observation 2 (unmodified tree): fixup_pool_strides edits the options of pooling operators BEFORE the supported-operator
check, so a pooling operator whose kernel == stride == IFM size but which then stays on the CPU (here: fused activation
SIGN_BIT, or batch 2) is written with stride 1x1 and padding VALID instead of stride 8x8 / SAME."""
from obs_common import *  # noqa: F401,F403

bad = False
for tag, n, faf in (("fused activation SIGN_BIT", 1, 5), ("batch size 2", 2, 0)):
    m = ModelB()
    sg = m.subgraph()
    x = fm(sg, "x", [n, 8, 8, 4])
    y = fm(sg, "y", [n, 1, 1, 4])
    opts = {"Padding": 0, "StrideW": 8, "StrideH": 8, "FilterWidth": 8, "FilterHeight": 8, "FusedActivationFunction": faf}
    sg.op(BO.AVERAGE_POOL_2D, [x], [y], ("Pool2DOptions", opts))
    sg.inputs = [x]
    sg.outputs = [y]
    errs, res = run(m.build(), must_stay=["y"])
    bad |= report(f"AVERAGE_POOL_2D 8x8/8 SAME on an 8x8 input, {tag} (stays on the CPU)", errs)
sys.exit(1 if bad else 0)

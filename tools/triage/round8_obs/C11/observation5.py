"""Observation 5 (unmodified tree): READ_VARIABLE is hoisted above the ASSIGN_VARIABLE that precedes it.

pass_packing moves every VAR_HANDLE / READ_VARIABLE / CALL_ONCE pass to the top of the pass list.  In the source model
the variable is assigned first and read afterwards; in the output model the read comes first, i.e. the operator order
does not respect the data dependency through the resource variable (the network returns the stale value)."""
from obs_common import *  # noqa: F401,F403

m = ModelB()
sg = m.subgraph("main")
x = fm(sg, "x", [1, 4, 4, 8])
h = sg.tensor("h", [], TT.RESOURCE)
sg.op(BO.VAR_HANDLE, [], [h], ("VarHandleOptions", {"Container": "c", "SharedName": "var0"}))
y = custom(sg, [x], "y")
sg.op(BO.ASSIGN_VARIABLE, [h, y], [], ("AssignVariableOptions", {}))
v = fm(sg, "v", [1, 4, 4, 8])
sg.op(BO.READ_VARIABLE, [h], [v], ("ReadVariableOptions", {}))
s = fm(sg, "s", [1, 4, 4, 8])
sg.op(BO.ADD, [x, v], [s], ("AddOptions", {}), version=2)
sg.inputs = [x]
sg.outputs = [s]
buf = m.build()
errs, res = run(buf)


def order(b):
    ops = parse(b)["subgraphs"][0]["ops"]
    return [OPNAME[o["code"]] for o in ops if o["code"] in (BO.ASSIGN_VARIABLE, BO.READ_VARIABLE)]


print("   source order:", order(buf))
print("   output order:", order(res.out))
show(res.out)
if order(buf) != order(res.out):
    errs.append(f"accesses to resource variable 'var0' reordered: {order(buf)} -> {order(res.out)}")
sys.exit(1 if report("VAR_HANDLE; y = custom(x); ASSIGN_VARIABLE(h, y); v = READ_VARIABLE(h); s = x + v", errs) else 0)

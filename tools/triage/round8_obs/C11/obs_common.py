"""shared model building helpers of the observation scripts"""
import os
import sys

sys.path.insert(0, os.getcwd())
sys.path.insert(0, os.path.join(os.getcwd(), "out"))

import numpy as np  # noqa: E402
from c11lib import *  # noqa: E402,F401,F403
from c11lib import BO, TT, q  # noqa: E402

rng = np.random.default_rng(7)
Q = q(0.05, 2)


def fm(sg, name, shape, t=TT.INT8, quant=Q):
    return sg.tensor(name, shape, t, quant=quant if t in (TT.INT8, TT.UINT8, TT.INT16) else None)


def conv(sg, x, name, oc=8):
    ic = x.shape[-1]
    w = sg.const(name + "_w", rng.integers(-100, 100, (oc, 1, 1, ic)), TT.INT8, quant=q(0.01, 0))
    b = sg.const(name + "_b", rng.integers(-1000, 1000, (oc,)), TT.INT32, quant=q(0.0005, 0))
    y = fm(sg, name, x.shape[:-1] + [oc])
    opts = {"Padding": 0, "StrideW": 1, "StrideH": 1, "DilationWFactor": 1, "DilationHFactor": 1}
    sg.op(BO.CONV_2D, [x, w, b], [y], ("Conv2DOptions", opts), version=3)
    return y


def custom(sg, ins, name, shape=None, code="MyOp", opts=b"\x07\x08", n_out=1):
    outs = [fm(sg, name if i == 0 else f"{name}_{i}", shape or ins[0].shape, ins[0].ttype, ins[0].quant) for i in range(n_out)]
    sg.op(BO.CUSTOM, ins, outs, custom_code=code, custom_options=opts)
    return outs[0] if n_out == 1 else outs


def show(buf):
    p = parse(buf)  # noqa: F405
    for si, sg in enumerate(p["subgraphs"]):
        T = sg["tensors"]
        print(f"   sg{si} inputs={[T[i]['name'] for i in sg['inputs']]} outputs={[T[i]['name'] for i in sg['outputs']]}")
        for op in sg["ops"]:
            print(
                "     ", OPNAME[op["code"]], op["custom_code"] or "",  # noqa: F405
                [T[t]["name"] if t >= 0 else None for t in op["inputs"]], "->", [T[t]["name"] for t in op["outputs"]],
            )


def report(title, errs):
    print(title)
    if errs:
        print("  VIOLATION of C11 on the unmodified tree:")
        for e in errs:
            print("   -", e)
    else:
        print("  no violation")
    return bool(errs)

# Oracle for property C03: "no NPU operation consumes memory that was not defined for it".
#
# The compiled network is executed symbolically: the register command streams of the Ethos-U custom operators are decoded
# word by word (from the command stream tensors of the output graph) and every feature map / weight / scale / LUT byte an
# operation reads is looked up in a per byte shadow memory that records which tensor defined the byte last, which command
# wrote it and, for constant data, the position inside the constant it came from.  CPU operators and network inputs define
# their output tensors in the order in which the operators are stored in the output file.
#
# Only the identity of the tensors (names / addresses assigned by the compiler and the bytes of the constants) is taken
# from the compiler's data structures; all address arithmetic (tiles, strides, NHCWB16 bricks, IFM extent derived from the
# OFM size, kernel, stride and padding) is redone here from the registers.
import os
import struct
import sys
import tempfile
from collections import namedtuple

import numpy as np

SHRAM_REGION = 259  # (1 << 8) | 3 : DMA destination "internal SHRAM"

# ---------------------------------------------------------------------------------------------------------------------
# Compilation helper
# ---------------------------------------------------------------------------------------------------------------------


def compile_model(
    tflite_bytes,
    accel="ethos-u55-128",
    system_config="Ethos_U55_High_End_Embedded",
    memory_mode="Shared_Sram",
    config="Arm/vela.ini",
    arena_cache_size=None,
    optimise="Performance",
    allocator="HillClimb",
    extra=(),
    quiet=True,
):
    """Runs the complete Vela driver (ethosu.vela.vela.main) on the model and returns the compiled internal graph."""
    from ethosu.vela import vela

    captured = {}
    orig_process = vela.process

    def process(*args, **kwargs):
        nng = orig_process(*args, **kwargs)
        captured["nng"] = nng
        captured["arch"] = args[2]
        return nng

    tmpdir = tempfile.mkdtemp(prefix="c03_")
    model = os.path.join(tmpdir, "model.tflite")
    with open(model, "wb") as f:
        f.write(tflite_bytes)
    args = [model, "--output-dir", tmpdir, "--accelerator-config", accel]
    if config:
        args += ["--config", config, "--system-config", system_config, "--memory-mode", memory_mode]
    if arena_cache_size is not None:
        args += ["--arena-cache-size", str(arena_cache_size)]
    args += ["--optimise", optimise, "--tensor-allocator", allocator]
    args += list(extra)
    vela.process = process
    saved_fd = None
    try:
        if quiet:
            sys.stdout.flush()
            saved_fd = os.dup(1)
            devnull = os.open(os.devnull, os.O_WRONLY)
            os.dup2(devnull, 1)
            os.close(devnull)
        rc = vela.main(args)
    finally:
        if saved_fd is not None:
            sys.stdout.flush()
            os.dup2(saved_fd, 1)
            os.close(saved_fd)
        vela.process = orig_process
    if rc != 0 or "nng" not in captured:
        raise RuntimeError(f"vela.main returned {rc}")
    out_file = os.path.join(tmpdir, "model_vela.tflite")
    return captured["nng"], captured["arch"], out_file


def read_output_file(path):
    """Returns, for every Ethos-U custom operator of the written .tflite file (in operator order), the bytes of its
    command stream tensor and of its read-only (weights / constants) tensor."""
    from ethosu.vela.tflite.Model import Model

    with open(path, "rb") as f:
        buf = bytearray(f.read())
    model = Model.GetRootAsModel(buf, 0)
    res = []
    for sg_idx in range(model.SubgraphsLength()):
        sg = model.Subgraphs(sg_idx)
        for op_idx in range(sg.OperatorsLength()):
            op = sg.Operators(op_idx)
            code = model.OperatorCodes(op.OpcodeIndex())
            if code.CustomCode() != b"ethos-u":
                continue
            datas = []
            for k in (0, 1):
                tens = sg.Tensors(op.Inputs(k))
                data = model.Buffers(tens.Buffer()).DataAsNumpy()
                datas.append(np.zeros(0, np.uint8) if isinstance(data, int) else np.array(data, dtype=np.uint8))
            res.append(tuple(datas))
    return res


# ---------------------------------------------------------------------------------------------------------------------
# Register command stream decoding
# ---------------------------------------------------------------------------------------------------------------------

CMD0 = {
    0x000: "OP_STOP",
    0x001: "OP_IRQ",
    0x002: "OP_CONV",
    0x003: "OP_DEPTHWISE",
    0x005: "OP_POOL",
    0x006: "OP_ELEMENTWISE",
    0x010: "OP_DMA_START",
    0x011: "OP_DMA_WAIT",
    0x012: "OP_KERNEL_WAIT",
    0x100: "IFM_PAD_TOP",
    0x101: "IFM_PAD_LEFT",
    0x102: "IFM_PAD_RIGHT",
    0x103: "IFM_PAD_BOTTOM",
    0x104: "IFM_DEPTH_M1",
    0x105: "IFM_PRECISION",
    0x107: "IFM_UPSCALE",
    0x109: "IFM_ZERO_POINT",
    0x10A: "IFM_WIDTH0_M1",
    0x10B: "IFM_HEIGHT0_M1",
    0x10C: "IFM_HEIGHT1_M1",
    0x10D: "IFM_IB_END",
    0x10F: "IFM_REGION",
    0x111: "OFM_WIDTH_M1",
    0x112: "OFM_HEIGHT_M1",
    0x113: "OFM_DEPTH_M1",
    0x114: "OFM_PRECISION",
    0x115: "OFM_BLK_WIDTH_M1",
    0x116: "OFM_BLK_HEIGHT_M1",
    0x117: "OFM_BLK_DEPTH_M1",
    0x118: "OFM_ZERO_POINT",
    0x11A: "OFM_WIDTH0_M1",
    0x11B: "OFM_HEIGHT0_M1",
    0x11C: "OFM_HEIGHT1_M1",
    0x11F: "OFM_REGION",
    0x120: "KERNEL_WIDTH_M1",
    0x121: "KERNEL_HEIGHT_M1",
    0x122: "KERNEL_STRIDE",
    0x123: "PARALLEL_MODE",
    0x124: "ACC_FORMAT",
    0x125: "ACTIVATION",
    0x126: "ACTIVATION_MIN",
    0x127: "ACTIVATION_MAX",
    0x128: "WEIGHT_REGION",
    0x129: "SCALE_REGION",
    0x12D: "AB_START",
    0x12F: "BLOCKDEP",
    0x130: "DMA0_SRC_REGION",
    0x131: "DMA0_DST_REGION",
    0x132: "DMA0_SIZE0",
    0x133: "DMA0_SIZE1",
    0x180: "IFM2_BROADCAST",
    0x181: "IFM2_SCALAR",
    0x185: "IFM2_PRECISION",
    0x189: "IFM2_ZERO_POINT",
    0x18A: "IFM2_WIDTH0_M1",
    0x18B: "IFM2_HEIGHT0_M1",
    0x18C: "IFM2_HEIGHT1_M1",
    0x18D: "IFM2_IB_START",
    0x18F: "IFM2_REGION",
}

CMD1 = {
    0x000: "IFM_BASE0",
    0x001: "IFM_BASE1",
    0x002: "IFM_BASE2",
    0x003: "IFM_BASE3",
    0x004: "IFM_STRIDE_X",
    0x005: "IFM_STRIDE_Y",
    0x006: "IFM_STRIDE_C",
    0x010: "OFM_BASE0",
    0x011: "OFM_BASE1",
    0x012: "OFM_BASE2",
    0x013: "OFM_BASE3",
    0x014: "OFM_STRIDE_X",
    0x015: "OFM_STRIDE_Y",
    0x016: "OFM_STRIDE_C",
    0x020: "WEIGHT_BASE",
    0x021: "WEIGHT_LENGTH",
    0x022: "SCALE_BASE",
    0x023: "SCALE_LENGTH",
    0x024: "OFM_SCALE",
    0x025: "OPA_SCALE",
    0x026: "OPB_SCALE",
    0x030: "DMA0_SRC",
    0x031: "DMA0_DST",
    0x032: "DMA0_LEN",
    0x033: "DMA0_SKIP0",
    0x034: "DMA0_SKIP1",
    0x080: "IFM2_BASE0",
    0x081: "IFM2_BASE1",
    0x082: "IFM2_BASE2",
    0x083: "IFM2_BASE3",
    0x084: "IFM2_STRIDE_X",
    0x085: "IFM2_STRIDE_Y",
    0x086: "IFM2_STRIDE_C",
    0x090: "WEIGHT1_BASE",
    0x091: "WEIGHT1_LENGTH",
    0x092: "SCALE1_BASE",
    0x093: "SCALE1_LENGTH",
}

DecodedFM = namedtuple("DecodedFM", "region bases h0 h1 w0 sx sy sc elem nhcwb16 height width depth")
AddrRange = namedtuple("AddrRange", "region address length")


class DecodedOp:
    def __init__(self, kind, index, word_offset):
        self.kind = kind  # "conv", "depthwise", "pool", "elementwise", "dma"
        self.index = index
        self.word_offset = word_offset
        self.ifm = None
        self.ifm2 = None
        self.ofm = None
        self.weights = []
        self.scales = []
        self.lut_slot = None  # (address, length) in SHRAM
        self.src = None
        self.dst = None
        self.kernel_wait = None  # value of a KERNEL_WAIT issued just before this op
        self.dma_wait = None
        self.info = ""

    def __repr__(self):
        return f"<op#{self.index} {self.kind} {self.info}>"


def command_stream_words(payload):
    """Extracts the register command words from the driver payload of an Ethos-U custom operator."""
    data = bytes(payload)
    words = struct.unpack(f"<{len(data) // 4}I", data[: len(data) // 4 * 4])
    assert words[0] == struct.unpack("<I", b"COP1")[0], "not a driver payload"
    i = 1
    while i < len(words):
        tag = words[i] & 0xFF
        if tag == 0x01:  # config: tag + 2 words
            i += 3
        elif tag == 0x05:  # NOP
            i += 1
        elif tag == 0x02:  # command stream
            length = ((words[i] >> 8) & 0xFF) << 16 | (words[i] >> 16)
            return list(words[i + 1 : i + 1 + length])
        else:
            i += 1
    raise AssertionError("no command stream in payload")


def _fm(regs, p, height, width, depth):
    prec = regs.get(p + "_PRECISION", 0)
    if p == "OFM":
        elem = 1 << ((prec >> 1) & 3)
    else:
        elem = 1 << ((prec >> 2) & 3)
    nhcwb16 = bool(prec & (1 << 6))
    return DecodedFM(
        region=regs.get(p + "_REGION", 0),
        bases=[regs.get(f"{p}_BASE{i}", 0) for i in range(4)],
        h0=regs.get(p + "_HEIGHT0_M1", 0) + 1,
        h1=regs.get(p + "_HEIGHT1_M1", 0) + 1,
        w0=regs.get(p + "_WIDTH0_M1", 0) + 1,
        sx=regs.get(p + "_STRIDE_X", 0),
        sy=regs.get(p + "_STRIDE_Y", 0),
        sc=regs.get(p + "_STRIDE_C", 0),
        elem=elem,
        nhcwb16=nhcwb16,
        height=height,
        width=width,
        depth=depth,
    )


def decode_command_stream(words, lut_base, ncores=1):
    """Returns the list of operations (kernels and DMAs) the command stream performs, in program order."""
    regs = {}
    ops = []
    pending_kernel_wait = None
    pending_dma_wait = None
    i = 0
    while i < len(words):
        w = words[i]
        code = w & 0x3FF
        param = w >> 16
        has_payload = bool(w & 0x4000)
        if has_payload:
            name = CMD1.get(code, f"CMD1_{code:#x}")
            value = words[i + 1] | (param << 32)
            if name.endswith("LENGTH") or name.endswith("SCALE"):
                value = words[i + 1]
            regs[name] = value
            i += 2
            continue
        name = CMD0.get(code, f"CMD0_{code:#x}")
        word_offset = i
        i += 1
        if not name.startswith("OP_"):
            if name in ("IFM_ZERO_POINT", "OFM_ZERO_POINT", "IFM2_ZERO_POINT", "ACTIVATION_MIN", "ACTIVATION_MAX"):
                param = param - 0x10000 if param & 0x8000 else param
            regs[name] = param
            continue
        if name == "OP_STOP":
            break
        if name == "OP_KERNEL_WAIT":
            pending_kernel_wait = param & 0xF
            continue
        if name == "OP_DMA_WAIT":
            pending_dma_wait = param & 0xF
            continue
        if name == "OP_IRQ":
            continue
        if name == "OP_DMA_START":
            op = DecodedOp("dma", len(ops), word_offset)
            length = regs.get("DMA0_LEN", 0)
            op.src = AddrRange(regs.get("DMA0_SRC_REGION", 0), regs.get("DMA0_SRC", 0), length)
            op.dst = AddrRange(regs.get("DMA0_DST_REGION", 0), regs.get("DMA0_DST", 0), length)
            op.info = f"{op.src} -> {op.dst}"
        else:
            kind = {"OP_CONV": "conv", "OP_DEPTHWISE": "depthwise", "OP_POOL": "pool", "OP_ELEMENTWISE": "elementwise"}[
                name
            ]
            op = DecodedOp(kind, len(ops), word_offset)
            ofm_h = regs.get("OFM_HEIGHT_M1", 0) + 1
            ofm_w = regs.get("OFM_WIDTH_M1", 0) + 1
            ofm_d = regs.get("OFM_DEPTH_M1", 0) + 1
            op.ofm = _fm(regs, "OFM", ofm_h, ofm_w, ofm_d)
            ifm_d = regs.get("IFM_DEPTH_M1", 0) + 1
            if kind == "elementwise":
                op.ifm = _fm(regs, "IFM", ofm_h, ofm_w, ifm_d)
                mode = param
                unary = mode in (5, 6, 7)  # LRELU, ABS, CLZ
                if not unary:
                    bc = regs.get("IFM2_BROADCAST", 0)
                    if not (bc & (1 << 7)):  # not a scalar
                        h2 = 1 if bc & 1 else ofm_h
                        w2 = 1 if bc & 2 else ofm_w
                        d2 = 1 if bc & 4 else ofm_d
                        op.ifm2 = _fm(regs, "IFM2", h2, w2, d2)
                op.info = f"mode={mode}"
            else:
                kh = regs.get("KERNEL_HEIGHT_M1", 0) + 1
                kw = regs.get("KERNEL_WIDTH_M1", 0) + 1
                ks = regs.get("KERNEL_STRIDE", 0)
                sx = 1 + ((ks & 1) | (((ks >> 6) & 7) << 1))
                sy = 1 + (((ks >> 1) & 1) | (((ks >> 9) & 7) << 1))
                up = regs.get("IFM_UPSCALE", 0)
                need_h = (ofm_h - 1) * sy + kh - regs.get("IFM_PAD_TOP", 0) - regs.get("IFM_PAD_BOTTOM", 0)
                need_w = (ofm_w - 1) * sx + kw - regs.get("IFM_PAD_LEFT", 0) - regs.get("IFM_PAD_RIGHT", 0)
                if up:
                    need_h = -(-need_h // 2)
                    need_w = -(-need_w // 2)
                need_h = max(need_h, 1)
                need_w = max(need_w, 1)
                if kind == "conv":
                    depth = ifm_d
                elif kind == "pool" and param == 2:  # REDUCE_SUM
                    depth = ifm_d
                else:
                    depth = ofm_d
                op.ifm = _fm(regs, "IFM", need_h, need_w, depth)
                op.info = f"k={kh}x{kw} s={sy}x{sx} up={up}"
                if kind in ("conv", "depthwise"):
                    wr = regs.get("WEIGHT_REGION", 0)
                    sr = regs.get("SCALE_REGION", 0)
                    if regs.get("WEIGHT_LENGTH", 0):
                        op.weights.append(AddrRange(wr, regs.get("WEIGHT_BASE", 0), regs["WEIGHT_LENGTH"]))
                    if regs.get("SCALE_LENGTH", 0):
                        op.scales.append(AddrRange(sr, regs.get("SCALE_BASE", 0), regs["SCALE_LENGTH"]))
                    if ncores > 1:
                        if regs.get("WEIGHT1_LENGTH", 0):
                            op.weights.append(AddrRange(wr, regs.get("WEIGHT1_BASE", 0), regs["WEIGHT1_LENGTH"]))
                        if regs.get("SCALE1_LENGTH", 0):
                            op.scales.append(AddrRange(sr, regs.get("SCALE1_BASE", 0), regs["SCALE1_LENGTH"]))
            act = regs.get("ACTIVATION", 0) & 0x1F
            if act >= 16:
                slot = act - 16
                ifm_prec = (regs.get("IFM_PRECISION", 0) >> 2) & 3
                size = 256 if ifm_prec == 0 else 2048
                op.lut_slot = (lut_base + slot * size, size)
        op.kernel_wait = pending_kernel_wait
        op.dma_wait = pending_dma_wait
        pending_kernel_wait = None
        pending_dma_wait = None
        ops.append(op)
    return ops


def fm_addresses(fm):
    """All byte offsets (inside the region) of the elements of the decoded feature map, as a flat int64 array."""
    ys = np.arange(fm.height, dtype=np.int64)
    xs = np.arange(fm.width, dtype=np.int64)
    cs = np.arange(fm.depth, dtype=np.int64)
    # tile selection
    left = xs < fm.w0
    x_in_tile = np.where(left, xs, xs - fm.w0)
    res = []
    for is_left in (True, False):
        xsel = x_in_tile[left == is_left]
        if xsel.size == 0:
            continue
        hsplit = fm.h0 if is_left else fm.h1
        top = ys < hsplit
        for is_top in (True, False):
            ysel = ys[top == is_top]
            if ysel.size == 0:
                continue
            y_in_tile = ysel if is_top else ysel - hsplit
            tile = (0 if is_left else 1) + (0 if is_top else 2)
            base = fm.bases[tile]
            if fm.nhcwb16:
                c_off = (cs // 16) * fm.sc + (cs % 16) * fm.elem
                x_off = xsel * fm.sx
            else:
                c_off = cs * fm.elem
                x_off = xsel * fm.sx
            a = base + y_in_tile[:, None, None] * fm.sy + x_off[None, :, None] + c_off[None, None, :]
            res.append(a.reshape(-1))
    addrs = np.concatenate(res) if res else np.zeros(0, np.int64)
    if fm.elem > 1:
        addrs = (addrs[:, None] + np.arange(fm.elem, dtype=np.int64)[None, :]).reshape(-1)
    return addrs


# ---------------------------------------------------------------------------------------------------------------------
# Shadow memory
# ---------------------------------------------------------------------------------------------------------------------

UNDEFINED = 0
CLOBBERED = -1


class Violation:
    def __init__(self, kind, text):
        self.kind = kind
        self.text = text

    def __repr__(self):
        return f"[{self.kind}] {self.text}"


class Shadow:
    """Per byte: identity of the defining tensor, index of the writing event, offset in the source constant, value"""

    def __init__(self):
        self.ident = {}
        self.writer = {}
        self.offs = {}
        self.val = {}
        self.names = {0: "<undefined>", -1: "<clobbered>"}
        self.ids = {}
        self.events = ["<none>"]

    def region(self, r, size=0):
        if r not in self.ident:
            self.ident[r] = np.zeros(size, np.int32)
            self.writer[r] = np.zeros(size, np.int32)
            self.offs[r] = np.full(size, -1, np.int64)
            self.val[r] = np.zeros(size, np.uint8)
        elif size > self.ident[r].size:
            grow = size - self.ident[r].size
            self.ident[r] = np.concatenate([self.ident[r], np.zeros(grow, np.int32)])
            self.writer[r] = np.concatenate([self.writer[r], np.zeros(grow, np.int32)])
            self.offs[r] = np.concatenate([self.offs[r], np.full(grow, -1, np.int64)])
            self.val[r] = np.concatenate([self.val[r], np.zeros(grow, np.uint8)])
        return r

    def ensure(self, r, end):
        self.region(r, int(end))

    def tensor_id(self, tens):
        key = tens.equivalence_id
        if key not in self.ids:
            self.ids[key] = len(self.ids) + 1
            self.names[self.ids[key]] = tens.name
        return self.ids[key]

    def event(self, text):
        self.events.append(text)
        return len(self.events) - 1

    def write(self, r, addrs, tid, ev, offs=None, vals=None):
        if addrs.size == 0:
            return
        self.ensure(r, addrs.max() + 1)
        self.ident[r][addrs] = tid
        self.writer[r][addrs] = ev
        self.offs[r][addrs] = -1 if offs is None else offs
        if vals is not None:
            self.val[r][addrs] = vals

    def describe(self, r, addrs, bad_mask, limit=3):
        bad = addrs[bad_mask]
        ids, counts = np.unique(self.ident[r][bad], return_counts=True)
        parts = []
        for tid, cnt in list(zip(ids, counts))[:limit]:
            sel = bad[self.ident[r][bad] == tid]
            evs = np.unique(self.writer[r][sel])
            parts.append(
                f"{cnt} bytes last defined as '{self.names.get(int(tid), tid)}'"
                f" by {[self.events[int(e)] for e in evs[:2]]} (first at region {r} offset {int(sel.min())})"
            )
        return "; ".join(parts)


# ---------------------------------------------------------------------------------------------------------------------
# Simulation of the whole compiled network
# ---------------------------------------------------------------------------------------------------------------------


def _np_bytes(values, dtype):
    arr = np.asarray(values)
    return np.frombuffer(arr.astype(dtype.as_numpy_type()).tobytes(), dtype=np.uint8)


def _linear_extent(tens):
    """byte offsets (relative to the tensor address) that hold the elements of a tensor written/read by the CPU"""
    n = int(np.prod(tens.shape)) if len(tens.shape) else 1
    return np.arange(n * tens.element_size(), dtype=np.int64)


def region_of(tens, arch):
    from ethosu.vela.tensor import MemType

    if tens.mem_type in (MemType.Permanent_NPU, MemType.Permanent_CPU):
        return 0
    if tens.mem_type == MemType.Scratch:
        return 1
    if tens.mem_type == MemType.Scratch_fast:
        return 2 if arch.is_spilling_enabled() else 1
    return None


def check_network(nng, arch, verbose=False, check_async=True, out_file=None, check_outputs=False):
    """Symbolically executes the compiled network. Returns a list of Violation.
    If out_file is given, the command streams and the constant data are taken from the written .tflite file."""
    from ethosu.vela.high_level_command_stream import DMA
    from ethosu.vela.high_level_command_stream import NOP
    from ethosu.vela.high_level_command_stream import NpuStripe
    from ethosu.vela.nn_graph import PassPlacement
    from ethosu.vela.operation import Op
    from ethosu.vela.tensor import MemType
    from ethosu.vela.tensor import TensorPurpose

    sh = Shadow()
    violations = []
    root = nng.get_root_subgraph()
    file_ops = read_output_file(out_file) if out_file else None
    npu_call_count = [0]
    lut_base = arch.shram_lut_address
    sh.region(SHRAM_REGION, arch.shram_size_bytes)

    def arena_region(tens):
        return region_of(tens, arch)

    def define_tensor_cpu(tens, why):
        r = arena_region(tens)
        if r is None or tens.address is None or r == 0:
            return
        ext = _linear_extent(tens) + int(tens.address)
        sh.write(r, ext, sh.tensor_id(tens), sh.event(why))

    # Network inputs are defined by the application
    for tens in root.input_tensors:
        define_tensor_cpu(tens, f"network input {tens.name}")

    # Constants of the NPU subgraphs, as stored in the flash tensor of the output file
    flash_defined = False

    def define_flash(sg, file_flash=None):
        nonlocal flash_defined
        if flash_defined or sg.flash_tensor is None:
            return
        flash_defined = True
        flash = np.asarray(sg.flash_tensor.values if file_flash is None else file_flash, dtype=np.uint8)
        sh.region(0, flash.size)
        sh.val[0][: flash.size] = flash

    def tag_flash_constants(sg):
        # identity of the constant stored at every flash offset (what the compiler says is there)
        for sched_op in sg.sched_ops:
            op_info = sg.schedule.cost_map[sched_op]
            for t in (op_info.npu_weights_tensor, op_info.npu_scales_tensor):
                if t is not None and t.address is not None:
                    n = len(t.buffer)
                    a = np.arange(n, dtype=np.int64) + int(t.address)
                    sh.ensure(0, a.max() + 1 if n else 0)
                    tid = sh.tensor_id(t)
                    # do not overwrite the values: they come from the file
                    sh.ident[0][a] = tid
                    sh.writer[0][a] = sh.event(f"constant {t.name}")
                    sh.offs[0][a] = np.arange(n, dtype=np.int64)
            ifm, ifm2, _, _, _ = sched_op.parent_op.get_ifm_ifm2_weights_biases_ofm()
            consts = [t for t in (ifm, ifm2) if t is not None and t.mem_type not in (MemType.Scratch, MemType.Scratch_fast)]
            if sched_op.parent_op.activation_lut:
                consts.append(sched_op.parent_ps.lut_tensor)
            for t in consts:
                if t is None or t.values is None or t.address is None:
                    continue
                n = int(np.prod(t.values.shape)) * t.element_size()
                a = np.arange(n, dtype=np.int64) + int(t.address)
                sh.ensure(0, a.max() + 1)
                sh.ident[0][a] = sh.tensor_id(t)
                sh.writer[0][a] = sh.event(f"constant {t.name}")
                sh.offs[0][a] = np.arange(n, dtype=np.int64)

    def expect_const_content(t):
        """bytes the constant must have in the output file"""
        if hasattr(t, "buffer") and t.buffer is not None and len(t.buffer):
            return np.frombuffer(bytes(t.buffer), dtype=np.uint8)
        return _np_bytes(t.values, t.dtype)

    def check_read(opdesc, what, r, addrs, expect_tens, exact_const=None):
        if addrs.size == 0:
            return
        sh.ensure(r, addrs.max() + 1)
        ids = sh.ident[r][addrs]
        exp = sh.tensor_id(expect_tens) if expect_tens is not None else None
        if exp is None:
            bad = ids <= 0
        else:
            bad = ids != exp
        if bad.any():
            und = int((ids[bad] == UNDEFINED).sum())
            kind = "undefined" if und == int(bad.sum()) else "foreign"
            violations.append(
                Violation(
                    kind,
                    f"{opdesc}: {what} ({expect_tens.name if expect_tens is not None else '?'}) reads {int(bad.sum())} of"
                    f" {addrs.size} bytes that do not hold it: {sh.describe(r, addrs, bad)}",
                )
            )
            return
        if exact_const is not None:
            # the bytes must be the right part of the constant and have the value the constant has
            offs = sh.offs[r][addrs]
            content = expect_const_content(exact_const)
            ok = (offs >= 0) & (offs < content.size)
            vals_ok = np.zeros(addrs.size, bool)
            vals_ok[ok] = sh.val[r][addrs][ok] == content[offs[ok]]
            if not vals_ok.all():
                violations.append(
                    Violation(
                        "content",
                        f"{opdesc}: {what} ({exact_const.name}): {int((~vals_ok).sum())} of {addrs.size} bytes differ from"
                        f" the constant's data",
                    )
                )

    def run_npu_subgraph(sg, npu_op):
        payload = sg.command_stream_tensor.values
        file_flash = None
        if file_ops is not None:
            if npu_call_count[0] >= len(file_ops):
                violations.append(Violation("decode", f"{sg.name}: no Ethos-U operator #{npu_call_count[0]} in the file"))
                return
            payload, file_flash = file_ops[npu_call_count[0]]
            npu_call_count[0] += 1
        define_flash(sg, file_flash)
        tag_flash_constants(sg)
        words = command_stream_words(payload)
        ops = decode_command_stream(words, lut_base, arch.ncores)
        n_real = sum(1 for c in sg.high_level_command_stream if not isinstance(c, NOP))
        if n_real != len(ops):
            violations.append(Violation("decode", f"{sg.name}: {len(ops)} operations decoded, {n_real} commands"))
            return
        outstanding_kernels = []  # (op, reads, writes)
        outstanding_dmas = []
        op_iter = iter(ops)
        for cmd in sg.high_level_command_stream:
            if isinstance(cmd, NOP):
                # A memory-only operator (RESHAPE ...) whose source and destination have been given the same storage: no
                # command is emitted, the bytes of the source now are the destination tensor
                src_t, dst_t = cmd.in_tensor, cmd.out_tensor
                r = arena_region(dst_t)
                if r is not None and dst_t.address is not None and src_t.address == dst_t.address:
                    a = _linear_extent(dst_t) + int(dst_t.address)
                    sh.ensure(r, a.max() + 1)
                    sel = a[sh.ident[r][a] == sh.tensor_id(src_t)]
                    sh.ident[r][sel] = sh.tensor_id(dst_t)
                continue
            op = next(op_iter)
            desc = f"{sg.name} op#{op.index} {op.kind}"
            if op.kernel_wait is not None:
                outstanding_kernels = outstanding_kernels[len(outstanding_kernels) - op.kernel_wait :] if op.kernel_wait else []
            if op.dma_wait is not None:
                outstanding_dmas = outstanding_dmas[len(outstanding_dmas) - op.dma_wait :] if op.dma_wait else []
            reads = []
            writes = []
            if op.kind == "dma":
                assert isinstance(cmd, DMA), (op, cmd)
                desc += f" ({cmd.in_tensor.name} -> {cmd.out_tensor.name})"
                src = np.arange(op.src.length, dtype=np.int64) + op.src.address
                dst = np.arange(op.dst.length, dtype=np.int64) + op.dst.address
                sh.ensure(op.src.region, src.max() + 1)
                ids = sh.ident[op.src.region][src]
                exp = sh.tensor_id(cmd.in_tensor)
                # only the bytes of the source tensor have to be defined (the length is rounded up to 16)
                if cmd.in_tensor.purpose == TensorPurpose.Weights or hasattr(cmd.in_tensor, "buffer"):
                    n_src = op.src.length
                else:
                    n_src = min(op.src.length, int(np.prod(cmd.in_tensor.shape)) * cmd.in_tensor.element_size())
                bad = ids[:n_src] != exp
                if bad.any():
                    violations.append(
                        Violation(
                            "foreign" if (ids[:n_src][bad] != 0).any() else "undefined",
                            f"{desc}: DMA source reads {int(bad.sum())} bytes that do not hold {cmd.in_tensor.name}: "
                            + sh.describe(op.src.region, src[:n_src], bad),
                        )
                    )
                ev = sh.event(desc)
                sh.ensure(op.dst.region, dst.max() + 1)
                if cmd.out_tensor.purpose == TensorPurpose.LUT or cmd.in_tensor.purpose == TensorPurpose.Weights:
                    # the copy keeps the identity of the constant (and the position inside it)
                    sh.ident[op.dst.region][dst] = ids
                    sh.offs[op.dst.region][dst] = sh.offs[op.src.region][src]
                else:
                    # feature map copy: the destination tensor is defined
                    sh.ident[op.dst.region][dst] = np.where(ids > 0, sh.tensor_id(cmd.out_tensor), ids)
                    sh.offs[op.dst.region][dst] = -1
                sh.writer[op.dst.region][dst] = ev
                sh.val[op.dst.region][dst] = sh.val[op.src.region][src]
                reads.append((op.src.region, src))
                writes.append((op.dst.region, dst))
                if check_async:
                    for kop, kreads, kwrites in outstanding_kernels:
                        for (r1, a1) in kreads + kwrites:
                            if r1 == op.dst.region and np.intersect1d(a1, dst).size:
                                violations.append(
                                    Violation("race", f"{desc}: DMA may overwrite memory that {kop} still accesses")
                                )
                        for (r1, a1) in kwrites:
                            if r1 == op.src.region and np.intersect1d(a1, src).size:
                                violations.append(Violation("race", f"{desc}: DMA may read memory that {kop} still writes"))
                    outstanding_dmas.append((op, reads, writes))
                    # the hardware accepts a new DMA only when fewer than max_outstanding_dma are in flight
                    outstanding_dmas = outstanding_dmas[-arch.max_outstanding_dma :]
                continue

            assert isinstance(cmd, NpuStripe), (op, cmd)
            desc += f" '{cmd.ps.primary_op.name}'"
            # ---- reads
            a_ifm = fm_addresses(op.ifm)
            check_read(desc, "IFM", op.ifm.region, a_ifm, cmd.ifm_tensor, _const_or_none(cmd.ifm_tensor))
            reads.append((op.ifm.region, a_ifm))
            if op.ifm2 is not None:
                a_ifm2 = fm_addresses(op.ifm2)
                check_read(desc, "IFM2", op.ifm2.region, a_ifm2, cmd.ifm2_tensor, _const_or_none(cmd.ifm2_tensor))
                reads.append((op.ifm2.region, a_ifm2))
            if op.kind in ("conv", "depthwise"):
                wt = cmd.weight_tensor
                src_w = wt.src_tensor if wt is not None and wt.src_tensor is not None else wt
                if not op.weights:
                    violations.append(Violation("undefined", f"{desc}: no weight stream is given to the operation"))
                for rng in op.weights:
                    a = np.arange(rng.length, dtype=np.int64) + rng.address
                    _check_weight_range(sh, violations, desc, "weights", rng, a, src_w, cmd, arch)
                    reads.append((rng.region, a))
                scale_src = cmd.scale_tensor if cmd.scale_tensor is not None else src_w
                for rng in op.scales:
                    a = np.arange(rng.length, dtype=np.int64) + rng.address
                    _check_weight_range(sh, violations, desc, "scales", rng, a, scale_src, cmd, arch, scales=True)
                    reads.append((rng.region, a))
            if op.lut_slot is not None:
                a = np.arange(op.lut_slot[1], dtype=np.int64) + op.lut_slot[0]
                lut_tens = cmd.ps.lut_tensor
                src_lut = lut_tens.src_tensor if lut_tens is not None and lut_tens.src_tensor is not None else lut_tens
                # the SHRAM copy has the equivalence id of the flash constant
                check_read(desc, "LUT", SHRAM_REGION, a, src_lut if src_lut is not None else None)
                reads.append((SHRAM_REGION, a))
            elif arch.shram_reserved_unused_banks == 0:
                # an operation without a table is free to use the whole SHRAM (no banks are set aside for the tables on
                # this configuration): resident tables are lost
                a = np.arange(arch.shram_lut_size, dtype=np.int64) + lut_base
                sh.ident[SHRAM_REGION][a] = CLOBBERED
                sh.writer[SHRAM_REGION][a] = sh.event(desc + " (SHRAM use)")
            if check_async:
                for dop, dreads, dwrites in outstanding_dmas:
                    for (r1, a1) in dwrites:
                        for (r2, a2) in reads:
                            if r1 == r2 and np.intersect1d(a1, a2).size:
                                violations.append(
                                    Violation("race", f"{desc}: reads memory that DMA {dop} may not have written yet")
                                )
            # ---- writes
            a_ofm = fm_addresses(op.ofm)
            sh.write(op.ofm.region, a_ofm, sh.tensor_id(cmd.ofm_tensor), sh.event(desc))
            writes.append((op.ofm.region, a_ofm))
            if check_async:
                for dop, dreads, dwrites in outstanding_dmas:
                    for (r1, a1) in dwrites + dreads:
                        if r1 == op.ofm.region and np.intersect1d(a1, a_ofm).size:
                            violations.append(Violation("race", f"{desc}: writes memory that DMA {dop} still accesses"))
                outstanding_kernels.append((op, reads, writes))
                outstanding_kernels = outstanding_kernels[-arch.max_outstanding_kernels :]

    def _const_or_none(t):
        if t is not None and t.mem_type not in (MemType.Scratch, MemType.Scratch_fast) and t.values is not None:
            return t
        return None

    # Operators of the output file in execution order
    for ps in root.passes:
        for op in ps.ops:
            if op.type in (Op.Const, Op.Placeholder, Op.SubgraphInput):
                continue
            if op.type == Op.CustomNpuOp:
                sg = op.attrs["subgraph"]
                # inputs that the CPU side provides must be defined
                for t in sg.input_tensors:
                    r = arena_region(t)
                    if r in (1, 2) and t.address is not None:
                        a = _linear_extent(t) + int(t.address)
                        # (the NPU reads are checked per operation; nothing to do here)
                run_npu_subgraph(sg, op)
                continue
            # CPU operator: reads its inputs, defines its outputs
            for t in op.inputs:
                if t is None or t.values is not None:
                    continue
                r = arena_region(t)
                if r in (1, 2) and t.address is not None:
                    a = _linear_extent(t) + int(t.address)
                    sh.ensure(r, a.max() + 1)
                    ids = sh.ident[r][a]
                    bad = ids != sh.tensor_id(t)
                    if bad.any():
                        violations.append(
                            Violation(
                                "cpu-read",
                                f"CPU operator {op.name} reads {int(bad.sum())} bytes of {t.name} that do not hold it: "
                                + sh.describe(r, a, bad),
                            )
                        )
            for t in op.outputs:
                define_tensor_cpu(t, f"CPU operator {op.name}")
    if check_outputs:
        # (not an NPU read: reported separately) the application reads the network outputs after the last operator
        for t in root.output_tensors:
            r = arena_region(t)
            if r in (1, 2) and t.address is not None and t.values is None:
                a = _linear_extent(t) + int(t.address)
                sh.ensure(r, a.max() + 1)
                bad = sh.ident[r][a] != sh.tensor_id(t)
                if bad.any():
                    violations.append(
                        Violation(
                            "output",
                            f"network output {t.name}: {int(bad.sum())} of {a.size} bytes do not hold it at the end: "
                            + sh.describe(r, a, bad),
                        )
                    )
    return violations


def _check_weight_range(sh, violations, desc, what, rng, addrs, src_tens, cmd, arch, scales=False):
    """The range must hold a part of the encoded stream of src_tens: defined, from that constant, contiguous, right values"""
    r = rng.region
    sh.ensure(r, addrs.max() + 1)
    ids = sh.ident[r][addrs]
    exp = sh.tensor_id(src_tens)
    bad = ids != exp
    if bad.any():
        kind = "undefined" if (ids[bad] == 0).all() else "foreign"
        violations.append(
            Violation(
                kind,
                f"{desc}: {what} range {rng} reads {int(bad.sum())} of {addrs.size} bytes that do not hold"
                f" {src_tens.name}: {sh.describe(r, addrs, bad)}",
            )
        )
        return
    offs = sh.offs[r][addrs]
    content = np.frombuffer(bytes(src_tens.buffer), dtype=np.uint8)
    if (offs < 0).any() or (np.diff(offs) != 1).any() or offs[-1] >= content.size:
        violations.append(Violation("content", f"{desc}: {what} range {rng} is not a contiguous part of {src_tens.name}"))
        return
    if not np.array_equal(sh.val[r][addrs], content[offs]):
        violations.append(Violation("content", f"{desc}: {what} range {rng} differs from the data of {src_tens.name}"))
        return
    # the part must be the one that belongs to the OFM depth slice of the command
    depth = int(cmd.weight_box.start_coord[-1])
    starts = []
    for (core, d), wr in src_tens.encoded_ranges.items():
        if d == depth:
            starts.append(wr.offset if scales else wr.offset + wr.weight_offset)
    if starts and int(offs[0]) not in starts:
        violations.append(
            Violation(
                "content",
                f"{desc}: {what} range {rng} holds offset {int(offs[0])} of {src_tens.name}, the stream of depth {depth}"
                f" starts at {starts}",
            )
        )


def check_model(tflite_bytes, verbose=False, check_outputs=False, **kwargs):
    import shutil

    nng, arch, out_file = compile_model(tflite_bytes, **kwargs)
    try:
        return check_network(nng, arch, verbose=verbose, out_file=out_file, check_outputs=check_outputs), nng, arch
    finally:
        shutil.rmtree(os.path.dirname(out_file), ignore_errors=True)


def describe_schedule(nng):
    from ethosu.vela.nn_graph import PassPlacement

    lines = []
    for sg in nng.subgraphs:
        if sg.placement != PassPlacement.Npu:
            continue
        for sched_op in sg.sched_ops:
            ci = sg.schedule.cost_map[sched_op]
            lines.append(
                f"{sg.name} {sched_op.name}: cascade={ci.cascade} stripe={ci.stripe} slices={ci.ofm_depth_slices}"
                f" buffers={[ (t.name, t.sub_purpose.name, t.storage_size()) for t in ci.buffered_weight_tensors]}"
            )
    return lines

# A corpus of small generated networks and compiler configurations for the C03 oracle
from c03_model import ModelBuilder
from ethosu.vela.data_type import DataType
from ethosu.vela.operation import Op


def m_conv_chain(h=64, w=64, c=8, oc=16, dtype=DataType.int8):
    b = ModelBuilder(dtype)
    x = b.input([1, h, w, c])
    y = b.conv2d(x, oc, 3, act=Op.Relu)
    y = b.conv2d(y, oc, 3)
    y = b.dwconv(y, 3)
    y = b.conv2d(y, oc * 2, 1)
    y = b.pool(y)
    b.output(y)
    return b.tflite()


def m_valid_chain(h=48, w=48, c=8, oc=16, k=3):
    b = ModelBuilder()
    x = b.input([1, h, w, c])
    y = b.conv2d(x, oc, 3, act=Op.Relu)
    y = b.conv2d(y, oc, k, padding="VALID")
    y = b.dwconv(y, k, padding="VALID")
    y = b.conv2d(y, oc, k, padding="VALID")
    y = b.pool(y, "avg", 3, 1, "VALID")
    b.output(y)
    return b.tflite()


def m_stride2(h=64, w=64):
    b = ModelBuilder()
    x = b.input([1, h, w, 3])
    y = b.conv2d(x, 16, 3, stride=2, act=Op.Relu6)
    y = b.dwconv(y, 3, act=Op.Relu6)
    y = b.conv2d(y, 24, 1)
    y = b.dwconv(y, 3, stride=2)
    y = b.conv2d(y, 32, 1)
    y = b.pool(y, "max", 3, 2, "SAME")
    b.output(y)
    return b.tflite()


def m_residual(h=40, w=40, c=16):
    b = ModelBuilder()
    x = b.input([1, h, w, c])
    y = b.conv2d(x, c, 3, act=Op.Relu)
    z = b.conv2d(y, c, 3)
    z = b.conv2d(z, c, 3)
    a = b.add(y, z, act=Op.Relu)
    q = b.conv2d(a, c, 1)
    r = b.add(a, q)
    r = b.mul(r, x)
    b.output(r)
    return b.tflite()


def m_dilated(h=48, w=48):
    b = ModelBuilder()
    x = b.input([1, h, w, 8])
    y = b.conv2d(x, 16, 3)
    y = b.conv2d(y, 16, 3, dilation=2)
    y = b.conv2d(y, 16, 3, dilation=2, padding="VALID")
    y = b.conv2d(y, 16, 1)
    b.output(y)
    return b.tflite()


def m_concat(h=32, w=32):
    b = ModelBuilder()
    x = b.input([1, h, w, 8])
    p = b.conv2d(x, 16, 1)
    q = b.conv2d(x, 24, 3)
    r = b.pool(x, "max", 3, 1, "SAME")
    c = b.concat([p, q, r], 3)
    y = b.conv2d(c, 16, 3)
    b.output(y)
    return b.tflite()


def m_concat_h(h=16, w=32):
    b = ModelBuilder()
    x = b.input([1, h, w, 8])
    p = b.conv2d(x, 16, 3)
    q = b.conv2d(x, 16, 1)
    c = b.concat([p, q], 1)
    y = b.dwconv(c, 3)
    b.output(y)
    return b.tflite()


def m_lut(h=32, w=32, dtype=DataType.int8):
    b = ModelBuilder(dtype)
    x = b.input([1, h, w, 8])
    y = b.conv2d(x, 16, 3)
    t = b.tanh(y)
    s = b.sigmoid(y)
    m = b.mul(t, s, out_scale=1.0 / 128)
    l = b.leaky_relu(m)
    y2 = b.conv2d(l, 16, 3)
    t2 = b.tanh(y2)
    b.output(t2)
    return b.tflite()


def m_deep(h=8, w=8, c=128, oc=512):
    b = ModelBuilder()
    x = b.input([1, h, w, c])
    y = b.conv2d(x, oc, 1, act=Op.Relu)
    y = b.conv2d(y, c, 3)
    y = b.conv2d(y, oc, 1)
    b.output(y)
    return b.tflite()


def m_fc(n=1, c=256):
    b = ModelBuilder()
    x = b.input([n, c])
    y = b.fc(x, 128, act=Op.Relu)
    y = b.fc(y, 64)
    y = b.fc(y, 10)
    b.output(y)
    return b.tflite()


def m_cpu_mid(h=32, w=32):
    b = ModelBuilder()
    x = b.input([1, h, w, 8])
    y = b.conv2d(x, 16, 3)
    z = b.custom(y)
    q = b.conv2d(z, 16, 3)
    r = b.add(q, y)
    b.output(r)
    return b.tflite()


def m_reshape(h=16, w=16):
    b = ModelBuilder()
    x = b.input([1, h, w, 8])
    y = b.conv2d(x, 16, 3)
    r = b.reshape(y, [1, h * w, 1, 16])
    z = b.conv2d(r, 16, 1)
    r2 = b.reshape(z, [1, h, w, 16])
    a = b.add(r2, y)
    r3 = b.reshape(a, [1, h * w * 16])
    f = b.fc(r3, 10)
    b.output(f)
    return b.tflite()


def m_pad_slice(h=24, w=24):
    b = ModelBuilder()
    x = b.input([1, h, w, 8])
    y = b.conv2d(x, 16, 3)
    p = b.pad(y, [[0, 0], [1, 1], [1, 1], [0, 0]])
    z = b.conv2d(p, 16, 3, padding="VALID")
    s = b.strided_slice(z, [0, 2, 2, 0], [1, h - 2, w - 2, 8])
    q = b.conv2d(s, 8, 3)
    b.output(q)
    return b.tflite()


def m_resize(h=16, w=16):
    b = ModelBuilder()
    x = b.input([1, h, w, 8])
    y = b.conv2d(x, 16, 3)
    u = b.resize_nearest(y, 2)
    z = b.conv2d(u, 16, 3)
    b.output(z)
    return b.tflite()


def m_softmax():
    b = ModelBuilder()
    x = b.input([1, 64])
    y = b.fc(x, 32)
    s = b.softmax(y)
    b.output(s)
    return b.tflite()


def m_elem_const(h=32, w=32):
    b = ModelBuilder()
    x = b.input([1, h, w, 16])
    k = b.const([1, 1, 1, 16], base="chan")
    k2 = b.const([1, h, w, 16], base="full")
    y = b.conv2d(x, 16, 3)
    a = b.add(y, k)
    m = b.mul(a, k2)
    z = b.conv2d(m, 16, 3)
    b.output(z)
    return b.tflite()


def m_two_outputs(h=32, w=32):
    b = ModelBuilder()
    x = b.input([1, h, w, 8])
    y = b.conv2d(x, 16, 3)
    z = b.conv2d(y, 16, 3)
    q = b.pool(y)
    b.output(z)
    b.output(q)
    return b.tflite()


def m_big_cascade(h=96, w=96):
    b = ModelBuilder()
    x = b.input([1, h, w, 3])
    y = b.conv2d(x, 32, 3, act=Op.Relu)
    y = b.conv2d(y, 32, 3, act=Op.Relu)
    y = b.pool(y, "max", 2, 2)
    y = b.conv2d(y, 64, 3, act=Op.Relu)
    y = b.conv2d(y, 64, 3, act=Op.Relu)
    y = b.pool(y, "max", 2, 2)
    y = b.conv2d(y, 64, 5, padding="VALID")
    b.output(y)
    return b.tflite()


def m_int16(h=32, w=32):
    b = ModelBuilder(DataType.int16)
    x = b.input([1, h, w, 8], scale=0.001)
    y = b.conv2d(x, 16, 3, out_scale=0.001)
    z = b.dwconv(y, 3, out_scale=0.001)
    a = b.add(y, z, out_scale=0.002)
    t = b.tanh(a)
    b.output(t)
    return b.tflite()


MODELS = {
    "conv_chain": m_conv_chain,
    "valid_chain": m_valid_chain,
    "stride2": m_stride2,
    "residual": m_residual,
    "dilated": m_dilated,
    "concat": m_concat,
    "concat_h": m_concat_h,
    "lut": m_lut,
    "deep": m_deep,
    "fc": m_fc,
    "cpu_mid": m_cpu_mid,
    "reshape": m_reshape,
    "pad_slice": m_pad_slice,
    "resize": m_resize,
    "softmax": m_softmax,
    "elem_const": m_elem_const,
    "two_outputs": m_two_outputs,
    "big_cascade": m_big_cascade,
    "int16": m_int16,
}

CONFIGS = {
    "u55-128-shared": dict(accel="ethos-u55-128", system_config="Ethos_U55_High_End_Embedded", memory_mode="Shared_Sram"),
    "u55-64-sramonly": dict(accel="ethos-u55-64", system_config="Ethos_U55_Deep_Embedded", memory_mode="Sram_Only"),
    "u55-256-shared-size": dict(
        accel="ethos-u55-256", system_config="Ethos_U55_High_End_Embedded", memory_mode="Shared_Sram", optimise="Size"
    ),
    "u55-128-shared-small": dict(
        accel="ethos-u55-128",
        system_config="Ethos_U55_High_End_Embedded",
        memory_mode="Shared_Sram",
        arena_cache_size=40 * 1024,
    ),
    "u65-256-dedicated": dict(accel="ethos-u65-256", system_config="Ethos_U65_High_End", memory_mode="Dedicated_Sram"),
    "u65-512-dedicated-small": dict(
        accel="ethos-u65-512", system_config="Ethos_U65_High_End", memory_mode="Dedicated_Sram", arena_cache_size=48 * 1024
    ),
    "u65-512-shared": dict(accel="ethos-u65-512", system_config="Ethos_U65_Embedded", memory_mode="Shared_Sram"),
    "imx93-default": dict(accel="ethos-u65-256", config=None),
    "u55-128-shared-greedy": dict(
        accel="ethos-u55-128",
        system_config="Ethos_U55_High_End_Embedded",
        memory_mode="Shared_Sram",
        allocator="Greedy",
        optimise="Size",
    ),
}


# ------------------------------------------------------------------------------------------------ more unusual networks
def m_shared_weights(h=32, w=32):
    # the same weight and bias tensors feed two convolutions with different shapes of work
    b = ModelBuilder()
    x = b.input([1, h, w, 16])
    wt = b.const([32, 3, 3, 16], DataType.int8, base="wshared")
    bs = b.const([32], DataType.int32, base="bshared", scale=0.001, lo=-1000, hi=1000)
    y = b.conv2d_shared(x, wt, bs)
    p = b.pool(x, "max", 2, 2)
    z = b.conv2d_shared(p, wt, bs, out_scale=0.07)
    q = b.pool(y, "max", 2, 2)
    a = b.add(q, z)
    b.output(a)
    return b.tflite()


def m_odd_depth(h=24, w=24):
    b = ModelBuilder()
    x = b.input([1, h, w, 3])
    y = b.conv2d(x, 20, 3)
    z = b.conv2d(y, 17, 3)
    d = b.dwconv(z, 3)
    p = b.conv2d(d, 5, 1)
    c = b.concat([y, z, p], 3)
    o = b.conv2d(c, 1, 3)
    b.output(o)
    return b.tflite()


def m_tconv(h=12, w=12):
    b = ModelBuilder()
    x = b.input([1, h, w, 8])
    y = b.conv2d(x, 16, 3)
    t = b.transpose_conv(y, 16, 3, 2, "SAME")
    z = b.conv2d(t, 8, 3)
    t2 = b.transpose_conv(z, 8, 2, 2, "VALID")
    b.output(t2)
    return b.tflite()


def m_mean(h=14, w=14):
    b = ModelBuilder()
    x = b.input([1, h, w, 16])
    y = b.conv2d(x, 32, 3)
    m = b.mean(y, (1, 2), True)
    z = b.conv2d(m, 16, 1)
    s = b.mul(y, b.sigmoid(b.conv2d(z, 32, 1)), out_scale=0.05)
    b.output(s)
    return b.tflite()


def m_split(h=16, w=16):
    b = ModelBuilder()
    x = b.input([1, h, w, 16])
    y = b.conv2d(x, 32, 3)
    a, c = b.split(y, 2, 3)
    p = b.conv2d(a, 16, 3)
    q = b.dwconv(c, 3)
    r = b.add(p, q)
    u, v = b.split(r, 2, 1)
    o = b.concat([v, u], 1)
    b.output(o)
    return b.tflite()


def m_transpose(h=8, w=12):
    b = ModelBuilder()
    x = b.input([1, h, w, 16])
    y = b.conv2d(x, 16, 3)
    t = b.transpose(y, [0, 2, 1, 3])
    z = b.conv2d(t, 16, 3)
    b.output(z)
    return b.tflite()


def m_activations(h=16, w=16, dtype=DataType.int8):
    b = ModelBuilder(dtype)
    x = b.input([1, h, w, 16])
    y = b.conv2d(x, 16, 3)
    p = b.prelu(y)
    hs = b.hardswish(p)
    a = b.abs(hs)
    e = b.exp(a)
    mx = b.binary(Op.Maximum, e, y, out_scale=0.1)
    mn = b.binary(Op.Minimum, mx, p, out_scale=0.1)
    sb = b.binary(Op.Sub, mn, hs, out_scale=0.1)
    q = b.quantize(sb)
    b.output(q)
    return b.tflite()


def m_argmax(h=8, w=8):
    b = ModelBuilder()
    x = b.input([1, h, w, 16])
    y = b.conv2d(x, 24, 3)
    a = b.argmax(y, 3)
    b.output(a)
    return b.tflite()


def m_pack(h=8, w=8):
    b = ModelBuilder()
    x = b.input([1, h, w, 16])
    y = b.conv2d(x, 16, 3)
    s1 = b.squeeze(y, [0])
    z = b.conv2d(x, 16, 1)
    s2 = b.squeeze(z, [0])
    p = b.pack([s1, s2], 0)
    u = b.unpack(p, 0)
    r1 = b.reshape(u[0], [1, h, w, 16])
    r2 = b.reshape(u[1], [1, h, w, 16])
    o = b.add(r1, r2)
    b.output(o)
    return b.tflite()


def m_broadcast(h=16, w=16):
    b = ModelBuilder()
    x = b.input([1, h, w, 16])
    y = b.conv2d(x, 16, 3)
    m = b.mean(y, (1, 2), True)
    a = b.add(y, m)  # ifm2 broadcast over h and w (feature map, not constant)
    r = b.pool(y, "avg", (h, 1), (1, 1), "VALID")  # [1,1,w,16]
    mm = b.mul(r, a)  # ifm broadcast
    b.output(mm)
    return b.tflite()


def m_asym_kernels(h=32, w=32):
    b = ModelBuilder()
    x = b.input([1, h, w, 8])
    y = b.conv2d(x, 16, (1, 7))
    y = b.conv2d(y, 16, (7, 1))
    y = b.pool(y, "avg", (3, 2), (1, 1), "SAME")
    y = b.conv2d(y, 16, (5, 3), stride=(2, 1))
    y = b.pool(y, "max", (1, 3), (1, 3), "VALID")
    b.output(y)
    return b.tflite()


def m_two_npu_shared_const(h=16, w=16):
    b = ModelBuilder()
    x = b.input([1, h, w, 16])
    k = b.const([1, 1, 1, 16], base="shared_k")
    y = b.add(b.conv2d(x, 16, 3), k)
    t = b.tanh(y)
    c = b.custom(t)
    z = b.add(b.conv2d(c, 16, 3), k)
    t2 = b.tanh(z)
    b.output(t2)
    return b.tflite()


def m_inplace_chain(h=32, w=32):
    b = ModelBuilder()
    x = b.input([1, h, w, 16])
    k = b.const([1, 1, 1, 16], base="k")
    a = b.add(x, k)
    a = b.mul(a, k)
    a = b.leaky_relu(a)
    a = b.add(a, x)
    a = b.relu(a)
    b.output(a)
    b.output(x)
    return b.tflite()


def m_batch_fc(n=4):
    b = ModelBuilder()
    x = b.input([n, 64])
    y = b.fc(x, 48, act=Op.Relu)
    y = b.fc(y, 16)
    b.output(y)
    return b.tflite()


def m_wide_deep(h=6, w=6):
    b = ModelBuilder()
    x = b.input([1, h, w, 256])
    y = b.conv2d(x, 1024, 1, act=Op.Relu)
    y = b.dwconv(y, 3)
    y = b.conv2d(y, 256, 1)
    b.output(y)
    return b.tflite()


MODELS.update(
    {
        "shared_weights": m_shared_weights,
        "odd_depth": m_odd_depth,
        "tconv": m_tconv,
        "mean": m_mean,
        "split": m_split,
        "transpose": m_transpose,
        "activations": m_activations,
        "activations16": lambda: m_activations(dtype=DataType.int16),
        "argmax": m_argmax,
        "pack": m_pack,
        "broadcast": m_broadcast,
        "asym_kernels": m_asym_kernels,
        "two_npu_shared_const": m_two_npu_shared_const,
        "inplace_chain": m_inplace_chain,
        "batch_fc": m_batch_fc,
        "wide_deep": m_wide_deep,
        "lut16": lambda: m_lut(dtype=DataType.int16),
        "conv_chain16": lambda: m_conv_chain(dtype=DataType.int16),
    }
)

CONFIGS.update(
    {
        "u55-32-shared": dict(accel="ethos-u55-32", system_config="Ethos_U55_High_End_Embedded", memory_mode="Shared_Sram"),
        "u55-32-shared-size": dict(
            accel="ethos-u55-32", system_config="Ethos_U55_High_End_Embedded", memory_mode="Shared_Sram", optimise="Size"
        ),
        "u65-256-dedicated-small": dict(
            accel="ethos-u65-256", system_config="Ethos_U65_High_End", memory_mode="Dedicated_Sram", arena_cache_size=24 * 1024
        ),
        "u55-128-linear": dict(
            accel="ethos-u55-128", system_config="Ethos_U55_High_End_Embedded", memory_mode="Shared_Sram", allocator="LinearAlloc"
        ),
        "u55-128-align64": dict(
            accel="ethos-u55-128",
            system_config="Ethos_U55_High_End_Embedded",
            memory_mode="Shared_Sram",
            extra=("--cpu-tensor-alignment", "64"),
        ),
    }
)

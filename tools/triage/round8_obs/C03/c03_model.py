# Small TFLite model builder on top of Vela's own graph classes and TFLite writer.
# Used by the C03 demos/observations; no dependency outside the worktree.
import numpy as np

from ethosu.vela.data_type import DataType
from ethosu.vela.nn_graph import Graph
from ethosu.vela.nn_graph import Pass
from ethosu.vela.nn_graph import PassPlacement
from ethosu.vela.nn_graph import Subgraph
from ethosu.vela.operation import NpuBlockType
from ethosu.vela.operation import Op
from ethosu.vela.operation import Operation
from ethosu.vela.operation import Padding
from ethosu.vela.tensor import create_const_tensor
from ethosu.vela.tensor import QuantizationParameters
from ethosu.vela.tensor import Tensor
from ethosu.vela import tflite_writer

_NP = {DataType.int8: np.int8, DataType.uint8: np.uint8, DataType.int16: np.int16, DataType.int32: np.int32}


def qp(scale=0.05, zp=0):
    q = QuantizationParameters()
    q.scale_f32 = np.float32(scale)
    q.zero_point = np.int64(zp) if np.isscalar(zp) else zp
    q.min = None
    q.max = None
    return q


class ModelBuilder:
    def __init__(self, dtype=DataType.int8, seed=1):
        self.dtype = dtype
        self.rng = np.random.RandomState(seed)
        self.ops = []
        self.inputs = []
        self.outputs = []
        self.count = 0

    # ----------------------------------------------------------------- tensors
    def _name(self, base):
        self.count += 1
        return f"{base}_{self.count}"

    def input(self, shape, scale=0.05, zp=0, dtype=None, name=None):
        t = Tensor(list(shape), dtype or self.dtype, name or self._name("input"))
        t.quantization = qp(scale, zp)
        op = Operation(Op.Placeholder, t.name + "_ph")
        op.set_output_tensor(t)
        self.ops.append(op)
        self.inputs.append(t)
        return t

    def fm(self, shape, scale=0.05, zp=0, base="fm", dtype=None):
        t = Tensor(list(shape), dtype or self.dtype, self._name(base))
        t.quantization = qp(scale, zp)
        return t

    def const(self, shape, dtype=None, values=None, scale=0.02, zp=0, base="const", lo=-100, hi=100):
        dtype = dtype or self.dtype
        if values is None:
            values = self.rng.randint(lo, hi, size=shape)
        values = np.asarray(values).astype(_NP[dtype]).reshape(shape)
        t = create_const_tensor(self._name(base), list(shape), dtype, values, quantization=qp(scale, zp))
        return t

    def output(self, t):
        self.outputs.append(t)

    def _op(self, optype, base, inputs, out, attrs):
        op = Operation(optype, self._name(base))
        for i in inputs:
            if i is None:
                op.inputs.append(None)
            else:
                op.add_input_tensor(i)
        op.set_output_tensor(out)
        op.attrs.update(attrs)
        self.ops.append(op)
        return out

    @staticmethod
    def _out_hw(h, w, kh, kw, sh, sw, padding, dh=1, dw=1):
        if padding == "SAME":
            return -(-h // sh), -(-w // sw)
        ekh = (kh - 1) * dh + 1
        ekw = (kw - 1) * dw + 1
        return (h - ekh) // sh + 1, (w - ekw) // sw + 1

    # --------------------------------------------------------------- operators
    def conv2d(self, x, out_ch, k=3, stride=1, padding="SAME", act=None, dilation=1, out_scale=0.05, w_values=None):
        kh, kw = (k, k) if np.isscalar(k) else k
        sh, sw = (stride, stride) if np.isscalar(stride) else stride
        n, h, w, c = x.shape
        oh, ow = self._out_hw(h, w, kh, kw, sh, sw, padding, dilation, dilation)
        weights = self.const([out_ch, kh, kw, c], DataType.int8, values=w_values, base="w")
        bias = self.const([out_ch], DataType.int32, base="b", scale=0.001, lo=-1000, hi=1000)
        out = self.fm([n, oh, ow, out_ch], out_scale, base="conv")
        attrs = {
            "stride_h": sh,
            "stride_w": sw,
            "dilation_h_factor": dilation,
            "dilation_w_factor": dilation,
            "padding": Padding.SAME if padding == "SAME" else Padding.VALID,
            "fused_activation_function": act,
        }
        return self._op(Op.Conv2DBias, "conv", [x, weights, bias], out, attrs)

    def dwconv(self, x, k=3, stride=1, padding="SAME", act=None, mult=1, out_scale=0.05):
        kh, kw = (k, k) if np.isscalar(k) else k
        sh, sw = (stride, stride) if np.isscalar(stride) else stride
        n, h, w, c = x.shape
        oh, ow = self._out_hw(h, w, kh, kw, sh, sw, padding)
        weights = self.const([1, kh, kw, c * mult], DataType.int8, base="dw")
        bias = self.const([c * mult], DataType.int32, base="b", scale=0.001, lo=-1000, hi=1000)
        out = self.fm([n, oh, ow, c * mult], out_scale, base="dwconv")
        attrs = {
            "stride_h": sh,
            "stride_w": sw,
            "dilation_h_factor": 1,
            "dilation_w_factor": 1,
            "depth_multiplier": mult,
            "padding": Padding.SAME if padding == "SAME" else Padding.VALID,
            "fused_activation_function": act,
        }
        return self._op(Op.DepthwiseConv2DBias, "dwconv", [x, weights, bias], out, attrs)

    def fc(self, x, out_ch, act=None, out_scale=0.05):
        n, c = x.shape[0], int(np.prod(x.shape[1:]))
        weights = self.const([out_ch, c], DataType.int8, base="fcw")
        bias = self.const([out_ch], DataType.int32, base="b", scale=0.001, lo=-1000, hi=1000)
        out = self.fm([n, out_ch], out_scale, base="fc")
        attrs = {
            "fused_activation_function": act,
            "weights_format": 0,
            "keep_num_dims": False,
            "asymmetric_quantize_inputs": False,
        }
        return self._op(Op.FullyConnected, "fc", [x, weights, bias], out, attrs)

    def pool(self, x, kind="max", k=2, stride=2, padding="VALID", act=None):
        kh, kw = (k, k) if np.isscalar(k) else k
        sh, sw = (stride, stride) if np.isscalar(stride) else stride
        n, h, w, c = x.shape
        oh, ow = self._out_hw(h, w, kh, kw, sh, sw, padding)
        out = self.fm([n, oh, ow, c], float(x.quantization.scale_f32), int(x.quantization.zero_point), base="pool")
        attrs = {
            "filter_height": kh,
            "filter_width": kw,
            "stride_h": sh,
            "stride_w": sw,
            "padding": Padding.SAME if padding == "SAME" else Padding.VALID,
            "fused_activation_function": act,
        }
        return self._op(Op.MaxPool if kind == "max" else Op.AvgPool, "pool", [x], out, attrs)

    def binary(self, optype, a, b, act=None, out_scale=0.1, out_shape=None):
        shape = out_shape or [max(p, q) for p, q in zip(a.shape, b.shape)]
        out = self.fm(shape, out_scale, base=optype.name.lower())
        attrs = {"fused_activation_function": act}
        if optype in (Op.Add, Op.Sub):
            attrs["pot_scale_int16"] = False
        return self._op(optype, optype.name.lower(), [a, b], out, attrs)

    def add(self, a, b, **kw):
        return self.binary(Op.Add, a, b, **kw)

    def mul(self, a, b, **kw):
        return self.binary(Op.Mul, a, b, **kw)

    def unary(self, optype, x, attrs=None, out_scale=None, out_zp=0):
        out = self.fm(list(x.shape), out_scale or float(x.quantization.scale_f32), out_zp, base=optype.name.lower())
        return self._op(optype, optype.name.lower(), [x], out, attrs or {})

    def tanh(self, x):
        return self.unary(Op.Tanh, x, out_scale=1.0 / 128, out_zp=0)

    def sigmoid(self, x):
        return self.unary(Op.Sigmoid, x, out_scale=1.0 / 256, out_zp=-128)

    def leaky_relu(self, x, alpha=0.1):
        return self.unary(Op.LeakyRelu, x, {"alpha": np.float32(alpha)})

    def relu(self, x):
        return self.unary(Op.Relu, x)

    def concat(self, xs, axis=3):
        shape = list(xs[0].shape)
        shape[axis] = sum(x.shape[axis] for x in xs)
        q = xs[0].quantization
        out = self.fm(shape, float(q.scale_f32), int(q.zero_point), base="concat")
        return self._op(Op.ConcatTFLite, "concat", list(xs), out, {"axis": axis, "fused_activation_function": None})

    def reshape(self, x, new_shape):
        shp = self.const([len(new_shape)], DataType.int32, values=new_shape, base="shape")
        q = x.quantization
        out = self.fm(list(new_shape), float(q.scale_f32), int(q.zero_point), base="reshape")
        return self._op(Op.Reshape, "reshape", [x, shp], out, {"new_shape": list(new_shape)})

    def softmax(self, x, beta=1.0):
        return self.unary(Op.Softmax, x, {"beta": np.float32(beta)}, out_scale=1.0 / 256, out_zp=-128)

    def pad(self, x, paddings):
        pads = self.const([4, 2], DataType.int32, values=paddings, base="pads")
        shape = [d + p[0] + p[1] for d, p in zip(x.shape, paddings)]
        q = x.quantization
        out = self.fm(shape, float(q.scale_f32), int(q.zero_point), base="pad")
        return self._op(Op.Pad, "pad", [x, pads], out, {})

    def strided_slice(self, x, begin, end):
        b = self.const([4], DataType.int32, values=begin, base="begin")
        e = self.const([4], DataType.int32, values=end, base="end")
        s = self.const([4], DataType.int32, values=[1, 1, 1, 1], base="strides")
        q = x.quantization
        out = self.fm([e_ - b_ for b_, e_ in zip(begin, end)], float(q.scale_f32), int(q.zero_point), base="slice")
        attrs = {"begin_mask": 0, "end_mask": 0, "ellipsis_mask": 0, "new_axis_mask": 0, "shrink_axis_mask": 0, "offset": False}
        return self._op(Op.StridedSlice, "slice", [x, b, e, s], out, attrs)

    def resize_nearest(self, x, factor=2):
        n, h, w, c = x.shape
        size = self.const([2], DataType.int32, values=[h * factor, w * factor], base="size")
        q = x.quantization
        out = self.fm([n, h * factor, w * factor, c], float(q.scale_f32), int(q.zero_point), base="resize")
        return self._op(
            Op.ResizeNearestNeighbor, "resize", [x, size], out, {"align_corners": False, "half_pixel_centers": False}
        )

    def resize_bilinear(self, x, factor=2, half_pixel_centers=True, align_corners=False):
        n, h, w, c = x.shape
        size = self.const([2], DataType.int32, values=[h * factor, w * factor], base="size")
        q = x.quantization
        out = self.fm([n, h * factor, w * factor, c], float(q.scale_f32), int(q.zero_point), base="resizebl")
        return self._op(
            Op.ResizeBilinear,
            "resizebl",
            [x, size],
            out,
            {"align_corners": align_corners, "half_pixel_centers": half_pixel_centers},
        )

    def conv2d_shared(self, x, weights, bias, stride=1, padding="SAME", act=None, dilation=1, out_scale=0.05):
        # convolution that uses existing weight / bias tensors (shared with another operator)
        out_ch, kh, kw, c = weights.shape
        sh, sw = (stride, stride) if np.isscalar(stride) else stride
        n, h, w, _ = x.shape
        oh, ow = self._out_hw(h, w, kh, kw, sh, sw, padding, dilation, dilation)
        out = self.fm([n, oh, ow, out_ch], out_scale, base="conv")
        attrs = {
            "stride_h": sh,
            "stride_w": sw,
            "dilation_h_factor": dilation,
            "dilation_w_factor": dilation,
            "padding": Padding.SAME if padding == "SAME" else Padding.VALID,
            "fused_activation_function": act,
        }
        return self._op(Op.Conv2DBias, "conv", [x, weights, bias], out, attrs)

    def transpose_conv(self, x, out_ch, k=3, stride=2, padding="SAME", out_scale=0.05):
        n, h, w, c = x.shape
        if padding == "SAME":
            oh, ow = h * stride, w * stride
        else:
            oh, ow = (h - 1) * stride + k, (w - 1) * stride + k
        oshape = self.const([4], DataType.int32, values=[n, oh, ow, out_ch], base="oshape")
        weights = self.const([out_ch, k, k, c], DataType.int8, base="tw")
        bias = self.const([out_ch], DataType.int32, base="b", scale=0.001, lo=-1000, hi=1000)
        out = self.fm([n, oh, ow, out_ch], out_scale, base="tconv")
        attrs = {"stride_h": stride, "stride_w": stride, "padding": Padding.SAME if padding == "SAME" else Padding.VALID}
        return self._op(Op.Conv2DBackpropInput, "tconv", [oshape, weights, x, bias], out, attrs)

    def mean(self, x, axes=(1, 2), keep_dims=True, out_scale=None):
        ax = self.const([len(axes)], DataType.int32, values=list(axes), base="axes")
        shape = [1 if i in axes else d for i, d in enumerate(x.shape)] if keep_dims else [
            d for i, d in enumerate(x.shape) if i not in axes
        ]
        q = x.quantization
        out = self.fm(shape, out_scale or float(q.scale_f32), int(q.zero_point), base="mean")
        return self._op(Op.Mean, "mean", [x, ax], out, {"keep_dims": keep_dims})

    def split(self, x, num, axis=3):
        ax = self.const([], DataType.int32, values=[axis], base="axis")
        q = x.quantization
        shape = list(x.shape)
        shape[axis] //= num
        outs = [self.fm(shape, float(q.scale_f32), int(q.zero_point), base=f"split{i}") for i in range(num)]
        op = Operation(Op.Split, self._name("split"))
        op.add_input_tensor(ax)
        op.add_input_tensor(x)
        for o in outs:
            o.ops = [op]
            op.outputs.append(o)
        op.attrs.update({"num_splits": num})
        self.ops.append(op)
        return outs

    def transpose(self, x, perm):
        p = self.const([len(perm)], DataType.int32, values=list(perm), base="perm")
        q = x.quantization
        out = self.fm([x.shape[i] for i in perm], float(q.scale_f32), int(q.zero_point), base="transpose")
        return self._op(Op.Transpose, "transpose", [x, p], out, {})

    def prelu(self, x):
        alpha = self.const([1, 1, x.shape[3]], values=self.rng.randint(1, 60, size=[1, 1, x.shape[3]]), scale=0.01, base="alpha")
        out = self.fm(list(x.shape), float(x.quantization.scale_f32), base="prelu")
        return self._op(Op.Prelu, "prelu", [x, alpha], out, {})

    def hardswish(self, x):
        return self.unary(Op.HardSwish, x)

    def abs(self, x):
        return self.unary(Op.Abs, x)

    def exp(self, x):
        return self.unary(Op.Exp, x, out_scale=0.1)

    def quantize(self, x, out_scale=0.1, out_zp=3):
        return self.unary(Op.Quantize, x, out_scale=out_scale, out_zp=out_zp)

    def argmax(self, x, axis=3):
        ax = self.const([], DataType.int32, values=[axis], base="axis")
        shape = [d for i, d in enumerate(x.shape) if i != axis]
        out = Tensor(shape, DataType.int32, self._name("argmax"))
        return self._op(Op.ArgMax, "argmax", [x, ax], out, {"output_type": DataType.int32})

    def pack(self, xs, axis=1):
        shape = list(xs[0].shape)
        shape.insert(axis, len(xs))
        q = xs[0].quantization
        out = self.fm(shape, float(q.scale_f32), int(q.zero_point), base="pack")
        return self._op(Op.Pack, "pack", list(xs), out, {"axis": axis, "values_count": len(xs)})

    def unpack(self, x, axis=1):
        num = x.shape[axis]
        q = x.quantization
        shape = [d for i, d in enumerate(x.shape) if i != axis]
        outs = [self.fm(shape, float(q.scale_f32), int(q.zero_point), base=f"unpack{i}") for i in range(num)]
        op = Operation(Op.Unpack, self._name("unpack"))
        op.add_input_tensor(x)
        for o in outs:
            o.ops = [op]
            op.outputs.append(o)
        op.attrs.update({"axis": axis, "num": num})
        self.ops.append(op)
        return outs

    def squeeze(self, x, dims):
        q = x.quantization
        out = self.fm([d for i, d in enumerate(x.shape) if i not in dims], float(q.scale_f32), int(q.zero_point), base="sq")
        return self._op(Op.Squeeze, "squeeze", [x], out, {"squeeze_dims": list(dims)})

    def custom(self, x, out_shape=None, name="MyCpuOp"):
        # An operator Vela cannot place on the NPU (stays on the CPU)
        q = x.quantization
        out = self.fm(out_shape or list(x.shape), float(q.scale_f32), int(q.zero_point), base="cpu")
        return self._op(Op.Custom, "cpu", [x], out, {"custom_code": name, "custom_options": b"", "custom_options_format": 0, "custom_type": 0})

    def custom_multi(self, x, n_out=2, name="MyCpuOp2"):
        # A CPU-only operator with several outputs
        q = x.quantization
        outs = [self.fm(list(x.shape), float(q.scale_f32), int(q.zero_point), base=f"cpu_o{i}") for i in range(n_out)]
        op = Operation(Op.Custom, self._name("cpu"))
        op.add_input_tensor(x)
        for o in outs:
            o.ops = [op]
            op.outputs.append(o)
        op.attrs.update({"custom_code": name, "custom_options": b"", "custom_options_format": 0, "custom_type": 0})
        self.ops.append(op)
        return outs

    # ------------------------------------------------------------------ output
    def tflite(self):
        nng = Graph("model", 1)
        sg = Subgraph("main", PassPlacement.Cpu)
        sg.input_tensors = list(self.inputs)
        sg.original_inputs = list(self.inputs)
        sg.output_tensors = list(self.outputs)
        for op in self.ops:
            ps = Pass(op.name, PassPlacement.Cpu, False, NpuBlockType.Default)
            ps.ops = [op]
            ps.primary_op = op
            sg.passes.append(ps)
        nng.subgraphs.append(sg)
        return bytes(tflite_writer.write_tflite_buffer(nng))

import sys, os, traceback
sys.path.insert(0, os.getcwd()); sys.path.insert(0, os.path.join(os.getcwd(), "out"))
from c03_corpus import MODELS, CONFIGS
from c03_oracle import check_model, describe_schedule
sel_m = sys.argv[1].split(",") if len(sys.argv) > 1 and sys.argv[1] != "all" else list(MODELS)
sel_c = sys.argv[2].split(",") if len(sys.argv) > 2 and sys.argv[2] != "all" else list(CONFIGS)
verbose = len(sys.argv) > 3
for m in sel_m:
    buf = MODELS[m]()
    for c in sel_c:
        try:
            v, nng, arch = check_model(buf, **CONFIGS[c])
        except Exception as e:
            print(f"{m:14s} {c:26s} ERROR {type(e).__name__}: {str(e)[:200]}")
            if verbose: traceback.print_exc()
            continue
        casc = sum(1 for l in describe_schedule(nng) if "cascade=0" not in l)
        nbuf = sum(1 for l in describe_schedule(nng) if "buffers=[]" not in l)
        print(f"{m:14s} {c:26s} violations={len(v)} cascaded_ops={casc} buffered={nbuf}")
        for x in v[:4]:
            print("      ", str(x)[:400])
        if verbose:
            print("\n".join(describe_schedule(nng)))

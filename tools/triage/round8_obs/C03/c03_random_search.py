# Random DAG networks x configurations through the C03 oracle (exploration of the unmodified tree).
# usage: python out/c03_random_search.py <first seed> <number of seeds>
import sys, os, random
sys.path.insert(0, os.getcwd()); sys.path.insert(0, os.path.join(os.getcwd(), "out"))
from ethosu.vela.operation import Op
from ethosu.vela.data_type import DataType
from c03_model import ModelBuilder
from c03_oracle import check_model, describe_schedule

def rand_model(rng):
    dtype = rng.choice([DataType.int8, DataType.int8, DataType.int8, DataType.int16])
    b = ModelBuilder(dtype, seed=rng.randint(0, 1000))
    h = rng.choice([8, 16, 24, 32, 48, 64]); w = rng.choice([h, h, max(8, h // 2)])
    c = rng.choice([3, 8, 16, 20])
    x = b.input([1, h, w, c])
    pool = [x]
    desc = [f"{dtype} in{h}x{w}x{c}"]
    for i in range(rng.randint(3, 9)):
        y = rng.choice(pool[-3:])
        kind = rng.choice(["conv", "conv", "conv1", "dw", "pool", "addc", "add2", "concat", "act", "resize", "slice", "pad", "mean", "mulc", "cpu", "split", "tconv", "reshape", "conv"])
        try:
            if kind == "conv":
                oc = rng.choice([1, 8, 16, 20, 32, 48])
                k = rng.choice([1, 3, 3, 5, (1, 3), (3, 1)]); s = rng.choice([1, 1, 1, 2]); p = rng.choice(["SAME", "SAME", "VALID"])
                d = rng.choice([1, 1, 1, 2]) if s == 1 else 1
                if min(y.shape[1], y.shape[2]) < 12: s = 1; p = "SAME"; d = 1
                z = b.conv2d(y, oc, k, stride=s, padding=p, dilation=d, act=rng.choice([None, Op.Relu, Op.Relu6]))
            elif kind == "conv1":
                z = b.conv2d(y, rng.choice([8, 16, 32, 64, 96]), 1)
            elif kind == "dw":
                z = b.dwconv(y, rng.choice([3, 3, 5]), stride=rng.choice([1, 1, 2]) if min(y.shape[1], y.shape[2]) >= 12 else 1)
            elif kind == "pool":
                if min(y.shape[1], y.shape[2]) < 8: continue
                z = b.pool(y, rng.choice(["max", "avg"]), rng.choice([2, 3]), rng.choice([1, 2]), rng.choice(["SAME", "VALID"]))
            elif kind == "addc":
                z = b.add(y, b.const([1, 1, 1, y.shape[3]], base="k"), act=rng.choice([None, Op.Relu]))
            elif kind == "mulc":
                z = b.mul(y, b.const(list(y.shape), base="kf"))
            elif kind == "add2":
                cands = [t for t in pool if t.shape == y.shape and t is not y]
                if not cands: continue
                z = b.binary(rng.choice([Op.Add, Op.Mul, Op.Sub, Op.Maximum]), y, rng.choice(cands))
            elif kind == "concat":
                cands = [t for t in pool if t.shape[:3] == y.shape[:3] and t is not y]
                if not cands: continue
                z = b.concat([y, rng.choice(cands)], 3)
            elif kind == "act":
                f = rng.choice(["tanh", "sigmoid", "leaky", "hswish", "relu"])
                z = {"tanh": b.tanh, "sigmoid": b.sigmoid, "leaky": b.leaky_relu, "hswish": b.hardswish, "relu": b.relu}[f](y)
                kind = f
            elif kind == "resize":
                if y.shape[1] > 32: continue
                z = b.resize_nearest(y, 2) if rng.random() < 0.5 else b.resize_bilinear(y, 2, half_pixel_centers=rng.random() < 0.5)
            elif kind == "slice":
                if y.shape[1] < 8 or y.shape[3] < 16: continue
                z = b.strided_slice(y, [0, 1, 2, 0], [1, y.shape[1] - 1, y.shape[2] - 1, rng.choice([8, y.shape[3]])])
            elif kind == "pad":
                z = b.pad(y, [[0, 0], [1, rng.choice([0, 1])], [1, 1], [0, 0]])
            elif kind == "cpu":
                z = b.custom(y)
            elif kind == "split":
                if y.shape[3] % 2: continue
                z0, z1 = b.split(y, 2, 3)
                pool.append(z0); z = z1
            elif kind == "tconv":
                if y.shape[1] > 24: continue
                z = b.transpose_conv(y, rng.choice([8, 16]), rng.choice([2, 3]), 2, rng.choice(["SAME", "VALID"]))
            elif kind == "reshape":
                z = b.reshape(y, [1, y.shape[1] * y.shape[2], 1, y.shape[3]])
            elif kind == "mean":
                z = b.mean(y, (1, 2), True)
                z = b.mul(y, z)
        except Exception as e:
            continue
        pool.append(z)
        desc.append(f"{kind}->{'x'.join(map(str, z.shape[1:]))}")
    consumed = set()
    for op in b.ops:
        for t in op.inputs:
            if t is not None: consumed.add(t)
    for t in pool[1:]:
        if t not in consumed:
            b.output(t)
    return b.tflite(), " ".join(desc)

CFGS = [
    dict(accel="ethos-u55-128", system_config="Ethos_U55_High_End_Embedded", memory_mode="Shared_Sram"),
    dict(accel="ethos-u55-256", system_config="Ethos_U55_High_End_Embedded", memory_mode="Shared_Sram", optimise="Size"),
    dict(accel="ethos-u55-32", system_config="Ethos_U55_High_End_Embedded", memory_mode="Shared_Sram", arena_cache_size=32768),
    dict(accel="ethos-u65-512", system_config="Ethos_U65_High_End", memory_mode="Dedicated_Sram", arena_cache_size=32768),
    dict(accel="ethos-u65-256", system_config="Ethos_U65_High_End", memory_mode="Dedicated_Sram"),
    dict(accel="ethos-u55-64", system_config="Ethos_U55_Deep_Embedded", memory_mode="Sram_Only", optimise="Size", allocator="Greedy"),
]
seed0 = int(sys.argv[1]); n = int(sys.argv[2])
for seed in range(seed0, seed0 + n):
    rng = random.Random(seed)
    try:
        buf, desc = rand_model(rng)
    except Exception as e:
        print(seed, "BUILD ERROR", type(e).__name__, e); continue
    for ci in rng.sample(range(len(CFGS)), 3):
        cfg = CFGS[ci]
        try:
            v, nng, arch = check_model(buf, check_outputs=True, **cfg)
        except Exception as e:
            print(f"{seed} cfg{ci} [{desc}] ERROR {type(e).__name__} {str(e)[:150]}"); continue
        casc = sum(1 for l in describe_schedule(nng) if "cascade=0" not in l)
        print(f"{seed} cfg{ci} [{desc}] viol={len(v)} casc={casc} {'***' if v else ''}")
        for x in v[:3]: print("     ", str(x)[:350])
    sys.stdout.flush()

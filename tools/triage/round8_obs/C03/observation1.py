# Observation 1 (unmodified tree): the ADD that this fork inserts behind every NPU concatenation / PACK
# (tflite_graph_optimiser.add_add_op_after_concat) is created after the supported-operator checks.  When the concatenated
# tensor has a batch dimension > 1 (PACK / CONCATENATION along axis 0 of 4D operands) the ADD is emitted as ONE elementwise
# operation that covers batch 0 only (the NPU has no batch loop).  The other batches of the PACK output are never written
# by it.  As long as the live ranges of the ADD's input ("<name>_sub") and output are fused (in place) a reader of
# batch >= 1 finds the bytes of the intermediate tensor (benign), but when they are not fused - e.g. Dedicated_Sram with
# the PACK output also being a network output, so that it lives in DRAM while "<name>_sub" lives in the SRAM cache - the
# reader consumes bytes that no operation of this inference has written.
import os
import sys

sys.path.insert(0, os.getcwd())
sys.path.insert(0, os.path.join(os.getcwd(), "out"))

from c03_model import ModelBuilder  # noqa: E402
from c03_oracle import check_model  # noqa: E402


def model(also_output):
    b = ModelBuilder(seed=11)
    x = b.input([1, 8, 8, 16])
    y = b.conv2d(x, 16, 3)
    z = b.conv2d(x, 16, 1)
    p = b.pack([b.squeeze(y, [0]), b.squeeze(z, [0])], 0)  # [2, 8, 8, 16]
    u = b.unpack(p, 0)
    o = b.add(b.reshape(u[0], [1, 8, 8, 16]), b.reshape(u[1], [1, 8, 8, 16]))
    b.output(o)
    if also_output:
        b.output(p)
    return b.tflite()


CONFIGS = [
    dict(accel="ethos-u55-128", system_config="Ethos_U55_High_End_Embedded", memory_mode="Shared_Sram"),
    dict(accel="ethos-u65-256", system_config="Ethos_U65_High_End", memory_mode="Dedicated_Sram"),
]


def main():
    found = 0
    for also_output in (False, True):
        buf = model(also_output)
        for cfg in CONFIGS:
            violations, _, _ = check_model(buf, **cfg)
            print(f"pack output is network output={also_output} {cfg['accel']} {cfg['memory_mode']}:"
                  f" {len(violations)} violation(s)")
            for v in violations[:3]:
                print("    ", str(v)[:500])
            found += len(violations)
    print("OBSERVED" if found else "not observed")
    return 1 if found else 0


if __name__ == "__main__":
    sys.exit(main())

"""Helper library for the C14 demos / observations.

Builds small quantised TFLite models in memory with Vela's own classes and compiles them through the different
entry points (command line main(), convert(), convert_bytes()).
"""
import contextlib
import io
import os
import sys
import tempfile
import types

import numpy as np

sys.path.insert(0, os.getcwd())

from ethosu.vela import vela  # noqa: E402
from ethosu.vela.data_type import DataType  # noqa: E402
from ethosu.vela.nn_graph import Graph  # noqa: E402
from ethosu.vela.nn_graph import Subgraph  # noqa: E402
from ethosu.vela.operation import Op  # noqa: E402
from ethosu.vela.operation import Operation  # noqa: E402
from ethosu.vela.operation import Padding  # noqa: E402
from ethosu.vela.tensor import create_const_tensor  # noqa: E402
from ethosu.vela.tensor import QuantizationParameters  # noqa: E402
from ethosu.vela.tensor import Tensor  # noqa: E402
from ethosu.vela.tflite_writer import write_tflite_buffer  # noqa: E402


def qp(scale, zp=0, dtype=DataType.int8):
    q = QuantizationParameters()
    if np.ndim(scale) == 0:
        q.scale_f32 = np.float32(scale)
        q.zero_point = np.int64(zp)
    else:
        q.scale_f32 = np.array(scale, dtype=np.float32)
        q.zero_point = np.zeros(len(scale), dtype=np.int64) if np.ndim(zp) == 0 else np.array(zp, dtype=np.int64)
        q.quant_dim = 0
    if dtype == DataType.uint8:
        q.quant_min, q.quant_max = 0, 255
    else:
        q.quant_min = -(1 << (dtype.bits - 1))
        q.quant_max = (1 << (dtype.bits - 1)) - 1
    return q


class Net:
    """Tiny builder for a single-subgraph quantised network"""

    def __init__(self, name="net", seed=0, dtype=DataType.int8):
        self.name = name
        self.rng = np.random.RandomState(seed)
        self.dtype = dtype
        self.ops = []
        self.inputs = []
        self.n = 0

    def _nm(self, base):
        self.n += 1
        return f"{base}_{self.n}"

    def act(self, shape, name=None, scale=None, zp=None, dtype=None):
        dtype = dtype or self.dtype
        t = Tensor(list(shape), dtype, name or self._nm("t"))
        if scale is None:
            scale = 0.01 + 0.001 * self.n
        if zp is None:
            zp = 0 if dtype != DataType.uint8 else 128
        t.quantization = qp(scale, zp, dtype)
        return t

    def input(self, shape, name=None, **kw):
        t = self.act(shape, name or self._nm("input"), **kw)
        self.inputs.append(t)
        return t

    def const(self, shape, dtype=None, lo=-127, hi=127, scale=0.02, zp=0, name=None, values=None):
        dtype = dtype or self.dtype
        if values is None:
            values = self.rng.randint(lo, hi + 1, size=shape)
        return create_const_tensor(
            name or self._nm("const"), list(shape), dtype, np.array(values), quantization=qp(scale, zp, dtype)
        )

    def _op(self, op_type, inputs, out, attrs):
        op = Operation(op_type, out.name)
        op.inputs = list(inputs)
        for t in inputs:
            if t is not None and op not in t.consumer_list:
                t.consumer_list.append(op)
        op.set_output_tensor(out)
        op.attrs = dict(attrs)
        op.run_on_npu = False
        self.ops.append(op)
        return out

    def conv(self, ifm, ofm_c, k=3, stride=1, padding=Padding.SAME, act=None, per_channel=False, w_values=None,
             dilation=1, name=None):
        n, h, w, c = ifm.shape
        if per_channel:
            wscale = [0.005 + 0.0005 * i for i in range(ofm_c)]
        else:
            wscale = 0.01
        if w_values is None:
            w_values = self.rng.randint(-127, 128, size=(ofm_c, k, k, c))
        weights = create_const_tensor(
            self._nm("w"), [ofm_c, k, k, c], DataType.int8 if self.dtype != DataType.uint8 else DataType.uint8,
            np.array(w_values),
            quantization=qp(wscale, 0 if self.dtype != DataType.uint8 else 128,
                            DataType.int8 if self.dtype != DataType.uint8 else DataType.uint8),
        )
        bscale = np.float32(ifm.quantization.scale_f32) * np.array(wscale, dtype=np.float32)
        bias = create_const_tensor(
            self._nm("b"), [ofm_c], DataType.int32, self.rng.randint(-1000, 1000, size=(ofm_c,)),
            quantization=qp(bscale if per_channel else float(bscale), 0, DataType.int32),
        )
        if padding == Padding.SAME:
            oh, ow = -(-h // stride), -(-w // stride)
        else:
            ek = (k - 1) * dilation + 1
            oh, ow = (h - ek) // stride + 1, (w - ek) // stride + 1
        out = self.act([n, oh, ow, ofm_c], name)
        attrs = {
            "padding": padding, "stride_w": stride, "stride_h": stride, "dilation_w_factor": dilation,
            "dilation_h_factor": dilation, "fused_activation_function": act,
        }
        return self._op(Op.Conv2DBias, [ifm, weights, bias], out, attrs)

    def dwconv(self, ifm, k=3, stride=1, padding=Padding.SAME, act=None, name=None):
        n, h, w, c = ifm.shape
        weights = create_const_tensor(
            self._nm("dw"), [1, k, k, c], DataType.int8, self.rng.randint(-127, 128, size=(1, k, k, c)),
            quantization=qp(0.01, 0, DataType.int8),
        )
        bias = create_const_tensor(
            self._nm("db"), [c], DataType.int32, self.rng.randint(-1000, 1000, size=(c,)),
            quantization=qp(float(np.float32(ifm.quantization.scale_f32) * np.float32(0.01)), 0, DataType.int32),
        )
        if padding == Padding.SAME:
            oh, ow = -(-h // stride), -(-w // stride)
        else:
            oh, ow = (h - k) // stride + 1, (w - k) // stride + 1
        out = self.act([n, oh, ow, c], name)
        attrs = {
            "padding": padding, "stride_w": stride, "stride_h": stride, "dilation_w_factor": 1,
            "dilation_h_factor": 1, "fused_activation_function": act, "depth_multiplier": 1,
        }
        return self._op(Op.DepthwiseConv2DBias, [ifm, weights, bias], out, attrs)

    def fc(self, ifm, ofm_c, act=None, w_values=None, name=None):
        n, c = ifm.shape
        if w_values is None:
            w_values = self.rng.randint(-127, 128, size=(ofm_c, c))
        weights = create_const_tensor(
            self._nm("fw"), [ofm_c, c], DataType.int8, np.array(w_values), quantization=qp(0.01, 0, DataType.int8)
        )
        bias = create_const_tensor(
            self._nm("fb"), [ofm_c], DataType.int32, self.rng.randint(-1000, 1000, size=(ofm_c,)),
            quantization=qp(float(np.float32(ifm.quantization.scale_f32) * np.float32(0.01)), 0, DataType.int32),
        )
        out = self.act([n, ofm_c], name)
        attrs = {
            "fused_activation_function": act, "weights_format": 0, "keep_num_dims": False,
            "asymmetric_quantize_inputs": False,
        }
        return self._op(Op.FullyConnected, [ifm, weights, bias], out, attrs)

    def pool(self, ifm, kind=Op.MaxPool, k=2, stride=2, padding=Padding.VALID, name=None):
        n, h, w, c = ifm.shape
        if padding == Padding.SAME:
            oh, ow = -(-h // stride), -(-w // stride)
        else:
            oh, ow = (h - k) // stride + 1, (w - k) // stride + 1
        out = self.act([n, oh, ow, c], name, scale=float(ifm.quantization.scale_f32),
                       zp=int(ifm.quantization.zero_point))
        attrs = {
            "padding": padding, "stride_w": stride, "stride_h": stride, "filter_width": k, "filter_height": k,
            "fused_activation_function": None,
        }
        return self._op(kind, [ifm], out, attrs)

    def binary(self, kind, a, b, act=None, name=None, **kw):
        shape = [max(x, y) for x, y in zip(a.shape, b.shape)] if len(a.shape) == len(b.shape) else list(a.shape)
        out = self.act(shape, name, **kw)
        attrs = {"fused_activation_function": act}
        if kind in (Op.Add, Op.Sub):
            attrs["pot_scale_int16"] = False
        return self._op(kind, [a, b], out, attrs)

    def unary(self, kind, ifm, name=None, attrs=None, **kw):
        if kind in (Op.Sigmoid,):
            kw.setdefault("scale", 1.0 / 256)
            kw.setdefault("zp", -128)
        if kind in (Op.Tanh,):
            kw.setdefault("scale", 1.0 / 128)
            kw.setdefault("zp", 0)
        out = self.act(list(ifm.shape), name, **kw)
        return self._op(kind, [ifm], out, attrs or {})

    def leaky_relu(self, ifm, alpha=0.1, name=None, **kw):
        return self.unary(Op.LeakyRelu, ifm, name, {"alpha": alpha}, **kw)

    def softmax(self, ifm, name=None):
        out = self.act(list(ifm.shape), name, scale=1.0 / 256, zp=-128)
        return self._op(Op.Softmax, [ifm], out, {"beta": 1.0})

    def reshape(self, ifm, shape, name=None):
        out = self.act(list(shape), name, scale=float(ifm.quantization.scale_f32), zp=int(ifm.quantization.zero_point))
        shape_t = create_const_tensor(self._nm("shape"), [len(shape)], DataType.int32, np.array(shape))
        shape_t.quantization = None
        return self._op(Op.Reshape, [ifm, shape_t], out, {"new_shape": list(shape)})

    def concat(self, tensors, axis=-1, name=None):
        ax = axis if axis >= 0 else len(tensors[0].shape) + axis
        shape = list(tensors[0].shape)
        shape[ax] = sum(t.shape[ax] for t in tensors)
        out = self.act(shape, name, scale=float(tensors[0].quantization.scale_f32),
                       zp=int(tensors[0].quantization.zero_point))
        return self._op(Op.ConcatTFLite, list(tensors), out, {"axis": axis, "fused_activation_function": None})


    def mean(self, ifm, axes=(1, 2), keep_dims=True, name=None):
        shape = [1 if i in axes else d for i, d in enumerate(ifm.shape)] if keep_dims else [
            d for i, d in enumerate(ifm.shape) if i not in axes]
        out = self.act(shape, name)
        ax = create_const_tensor(self._nm("axes"), [len(axes)], DataType.int32, np.array(axes))
        ax.quantization = None
        return self._op(Op.Mean, [ifm, ax], out, {"keep_dims": keep_dims})

    def pad(self, ifm, pads, name=None):
        shape = [d + a + b for d, (a, b) in zip(ifm.shape, pads)]
        out = self.act(shape, name, scale=float(ifm.quantization.scale_f32), zp=int(ifm.quantization.zero_point))
        pt = create_const_tensor(self._nm("pads"), [len(pads), 2], DataType.int32, np.array(pads))
        pt.quantization = None
        return self._op(Op.Pad, [ifm, pt], out, {})

    def resize_bilinear(self, ifm, factor=2, align_corners=False, half_pixel_centers=False, name=None):
        n, h, w, c = ifm.shape
        out = self.act([n, h * factor, w * factor, c], name, scale=float(ifm.quantization.scale_f32),
                       zp=int(ifm.quantization.zero_point))
        sz = create_const_tensor(self._nm("size"), [2], DataType.int32, np.array([h * factor, w * factor]))
        sz.quantization = None
        return self._op(Op.ResizeBilinear, [ifm, sz], out,
                        {"align_corners": align_corners, "half_pixel_centers": half_pixel_centers})

    def strided_slice(self, ifm, begin, end, name=None):
        shape = [e - b for b, e in zip(begin, end)]
        out = self.act(shape, name, scale=float(ifm.quantization.scale_f32), zp=int(ifm.quantization.zero_point))
        ts = []
        for nm, v in (("begin", begin), ("end", end), ("strides", [1] * len(begin))):
            t = create_const_tensor(self._nm(nm), [len(v)], DataType.int32, np.array(v))
            t.quantization = None
            ts.append(t)
        attrs = {"begin_mask": 0, "ellipsis_mask": 0, "end_mask": 0, "new_axis_mask": 0, "shrink_axis_mask": 0,
                 "offset": False}
        return self._op(Op.StridedSlice, [ifm] + ts, out, attrs)

    def cpu_op(self, ifm, name=None):
        """An operator that always stays on the CPU (splits the network into several NPU subgraphs)"""
        out = self.act(list(ifm.shape), name, scale=float(ifm.quantization.scale_f32),
                       zp=int(ifm.quantization.zero_point))
        return self._op(Op.Floor, [ifm], out, {})

    def transpose_conv(self, ifm, ofm_c, k=3, stride=2, name=None):
        n, h, w, c = ifm.shape
        weights = create_const_tensor(
            self._nm("tw"), [ofm_c, k, k, c], DataType.int8, self.rng.randint(-127, 128, size=(ofm_c, k, k, c)),
            quantization=qp(0.01, 0, DataType.int8),
        )
        bias = create_const_tensor(
            self._nm("tb"), [ofm_c], DataType.int32, self.rng.randint(-1000, 1000, size=(ofm_c,)),
            quantization=qp(float(np.float32(ifm.quantization.scale_f32) * np.float32(0.01)), 0, DataType.int32),
        )
        oshape = [n, h * stride, w * stride, ofm_c]
        out = self.act(oshape, name)
        os_t = create_const_tensor(self._nm("oshape"), [4], DataType.int32, np.array(oshape))
        os_t.quantization = None
        # nng order of Conv2DBackpropInput: [output_shape, weights, ifm, bias]
        attrs = {"padding": Padding.SAME, "stride_w": stride, "stride_h": stride}
        return self._op(Op.Conv2DBackpropInput, [os_t, weights, ifm, bias], out, attrs)

    def subgraph(self, outputs, name=None):
        sg = Subgraph(name if name is not None else self.name)
        sg.original_inputs = list(self.inputs)
        sg.input_tensors = list(self.inputs)
        sg.output_tensors = list(outputs)
        sg.passes = [types.SimpleNamespace(ops=list(self.ops))]
        return sg

    def build(self, outputs):
        return build_model(self.name, [self.subgraph(outputs)])


def build_model(name, subgraphs):
    nng = Graph(name)
    nng.subgraphs.extend(subgraphs)
    return bytes(write_tflite_buffer(nng))


# ----------------------------------------------------------------------------------------------------------------------
# entry points


def quiet(fn, *args, **kw):
    """Runs fn with everything it prints captured (also what goes to a stdout object that was bound at import time)"""
    sys.stdout.flush()
    saved_fd = os.dup(1)
    with tempfile.TemporaryFile(mode="w+") as tmp:
        os.dup2(tmp.fileno(), 1)
        out = io.StringIO()
        try:
            with contextlib.redirect_stdout(out):
                res = fn(*args, **kw)
        finally:
            sys.__stdout__.flush()
            os.dup2(saved_fd, 1)
            os.close(saved_fd)
        tmp.seek(0)
        text = tmp.read()
    return res, out.getvalue() + text


def compile_bytes(model_bytes):
    res, _ = quiet(vela.convert_bytes, bytearray(model_bytes))
    return bytes(res)


def compile_convert(model_bytes, workdir, name="model"):
    """vela.convert() writes to ./output relative to the cwd"""
    os.makedirs(workdir, exist_ok=True)
    cwd = os.getcwd()
    os.chdir(workdir)
    try:
        path = os.path.join(workdir, name + ".tflite")
        with open(path, "wb") as f:
            f.write(model_bytes)
        out_name, _ = quiet(vela.convert, path)
        with open(out_name, "rb") as f:
            return f.read()
    finally:
        os.chdir(cwd)


def compile_main(model_bytes, workdir, name="model", extra_args=()):
    """Command line entry point; returns (output bytes, summary csv text, stdout)"""
    os.makedirs(workdir, exist_ok=True)
    path = os.path.join(workdir, name + ".tflite")
    with open(path, "wb") as f:
        f.write(model_bytes)
    outdir = os.path.join(workdir, "output")
    rc, stdout = quiet(vela.main, [path, "--output-dir", outdir] + list(extra_args))
    if rc != 0:
        raise RuntimeError(f"vela.main returned {rc}: {stdout}")
    with open(os.path.join(outdir, name + "_vela.tflite"), "rb") as f:
        data = f.read()
    csvs = sorted(p for p in os.listdir(outdir) if p.startswith(name + "_summary"))
    with open(os.path.join(outdir, csvs[-1])) as f:
        csv_text = f.read()
    return data, csv_text, stdout


def summary_figures(csv_text):
    """Summary figures without the columns that legitimately vary (none should, apart from timing - there is none)"""
    lines = csv_text.strip().splitlines()
    return dict(zip(lines[0].split(","), lines[1].split(",")))


def summary_stdout(stdout):
    """Performance summary lines printed by the command line (inference time, cycles, memory used)"""
    keep = []
    for line in stdout.splitlines():
        if line.startswith("Warning") or line.startswith("Info"):
            continue
        keep.append(line)
    return "\n".join(keep)


# ----------------------------------------------------------------------------------------------------------------------
# histories in fresh processes


def run_history(steps, resdir=None, hashseed="0"):
    """Runs the steps (see c14run.py) one after the other in ONE fresh python process; returns the list of step results"""
    import json
    import subprocess

    here = os.path.dirname(os.path.abspath(__file__))
    env = dict(os.environ, PYTHONHASHSEED=str(hashseed))
    cmd = [sys.executable, os.path.join(here, "c14run.py"), json.dumps(steps)]
    if resdir:
        os.makedirs(resdir, exist_ok=True)
        cmd.append(resdir)
    p = subprocess.run(cmd, capture_output=True, text=True, env=env)
    lines = [json.loads(x) for x in p.stdout.splitlines() if x.startswith("{")]
    if len(lines) != len(steps):
        raise RuntimeError("history crashed: " + p.stderr[-2000:])
    return lines


def read_tensors(tflite_bytes):
    """name -> (shape, raw buffer bytes or None) of the tensors of subgraph 0, read with the flatbuffer classes only"""
    from ethosu.vela.tflite.Model import Model

    model = Model.GetRootAsModel(bytearray(tflite_bytes), 0)
    sg = model.Subgraphs(0)
    res = {}
    for i in range(sg.TensorsLength()):
        t = sg.Tensors(i)
        buf = model.Buffers(t.Buffer())
        data = None if buf.DataLength() == 0 else bytes(buf.DataAsNumpy())
        res[t.Name().decode()] = (list(t.ShapeAsNumpy()) if t.ShapeLength() else [], data)
    return res

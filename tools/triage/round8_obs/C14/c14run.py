"""Runs a history of compilations in THIS process (helper of the C14 demos / observations).

usage: c14run.py '<json list of steps>' <result dir>
A step is [entry, model, [extra command line args]] with entry one of
   bytes    vela.convert_bytes(bytearray)
   convert  vela.convert(file)
   main     vela.main([file, "--output-dir", ...] + extra)      (a failing compilation is recorded, not fatal)
model is a name from models.ALL or the path of a .tflite file.
One JSON line is printed per step; the output of step i is saved as <result dir>/step<i>.tflite
"""
import hashlib
import json
import os
import sys
import tempfile

sys.path.insert(0, os.getcwd())
sys.path.insert(0, os.path.dirname(os.path.abspath(__file__)))
from models import *  # noqa: F401,F403,E402


def model_bytes(model):
    if model in ALL:
        return ALL[model]()
    with open(model, "rb") as f:
        return f.read()


def run_step(entry, model, extra, workdir, mb):
    res = {"entry": entry, "model": model, "extra": extra}
    name = model if model in ALL else os.path.splitext(os.path.basename(model))[0]
    try:
        csv = None
        if entry == "bytes":
            out = compile_bytes(mb)
        elif entry == "convert":
            out = compile_convert(mb, workdir, name)
        else:
            out, csv_text, stdout = compile_main(mb, workdir, name, extra)
            csv = summary_figures(csv_text)
            csv.pop("network", None)
        res["out_md5"] = hashlib.md5(out).hexdigest()
        res["out_len"] = len(out)
        res["csv"] = csv
        res["out"] = out
    except BaseException as e:  # noqa
        res["error"] = f"{type(e).__name__}: {e}"
    return res


if __name__ == "__main__":
    steps = json.loads(sys.argv[1])
    resdir = sys.argv[2] if len(sys.argv) > 2 else None
    # all input models are built before the first compilation: the history consists of compilations only
    inputs = [model_bytes(model) for _, model, _ in steps]
    with tempfile.TemporaryDirectory() as d:
        for i, (entry, model, extra) in enumerate(steps):
            r = run_step(entry, model, extra, os.path.join(d, f"s{i}"), inputs[i])
            out = r.pop("out", None)
            if resdir and out is not None:
                with open(os.path.join(resdir, f"step{i}.tflite"), "wb") as f:
                    f.write(out)
            print(json.dumps(r), flush=True)

"""A battery of generated networks (name -> builder returning the .tflite bytes)"""
import os
import sys

sys.path.insert(0, os.path.dirname(os.path.abspath(__file__)))
from c14lib import *  # noqa: F401,F403,E402


def m_basic(seed=0):
    n = Net("basic", seed)
    x = n.input([1, 16, 16, 8])
    a = n.conv(x, 16, 3)
    b = n.dwconv(a, 3)
    c = n.conv(b, 16, 1, act=Op.Relu)
    d = n.binary(Op.Add, a, c)
    e = n.pool(d)
    f = n.unary(Op.Sigmoid, e)
    g = n.reshape(f, [1, 8 * 8 * 16])
    h = n.fc(g, 10)
    return n.build([n.softmax(h)])


def m_luts(seed=1):
    n = Net("luts", seed)
    x = n.input([1, 8, 8, 16])
    a = n.unary(Op.Tanh, x)
    b = n.unary(Op.Sigmoid, x)
    c = n.leaky_relu(x, 0.1)
    d = n.binary(Op.Add, a, b)
    e = n.binary(Op.Mul, d, c)
    f = n.unary(Op.Tanh, e)
    g = n.unary(Op.Sigmoid, f)
    h = n.leaky_relu(g, 0.2)
    i = n.unary(Op.Tanh, h)
    return n.build([i])


def m_big(seed=2):
    # feature maps larger than the 384 KiB staging area: competition for fast storage, cascades, weight buffering
    n = Net("big", seed)
    x = n.input([1, 96, 96, 16])
    a = n.conv(x, 32, 3)
    b = n.conv(a, 32, 3, act=Op.Relu6)
    c = n.dwconv(b, 3)
    d = n.binary(Op.Add, a, c)
    e = n.conv(d, 64, 3, stride=2)
    f = n.conv(e, 64, 3)
    g = n.binary(Op.Add, e, f)
    h = n.conv(g, 128, 3, stride=2)
    i = n.conv(h, 128, 1)
    j = n.pool(i, Op.AvgPool, 2, 2)
    return n.build([j])


def m_branches(seed=3):
    n = Net("branches", seed)
    x = n.input([1, 32, 32, 16])
    branches = []
    for k in (1, 3, 5):
        branches.append(n.conv(x, 16, k, act=Op.Relu))
    p = n.pool(x, Op.MaxPool, 3, 1, Padding.SAME)
    branches.append(n.conv(p, 16, 1))
    c = n.concat(branches)
    d = n.conv(c, 32, 3, stride=2, per_channel=True)
    e = n.mean(d)
    f = n.reshape(e, [1, 32])
    g = n.fc(f, 16, act=Op.Relu)
    h = n.fc(g, 5)
    return n.build([h])


def m_cpu_split(seed=4):
    n = Net("cpusplit", seed)
    x = n.input([1, 16, 16, 8])
    a = n.conv(x, 16, 3)
    b = n.cpu_op(a)
    c = n.conv(b, 16, 3)
    d = n.unary(Op.Sigmoid, c)
    e = n.cpu_op(d)
    f = n.dwconv(e, 3)
    g = n.binary(Op.Add, f, b)
    return n.build([g])


def m_shared_weights(seed=5):
    n = Net("shared", seed)
    x = n.input([1, 16, 16, 16])
    rng = np.random.RandomState(seed)
    w = rng.randint(-127, 128, size=(16, 3, 3, 16))
    a = n.conv(x, 16, 3, w_values=w)
    b = n.conv(a, 16, 3, w_values=w)
    c = n.conv(b, 16, 3, w_values=w)
    d = n.binary(Op.Add, a, c)
    return n.build([d])


def m_misc(seed=6):
    n = Net("misc", seed)
    x = n.input([1, 16, 16, 8])
    a = n.pad(x, [(0, 0), (1, 1), (1, 1), (0, 0)])
    b = n.conv(a, 8, 3, padding=Padding.VALID)
    c = n.resize_bilinear(b, 2)
    d = n.strided_slice(c, [0, 0, 0, 0], [1, 16, 16, 8])
    e = n.binary(Op.Sub, d, x)
    f = n.transpose_conv(e, 8, 3, 2)
    g = n.pool(f, Op.AvgPool, 2, 2)
    h = n.binary(Op.Maximum, g, x)
    i = n.mean(h)
    return n.build([i])


def m_two_outputs(seed=7):
    n = Net("twoout", seed)
    x = n.input([1, 24, 24, 8])
    y = n.input([1, 24, 24, 8])
    a = n.binary(Op.Add, x, y)
    b = n.conv(a, 8, 3)
    c = n.binary(Op.Mul, b, y)
    d = n.unary(Op.Tanh, c)
    e = n.dwconv(a, 3, stride=2)
    return n.build([d, e])


def m_deep(seed=8):
    n = Net("deep", seed)
    x = n.input([1, 48, 48, 8])
    t = x
    skips = []
    for i in range(10):
        t = n.conv(t, 16 if i % 2 else 24, 3 if i % 3 else 1, act=Op.Relu if i % 2 else None)
        if i % 3 == 2:
            skips.append(t)
    a = n.binary(Op.Add, skips[0], skips[2]) if skips[0].shape == skips[2].shape else skips[-1]
    b = n.leaky_relu(a, 0.3)
    c = n.pool(b)
    return n.build([c])


def m_dilated(seed=9):
    n = Net("dilated", seed)
    x = n.input([1, 32, 32, 8])
    a = n.conv(x, 8, 3, dilation=4, padding=Padding.VALID)
    b = n.conv(a, 8, 3, dilation=2, padding=Padding.VALID)
    return n.build([b])


def m_fc_chain(seed=10):
    n = Net("fcchain", seed)
    x = n.input([1, 256])
    a = n.fc(x, 512, act=Op.Relu)
    b = n.fc(a, 512)
    c = n.unary(Op.Tanh, b)
    d = n.fc(c, 64)
    return n.build([n.softmax(d)])


def m_uint8(seed=11):
    n = Net("u8", seed, dtype=DataType.uint8)
    x = n.input([1, 16, 16, 8])
    a = n.conv(x, 8, 3)
    b = n.binary(Op.Add, a, x)
    c = n.pool(b)
    return n.build([c])


ALL = {f.__name__[2:]: f for f in (
    m_basic, m_luts, m_big, m_branches, m_cpu_split, m_shared_weights, m_misc, m_two_outputs, m_deep, m_dilated,
    m_fc_chain, m_uint8)}


# ----------------------------------------------------------------------------------------------------------------------
# second battery: other data types, more operators, several subgraphs


def m_int16(seed=12):
    n = Net("i16", seed, dtype=DataType.int16)
    x = n.input([1, 8, 8, 8], scale=0.001, zp=0)
    a = n.unary(Op.Tanh, x, scale=1.0 / 32768, zp=0)
    b = n.unary(Op.Sigmoid, x, scale=1.0 / 32768, zp=0)
    c = n.binary(Op.Mul, a, b, scale=1.0 / 32768, zp=0)
    d = n.binary(Op.Add, c, a, scale=2.0 / 32768, zp=0)
    e = n.leaky_relu(d, 0.1, scale=2.0 / 32768, zp=0)
    return n.build([e])


def m_elementwise(seed=13):
    n = Net("elem", seed)
    x = n.input([1, 12, 12, 8])
    y = n.input([1, 1, 1, 8])
    k = n.const([1, 1, 1, 8], scale=0.02)
    a = n.binary(Op.Mul, x, y)
    b = n.binary(Op.Add, a, k)
    c = n.binary(Op.Minimum, b, x, scale=float(b.quantization.scale_f32))
    d = n.unary(Op.Abs, c)
    e = n.binary(Op.Sub, d, k)
    f = n.unary(Op.HardSwish, e)
    g = n.binary(Op.Maximum, f, f, scale=float(f.quantization.scale_f32))
    return n.build([g])


def m_same_luts(seed=14):
    # the same activation with the same quantisation many times: value keyed LUT ids
    n = Net("sameluts", seed)
    x = n.input([1, 8, 8, 8], scale=0.05, zp=0)
    t = x
    outs = []
    for i in range(6):
        t = n.unary(Op.Tanh, t, scale=1.0 / 128, zp=0)
        t2 = n.binary(Op.Add, t, x, scale=0.05, zp=0)
        outs.append(t2)
        t = t2
    return n.build([t])


def m_pads(seed=15):
    n = Net("pads", seed)
    x = n.input([1, 10, 10, 8])
    a = n.pad(x, [(0, 0), (2, 2), (2, 2), (0, 0)])
    b = n.pool(a, Op.MaxPool, 3, 1, Padding.VALID)
    c = n.pad(b, [(0, 0), (2, 2), (2, 2), (0, 0)])
    d = n.pool(c, Op.AvgPool, 5, 1, Padding.VALID)
    e = n.pad(d, [(0, 0), (1, 1), (1, 1), (0, 0)])
    f = n.dwconv(e, 3, padding=Padding.VALID)
    return n.build([f])


def m_means(seed=16):
    n = Net("means", seed)
    x = n.input([1, 7, 7, 16])
    y = n.input([1, 7, 7, 16])
    a = n.mean(x)
    b = n.mean(y)
    c = n.binary(Op.Add, a, b)
    d = n.reshape(c, [1, 16])
    e = n.fc(d, 16)
    f = n.fc(e, 16)
    return n.build([f])


def m_resize(seed=17):
    n = Net("resize", seed)
    x = n.input([1, 8, 8, 8])
    a = n.resize_bilinear(x, 4)
    b = n.conv(a, 8, 3, stride=2)
    c = n.resize_bilinear(b, 2, half_pixel_centers=True)
    d = n.transpose_conv(c, 8, 3, 2)
    return n.build([d])


def m_wide(seed=18):
    # many parallel branches of different sizes: fragmented live ranges
    n = Net("wide", seed)
    x = n.input([1, 40, 40, 16])
    outs = []
    for i, (c, k, s) in enumerate([(8, 1, 1), (24, 3, 1), (16, 5, 1), (40, 3, 1), (12, 1, 1), (32, 3, 1)]):
        a = n.conv(x, c, k, stride=s, act=Op.Relu if i % 2 else None)
        b = n.dwconv(a, 3)
        outs.append(n.conv(b, 16, 1))
    t = outs[0]
    for o in outs[1:]:
        t = n.binary(Op.Add, t, o)
    return n.build([n.pool(t)])


def m_while(seed=19):
    # main: While(i, x) { cond: Less(i, limit) ; body: i+1, conv(x) }
    rng = np.random.RandomState(seed)
    body = Net("body", seed)
    bi = body.input([1], name="body_i", dtype=DataType.int32, scale=1.0, zp=0)
    bx = body.input([1, 8, 8, 8], name="body_x", scale=0.02, zp=0)
    one = body.const([1], dtype=DataType.int32, values=[1], scale=1.0, name="one")
    bi2 = body.binary(Op.Add, bi, one, name="body_i2", dtype=DataType.int32, scale=1.0, zp=0)
    bc = body.conv(bx, 8, 3, name="body_c")
    bt = body.unary(Op.Tanh, bc, name="body_x2")
    body_sg = body.subgraph([bi2, bt], "body")

    cond = Net("cond", seed)
    ci = cond.input([1], name="cond_i", dtype=DataType.int32, scale=1.0, zp=0)
    cx = cond.input([1, 8, 8, 8], name="cond_x", scale=0.02, zp=0)
    limit = cond.const([1], dtype=DataType.int32, values=[3], scale=1.0, name="limit")
    lt = Tensor([1], DataType.bool, "cond_out")
    cond._op(Op.Less, [ci, limit], lt, {})
    cond_sg = cond.subgraph([lt], "cond")

    n = Net("whilenet", seed)
    i0 = n.input([1], name="i0", dtype=DataType.int32, scale=1.0, zp=0)
    x0 = n.input([1, 8, 8, 8], name="x0", scale=0.02, zp=0)
    pre = n.conv(x0, 8, 3, name="pre")
    pre.quantization = qp(0.02, 0)
    wi = Tensor([1], DataType.int32, "while_i")
    wi.quantization = qp(1.0, 0, DataType.int32)
    wx = n.act([1, 8, 8, 8], "while_x", scale=1.0 / 128, zp=0)
    op = Operation(Op.While, "while")
    op.inputs = [i0, pre]
    for t in op.inputs:
        t.consumer_list.append(op)
    op.outputs = [wi, wx]
    wi.ops = [op]
    wx.ops = [op]
    op.attrs = {"cond_subgraph_index": 1, "body_subgraph_index": 2}
    op.run_on_npu = False
    n.ops.append(op)
    post = n.dwconv(wx, 3, name="post")
    main_sg = n.subgraph([post, wi], "main")
    return build_model("whilenet", [main_sg, cond_sg, body_sg])


ALL.update({f.__name__[2:]: f for f in (
    m_int16, m_elementwise, m_same_luts, m_pads, m_means, m_resize, m_wide, m_while)})


def m_cpu_only(seed=20):
    # nothing can be placed on the NPU
    n = Net("cpuonly", seed)
    x = n.input([1, 4, 4, 8])
    a = n.cpu_op(x)
    b = n.cpu_op(a)
    return n.build([b])


def m_cpu_consts(seed=21):
    # three NPU subgraphs separated by CPU operators that have constant operands (the first tensors of the file)
    n = Net("cpuconsts", seed)
    x = n.input([1, 16, 16, 8])
    a = n.conv(x, 8, 3)
    k0 = n.const([1, 16, 16, 8], scale=0.5, name="a0")
    b = n.binary(Op.Minimum, a, k0)  # differing quantisation: MINIMUM stays on the CPU
    c = n.conv(b, 8, 3)
    k1 = n.const([1, 16, 16, 8], scale=0.25, name="a1")
    d = n.binary(Op.Minimum, c, k1)
    e = n.conv(d, 8, 3)
    return n.build([e])


ALL.update({f.__name__[2:]: f for f in (m_cpu_only, m_cpu_consts)})


def m_named(seed=22):
    # the feature maps sort before the constants in the tensor table of the file
    n = Net("named", seed)
    x = n.input([1, 16, 16, 8], name="a0_in")
    a = n.conv(x, 16, 3, name="a1_mid")
    b = n.conv(a, 8, 3, name="a2_out")
    return n.build([b])


def m_named2(seed=23):
    # as two_outputs, but the first network input is the first tensor of the file
    n = Net("named2", seed)
    x = n.input([1, 24, 24, 8], name="a0_x")
    y = n.input([1, 24, 24, 8], name="y")
    a = n.binary(Op.Add, x, y)
    b = n.conv(a, 8, 3)
    c = n.binary(Op.Mul, b, y)
    d = n.unary(Op.Tanh, c)
    e = n.dwconv(a, 3, stride=2)
    return n.build([d, e])


ALL.update({f.__name__[2:]: f for f in (m_named, m_named2)})

"""Builds small TFLite models in memory with Vela's own classes, compiles them with the Vela driver
(ethosu.vela.vela.main) and returns the emitted register command streams."""
import contextlib
import io
import os
import shutil
import sys
import tempfile

import numpy as np

sys.path.insert(0, os.getcwd())
sys.path.insert(0, os.path.dirname(os.path.abspath(__file__)))

from ethosu.vela import vela  # noqa: E402
from ethosu.vela import register_command_stream_generator as rcsg  # noqa: E402
from ethosu.vela import high_level_command_to_npu_op as hl2npu  # noqa: E402
from ethosu.vela.data_type import DataType  # noqa: E402
from ethosu.vela.nn_graph import Graph  # noqa: E402
from ethosu.vela.nn_graph import Pass  # noqa: E402
from ethosu.vela.nn_graph import PassPlacement  # noqa: E402
from ethosu.vela.nn_graph import Subgraph  # noqa: E402
from ethosu.vela.operation import NpuBlockType  # noqa: E402
from ethosu.vela.operation import Op  # noqa: E402
from ethosu.vela.operation import Operation  # noqa: E402
from ethosu.vela.operation import Padding  # noqa: E402
from ethosu.vela.tensor import create_const_tensor  # noqa: E402
from ethosu.vela.tensor import QuantizationParameters  # noqa: E402
from ethosu.vela.tensor import Tensor  # noqa: E402
from ethosu.vela.tflite_writer import write_tflite_buffer  # noqa: E402

ACCEL_CLI = {
    "U55_32": "ethos-u55-32",
    "U55_64": "ethos-u55-64",
    "U55_128": "ethos-u55-128",
    "U55_256": "ethos-u55-256",
    "U65_256": "ethos-u65-256",
    "U65_512": "ethos-u65-512",
}


def quant(scale=0.5, zp=0):
    qp = QuantizationParameters()
    qp.scale_f32 = np.float32(scale)
    qp.zero_point = zp
    return qp


class ModelBuilder:
    """Sequential model builder. dtype: DataType.int8 or DataType.int16"""

    def __init__(self, in_shape, dtype=DataType.int8, seed=1):
        self.dtype = dtype
        self.rng = np.random.RandomState(seed)
        self.ops = []
        self.n = 0
        self.input = Tensor(list(in_shape), dtype, "input")
        self.input.quantization = quant(0.5 if dtype == DataType.int8 else 0.01)
        self.cur = self.input

    def _name(self, base):
        self.n += 1
        return f"{base}{self.n}"

    def _out(self, shape, name, scale=None):
        t = Tensor(list(shape), self.dtype, name + "_out")
        t.quantization = quant((0.5 if self.dtype == DataType.int8 else 0.01) if scale is None else scale)
        return t

    def _conv_out_hw(self, h, w, kh, kw, sy, sx, dy, dx, padding):
        if padding == "SAME":
            return -(-h // sy), -(-w // sx)
        ekh, ekw = (kh - 1) * dy + 1, (kw - 1) * dx + 1
        return (h - ekh) // sy + 1, (w - ekw) // sx + 1

    def conv(self, oc, k=(1, 1), stride=(1, 1), dilation=(1, 1), padding="VALID", act=None):
        """k, stride, dilation are (h, w)"""
        n, h, w, ic = self.cur.shape
        kh, kw = k
        name = self._name("conv")
        oh, ow = self._conv_out_hw(h, w, kh, kw, stride[0], stride[1], dilation[0], dilation[1], padding)
        op = Operation(Op.Conv2DBias, name)
        wq = quant(0.01)
        wq.zero_point = 0
        wvals = self.rng.randint(-60, 60, size=(oc, kh, kw, ic))
        weights = create_const_tensor(name + "_w", [oc, kh, kw, ic], DataType.int8, wvals, quantization=wq)
        bq = quant(self.cur.quantization.scale_f32 * 0.01)
        bias_dtype = DataType.int32 if self.dtype == DataType.int8 else DataType.int64
        bias = create_const_tensor(name + "_b", [oc], bias_dtype, self.rng.randint(-100, 100, size=(oc,)), quantization=bq)
        op.inputs = [self.cur, weights, bias]
        for t in op.inputs:
            t.consumer_list.append(op)
        out = self._out([n, oh, ow, oc], name)
        op.set_output_tensor(out)
        op.attrs = {
            "padding": Padding.SAME if padding == "SAME" else Padding.VALID,
            "stride_w": stride[1],
            "stride_h": stride[0],
            "dilation_w_factor": dilation[1],
            "dilation_h_factor": dilation[0],
            "fused_activation_function": act,
        }
        self.ops.append(op)
        self.cur = out
        return self

    def depthwise(self, k=(3, 3), stride=(1, 1), dilation=(1, 1), padding="VALID", act=None):
        n, h, w, ic = self.cur.shape
        kh, kw = k
        name = self._name("dw")
        oh, ow = self._conv_out_hw(h, w, kh, kw, stride[0], stride[1], dilation[0], dilation[1], padding)
        op = Operation(Op.DepthwiseConv2DBias, name)
        wq = quant(0.01)
        wvals = self.rng.randint(-60, 60, size=(1, kh, kw, ic))
        weights = create_const_tensor(name + "_w", [1, kh, kw, ic], DataType.int8, wvals, quantization=wq)
        bq = quant(self.cur.quantization.scale_f32 * 0.01)
        bias_dtype = DataType.int32 if self.dtype == DataType.int8 else DataType.int64
        bias = create_const_tensor(name + "_b", [ic], bias_dtype, self.rng.randint(-100, 100, size=(ic,)), quantization=bq)
        op.inputs = [self.cur, weights, bias]
        for t in op.inputs:
            t.consumer_list.append(op)
        out = self._out([n, oh, ow, ic], name)
        op.set_output_tensor(out)
        op.attrs = {
            "padding": Padding.SAME if padding == "SAME" else Padding.VALID,
            "stride_w": stride[1],
            "stride_h": stride[0],
            "dilation_w_factor": dilation[1],
            "dilation_h_factor": dilation[0],
            "depth_multiplier": 1,
            "fused_activation_function": act,
        }
        self.ops.append(op)
        self.cur = out
        return self

    def pool(self, kind="max", k=(2, 2), stride=(2, 2), padding="VALID"):
        n, h, w, c = self.cur.shape
        name = self._name(kind + "pool")
        oh, ow = self._conv_out_hw(h, w, k[0], k[1], stride[0], stride[1], 1, 1, padding)
        op = Operation(Op.MaxPool if kind == "max" else Op.AvgPool, name)
        op.inputs = [self.cur]
        self.cur.consumer_list.append(op)
        out = self._out([n, oh, ow, c], name, scale=float(self.cur.quantization.scale_f32))
        op.set_output_tensor(out)
        op.attrs = {
            "padding": Padding.SAME if padding == "SAME" else Padding.VALID,
            "stride_w": stride[1],
            "stride_h": stride[0],
            "filter_width": k[1],
            "filter_height": k[0],
            "fused_activation_function": None,
        }
        self.ops.append(op)
        self.cur = out
        return self

    def binary(self, kind="add", other=None, const_shape=None, act=None):
        """other: an earlier tensor, or None with const_shape -> constant second operand"""
        name = self._name(kind)
        op = Operation({"add": Op.Add, "mul": Op.Mul, "sub": Op.Sub, "min": Op.Minimum, "max": Op.Maximum}[kind], name)
        if other is None:
            shape = list(const_shape)
            vals = self.rng.randint(-50, 50, size=shape) if shape else np.array(7)
            other = create_const_tensor(name + "_c", shape, self.dtype, vals, quantization=quant(0.25))
        op.inputs = [self.cur, other]
        for t in op.inputs:
            t.consumer_list.append(op)
        out = self._out(self.cur.shape, name)
        if kind in ("min", "max"):
            out.quantization = self.cur.quantization.clone()
            if other.ops and other.ops[0].type == Op.Const:
                other.quantization = self.cur.quantization.clone()
        op.set_output_tensor(out)
        op.attrs = {"fused_activation_function": act, "pot_scale_int16": False}
        self.ops.append(op)
        self.cur = out
        return self

    def unary(self, kind="tanh"):
        name = self._name(kind)
        op = Operation({"tanh": Op.Tanh, "sigmoid": Op.Sigmoid, "abs": Op.Abs, "relu": Op.Relu}[kind], name)
        op.inputs = [self.cur]
        self.cur.consumer_list.append(op)
        if kind == "tanh":
            out = self._out(self.cur.shape, name, scale=1 / 128 if self.dtype == DataType.int8 else 1 / 32768)
        elif kind == "sigmoid":
            out = self._out(self.cur.shape, name, scale=1 / 256 if self.dtype == DataType.int8 else 1 / 32768)
            if self.dtype == DataType.int8:
                out.quantization.zero_point = -128
        else:
            out = self._out(self.cur.shape, name, scale=float(self.cur.quantization.scale_f32))
        op.set_output_tensor(out)
        op.attrs = {}
        self.ops.append(op)
        self.cur = out
        return self

    def resize_nearest(self, factor=2):
        n, h, w, c = self.cur.shape
        name = self._name("resize")
        op = Operation(Op.ResizeNearestNeighbor, name)
        size = create_const_tensor(name + "_size", [2], DataType.int32, [h * factor, w * factor])
        op.inputs = [self.cur, size]
        for t in op.inputs:
            t.consumer_list.append(op)
        out = self._out([n, h * factor, w * factor, c], name, scale=float(self.cur.quantization.scale_f32))
        op.set_output_tensor(out)
        op.attrs = {"align_corners": False, "half_pixel_centers": False}
        self.ops.append(op)
        self.cur = out
        return self

    def build(self):
        nng = Graph("model")
        sg = Subgraph("main", PassPlacement.Cpu)
        sg.original_inputs = [self.input]
        sg.input_tensors = [self.input]
        sg.output_tensors = [self.cur]
        ps = Pass("all", PassPlacement.Cpu, False, NpuBlockType.Default)
        ps.ops = list(self.ops)
        sg.passes = [ps]
        nng.subgraphs.append(sg)
        return bytes(write_tflite_buffer(nng))


class CompileResult:
    def __init__(self):
        self.streams = []  # list of register command streams (one per NPU subgraph)
        self.npu_op_lists = []
        self.error = None
        self.stdout = ""
        self.cpu_ops = []


def compile_model(tflite_bytes, accel, extra_args=()):
    """Runs the Vela driver on the model. Returns CompileResult"""
    res = CompileResult()
    tmp = tempfile.mkdtemp(prefix="c15_")
    captured = []
    orig_gen = hl2npu.generate_command_stream

    def wrapped(npu_op_list, arch, verbose, mem_limits, *a, **k):
        stream = orig_gen(npu_op_list, arch, verbose, mem_limits, *a, **k)
        captured.append((list(npu_op_list), list(stream)))
        return stream

    hl2npu.generate_command_stream = wrapped
    out = io.StringIO()
    try:
        path = os.path.join(tmp, "m.tflite")
        with open(path, "wb") as f:
            f.write(tflite_bytes)
        args = [path, "--accelerator-config", ACCEL_CLI[accel], "--output-dir", os.path.join(tmp, "out")]
        args += list(extra_args)
        sys.stdout.flush()
        saved_fd = os.dup(1)
        devnull = os.open(os.devnull, os.O_WRONLY)
        os.dup2(devnull, 1)
        try:
            with contextlib.redirect_stdout(out):
                rc = vela.main(args)
            if rc != 0:
                res.error = f"vela returned {rc}"
        except BaseException as e:  # noqa
            res.error = f"{type(e).__name__}: {e}"
        finally:
            sys.stdout.flush()
            os.dup2(saved_fd, 1)
            os.close(saved_fd)
            os.close(devnull)
    finally:
        hl2npu.generate_command_stream = orig_gen
        shutil.rmtree(tmp, ignore_errors=True)
    res.stdout = out.getvalue()
    for ops, stream in captured:
        res.npu_op_lists.append(ops)
        res.streams.append(stream)
    return res

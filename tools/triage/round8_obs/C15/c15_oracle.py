"""Independent oracle for property C15 (block configurations / shared buffer layout).

The oracle looks only at an emitted register command stream (what the hardware sees) and at
constants of the Ethos-U shared buffer that are written down here a second time; it does not call
any of the block-config / SHRAM code of Vela.
"""
import math
import os
import sys

sys.path.insert(0, os.getcwd())

from ethosu.vela.ethos_u55_regs.ethos_u55_regs import cmd0  # noqa: E402

# ---------------------------------------------------------------------------------------------
# Hardware constants (per accelerator)
# ---------------------------------------------------------------------------------------------
ACCELS = ["U55_32", "U55_64", "U55_128", "U55_256", "U65_256", "U65_512"]

# (width, height, depth) of the OFM micro-block
UBLOCK = {
    "U55_32": (1, 1, 4),
    "U55_64": (1, 1, 8),
    "U55_128": (2, 1, 8),
    "U55_256": (2, 2, 8),
    "U65_256": (2, 2, 8),
    "U65_512": (2, 2, 8),
}
BANKS = {"U55_32": 16, "U55_64": 16, "U55_128": 24, "U55_256": 48, "U65_256": 48, "U65_512": 48}
BANK_BYTES = 1024
MAX_BLOCK = (64, 32, 128)  # width, height, depth
# bank granules: ifm8, ifm16, ifm8_ew, ifm16_ew, ifm32, acc16, acc32, acc40
GRANULES = {
    "U55_32": dict(ifm8=2, ifm16=2, ifm8_ew=2, ifm16_ew=2, ifm32=4, acc16=4, acc32=4, acc40=4),
    "U55_64": dict(ifm8=2, ifm16=2, ifm8_ew=2, ifm16_ew=2, ifm32=4, acc16=4, acc32=4, acc40=8),
    "U55_128": dict(ifm8=4, ifm16=4, ifm8_ew=4, ifm16_ew=4, ifm32=8, acc16=4, acc32=8, acc40=12),
    "U55_256": dict(ifm8=8, ifm16=8, ifm8_ew=8, ifm16_ew=8, ifm32=16, acc16=8, acc32=16, acc40=20),
}
GRANULES["U65_256"] = GRANULES["U55_256"]
GRANULES["U65_512"] = GRANULES["U55_256"]
SUBKERNEL_MAX = 8
RESERVED_OUTPUT_BANKS = 2
LUT_BANKS = 2


def rup(a, b):
    return -(-a // b) * b


def cdiv(a, b):
    return -(-a // b)


# ---------------------------------------------------------------------------------------------
# Register stream decoding
# ---------------------------------------------------------------------------------------------
_OPS = {
    cmd0.NPU_OP_CONV.value: "conv",
    cmd0.NPU_OP_DEPTHWISE.value: "depthwise",
    cmd0.NPU_OP_POOL.value: "pool",
    cmd0.NPU_OP_ELEMENTWISE.value: "elementwise",
}
_CMD0_BY_VALUE = {c.value: c for c in cmd0}


def decode_ops(stream):
    """Yields (kind, op_param, register_state) for every block operation in the stream"""
    regs = {}
    i = 0
    res = []
    while i < len(stream):
        word = int(stream[i])
        code = word & 0xFFFF
        param = (word >> 16) & 0xFFFF
        if code & 0x4000:
            i += 2
            continue
        i += 1
        opcode = code & 0x3FF
        if opcode in _OPS:
            res.append((_OPS[opcode], param, dict(regs)))
        elif opcode in _CMD0_BY_VALUE:
            regs[_CMD0_BY_VALUE[opcode].name] = param
    return res


class Violation(Exception):
    pass


def required_ifm_dim(blk, stride, kernel_dilated, upscale, nearest, ublk):
    n = (blk - 1) * stride + min(kernel_dilated, SUBKERNEL_MAX) + (1 if nearest else 0)
    return rup(cdiv(n, upscale), ublk)


def check_op(accel, kind, op_param, regs, errors, tag=""):
    """Checks one emitted block operation; appends messages to errors"""
    uw, uh, ud = UBLOCK[accel]
    gran = GRANULES[accel]
    banks = BANKS[accel]

    def err(msg):
        errors.append(f"{tag}{accel} {kind}: {msg}")

    bh = regs["NPU_SET_OFM_BLK_HEIGHT_M1"] + 1
    bw = regs["NPU_SET_OFM_BLK_WIDTH_M1"] + 1
    bd = regs["NPU_SET_OFM_BLK_DEPTH_M1"] + 1
    desc = f"block {bh}x{bw}x{bd}"
    # 1. multiple of micro block, within max
    for name, v, u, m in (("height", bh, uh, MAX_BLOCK[1]), ("width", bw, uw, MAX_BLOCK[0]), ("depth", bd, ud, MAX_BLOCK[2])):
        if v <= 0 or v % u != 0:
            err(f"{desc}: {name} {v} is not a positive multiple of the micro-block {u}")
        if v > m:
            err(f"{desc}: {name} {v} exceeds the maximum {m}")

    ifm_prec = regs["NPU_SET_IFM_PRECISION"]
    ifm_bits = {0: 8, 1: 16, 2: 32}[(ifm_prec >> 2) & 3]
    upscale_mode = regs.get("NPU_SET_IFM_UPSCALE", 0)
    upscale = 1 if upscale_mode == 0 else 2
    nearest = upscale_mode == 1
    act = regs.get("NPU_SET_ACTIVATION", 0)
    uses_lut = (act & 0x1F) >= 16
    acc_format = regs["NPU_SET_ACC_FORMAT"]
    acc_bits, acc_gran = {0: (32, gran["acc32"]), 1: (40, gran["acc40"]), 2: (16, gran["acc16"])}[acc_format]
    ifm_depth = regs["NPU_SET_IFM_DEPTH_M1"] + 1
    ofm_h = regs["NPU_SET_OFM_HEIGHT_M1"] + 1

    lut_start = banks - LUT_BANKS if (uses_lut or banks > 16) else banks

    ib_end = regs["NPU_SET_IFM_IB_END"]
    ab_start = regs["NPU_SET_AB_START"]

    if kind == "elementwise":
        kh = kw = 1
        sx = sy = 1
        part_kernel = False
    else:
        kh = regs["NPU_SET_KERNEL_HEIGHT_M1"] + 1
        kw = regs["NPU_SET_KERNEL_WIDTH_M1"] + 1
        ks = regs["NPU_SET_KERNEL_STRIDE"]
        sx = (ks & 1) + (((ks >> 6) & 7) << 1) + 1
        sy = ((ks >> 1) & 1) + (((ks >> 9) & 7) << 1) + 1
        part_kernel = bool(ks & 4) and kind == "conv"

    ifm_bh = required_ifm_dim(bh, sy, kh, upscale, nearest, uh)
    ifm_bw = required_ifm_dim(bw, sx, kw, upscale, nearest, uw)
    is_reduce_sum = kind == "pool" and op_param == 2
    if kind in ("elementwise", "depthwise") or (kind == "pool" and not is_reduce_sum):
        ifm_bd = bd
    elif ifm_bits == 16:
        ifm_bd = rup(min(ifm_depth, 16), 4)
    else:
        ifm_bd = rup(min(ifm_depth, 16 if part_kernel else 32), 8)
    ifm_bytes = ifm_bh * ifm_bw * rup(ifm_bd * ifm_bits // 8, 8)
    if kind == "elementwise":
        ifm_gran = gran["ifm32"] if ifm_bits == 32 else gran[f"ifm{ifm_bits}_ew"]
    else:
        ifm_gran = gran[f"ifm{ifm_bits}"]
    ifm_banks = rup(cdiv(ifm_bytes, BANK_BYTES) * 2, ifm_gran)
    desc += f" (ifm block {ifm_bh}x{ifm_bw}x{ifm_bd} {ifm_bits}bit -> {ifm_banks} banks)"

    ib_start = RESERVED_OUTPUT_BANKS
    if kind == "elementwise":
        unary = op_param in (5, 6, 7)  # LRELU, ABS, CLZ
        scalar = bool(regs.get("NPU_SET_IFM2_BROADCAST", 0) & 0x80) and not unary
        binary_fm = not unary and not scalar
        if binary_fm:
            ib_start2 = regs["NPU_SET_IFM2_IB_START"]
            if not (ib_start <= ib_start2 <= ib_end):
                err(f"{desc}: partitions not ordered: IB_START {ib_start} IFM2_IB_START {ib_start2} IB_END {ib_end}")
            if ib_start2 - ib_start < ifm_banks:
                err(f"{desc}: IFM partition [{ib_start},{ib_start2}) smaller than {ifm_banks} banks")
            if ib_end - ib_start2 < ifm_banks:
                err(f"{desc}: IFM2 partition [{ib_start2},{ib_end}) smaller than {ifm_banks} banks")
        else:
            if ib_end - ib_start < ifm_banks:
                err(f"{desc}: IFM partition [{ib_start},{ib_end}) smaller than {ifm_banks} banks")
        if not (ib_end <= ab_start <= lut_start):
            err(f"{desc}: not ordered/inside: IB_END {ib_end} AB_START {ab_start} LUT start {lut_start} of {banks}")
    else:
        acc_h = bh
        if ofm_h == 1 and kh == 1 and uh == 2:
            acc_h = 1  # 1-D optimisation of the 256/512 MAC configurations
        acc_bytes = acc_h * bw * rup(bd, 8) * acc_bits // 8
        acc_banks = rup(cdiv(acc_bytes, BANK_BYTES) * 2, acc_gran)
        desc += f" (acc {acc_bits}bit -> {acc_banks} banks)"
        if ib_end - ib_start < ifm_banks:
            err(f"{desc}: IFM partition [{ib_start},{ib_end}) smaller than {ifm_banks} banks")
        if ib_end > ab_start:
            err(f"{desc}: IFM partition end {ib_end} overlaps accumulators at {ab_start}")
        if lut_start - ab_start < acc_banks:
            err(f"{desc}: accumulator partition [{ab_start},{lut_start}) smaller than {acc_banks} banks")
        if ab_start > lut_start:
            err(f"{desc}: AB_START {ab_start} beyond usable banks {lut_start}")
    if max(ib_end, ab_start) > banks:
        err(f"{desc}: layout outside the {banks} banks")


def check_stream(accel, stream, tag=""):
    errors = []
    ops = decode_ops(stream)
    for kind, param, regs in ops:
        check_op(accel, kind, param, regs, errors, tag)
    return errors, len(ops)

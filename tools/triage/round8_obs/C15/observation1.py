"""Observation 1 (unmodified tree): for operations with IFM upscaling the scheduler selects OFM blocks with odd
height / width on the accelerators whose micro-block is 1 high or wide (Ethos-U55-32/-64/-128), while the public
query deliberately only offers even heights and widths for such operations
(api.npu_find_block_configs: min_block_height = max(ublock.height, 2 if upscaling else 1), same step).

Reproducer: conv 3x3 -> RESIZE_NEAREST_NEIGHBOR x2 -> conv 3x3, compiled end-to-end. The resize becomes an average
pool with IFM_UPSCALE = NEAREST; the emitted OFM_BLK_HEIGHT for it is 9 on Ethos-U55-128 (7 x 13 block on
Ethos-U55-32/-64 for int16). The layout itself passes the shared buffer oracle; what is violated is the even-block rule
for upscaled IFMs that the query encodes, i.e. the emitted configuration is one the query would never offer.
"""
import os
import sys

sys.path.insert(0, os.getcwd())
sys.path.insert(0, os.path.dirname(os.path.abspath(__file__)))

import c15_model as M  # noqa: E402
import c15_oracle as O  # noqa: E402
from ethosu.vela.data_type import DataType  # noqa: E402


def main():
    found = 0
    for dt, dn in ((DataType.int8, "int8"), (DataType.int16, "int16")):
        buf = (
            M.ModelBuilder([1, 8, 8, 16], dt).conv(16, (3, 3), padding="SAME").resize_nearest(2).conv(16, (3, 3), padding="SAME")
        ).build()
        for accel in O.ACCELS:
            res = M.compile_model(buf, accel)
            assert res.error is None, res.error
            for stream in res.streams:
                errs, _ = O.check_stream(accel, stream)
                for kind, p, regs in O.decode_ops(stream):
                    if regs.get("NPU_SET_IFM_UPSCALE", 0) != 0:
                        bh = regs["NPU_SET_OFM_BLK_HEIGHT_M1"] + 1
                        bw = regs["NPU_SET_OFM_BLK_WIDTH_M1"] + 1
                        bd = regs["NPU_SET_OFM_BLK_DEPTH_M1"] + 1
                        odd = bh % 2 or bw % 2
                        found += bool(odd)
                        print(
                            f"{dn} {accel}: {kind} with IFM_UPSCALE={regs['NPU_SET_IFM_UPSCALE']}: block {bh}x{bw}x{bd}"
                            f"{'  <-- odd' if odd else ''}  (layout oracle errors: {errs})"
                        )
    print("OBSERVED" if found else "not observed")
    return 0


if __name__ == "__main__":
    sys.exit(main())

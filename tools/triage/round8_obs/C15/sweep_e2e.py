"""End-to-end sweep: build small models, compile with the Vela driver, check every emitted op (exploration tool)"""
import json
import os
import random
import sys
import time

sys.path.insert(0, os.getcwd())
sys.path.insert(0, os.path.dirname(os.path.abspath(__file__)))
import c15_model as M  # noqa: E402
import c15_oracle as O  # noqa: E402
from ethosu.vela.data_type import DataType  # noqa: E402


def models(rng, n_random):
    i8, i16 = DataType.int8, DataType.int16
    yield "conv3x3_dw_pool_add_tanh", lambda: M.ModelBuilder([1, 16, 16, 8]).conv(16, (3, 3), padding="SAME").depthwise(
        (3, 3), padding="SAME"
    ).pool("max").binary("add", const_shape=[1, 1, 1, 16]).unary("tanh")
    for dt, dn in ((i8, "i8"), (i16, "i16")):
        yield f"wide1x1_{dn}", lambda dt=dt: M.ModelBuilder([1, 8, 96, 64], dt).conv(64, (1, 1)).conv(128, (1, 1))
        yield f"row1x1_{dn}", lambda dt=dt: M.ModelBuilder([1, 1, 128, 64], dt).conv(64, (1, 1)).conv(96, (1, 3), padding="SAME")
        yield f"big3x3_{dn}", lambda dt=dt: M.ModelBuilder([1, 48, 48, 32], dt).conv(32, (3, 3), padding="SAME").conv(
            64, (3, 3), stride=(2, 2), padding="SAME"
        ).conv(64, (3, 3), padding="SAME")
        yield f"tall_{dn}", lambda dt=dt: M.ModelBuilder([1, 200, 4, 16], dt).conv(24, (5, 1), padding="SAME").depthwise(
            (7, 1), padding="SAME"
        )
        yield f"dil_{dn}", lambda dt=dt: M.ModelBuilder([1, 32, 32, 16], dt).conv(16, (3, 3), dilation=(2, 2), padding="SAME").depthwise(
            (3, 3), dilation=(2, 2), padding="SAME"
        )
        yield f"ew_{dn}", lambda dt=dt: M.ModelBuilder([1, 20, 20, 24], dt).binary("add", const_shape=[1, 20, 20, 24]).binary(
            "mul", const_shape=[]
        ).binary("sub", const_shape=[1, 1, 1, 24]).unary("abs")
        yield f"act_{dn}", lambda dt=dt: M.ModelBuilder([1, 12, 12, 40], dt).conv(40, (3, 3), padding="SAME").unary("tanh").conv(
            40, (1, 1)
        ).unary("sigmoid")
        yield f"pool_{dn}", lambda dt=dt: M.ModelBuilder([1, 30, 30, 20], dt).pool("avg", (3, 3), (1, 1), "SAME").pool(
            "max", (2, 2), (2, 2)
        ).pool("avg", (5, 5), (3, 3))
        yield f"deep_{dn}", lambda dt=dt: M.ModelBuilder([1, 6, 6, 256], dt).conv(256, (3, 3), padding="SAME").conv(512, (1, 1))
        yield f"resize_{dn}", lambda dt=dt: M.ModelBuilder([1, 8, 8, 16], dt).conv(16, (3, 3), padding="SAME").resize_nearest(2).conv(
            16, (3, 3), padding="SAME"
        )
        yield f"k9_{dn}", lambda dt=dt: M.ModelBuilder([1, 24, 24, 8], dt).conv(8, (9, 9), padding="SAME").depthwise((9, 9), padding="SAME")
    for i in range(n_random):
        seed = rng.randrange(1 << 30)

        def make(seed=seed):
            r = random.Random(seed)
            dt = r.choice([i8, i8, i16])
            h = r.choice([1, 1, 2, 5, 8, 17, 32, 64])
            w = r.choice([1, 4, 8, 17, 32, 64, 130])
            c = r.choice([1, 3, 8, 16, 20, 32, 64, 130])
            b = M.ModelBuilder([1, h, w, c], dt, seed=seed & 0xFFFF)
            for _ in range(r.choice([1, 2, 3, 4])):
                n, ch, cw, cc = b.cur.shape
                kind = r.choice(["conv", "conv", "dw", "pool", "ew", "act"])
                kh = r.choice([k for k in (1, 1, 2, 3, 5, 7) if k <= ch])
                kw = r.choice([k for k in (1, 1, 2, 3, 5, 7) if k <= cw])
                if kind == "conv":
                    st = r.choice([(1, 1), (1, 1), (2, 2), (2, 1)])
                    dil = (1, 1)
                    if st == (1, 1) and r.random() < 0.25:
                        dil = (2, 2)
                    b.conv(r.choice([4, 8, 12, 16, 24, 32, 48, 64, 96, 128, 144]), (kh, kw), st, dil, "SAME")
                elif kind == "dw":
                    b.depthwise((kh, kw), r.choice([(1, 1), (1, 1), (2, 2)]), (1, 1), "SAME")
                elif kind == "pool":
                    b.pool(r.choice(["max", "avg"]), (kh, kw), r.choice([(1, 1), (2, 2)]), "SAME")
                elif kind == "ew":
                    shape = r.choice([[], [1, 1, 1, cc], [1, ch, cw, cc], [1, 1, cw, cc], [1, 1, 1, 1]])
                    b.binary(r.choice(["add", "mul", "sub", "min", "max"]), const_shape=shape)
                else:
                    b.unary(r.choice(["tanh", "sigmoid", "abs"]))
            return b

        yield f"rand_{seed}", make


def describe(stream):
    res = []
    for kind, p, regs in O.decode_ops(stream):
        res.append(
            [
                kind,
                p,
                regs["NPU_SET_OFM_BLK_HEIGHT_M1"] + 1,
                regs["NPU_SET_OFM_BLK_WIDTH_M1"] + 1,
                regs["NPU_SET_OFM_BLK_DEPTH_M1"] + 1,
                regs["NPU_SET_IFM_IB_END"],
                regs["NPU_SET_AB_START"],
                regs["NPU_SET_ACC_FORMAT"],
                regs["NPU_SET_OFM_HEIGHT_M1"] + 1,
            ]
        )
    return res


def main():
    seed = int(sys.argv[1]) if len(sys.argv) > 1 else 0
    n_random = int(sys.argv[2]) if len(sys.argv) > 2 else 20
    out_json = sys.argv[3] if len(sys.argv) > 3 else None
    accels = sys.argv[4].split(",") if len(sys.argv) > 4 else O.ACCELS
    rng = random.Random(seed)
    t0 = time.time()
    results = {}
    nerr = 0
    for name, make in models(rng, n_random):
        try:
            buf = make().build()
        except Exception as e:  # noqa
            print("BUILD FAIL", name, type(e).__name__, e)
            continue
        for accel in accels:
            r = M.compile_model(buf, accel, extra_args=os.environ.get('C15_EXTRA', '').split())
            key = f"{name}@{accel}"
            entry = {"error": r.error, "ops": [describe(s) for s in r.streams], "violations": []}
            for s in r.streams:
                errs, n = O.check_stream(accel, s)
                entry["violations"].extend(errs)
            results[key] = entry
            if r.error or entry["violations"]:
                nerr += 1
                print(key, "ERROR", r.error, entry["violations"][:2])
    print("done", len(results), "cases", nerr, "bad", f"{time.time()-t0:.1f}s")
    if out_json:
        with open(out_json, "w") as f:
            json.dump(results, f, indent=0)


if __name__ == "__main__":
    main()

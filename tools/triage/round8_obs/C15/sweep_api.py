"""Broad sweep of the public query + generator against the oracle (exploration tool)"""
import itertools
import os
import random
import sys
import time

sys.path.insert(0, os.getcwd())
sys.path.insert(0, os.path.dirname(os.path.abspath(__file__)))
import c15_api  # noqa: E402
from c15_oracle import ACCELS  # noqa: E402


def main():
    seed = int(sys.argv[1]) if len(sys.argv) > 1 else 0
    n_random = int(sys.argv[2]) if len(sys.argv) > 2 else 300
    rng = random.Random(seed)
    t0 = time.time()
    all_errors = []
    ncases = 0
    ncfg = 0

    def run(accel, tag, **kw):
        nonlocal ncases, ncfg
        try:
            op = c15_api.make_op(**kw)
            errs, n = c15_api.query_and_check(accel, op, tag=tag, max_configs=12, rng=rng)
        except Exception as e:  # noqa
            errs, n = [f"{tag} {accel}: EXCEPTION {type(e).__name__}: {e}"], 0
        ncases += 1
        ncfg += n
        if errs:
            all_errors.extend(errs[:2])

    # dense small grid
    for accel in ACCELS:
        for kind in ("conv", "depthwise", "maxpool", "avgpool", "reducesum"):
            for (oh, ow, oc) in ((1, 1, 8), (1, 7, 16), (2, 2, 3), (5, 1, 24), (8, 8, 32), (1, 64, 40), (33, 3, 130)):
                for kernel in ((1, 1), (3, 3), (1, 5), (7, 2), (9, 9)):
                    for bits in (8, 16):
                        for lut in (False, True):
                            kw = dict(kind=kind, ofm_hwc=(oh, ow, oc), kernel=kernel, bits=bits, lut=lut)
                            if kind == "reducesum":
                                kw["ofm_hwc"] = (oh, ow, 1)
                                kw["ifm_c"] = oc
                                kw["kernel"] = (1, 1)
                                if kernel != (1, 1):
                                    continue
                            run(accel, f"{kw}", **kw)
        for mode in ("unary", "binary", "scalar"):
            for (oh, ow, oc) in ((1, 1, 1), (1, 7, 16), (2, 2, 3), (8, 8, 32), (1, 64, 40), (33, 3, 130)):
                for bits in (8, 16, 32):
                    for lut in (False, True):
                        kw = dict(kind="elementwise", ofm_hwc=(oh, ow, oc), bits=bits, lut=lut, ew_mode=mode)
                        if mode == "unary":
                            kw["ew_op"] = c15_api.NpuElementWiseOp.ABS
                        run(accel, f"{kw}", **kw)
    print("grid done", ncases, ncfg, len(all_errors), f"{time.time()-t0:.1f}s")

    # random
    for _ in range(n_random):
        accel = rng.choice(ACCELS)
        kind = rng.choice(["conv", "conv", "depthwise", "maxpool", "avgpool", "reducesum", "elementwise"])
        oh = rng.choice([1, 1, 2, 3, 4, 7, 8, 16, 31, 64, 100])
        ow = rng.choice([1, 1, 2, 3, 4, 7, 8, 16, 31, 64, 100])
        oc = rng.choice([1, 3, 4, 8, 9, 16, 17, 24, 32, 48, 64, 127, 128, 200])
        kw = dict(kind=kind, ofm_hwc=(oh, ow, oc), bits=rng.choice([8, 8, 16]), lut=rng.random() < 0.3)
        if kind == "elementwise":
            kw["ew_mode"] = rng.choice(["unary", "binary", "scalar", "binary"])
            kw["bits"] = rng.choice([8, 16, 32])
            if kw["ew_mode"] == "unary":
                kw["ew_op"] = c15_api.NpuElementWiseOp.ABS
            elif rng.random() < 0.4:
                kw["ifm2_hwc"] = (rng.choice([1, oh]), rng.choice([1, ow]), rng.choice([1, oc]))
        else:
            kw["kernel"] = (rng.choice([1, 1, 2, 3, 5, 8, 9, 12]), rng.choice([1, 1, 2, 3, 5, 8, 9, 12]))
            kw["stride"] = (rng.choice([1, 1, 2, 3]), rng.choice([1, 1, 2, 3]))
            if kind in ("conv", "depthwise") and rng.random() < 0.3:
                kw["dilation"] = (rng.choice([1, 2]), rng.choice([1, 2]))
                kw["stride"] = (1, 1)
            if kind == "conv":
                kw["ifm_c"] = rng.choice([1, 3, 8, 16, 17, 32, 40, 64])
                kw["part_kernel"] = rng.random() < 0.5
            if kind == "reducesum":
                kw["ifm_c"] = oc
                kw["ofm_hwc"] = (oh, ow, 1)
                kw["kernel"] = (1, 1)
                kw["stride"] = (1, 1)
                kw["bits"] = rng.choice([8, 16, 32])
                kw["ofm_bits"] = 32 if kw["bits"] == 32 else kw["bits"]
            if kind in ("conv", "depthwise", "avgpool") and rng.random() < 0.25 and kw["stride"] == (1, 1):
                kw["upscale"] = rng.choice([1, 2])
            kw["scaled"] = rng.random() < 0.8
        run(accel, f"{kw}", **kw)

    print("cases", ncases, "configs", ncfg, "errors", len(all_errors), f"{time.time()-t0:.1f}s")
    seen = set()
    for e in all_errors:
        key = e[:400]
        if key in seen:
            continue
        seen.add(key)
        print(e)
        if len(seen) > 40:
            break


if __name__ == "__main__":
    main()

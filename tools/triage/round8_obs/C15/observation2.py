"""Observation 2 (unmodified tree): the public block config query aborts for an operation that has valid block
configurations, and never offers a block of height/width 1 for any operation.

api.npu_find_block_configs computes the minimum block height/width as
    max(arch.ofm_ublock.height, 2 if ifm_resampling_mode != NpuResamplingMode.NONE else 1)
but ifm_resampling_mode is a register-level `resampling_mode` enum member (taken from resampling_mode_map) while
NpuResamplingMode is the API enum, so the comparison is always True and the minimum (and the step) is 2 for every
operation, with or without upscaling. For a 16-bit 9x9 convolution / depthwise convolution with a TABLE_LOOKUP
activation on Ethos-U55-64 no 2x2 block fits the 14 usable banks, so the query asserts
(`assert len(valid_block_configs) > 0`) although a 1x1 block (1x1x32 resp. 1x1x16) is valid: the scheduler's search
(find_block_config) selects it, the command stream generator accepts it and the independent oracle confirms the layout.
"""
import os
import sys

sys.path.insert(0, os.getcwd())
sys.path.insert(0, os.path.dirname(os.path.abspath(__file__)))

import c15_api as A  # noqa: E402
import c15_oracle as O  # noqa: E402
from sweep_select import select_and_check  # noqa: E402
from ethosu.vela import api  # noqa: E402
from ethosu.vela.register_command_stream_generator import resampling_mode_map  # noqa: E402


def main():
    print(
        "resampling_mode_map[NONE] != NpuResamplingMode.NONE ->",
        resampling_mode_map[api.NpuResamplingMode.NONE] != api.NpuResamplingMode.NONE,
    )
    bad = 0
    for kind in ("conv", "depthwise"):
        kw = dict(kind=kind, ofm_hwc=(8, 8, 32), kernel=(9, 9), bits=16, lut=True)
        op = A.make_op(**kw)
        try:
            cfgs = api.npu_find_block_configs(op, A.ACCEL["U55_64"])
            print(kind, "query offered", len(cfgs), "configs")
        except AssertionError as e:
            print(kind, "query raised AssertionError", e)
            bad += 1
        errs, cfg = select_and_check("U55_64", kw, kind)
        print(kind, "scheduler search selects", cfg.ofm_block, "generator/oracle errors:", errs)
        # the selected config, given explicitly, is accepted by the generator and valid
        op.block_config = api.NpuShape3D(cfg.ofm_block.height, cfg.ofm_block.width, cfg.ofm_block.depth)
        op.block_traversal = api.NpuBlockTraversal.PART_KERNEL_FIRST if cfg.is_partkernel else api.NpuBlockTraversal.DEPTH_FIRST
        stream = api.npu_generate_register_command_stream([op], A.ACCEL["U55_64"])
        print(kind, "oracle on explicit", tuple(op.block_config), O.check_stream("U55_64", stream)[0])
    # no operation is ever offered an odd height/width, even without upscaling, on micro-block 1x1 accelerators
    op = A.make_op(kind="conv", ofm_hwc=(5, 5, 16), kernel=(3, 3))
    cfgs = api.npu_find_block_configs(op, A.ACCEL["U55_64"])
    print("5x5 OFM conv on U55-64: offered heights", sorted({c.height for c in cfgs}), "widths", sorted({c.width for c in cfgs}))
    print("OBSERVED" if bad else "not observed")
    return 0


if __name__ == "__main__":
    sys.exit(main())

"""Sweep of the scheduler's block config search (architecture_allocator.find_block_config) against the command stream
generator + oracle, without running the whole compiler (exploration tool)."""
import os
import random
import sys
import time

sys.path.insert(0, os.getcwd())
sys.path.insert(0, os.path.dirname(os.path.abspath(__file__)))
import c15_api as A  # noqa: E402
import c15_oracle as O  # noqa: E402
from ethosu.vela import api  # noqa: E402
from ethosu.vela.architecture_allocator import find_block_config  # noqa: E402
from ethosu.vela.architecture_features import Accelerator  # noqa: E402
from ethosu.vela.architecture_features import create_default_arch  # noqa: E402
from ethosu.vela.ethos_u55_regs.ethos_u55_regs import resampling_mode  # noqa: E402
from ethosu.vela.operation import Kernel  # noqa: E402
from ethosu.vela.operation import NpuBlockType  # noqa: E402
from ethosu.vela.shape4d import Shape4D  # noqa: E402

BT = {
    "conv": NpuBlockType.ConvolutionMxN,
    "depthwise": NpuBlockType.ConvolutionDepthWise,
    "maxpool": NpuBlockType.Pooling,
    "avgpool": NpuBlockType.Pooling,
    "reducesum": NpuBlockType.ReduceSum,
    "elementwise": NpuBlockType.ElementWise,
}
RS = {0: resampling_mode.NONE, 1: resampling_mode.NEAREST, 2: resampling_mode.TRANSPOSE}


def select_and_check(accel, kw, tag):
    """kw: arguments of c15_api.make_op. Returns list of errors"""
    op = A.make_op(**kw)
    arch = create_default_arch(Accelerator.from_npu_accelerator(A.ACCEL[accel]))
    kind = kw["kind"]
    k = kw.get("kernel", (1, 1))
    s = kw.get("stride", (1, 1))
    d = kw.get("dilation", (1, 1))
    kernel = Kernel(k[0], k[1], s[0], s[1], d[0], d[1]) if kind != "elementwise" else Kernel(1, 1)
    ifm_shape = Shape4D(1, op.ifm.shape.height, op.ifm.shape.width, op.ifm.shape.depth)
    ofm_shape = Shape4D(1, op.ofm.shape.height, op.ofm.shape.width, op.ofm.shape.depth)
    ifm2_shape = None
    uses_scalar = False
    if op.ifm2 is not None:
        uses_scalar = op.ifm2_scalar is not None
        if not uses_scalar:
            ifm2_shape = Shape4D(1, op.ifm2.shape.height, op.ifm2.shape.width, op.ifm2.shape.depth)
    cfg = find_block_config(
        arch,
        BT[kind],
        ofm_shape,
        ifm_shape,
        ifm2_shape,
        uses_scalar,
        kw.get("bits", 8),
        kernel,
        2 if kw.get("lut") else 0,
        kw.get("scaled", True),
        RS[kw.get("upscale", 0)],
    )
    if cfg is None:
        return [f"{tag} {accel}: find_block_config found nothing"], None
    if kind == "conv":
        op.block_traversal = (
            api.NpuBlockTraversal.PART_KERNEL_FIRST if cfg.is_partkernel else api.NpuBlockTraversal.DEPTH_FIRST
        )
    op.block_config = api.NpuShape3D(cfg.ofm_block.height, cfg.ofm_block.width, cfg.ofm_block.depth)
    ctag = f"{tag} selected {tuple(op.block_config)}: "
    try:
        stream = api.npu_generate_register_command_stream([op], A.ACCEL[accel])
    except AssertionError as e:
        return [f"{ctag}{accel}: selected config rejected by the command stream generator: {e}"], cfg
    errs, _ = O.check_stream(accel, stream, ctag)
    return errs, cfg


def random_case(rng):
    accel = rng.choice(O.ACCELS)
    kind = rng.choice(["conv", "conv", "depthwise", "maxpool", "avgpool", "reducesum", "elementwise"])
    oh = rng.choice([1, 1, 2, 3, 4, 7, 8, 16, 31, 64, 100])
    ow = rng.choice([1, 1, 2, 3, 4, 7, 8, 16, 31, 64, 100])
    oc = rng.choice([1, 3, 4, 8, 9, 16, 17, 24, 32, 48, 64, 127, 128, 200])
    kw = dict(kind=kind, ofm_hwc=(oh, ow, oc), bits=rng.choice([8, 8, 16]), lut=rng.random() < 0.3)
    if kind == "elementwise":
        kw["ew_mode"] = rng.choice(["unary", "binary", "scalar", "binary"])
        kw["bits"] = rng.choice([8, 16, 32])
        if kw["ew_mode"] == "unary":
            kw["ew_op"] = A.NpuElementWiseOp.ABS
        elif rng.random() < 0.4 and kw["ew_mode"] == "binary":
            kw["ifm2_hwc"] = (rng.choice([1, oh]), rng.choice([1, ow]), rng.choice([1, oc]))
    else:
        kw["kernel"] = (rng.choice([1, 1, 2, 3, 5, 8, 9, 12]), rng.choice([1, 1, 2, 3, 5, 8, 9, 12]))
        kw["stride"] = (rng.choice([1, 1, 2, 3]), rng.choice([1, 1, 2, 3]))
        if kind in ("conv", "depthwise") and rng.random() < 0.3:
            kw["dilation"] = (rng.choice([1, 2]), rng.choice([1, 2]))
            kw["stride"] = (1, 1)
        if kind == "conv":
            kw["ifm_c"] = rng.choice([1, 3, 8, 16, 17, 32, 40, 64])
        if kind == "reducesum":
            kw["ifm_c"] = oc
            kw["ofm_hwc"] = (oh, ow, 1)
            kw["kernel"] = (1, 1)
            kw["stride"] = (1, 1)
            kw["bits"] = rng.choice([8, 16, 32])
            kw["ofm_bits"] = kw["bits"]
        if kind in ("conv", "depthwise", "avgpool") and rng.random() < 0.25 and kw["stride"] == (1, 1):
            kw["upscale"] = rng.choice([1, 2])
        if kind in ("conv", "depthwise"):
            kw["scaled"] = rng.random() < 0.8
    return accel, kw


def main():
    seed = int(sys.argv[1]) if len(sys.argv) > 1 else 0
    n = int(sys.argv[2]) if len(sys.argv) > 2 else 2000
    rng = random.Random(seed)
    t0 = time.time()
    errors = []
    odd_upscale = []
    for _ in range(n):
        accel, kw = random_case(rng)
        try:
            errs, cfg = select_and_check(accel, kw, f"{kw}")
        except Exception as e:  # noqa
            errs, cfg = [f"{kw} {accel}: EXCEPTION {type(e).__name__}: {e}"], None
        errors.extend(errs[:1])
        if cfg is not None and kw.get("upscale", 0) != 0:
            if cfg.ofm_block.height % 2 or cfg.ofm_block.width % 2:
                odd_upscale.append((accel, kw, cfg.ofm_block))
    print("cases", n, "errors", len(errors), "odd blocks for upscaled ops", len(odd_upscale), f"{time.time()-t0:.1f}s")
    for e in errors[:30]:
        print(e)
    for e in odd_upscale[:5]:
        print("ODD", e)


if __name__ == "__main__":
    main()

"""Helpers that build public-API operations and run query + command stream generation against the oracle"""
import os
import sys

sys.path.insert(0, os.getcwd())
sys.path.insert(0, os.path.dirname(os.path.abspath(__file__)))

from ethosu.vela import api  # noqa: E402
from ethosu.vela.api import NpuAccelerator  # noqa: E402
from ethosu.vela.api import NpuActivation  # noqa: E402
from ethosu.vela.api import NpuActivationOp  # noqa: E402
from ethosu.vela.api import NpuAddressRange  # noqa: E402
from ethosu.vela.api import NpuBlockTraversal  # noqa: E402
from ethosu.vela.api import NpuConv2DOperation  # noqa: E402
from ethosu.vela.api import NpuConvDepthWiseOperation  # noqa: E402
from ethosu.vela.api import NpuDataType  # noqa: E402
from ethosu.vela.api import NpuElementWiseOp  # noqa: E402
from ethosu.vela.api import NpuElementWiseOperation  # noqa: E402
from ethosu.vela.api import NpuFeatureMap  # noqa: E402
from ethosu.vela.api import NpuKernel  # noqa: E402
from ethosu.vela.api import NpuLayout  # noqa: E402
from ethosu.vela.api import NpuPadding  # noqa: E402
from ethosu.vela.api import NpuPoolingOp  # noqa: E402
from ethosu.vela.api import NpuPoolingOperation  # noqa: E402
from ethosu.vela.api import NpuQuantization  # noqa: E402
from ethosu.vela.api import NpuResamplingMode  # noqa: E402
from ethosu.vela.api import NpuShape3D  # noqa: E402
from ethosu.vela.api import NpuTileBox  # noqa: E402

import c15_oracle  # noqa: E402

ACCEL = {
    "U55_32": NpuAccelerator.Ethos_U55_32,
    "U55_64": NpuAccelerator.Ethos_U55_64,
    "U55_128": NpuAccelerator.Ethos_U55_128,
    "U55_256": NpuAccelerator.Ethos_U55_256,
    "U65_256": NpuAccelerator.Ethos_U65_256,
    "U65_512": NpuAccelerator.Ethos_U65_512,
}
DTYPE = {8: NpuDataType.INT8, 16: NpuDataType.INT16, 32: NpuDataType.INT32}
UPSCALE = {0: NpuResamplingMode.NONE, 1: NpuResamplingMode.NEAREST, 2: NpuResamplingMode.TRANSPOSE}


def fm(h, w, c, bits, address, quant=True, dtype=None):
    f = NpuFeatureMap()
    f.data_type = dtype if dtype is not None else DTYPE[bits]
    f.shape = NpuShape3D(height=h, width=w, depth=c)
    f.tiles = NpuTileBox(width_0=w, height_0=h, height_1=h, addresses=[address, 0, 0, 0])
    f.region = 1
    f.layout = NpuLayout.NHWC
    f.quantization = NpuQuantization(scale_f32=0.5, zero_point=0) if quant else None
    return f


def make_op(
    kind,
    ofm_hwc,
    ifm_c=None,
    kernel=(1, 1),
    stride=(1, 1),
    dilation=(1, 1),
    bits=8,
    lut=False,
    upscale=0,
    part_kernel=False,
    scaled=True,
    ew_mode="binary",
    ifm2_hwc=None,
    ew_op=NpuElementWiseOp.ADD,
    ofm_bits=None,
):
    """kind: conv | depthwise | maxpool | avgpool | reducesum | elementwise
    kernel/stride/dilation are (w, h) / (x, y) pairs"""
    oh, ow, oc = ofm_hwc
    kw, kh = kernel
    sx, sy = stride
    dx, dy = dilation
    us = 1 if upscale == 0 else 2
    # VALID style IFM size
    ih = ((oh - 1) * sy + (kh - 1) * dy + 1 + us - 1) // us
    iw = ((ow - 1) * sx + (kw - 1) * dx + 1 + us - 1) // us
    ih, iw = max(ih, 1), max(iw, 1)
    if ofm_bits is None:
        ofm_bits = bits
    a_ifm, a_ifm2, a_ofm = 0x0, 0x400000, 0x800000
    if kind == "conv":
        op = NpuConv2DOperation()
        op.block_traversal = NpuBlockTraversal.PART_KERNEL_FIRST if part_kernel else NpuBlockTraversal.DEPTH_FIRST
        ic = ifm_c if ifm_c is not None else oc
    elif kind == "depthwise":
        op = NpuConvDepthWiseOperation()
        ic = oc
    elif kind in ("maxpool", "avgpool"):
        op = NpuPoolingOperation(NpuPoolingOp.MAX if kind == "maxpool" else NpuPoolingOp.AVERAGE)
        ic = oc
    elif kind == "reducesum":
        op = NpuPoolingOperation(NpuPoolingOp.REDUCE_SUM)
        ic = ifm_c if ifm_c is not None else 16
    elif kind == "elementwise":
        op = NpuElementWiseOperation(ew_op)
        ic = oc
        ih, iw = oh, ow
    else:
        raise ValueError(kind)
    op.ifm = fm(ih, iw, ic, bits, a_ifm, scaled)
    op.ofm = fm(oh, ow, oc, ofm_bits, a_ofm, scaled)
    op.ifm_upscale = UPSCALE[upscale]
    if kind == "elementwise":
        if ew_mode != "unary":
            h2, w2, c2 = ifm2_hwc if ifm2_hwc is not None else (oh, ow, oc)
            op.ifm2 = fm(h2, w2, c2, bits, a_ifm2, scaled)
            if ew_mode == "scalar":
                op.ifm2 = fm(1, 1, 1, bits, a_ifm2, scaled)
                op.ifm2_scalar = 3.0
    else:
        op.kernel = NpuKernel(kw, kh, sx, sy, dx, dy)
        op.padding = NpuPadding(top=0, left=0, bottom=0, right=0)
        if kind in ("conv", "depthwise"):
            op.weights = [NpuAddressRange(region=0, address=0, length=1024)]
            op.biases = [NpuAddressRange(region=0, address=0x10000, length=160)]
    if lut:
        op.activation = NpuActivation(NpuActivationOp.TABLE_LOOKUP)
        op.activation.lookup_table_index = 0
    return op


def query_and_check(accel, op, tag="", max_configs=None, rng=None):
    """Runs the block config query for op, then generates a command stream for each offered config and checks it.
    Returns (errors, number_of_configs)"""
    errors = []
    configs = api.npu_find_block_configs(op, ACCEL[accel])
    todo = configs
    if max_configs is not None and len(configs) > max_configs:
        todo = rng.sample(configs, max_configs) if rng is not None else configs[:max_configs]
        # always keep the extremes
        todo = list(todo) + [configs[0], configs[-1]]
    for cfg in todo:
        op.block_config = cfg
        ctag = f"{tag} offered {tuple(cfg)}: "
        try:
            stream = api.npu_generate_register_command_stream([op], ACCEL[accel])
        except AssertionError as e:
            errors.append(f"{ctag}{accel}: offered config rejected by the command stream generator: {e}")
            continue
        errs, nops = c15_oracle.check_stream(accel, stream, ctag)
        if nops != 1:
            errors.append(f"{ctag}{accel}: expected 1 op in stream, got {nops}")
        errors.extend(errs)
        bh = cfg.height
        if (cfg.height, cfg.width, cfg.depth) != _blk_of(stream):
            errors.append(f"{ctag}{accel}: emitted OFM_BLK registers {_blk_of(stream)} differ from the config")
        del bh
    return errors, len(configs)


def _blk_of(stream):
    ops = c15_oracle.decode_ops(stream)
    regs = ops[0][2]
    return (
        regs["NPU_SET_OFM_BLK_HEIGHT_M1"] + 1,
        regs["NPU_SET_OFM_BLK_WIDTH_M1"] + 1,
        regs["NPU_SET_OFM_BLK_DEPTH_M1"] + 1,
    )

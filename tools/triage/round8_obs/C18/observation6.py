"""Observation 6 (unmodified tree, minor): sections that are not named by the user take part in the resolution.

  a) ConfigParser's implicit [DEFAULT] section is visible in every section, so has_option(child, key) is true for a
     child that does not define the key: the value of [DEFAULT] then beats the value the child inherits from its
     parent (documented rule: a section overrides what it inherits only with the options it contains).
  b) OPTIONS.md calls `internal-default` "special sections which are defined internally", but a file section called
     [System_Config.internal-default] silently replaces the internal defaults when --system-config is not given.
  c) --verbose-config ("to see a full list of all the available options") prints `<Mem>_clock_scales`; that spelling is
     not an option: `Sram_clock_scales=0.5` in a file is ignored without any message (as is every misspelt option).

Exits 1 (prints the differences) on the unmodified tree.
"""
import os
import sys

sys.path.insert(0, os.getcwd())
sys.path.insert(0, os.path.dirname(os.path.abspath(__file__)))
import c18_oracle as oracle  # noqa: E402

SYS = "[System_Config.S]\ncore_clock=5e8\naxi0_port=Sram\naxi1_port=OffChipFlash\n"
MEM = "[Memory_Mode.M]\nconst_mem_area=Axi1\narena_mem_area=Axi0\ncache_mem_area=Axi0\narena_cache_size=2000\n"
CHILD = "[Memory_Mode.C]\ninherit=Memory_Mode.M\n"


def main():
    problems = []
    # a) expected (documented chain C -> M): 2000
    status, got = oracle.run_vela("ethos-u55-128", ["[DEFAULT]\narena_cache_size=777\n" + SYS + MEM + CHILD], "S", "C")
    if status != "ok" or got["arena_cache_size"] != 2000:
        used = got["arena_cache_size"] if status == "ok" else got
        problems.append(f"a) child inherits arena_cache_size=2000 from its parent, Vela uses {used} (from [DEFAULT])")
    # b) expected: internal default of an Ethos-U55 (500 MHz)
    text = "[System_Config.internal-default]\ncore_clock=7\naxi0_port=Sram\naxi1_port=OffChipFlash\n" + MEM
    status, got = oracle.run_vela("ethos-u55-128", [text], "internal-default", "M")
    if status != "ok" or got["core_clock"] != 500e6:
        problems.append(f"b) internal-default core_clock is 500e6, Vela uses {got['core_clock'] if status == 'ok' else got}")
    # c) the name printed by --verbose-config is not understood
    status, got = oracle.run_vela("ethos-u55-128", [SYS + "Sram_clock_scales=0.5\n" + MEM], "S", "M")
    if status == "ok" and got["Sram_clock_scale"] != 0.5:
        problems.append(f"c) Sram_clock_scales=0.5 neither used nor rejected (Sram clock scale {got['Sram_clock_scale']})")
    for p in problems:
        print("VIOLATION: " + p)
    return 1 if problems else 0


if __name__ == "__main__":
    sys.exit(main())

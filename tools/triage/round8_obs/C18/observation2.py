"""Observation 2 (unmodified tree): without --config the documented internal defaults are not used.

OPTIONS.md, "System Config": the `internal-default` system configuration is
  - Ethos-U65: Ethos-U65 Client-Server, SRAM (16 GB/s) and DRAM (12 GB/s)   -> Dram_clock_scale 0.75
  - Ethos-U55: Ethos-U55 High-End Embedded, SRAM (4 GB/s) and Flash (0.5 GB/s) -> 500 MHz, axi1_port=OffChipFlash
and the `internal-default` memory mode of an Ethos-U55 is Shared SRAM with (no size specified) the maximum address.

vela.main() uses Imx93ArchitectureFeatures for every accelerator when neither --config, --system-config nor
--memory-mode is given.  Its _set_default_sys_config() does not look at the accelerator, so `vela net.tflite
--accelerator-config ethos-u55-128` compiles for a 1 GHz system with a 3.75 GB/s DRAM on AXI1 (16 bytes/cycle scaling
meant for Ethos-U65) and, because of observation 1, an arena of 393216 bytes.

Exits 1 (prints the violations) on the unmodified tree.
"""
import os
import sys
import tempfile

sys.path.insert(0, os.getcwd())
sys.path.insert(0, os.path.dirname(os.path.abspath(__file__)))
import c18_cli  # noqa: E402

DOCUMENTED = {
    "ethos-u55-128": {
        "core_clock": 500e6,
        "axi1_port": "OffChipFlash",
        "OffChipFlash_clock_scales": 0.125,
        "arena_cache_size": 1 << 32,
    },
    "ethos-u65-256": {"core_clock": 1e9, "axi1_port": "Dram", "Dram_clock_scales": 0.75, "arena_cache_size": 393216},
}


def main():
    problems = []
    with tempfile.TemporaryDirectory() as tmp:
        model = c18_cli.build_model(os.path.join(tmp, "tiny.tflite"))
        for accel, documented in DOCUMENTED.items():
            args = [model, "--output-dir", os.path.join(tmp, "out"), "--verbose-config", "--accelerator-config", accel]
            status, text, _ = c18_cli.run_vela(args, cwd=tmp)
            got = c18_cli.parse_verbose_config(text)
            print(f"vela net.tflite --accelerator-config {accel} --verbose-config -> exit {status}")
            for key, want in documented.items():
                have = got.get(key, "").split()[0] if got.get(key) else None
                same = have == want if isinstance(want, str) else have is not None and float(have) == float(want)
                print(f"   {key} = {got.get(key)}")
                if not same:
                    problems.append(f"{accel}: documented internal-default {key} is {want}, Vela uses {got.get(key)}")
    for p in problems:
        print("VIOLATION: " + p)
    return 1 if problems else 0


if __name__ == "__main__":
    sys.exit(main())

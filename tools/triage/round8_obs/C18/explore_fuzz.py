"""Exploration helper: random configurations compared against the documented rules (c18_oracle)"""
import os
import random
import sys

sys.path.insert(0, os.getcwd())
sys.path.insert(0, os.path.dirname(os.path.abspath(__file__)))
import c18_oracle as O  # noqa: E402

ACCELS = ["ethos-u55-32", "ethos-u55-64", "ethos-u55-128", "ethos-u55-256", "ethos-u65-256", "ethos-u65-512"]


def gen_sys_section(rng, name, parent):
    lines = [f"[System_Config.{name}]"]
    if parent:
        lines.append(f"inherit=System_Config.{parent}")
    if rng.random() < 0.6:
        lines.append(f"core_clock={rng.choice(['200e6', '500e6', '1e9', '123456789', '0.5e9'])}")
    for key in ("axi0_port", "axi1_port"):
        if rng.random() < 0.6:
            lines.append(f"{key}={rng.choice(O.AREAS + ('Sram', 'Sram', 'Dram'))}")
    for a in O.AREAS:
        if rng.random() < 0.5:
            lines.append(f"{a}_clock_scale={rng.choice(['1.0', '0.5', '0.125', '0.0625', '0.75', '0.3'])}")
        if rng.random() < 0.5:
            lines.append(f"{a}_burst_length={rng.choice(['16', '32', '64', '128'])}")
        if rng.random() < 0.5:
            lines.append(f"{a}_read_latency={rng.choice(['16', '32', '64', '500'])}")
        if rng.random() < 0.5:
            lines.append(f"{a}_write_latency={rng.choice(['8', '32', '64', '250'])}")
    rng.shuffle(lines[1:])
    return "\n".join(lines)


def gen_mm_section(rng, name, parent, accel):
    lines = [f"[Memory_Mode.{name}]"]
    if parent:
        lines.append(f"inherit=Memory_Mode.{parent}")
    for key in ("const_mem_area", "arena_mem_area", "cache_mem_area"):
        if rng.random() < 0.6:
            lines.append(f"{key}={rng.choice(O.PORTS)}")
    if rng.random() < 0.5:
        m = O.max_address(accel)
        lines.append(f"arena_cache_size={rng.choice([0, 1, 4096, 393216, 524288, 393216, 524288, 2**20, m - 1, m, m + 1, -1])}")
    return "\n".join(lines)


def gen_case(rng):
    accel = rng.choice(ACCELS)
    n = rng.randint(1, 4)
    sys_names = [f"S{i}" for i in range(n)]
    mm_names = [f"M{i}" for i in range(n)]
    secs = []
    for i in range(n):
        parent = sys_names[rng.randrange(i)] if i and rng.random() < 0.7 else None
        secs.append(gen_sys_section(rng, sys_names[i], parent))
        parent = mm_names[rng.randrange(i)] if i and rng.random() < 0.7 else None
        secs.append(gen_mm_section(rng, mm_names[i], parent, accel))
    rng.shuffle(secs)
    nfiles = rng.choice([1, 1, 2])
    texts = ["\n\n".join(secs[k::nfiles]) + "\n" for k in range(nfiles)]
    sys_sel = rng.choice(sys_names + [O.INTERNAL_DEFAULT, "Nope"] if rng.random() < 0.3 else sys_names)
    mm_sel = rng.choice(mm_names + [O.INTERNAL_DEFAULT, "Nope"] if rng.random() < 0.3 else mm_names)
    cli = rng.choice([None, None, None, None, 0, 100000, 100000, O.max_address(accel), O.max_address(accel) + 1, -5])
    return accel, texts, sys_sel, mm_sel, cli


def main():
    seed = int(sys.argv[1]) if len(sys.argv) > 1 else 0
    count = int(sys.argv[2]) if len(sys.argv) > 2 else 300
    rng = random.Random(seed)
    bad = 0
    ok = rej = 0
    for i in range(count):
        case = gen_case(rng)
        try:
            diffs = O.compare(*case)
        except Exception as e:  # unexpected crash
            diffs = [f"CRASH {type(e).__name__}: {e}"]
        try:
            O.expected(*case)
            ok += 1
        except O.Rejected:
            rej += 1
        if diffs:
            bad += 1
            if bad <= 8:
                print("=" * 70)
                print(case[0], case[2], case[3], case[4])
                for t in case[1]:
                    print(t)
                    print("--")
                print("\n".join(diffs))
    print(f"cases={count} expected-ok={ok} expected-rejected={rej} mismatching={bad}")


if __name__ == "__main__":
    main()

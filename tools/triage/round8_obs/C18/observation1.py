"""Observation 1 (unmodified tree): the arena_cache_size of a configuration file is never used by the command line tool.

OPTIONS.md, "Arena Cache Size": "If specified, this option overrides the memory mode attribute with the same name in a
Vela configuration file.  If neither this nor the memory mode attribute are specified then a size equal to the maximum
address supported by the Ethos-U is used."

vela.main() declares --arena-cache-size with default=384 * 1024 and always forwards args.arena_cache_size, so
ArchitectureFeatures sees a "CLI override" even when the option was not given:
  * --memory-mode Dedicated_Sram_512KB (arena_cache_size=524288 in Arm/vela.ini) compiles with 393216 "from CLI option"
  * the documented example (... --system-config Ethos_U55_High_End_Embedded --memory-mode Shared_Sram), where neither
    is specified, compiles with 393216 instead of the maximum address 2**32.

Exits 1 (prints the violations) on the unmodified tree.
"""
import os
import sys
import tempfile

sys.path.insert(0, os.getcwd())
sys.path.insert(0, os.path.dirname(os.path.abspath(__file__)))
import c18_cli  # noqa: E402


def main():
    problems = []
    with tempfile.TemporaryDirectory() as tmp:
        model = c18_cli.build_model(os.path.join(tmp, "tiny.tflite"))
        common = [model, "--output-dir", os.path.join(tmp, "out"), "--verbose-config", "--config", "Arm/vela.ini"]
        runs = [
            (
                ["--accelerator-config", "ethos-u65-256", "--system-config", "Ethos_U65_High_End"]
                + ["--memory-mode", "Dedicated_Sram_512KB"],
                524288,
                "value of [Memory_Mode.Dedicated_Sram_512KB]",
            ),
            (
                ["--accelerator-config", "ethos-u55-256", "--system-config", "Ethos_U55_High_End_Embedded"]
                + ["--memory-mode", "Shared_Sram"],
                1 << 32,
                "maximum address, nothing specified",
            ),
        ]
        for extra, want, why in runs:
            status, text, _ = c18_cli.run_vela(common + extra, cwd=tmp)
            got = c18_cli.parse_verbose_config(text).get("arena_cache_size")
            print(f"vela {' '.join(extra)} -> exit {status}, arena_cache_size = {got}")
            if got is None or int(got.split()[0]) != want:
                problems.append(f"expected arena_cache_size {want} ({why}), Vela reports '{got}'")
    for p in problems:
        print("VIOLATION: " + p)
    return 1 if problems else 0


if __name__ == "__main__":
    sys.exit(main())

"""Builds a tiny int8 ADD network as a .tflite file with Vela's own classes (no TensorFlow needed)"""
import numpy as np


def write_tiny_model(path):
    from ethosu.vela.data_type import DataType
    from ethosu.vela.nn_graph import Graph
    from ethosu.vela.nn_graph import Subgraph
    from ethosu.vela.operation import Op
    from ethosu.vela.operation import Operation
    from ethosu.vela.tensor import QuantizationParameters
    from ethosu.vela.tensor import Tensor
    from ethosu.vela import tflite_writer

    def quant():
        qp = QuantizationParameters()
        qp.scale_f32 = np.float32(0.5)
        qp.zero_point = np.int64(0)
        qp.quant_min = -128
        qp.quant_max = 127
        return qp

    shape = [1, 8, 8, 16]
    a = Tensor(shape, DataType.int8, "a")
    b = Tensor(shape, DataType.int8, "b")
    out = Tensor(shape, DataType.int8, "out")
    for t in (a, b, out):
        t.quantization = quant()

    placeholders = []
    for t in (a, b):
        ph = Operation(Op.Placeholder, t.name + "_ph")
        ph.set_output_tensor(t)
        placeholders.append(ph)

    add = Operation(Op.Add, "add")
    add.add_input_tensor(a)
    add.add_input_tensor(b)
    add.set_output_tensor(out)
    add.attrs = {"fused_activation_function": None}
    add.set_ifm_ofm_shapes()

    sg = Subgraph("main")
    sg.input_tensors = [a, b]
    sg.original_inputs = [a, b]
    sg.output_tensors = [out]
    from ethosu.vela.nn_graph import Pass
    from ethosu.vela.nn_graph import PassPlacement
    from ethosu.vela.operation import NpuBlockType

    ps = Pass("add_pass", PassPlacement.Cpu, False, NpuBlockType.Default)
    ps.ops = [add]
    ps.primary_op = add
    ps.inputs = [a, b]
    ps.outputs = [out]
    sg.passes = [ps]
    nng = Graph("tiny")
    nng.subgraphs.append(sg)
    buf = tflite_writer.write_tflite_buffer(nng)
    with open(path, "wb") as f:
        f.write(bytes(buf))
    return path

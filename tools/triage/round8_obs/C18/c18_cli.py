"""Helpers to drive the Vela command line (ethosu.vela.vela.main) and read back what --verbose-config reports"""
import os
import subprocess
import sys

ROOT = os.path.dirname(os.path.dirname(os.path.abspath(__file__)))

_BOOT = (
    "import sys; sys.path.insert(0, sys.argv[1]); from ethosu.vela.vela import main; sys.exit(main(sys.argv[2:]))"
)


def run_vela(args, cwd=None):
    """Runs `vela <args>` in a fresh interpreter (optionally from another working directory).
    Returns (exit status, stdout text, stderr text)"""
    proc = subprocess.run(
        [sys.executable, "-c", _BOOT, ROOT] + list(args),
        cwd=cwd,
        stdout=subprocess.PIPE,
        stderr=subprocess.PIPE,
        universal_newlines=True,
    )
    return proc.returncode, proc.stdout, proc.stderr


def parse_verbose_config(text):
    """Turns the `name = value` lines of --verbose-config into a dict of strings"""
    values = {}
    for line in text.splitlines():
        if line.startswith("   ") and " = " in line:
            key, _, value = line.strip().partition(" = ")
            values[key] = value
    return values


def build_model(path):
    """Writes the tiny test network to path (in a child process so that nothing is printed here)"""
    code = (
        "import sys; sys.path.insert(0, sys.argv[1]); sys.path.insert(0, sys.argv[2]);"
        "import c18_model; c18_model.write_tiny_model(sys.argv[3])"
    )
    subprocess.run(
        [sys.executable, "-c", code, ROOT, os.path.join(ROOT, "out"), path],
        check=True,
        stdout=subprocess.DEVNULL,
        stderr=subprocess.DEVNULL,
    )
    return path

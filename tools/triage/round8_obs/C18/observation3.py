"""Observation 3 (unmodified tree): option names are matched case-insensitively.

OPTIONS.md, "Configuration File": "All sections and key/value pairs are case-sensitive."  ConfigParser lower-cases
option names (optionxform), and has_option()/get() lower-case the requested key, so
  * SRAM_CLOCK_SCALE / CORE_CLOCK (and INHERIT) are honoured as Sram_clock_scale / core_clock (inherit) instead of being
    ignored (unspecified options take the default of 1), and
  * a section that contains both `Sram_burst_length` and `sram_burst_length` (two different options according to the
    documentation) makes the whole file unreadable ("option ... already exists").

Exits 1 (prints the violations) on the unmodified tree.
"""
import os
import sys

sys.path.insert(0, os.getcwd())
sys.path.insert(0, os.path.dirname(os.path.abspath(__file__)))
import c18_oracle as oracle  # noqa: E402

MEM = "[Memory_Mode.M]\nconst_mem_area=Axi1\narena_mem_area=Axi0\ncache_mem_area=Axi0\n"
CFG1 = "[System_Config.S]\nCORE_CLOCK=5e8\naxi0_port=Sram\naxi1_port=OffChipFlash\nSRAM_CLOCK_SCALE=0.5\n" + MEM
CFG2 = "[System_Config.S]\naxi0_port=Sram\naxi1_port=OffChipFlash\nSram_burst_length=32\nsram_burst_length=64\n" + MEM


def main():
    problems = []
    for cfg, mode in ((CFG1, "M"), (CFG2, "M")):
        for diff in oracle.compare("ethos-u55-128", [cfg], "S", mode):
            problems.append(diff)
    for p in problems:
        print("VIOLATION: " + p)
    return 1 if problems else 0


if __name__ == "__main__":
    sys.exit(main())

"""Observation 5 (unmodified tree): an unknown accelerator configuration is not reported as a CLI option error.

ArchitectureFeatures.__init__ wants to raise CliOptionError("--accelerator-config", self.accelerator_config, ...) but
self.accelerator_config has not been assigned yet, so callers that construct the class directly (the API way of
selecting a system, without argparse's `choices`) get an AttributeError instead of a Vela error.

Exits 1 on the unmodified tree.
"""
import os
import sys

sys.path.insert(0, os.getcwd())

from ethosu.vela.architecture_features import ArchitectureFeatures  # noqa: E402
from ethosu.vela.errors import VelaError  # noqa: E402


def main():
    try:
        ArchitectureFeatures(
            vela_config_files=None,
            accelerator_config="ethos-u75-256",
            system_config=ArchitectureFeatures.DEFAULT_CONFIG,
            memory_mode=ArchitectureFeatures.DEFAULT_CONFIG,
            max_blockdep=ArchitectureFeatures.MAX_BLOCKDEP,
            verbose_config=False,
            arena_cache_size=None,
        )
    except VelaError as e:
        print("rejected cleanly:", e.data)
        return 0
    except Exception as e:
        print(f"VIOLATION: {type(e).__name__}: {e}")
        return 1
    print("VIOLATION: accepted")
    return 1


if __name__ == "__main__":
    sys.exit(main())

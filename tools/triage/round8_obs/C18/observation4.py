"""Observation 4 (unmodified tree): out-of-range numbers in a system configuration are used as they are.

Only arena_cache_size is range checked.  OPTIONS.md documents <Mem>_clock_scale as "{float 0.0 to 1.0}", burst lengths
as "{int in Bytes}", latencies as "{int in Cycles}" and core_clock as "{float in Hz}", but
  core_clock=0, -5e8, nan, inf; Sram_clock_scale=2.5, -1; Sram_burst_length=0, -32; Sram_read_latency=-1
are all accepted silently (giving zero / negative / NaN memory bandwidths), and an integer that does not fit in 64 bits
(Sram_burst_length=9223372036854775808) ends in an uncaught OverflowError (a traceback, not a configuration error).

Exits 1 (prints what was accepted) on the unmodified tree.
"""
import os
import sys

sys.path.insert(0, os.getcwd())
sys.path.insert(0, os.path.dirname(os.path.abspath(__file__)))
import c18_oracle as oracle  # noqa: E402

MEM = "[Memory_Mode.M]\nconst_mem_area=Axi1\narena_mem_area=Axi0\ncache_mem_area=Axi0\n"
BASE = "[System_Config.S]\naxi0_port=Sram\naxi1_port=OffChipFlash\n"
BAD = [
    "core_clock=0",
    "core_clock=-5e8",
    "core_clock=nan",
    "core_clock=inf",
    "Sram_clock_scale=2.5",
    "Sram_clock_scale=-1",
    "Sram_burst_length=0",
    "Sram_burst_length=-32",
    "Sram_read_latency=-1",
    "Sram_burst_length=9223372036854775808",
]


def main():
    problems = []
    for line in BAD:
        try:
            status, got = oracle.run_vela("ethos-u55-128", [BASE + line + "\n" + MEM], "S", "M")
        except Exception as e:
            problems.append(f"{line}: uncaught {type(e).__name__}: {e}")
            continue
        if status == "ok":
            problems.append(
                f"{line}: accepted; core_clock={got['core_clock']} Sram_clock_scale={got['Sram_clock_scale']} "
                f"Sram_burst_length={got['Sram_burst_length']} Sram_read_latency={got['Sram_read_latency']} "
                f"Sram bandwidth={got['Sram_bandwidth']} B/s"
            )
    for p in problems:
        print("VIOLATION: " + p)
    return 1 if problems else 0


if __name__ == "__main__":
    sys.exit(main())

"""Independent model of the documented configuration rules (OPTIONS.md, "Configuration File" / "Memory Modes").

It does not import anything from ethosu: it parses the .ini text itself and computes the values the documented rules
give.  run_vela() builds the real ArchitectureFeatures object from the same text so that the two can be compared.
"""
import contextlib
import io
import os
import tempfile

AREAS = ("Sram", "Dram", "OnChipFlash", "OffChipFlash")
AREA_INDEX = {"Sram": 1, "Dram": 2, "OnChipFlash": 3, "OffChipFlash": 4}
PORTS = ("Axi0", "Axi1")
INTERNAL_DEFAULT = "internal-default"


class Rejected(Exception):
    """The documented rules say that the configuration must be rejected"""


def parse_ini(text):
    """Minimal .ini reader: [section] headers, key=value lines, ';' or '#' comment lines"""
    sections = {}
    cur = None
    for raw in text.splitlines():
        line = raw.strip()
        if not line or line[0] in ";#":
            continue
        if line.startswith("[") and line.endswith("]"):
            cur = sections.setdefault(line[1:-1], {})
            continue
        key, _, value = line.partition("=")
        cur[key.strip()] = value.strip()
    return sections


def merge_files(texts):
    merged = {}
    for text in texts:
        for name, opts in parse_ini(text).items():
            merged.setdefault(name, {}).update(opts)
    return merged


def chain(sections, name):
    """Returns the options of a section with everything it inherits (transitively); the child wins"""
    order = []
    seen = []
    while True:
        if name not in sections:
            raise Rejected(f"unknown section {name}")
        if name in seen:
            raise Rejected(f"inheritance loop through {name}")
        seen.append(name)
        order.append(sections[name])
        if "inherit" not in sections[name]:
            break
        name = sections[name]["inherit"]
    resolved = {}
    for opts in reversed(order):
        resolved.update(opts)
    resolved.pop("inherit", None)
    return resolved


def _num(kind, value):
    try:
        return kind(value)
    except ValueError:
        raise Rejected(f"{value!r} is not {kind.__name__}")


def is_u65(accel):
    return accel.startswith("ethos-u65")


def max_address(accel):
    return 1 << (40 if is_u65(accel) else 32)


def bytes_per_cycle(accel):
    return 16 if is_u65(accel) else 8


def expected(accel, texts, system_config, memory_mode, cli_size=None):
    """The architecture parameters the documented rules give, or raises Rejected"""
    sections = merge_files(texts) if texts is not None else {}
    exp = {}
    # every option is optional and defaults to "1 (or the equivalent)"; latencies default to 0 cycles
    scale = {a: 1.0 for a in AREAS}
    burst = {a: 1 for a in AREAS}
    rlat = {a: 0 for a in AREAS}
    wlat = {a: 0 for a in AREAS}
    core_clock = 1.0
    axi = {"Axi0": "Sram", "Axi1": "Sram"}

    sys_name = "System_Config." + system_config
    if sys_name in sections:
        opts = chain(sections, sys_name)
        core_clock = _num(float, opts.get("core_clock", "1"))
        for port, key in (("Axi0", "axi0_port"), ("Axi1", "axi1_port")):
            axi[port] = opts.get(key, "Sram")
            if axi[port] not in AREAS:
                raise Rejected(f"{key}={axi[port]}")
        for area in (axi["Axi0"], axi["Axi1"]):
            scale[area] = _num(float, opts.get(area + "_clock_scale", "1"))
            burst[area] = _num(int, opts.get(area + "_burst_length", "1"))
            rlat[area] = _num(int, opts.get(area + "_read_latency", "0"))
            wlat[area] = _num(int, opts.get(area + "_write_latency", "0"))
    elif system_config == INTERNAL_DEFAULT:
        if is_u65(accel):
            # Ethos-U65 Client-Server: SRAM (16 GB/s) and DRAM (12 GB/s)
            core_clock = 1e9
            axi = {"Axi0": "Sram", "Axi1": "Dram"}
            scale.update(Sram=1.0, Dram=0.75)
            burst.update(Sram=32, Dram=128)
            rlat.update(Sram=32, Dram=500)
            wlat.update(Sram=32, Dram=250)
        else:
            # Ethos-U55 High-End Embedded: SRAM (4 GB/s) and Flash (0.5 GB/s)
            core_clock = 500e6
            axi = {"Axi0": "Sram", "Axi1": "OffChipFlash"}
            scale.update(Sram=1.0, OffChipFlash=0.125)
            burst.update(Sram=32, OffChipFlash=128)
            rlat.update(Sram=32, OffChipFlash=64)
            wlat.update(Sram=32, OffChipFlash=64)
    else:
        raise Rejected(f"unknown system config {system_config}")

    const, arena, cache = "Axi0", "Axi0", "Axi0"
    size = max_address(accel)
    mm_name = "Memory_Mode." + memory_mode
    if mm_name in sections:
        opts = chain(sections, mm_name)
        const = opts.get("const_mem_area", "Axi0")
        arena = opts.get("arena_mem_area", "Axi0")
        cache = opts.get("cache_mem_area", "Axi0")
        for key, val in (("const_mem_area", const), ("arena_mem_area", arena), ("cache_mem_area", cache)):
            if val not in PORTS:
                raise Rejected(f"{key}={val}")
        size = _num(int, opts.get("arena_cache_size", str(size)))
    elif memory_mode == INTERNAL_DEFAULT:
        if is_u65(accel):
            const, arena, cache, size = "Axi1", "Axi1", "Axi0", 384 * 1024
        else:
            const, arena, cache = "Axi1", "Axi0", "Axi0"
    else:
        raise Rejected(f"unknown memory mode {memory_mode}")

    # Sram Only mode: the constant data is placed in a second region of the same SRAM ("OnChipFlash", which has the
    # same characteristics as Sram) that is presented on the other, otherwise unused, port
    if axi[const] == "Sram" and const == arena == cache:
        other = "Axi1" if const == "Axi0" else "Axi0"
        const = other
        axi[other] = "OnChipFlash"
        scale["OnChipFlash"] = scale["Sram"]
        burst["OnChipFlash"] = burst["Sram"]
        rlat["OnChipFlash"] = rlat["Sram"]
        wlat["OnChipFlash"] = wlat["Sram"]

    if cli_size is not None:
        size = cli_size

    if axi[const] not in ("Dram", "OnChipFlash", "OffChipFlash"):
        raise Rejected(f"const_mem_area on {axi[const]}")
    if axi[arena] not in ("Sram", "Dram"):
        raise Rejected(f"arena_mem_area on {axi[arena]}")
    if axi[cache] != "Sram":
        raise Rejected(f"cache_mem_area on {axi[cache]}")
    if size < 0 or size > max_address(accel):
        raise Rejected(f"arena_cache_size {size}")

    exp["core_clock"] = core_clock
    exp["axi0_port"] = axi["Axi0"]
    exp["axi1_port"] = axi["Axi1"]
    for a in AREAS:
        exp[a + "_clock_scale"] = scale[a]
        exp[a + "_burst_length"] = burst[a]
        exp[a + "_read_latency"] = rlat[a]
        exp[a + "_write_latency"] = wlat[a]
        exp[a + "_bandwidth"] = bytes_per_cycle(accel) * scale[a] * core_clock
    exp["const_mem_area"] = const
    exp["arena_mem_area"] = arena
    exp["cache_mem_area"] = cache
    exp["arena_cache_size"] = size
    exp["permanent_storage_mem_area"] = axi[const]
    exp["feature_map_storage_mem_area"] = axi[arena]
    exp["fast_storage_mem_area"] = axi[cache]
    return exp


def observed(arch):
    """Reads the same parameters back from an ArchitectureFeatures object"""
    obs = {}
    obs["core_clock"] = float(arch.core_clock)
    obs["axi0_port"] = arch.axi0_port.name
    obs["axi1_port"] = arch.axi1_port.name
    for a in AREAS:
        i = AREA_INDEX[a]
        obs[a + "_clock_scale"] = float(arch.memory_clock_scales[i])
        obs[a + "_burst_length"] = int(arch.memory_burst_length[i])
        obs[a + "_read_latency"] = int(arch.memory_latency[i][0])
        obs[a + "_write_latency"] = int(arch.memory_latency[i][1])
        obs[a + "_bandwidth"] = float(arch.memory_bandwidths_per_second[i])
    obs["const_mem_area"] = arch.const_mem_area.name
    obs["arena_mem_area"] = arch.arena_mem_area.name
    obs["cache_mem_area"] = arch.cache_mem_area.name
    obs["arena_cache_size"] = int(arch.arena_cache_size)
    obs["permanent_storage_mem_area"] = arch.permanent_storage_mem_area.name
    obs["feature_map_storage_mem_area"] = arch.feature_map_storage_mem_area.name
    obs["fast_storage_mem_area"] = arch.fast_storage_mem_area.name
    return obs


def run_vela(accel, texts, system_config, memory_mode, cli_size=None):
    """Builds ArchitectureFeatures from the given .ini texts.  Returns ("ok", params) or ("rejected", message) for a
    clean Vela error; any other exception propagates"""
    from ethosu.vela.architecture_features import ArchitectureFeatures
    from ethosu.vela.errors import VelaError

    with tempfile.TemporaryDirectory() as tmp:
        files = None
        if texts is not None:
            files = []
            for i, text in enumerate(texts):
                path = os.path.join(tmp, f"cfg{i}.ini")
                with open(path, "w") as f:
                    f.write(text)
                files.append(path)
        out = io.StringIO()
        try:
            with contextlib.redirect_stdout(out):
                arch = ArchitectureFeatures(
                    vela_config_files=files,
                    accelerator_config=accel,
                    system_config=system_config,
                    memory_mode=memory_mode,
                    max_blockdep=ArchitectureFeatures.MAX_BLOCKDEP,
                    verbose_config=False,
                    arena_cache_size=cli_size,
                )
        except VelaError as e:
            return "rejected", e.data
        return "ok", observed(arch)


def compare(accel, texts, system_config, memory_mode, cli_size=None):
    """Returns a list of human readable differences between the documented rules and what Vela resolved"""
    try:
        exp = expected(accel, texts, system_config, memory_mode, cli_size)
    except Rejected as why:
        exp = None
        reason = str(why)
    status, got = run_vela(accel, texts, system_config, memory_mode, cli_size)
    if exp is None:
        if status == "ok":
            shown = ", ".join(
                f"{k}={got[k]}" for k in ("arena_cache_size", "Sram_burst_length", "Dram_read_latency", "axi0_port", "axi1_port")
            )
            return [f"configuration must be rejected ({reason}) but was accepted; Vela resolved {shown}"]
        return []
    if status != "ok":
        return [f"valid configuration was rejected: {got}"]
    diffs = []
    for key, want in exp.items():
        have = got[key]
        same = abs(have - want) <= 1e-9 * max(1.0, abs(want)) if isinstance(want, float) else have == want
        if not same:
            diffs.append(f"{key}: documented rules give {want!r}, Vela uses {have!r}")
    return diffs

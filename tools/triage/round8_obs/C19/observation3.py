"""Observation 3 (unmodified tree): the Mul+Maximum -> LeakyRelu/Abs rewrite produces a table for the wrong function.

convert_mul_max_to_abs_or_lrelu rewrites  Maximum(x, Mul(x, c))  with a scalar constant c to LeakyRelu (table lookup)
whenever the quantised CODE of c is >= 0, and to Abs whenever the code is -1.
  (a) real c = 2.0 (code 20, scale 0.1, zp 0): max(x, 2x) is  2x for x > 0 and x for x < 0, but the generated table is
      LeakyRelu(alpha = 2) = x for x > 0, 2x for x < 0  -> almost every entry is wrong.
  (b) code -1 with scale 0.5 (real c = -0.5): max(x, -0.5 x) is rewritten to Abs(x).
The model is compiled with the ordinary driver; x, Mul output and Maximum output all use scale 0.1, zero point 3.
Run: cd /tmp/seed8/C19 && /venv/bin/python out/observation3.py   (exit 1 = violation reproduced)
"""
import math
import os
import sys

sys.path.insert(0, os.getcwd())
sys.path.insert(0, os.path.join(os.getcwd(), "out"))

import numpy as np  # noqa: E402

from c19_util import compile_graph, create_const_tensor, DataType, make_graph, new_op, new_tensor  # noqa: E402
from c19_util import npu_lut_ops, Op, quant  # noqa: E402

S, ZP = 0.1, 3


def run(c_code, c_scale):
    dt = DataType.int8
    shape = [1, 8, 8, 16]
    x = new_tensor("x", shape, dt, S, ZP)
    c = create_const_tensor("c", [], dt, np.array(c_code, np.int8), quantization=quant(c_scale, 0, dt))
    m = new_tensor("m", shape, dt, S, ZP)
    y = new_tensor("y", shape, dt, S, ZP)
    mul = new_op(Op.Mul, "mul", [x, c], m)
    mx = new_op(Op.Maximum, "max", [x, m], y)
    compiled, _ = compile_graph(make_graph([x], [y], [mul, mx]))
    ops = [so.parent_op for sg in compiled.subgraphs for so in getattr(sg, "sched_ops", [])]
    luts = npu_lut_ops(compiled)
    table = [int(v) for v in luts[0][2].activation_lut.values.flatten()] if luts else None
    return [(o.type.name, o.name) for o in ops], table


bad = 0
ops, table = run(20, 0.1)
print("c = 2.0:", ops)
if table is not None:
    s = float(np.float32(S))
    wrong = []
    for code in range(-128, 128):
        xr = s * (code - ZP)
        yr = max(xr, 2.0 * xr)
        q = int(math.copysign(math.floor(abs(yr / s) + 0.5), yr)) + ZP
        q = min(127, max(-128, q))
        if abs(table[code + 128] - q) > 1:
            wrong.append((code, table[code + 128], q))
    print(f"  {len(wrong)} of 256 table entries are off by more than one code from max(x, 2x), e.g. (code, got, expected) {wrong[:4]}")
    bad += bool(wrong)
ops, table = run(-1, 0.5)
print("c = -0.5 (code -1, scale 0.5):", ops)
if any(t == "Abs" for t, _ in ops):
    print("  max(x, -0.5 x) was rewritten to Abs(x)")
    bad += 1
print("VIOLATION reproduced" if bad else "no violation")
sys.exit(1 if bad else 0)

"""Observation 4 (unmodified tree): constant folding of QUANTIZE crashes for a float constant with more than one dimension.

The float branch of tflite_graph_optimiser.optimise_quantize iterates `for val in input_values`, i.e. over the first axis
only, so for a >= 2-D constant `val` is an array and numeric_util.round_away_zero raises
"ValueError: The truth value of an array with more than one element is ambiguous" (1-D and 0-D constants are fine).
End to end the branch is only reached if the float tensor carries quantisation parameters (otherwise the semantic check
puts the QUANTIZE on the CPU and nothing is folded); the whole compilation then aborts with the ValueError.
Run: cd /tmp/seed8/C19 && /venv/bin/python out/observation4.py   (exit 1 = crash reproduced)
"""
import os
import sys
import warnings

sys.path.insert(0, os.getcwd())
sys.path.insert(0, os.path.join(os.getcwd(), "out"))

import numpy as np  # noqa: E402

from c19_util import create_const_tensor, DataType, new_op, new_tensor, Op  # noqa: E402
from ethosu.vela import tflite_graph_optimiser as tgo  # noqa: E402

warnings.simplefilter("ignore", DeprecationWarning)
bad = 0
for shape in ([6], [2, 3]):
    vals = np.linspace(-1, 1, 6, dtype=np.float32).reshape(shape)
    c = create_const_tensor("c", shape, DataType.float32, vals)
    q = new_tensor("q", shape, DataType.int8, 0.01, 0)
    op = new_op(Op.Quantize, "quantize", [c], q)
    op.run_on_npu = True
    try:
        tgo.optimise_quantize(op, None, None)
        print(shape, "folded to", np.asarray(q.values).flatten().tolist())
    except ValueError as e:
        print(shape, "ValueError:", e)
        bad += 1
print("VIOLATION reproduced" if bad else "no violation")
sys.exit(1 if bad else 0)

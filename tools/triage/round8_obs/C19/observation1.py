"""Observation 1 (unmodified tree): int8 RSQRT table is wrong at the input zero point unless that zero point is -128.

lut.create_lut_rsqrt_int8_op forces the first table entry (code -128) to the maximum output code, and maps every code
<= zp_in to RSQRT_LUT[0] == 0.  So for an input zero point other than -128 the code that dequantises to exactly 0.0
(code == zp_in) gets the output code zp_out (real value 0.0) instead of the saturated maximum (rsqrt(0) = +inf; the
TFLite reference kernel returns kMax for value == 0 for any zero point), while code -128 (a negative real value) gets 127.
Run: cd /tmp/seed8/C19 && /venv/bin/python out/observation1.py   (exit 1 = violation reproduced)
"""
import os
import sys

sys.path.insert(0, os.getcwd())
sys.path.insert(0, os.path.join(os.getcwd(), "out"))

from c19_util import DataType, new_op, new_tensor, Op, placeholder  # noqa: E402
from ethosu.vela import tflite_graph_optimiser as tgo  # noqa: E402
from ethosu.vela.test import testutil  # noqa: E402

arch = testutil.create_arch()
bad = 0
for zp_in in (-128, -100, 0):
    x = new_tensor("x", [1, 4, 4, 8], DataType.int8, 0.05, zp_in)
    y = new_tensor("y", [1, 4, 4, 8], DataType.int8, 0.02, -128)
    placeholder(x)
    op = new_op(Op.Rsqrt, "rsqrt", [x], y)
    op = tgo.convert_ops_to_lut(op, arch, None)
    table = [int(v) for v in op.activation_lut.values.flatten()]
    at_zero = table[zp_in + 128]
    print(f"zp_in={zp_in}: table[code zp_in (real 0.0)] = {at_zero} (expected 127), table[code zp_in+1] = {table[zp_in + 129]}")
    if at_zero != 127:
        bad += 1
print("VIOLATION reproduced" if bad else "no violation")
sys.exit(1 if bad else 0)

"""Observation 2 (unmodified tree): the same function with the same quantisation gets two different 8-bit tables.

LEAKY_RELU(alpha=0.25) and PRELU(uniform alpha tensor == 0.25) on the same input (scale 0.1) and with the same output
quantisation (scale 0.02, zp 10) are both rewritten to a table lookup, but the tables differ in 30+ codes:
  * convert_lrelu_to_lut derives the alpha multiplier in double precision  (0.1f*0.25/0.02f = 1.2500000466),
  * convert_prelu derives it in float32 arithmetic (np.float32 scalars)     (= 1.25 exactly -> ties round the other way).
The TFLite reference kernels compute BOTH multipliers in single precision (float * float / float), so the LEAKY_RELU table
(and the identity multiplier of both) deviates from the reference kernel, whereas the PRELU table is not the correctly
rounded value of the real function for the float32 scales stored in the model.  Whatever the reference, one of them is off.
Run: cd /tmp/seed8/C19 && /venv/bin/python out/observation2.py   (exit 1 = the two tables differ)
"""
import os
import sys

sys.path.insert(0, os.getcwd())
sys.path.insert(0, os.path.join(os.getcwd(), "out"))

import numpy as np  # noqa: E402

from c19_util import codes, create_const_tensor, DataType, new_op, new_tensor, Op, placeholder, quant  # noqa: E402
from ethosu.vela import tflite_graph_optimiser as tgo  # noqa: E402
from ethosu.vela.test import testutil  # noqa: E402

arch = testutil.create_arch()
dt = DataType.int8
shape = [1, 4, 4, 16]


def io():
    x = new_tensor("x", shape, dt, 0.1, 0)
    placeholder(x)
    return x, new_tensor("y", shape, dt, 0.02, 10)


x, y = io()
op = new_op(Op.LeakyRelu, "lrelu", [x], y, {"alpha": 0.25})
op = tgo.convert_lrelu(op, arch, None)
t_lrelu = [int(v) for v in op.activation_lut.values.flatten()]

x, y = io()
alpha = create_const_tensor("alpha", [1, 1, 16], dt, np.ones([1, 1, 16], np.int8), quantization=quant(0.25, 0, dt))
op = new_op(Op.Prelu, "prelu", [x, alpha], y)
op = tgo.convert_prelu(op, arch, None)
op = tgo.convert_lrelu(op, arch, None)
t_prelu = [int(v) for v in op.activation_lut.values.flatten()]

diff = [(c, a, b) for c, a, b in zip(codes(dt), t_lrelu, t_prelu) if a != b]
print(f"{len(diff)} of 256 codes differ between the LEAKY_RELU and the PRELU table, e.g. (code, lrelu, prelu): {diff[:5]}")
sys.exit(1 if diff else 0)

"""Observation 5 (unmodified tree, unusual quantisation): two small deviations of 8-bit tables from the real function.

(a) convert_to_lut8 rounds AFTER adding the output zero point: round_away_zero(zp_out + y/scale_out).  For an exact tie
    and a negative sum this rounds the wrong way: SIGMOID, output scale 1.0, zp_out -128: sigmoid(0)/1.0 = 0.5 ->
    -127.5 -> -128, whereas round(0.5) + zp_out = -127 (TFLite: rescaled = round(y * inv_scale); q = rescaled + zp).
(b) convert_hardswish_to_lut ignores a positive exponent of the output multiplier (shift = 0 when out_shift < 31), i.e. when
    scale_out < scale_in / 128 the table is too small by a power of two (TFLite rejects such a model in Prepare).
Run: cd /tmp/seed8/C19 && /venv/bin/python out/observation5.py   (exit 1 = deviations reproduced)
"""
import os
import sys

sys.path.insert(0, os.getcwd())
sys.path.insert(0, os.path.join(os.getcwd(), "out"))

import numpy as np  # noqa: E402

from c19_util import codes, DataType, new_op, new_tensor, Op, placeholder, ref_real_table, sigmoid  # noqa: E402
from ethosu.vela import tflite_graph_optimiser as tgo  # noqa: E402
from ethosu.vela.test import testutil  # noqa: E402

arch = testutil.create_arch()
dt = DataType.int8


def table(op_type, s_in, zp_in, s_out, zp_out, rewrite):
    x = new_tensor("x", [1, 4, 4, 8], dt, s_in, zp_in)
    y = new_tensor("y", [1, 4, 4, 8], dt, s_out, zp_out)
    placeholder(x)
    op = rewrite(new_op(op_type, "op", [x], y), arch, None)
    return [int(v) for v in op.activation_lut.values.flatten()]


bad = 0
got = table(Op.Sigmoid, 0.05, 7, 1.0, -128, tgo.convert_tanh_sigmoid_to_lut)
exp = ref_real_table(sigmoid, dt, np.float32(0.05), 7, np.float32(1.0), -128)
d = [(c, g, e) for c, g, e in zip(codes(dt), got, exp) if g != e]
print("(a) sigmoid, scale_out 1.0, zp_out -128: (code, got, expected) =", d)
bad += bool(d)


def hswish(x):
    return x * min(max(x + 3.0, 0.0), 6.0) / 6.0


got = table(Op.HardSwish, 0.1, 0, 0.0005, 0, tgo.convert_hardswish_to_lut)
exp = ref_real_table(hswish, dt, np.float32(0.1), 0, np.float32(0.0005), 0)
d = [(c, g, e) for c, g, e in zip(codes(dt), got, exp) if abs(g - e) > 1]
print(f"(b) hardswish, scale_in 0.1, scale_out 0.0005: {len(d)} entries off by more than one code, e.g. {d[:4]}")
bad += bool(d)
print("VIOLATION reproduced" if bad else "no violation")
sys.exit(1 if bad else 0)

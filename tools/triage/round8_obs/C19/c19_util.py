"""Helpers shared by the C19 demos / observations.

Everything here is independent of the code under test as far as the ORACLES are concerned: the reference
implementations below are written with plain Python integers / fractions straight from the gemmlowp / TFLite
definitions.  The model builders use Vela's own graph classes only to produce a .tflite file that is then
compiled by the normal driver.
"""
import contextlib
import io
import math
import os
import sys
import tempfile
from fractions import Fraction

import numpy as np

sys.path.insert(0, os.getcwd())

from ethosu.vela import vela  # noqa: E402
from ethosu.vela.data_type import DataType  # noqa: E402
from ethosu.vela.nn_graph import Graph  # noqa: E402
from ethosu.vela.nn_graph import Pass  # noqa: E402
from ethosu.vela.nn_graph import PassPlacement  # noqa: E402
from ethosu.vela.nn_graph import Subgraph  # noqa: E402
from ethosu.vela.operation import NpuBlockType  # noqa: E402
from ethosu.vela.operation import Op  # noqa: E402
from ethosu.vela.operation import Operation  # noqa: E402
from ethosu.vela.tensor import create_const_tensor  # noqa: E402
from ethosu.vela.tensor import QuantizationParameters  # noqa: E402
from ethosu.vela.tensor import Tensor  # noqa: E402
from ethosu.vela.tflite_writer import write_tflite  # noqa: E402

INT32_MIN = -(1 << 31)
INT32_MAX = (1 << 31) - 1
INT16_MIN = -(1 << 15)
INT16_MAX = (1 << 15) - 1


# ----------------------------------------------------------------------------------------------------------------
# Reference fixed point maths (gemmlowp fixedpoint.h / TFLite common.h), plain Python ints
# ----------------------------------------------------------------------------------------------------------------
def _trunc_div(a, b):
    q = abs(a) // abs(b)
    return q if (a >= 0) == (b >= 0) else -q


def ref_srdhm32(a, b):
    # SaturatingRoundingDoublingHighMul<int32>
    if a == b == INT32_MIN:
        return INT32_MAX
    ab = a * b
    nudge = (1 << 30) if ab >= 0 else 1 - (1 << 30)
    return _trunc_div(ab + nudge, 1 << 31)


def ref_srdhm16(a, b):
    if a == b == INT16_MIN:
        return INT16_MAX
    ab = a * b
    nudge = (1 << 14) if ab >= 0 else 1 - (1 << 14)
    return _trunc_div(ab + nudge, 1 << 15)


def ref_sdhm16(a, b):
    # SaturatingDoublingHighMul (no rounding, truncation towards zero), TFLite hard_swish
    if a == b == INT16_MIN:
        return INT16_MAX
    return _trunc_div(a * b, 1 << 15)


def ref_rdbp(x, exponent):
    # RoundingDivideByPOT: round to nearest, ties away from zero
    if exponent == 0:
        return x
    mask = (1 << exponent) - 1
    remainder = x & mask
    threshold = (mask >> 1) + (1 if x < 0 else 0)
    return (x >> exponent) + (1 if remainder > threshold else 0)


def ref_rdbp_exact(x, exponent):
    # the same thing written with exact rationals (round half away from zero), as a cross check of ref_rdbp
    q = Fraction(x, 1 << exponent)
    f = math.floor(abs(q) + Fraction(1, 2))
    return f if q >= 0 else -f


def ref_quantize_multiplier(real):
    # TFLite QuantizeMultiplier; returns (multiplier, shift) with shift in TFLite convention (left shift positive)
    if real == 0:
        return 0, 0
    q, shift = math.frexp(real)
    q_fixed = int(_round_half_away(Fraction(q) * (1 << 31)))
    assert q_fixed <= (1 << 31)
    if q_fixed == (1 << 31):
        q_fixed //= 2
        shift += 1
    if shift < -31:
        shift = 0
        q_fixed = 0
    return q_fixed, shift


def _round_half_away(fr):
    f = math.floor(abs(fr) + Fraction(1, 2))
    return f if fr >= 0 else -f


def ref_mbqm(x, multiplier, tfl_shift):
    # TFLite MultiplyByQuantizedMultiplier(x, quantized_multiplier, shift)
    left = tfl_shift if tfl_shift > 0 else 0
    right = -tfl_shift if tfl_shift < 0 else 0
    return ref_rdbp(ref_srdhm32(x * (1 << left), multiplier), right)


def ref_exp_on_interval(a):
    # exp_on_interval_between_negative_one_quarter_and_0_excl, a is Q0.31
    constant_term = 1895147668
    constant_1_over_3 = 715827883
    x = a + (1 << 28)
    x2 = ref_srdhm32(x, x)
    x3 = ref_srdhm32(x2, x)
    x4 = ref_srdhm32(x2, x2)
    x4_over_4 = ref_rdbp(x4, 2)
    t = ref_rdbp(ref_srdhm32(x4_over_4 + x3, constant_1_over_3) + x2, 1)
    return constant_term + ref_srdhm32(constant_term, x + t)


def ref_exp_on_negative_values(a):
    # gemmlowp exp_on_negative_values for Q5.26 input, Q0.31 output
    if a == 0:
        return INT32_MAX
    one_quarter = 1 << 24
    mask = one_quarter - 1
    a_mod = (a & mask) - one_quarter
    result = ref_exp_on_interval(a_mod * 32)
    remainder = a_mod - a
    for exponent, mult in (
        (-2, 1672461947),
        (-1, 1302514674),
        (0, 790015084),
        (1, 290630308),
        (2, 39332535),
        (3, 720401),
        (4, 242),
    ):
        if remainder & (1 << (26 + exponent)):
            result = ref_srdhm32(result, mult)
    return result


# ----------------------------------------------------------------------------------------------------------------
# Reference tables
# ----------------------------------------------------------------------------------------------------------------
def codes(dtype):
    return list(range(256)) if dtype == DataType.uint8 else list(range(-128, 128))


def ref_real_table(fn, dtype, ifm_scale, zp_in, ofm_scale, zp_out):
    """Correctly rounded (half away from zero) and saturated quantised value of fn at the dequantised input.
    fn is evaluated in double on the double product scale*(x-zp); the division/rounding is done exactly."""
    ix = codes(dtype)
    lo, hi = ix[0], ix[-1]
    s_in = float(np.float64(ifm_scale))
    s_out = Fraction(float(np.float64(ofm_scale)))
    out = []
    for x in ix:
        y = fn(s_in * (x - int(zp_in)))
        q = _round_half_away(Fraction(y) / s_out) + int(zp_out)
        out.append(min(hi, max(lo, q)))
    return out


def ref_lrelu_table(dtype, ifm_scale, zp_in, ofm_scale, zp_out, alpha):
    """TFLite reference LeakyRelu (quantised): two fixed point multipliers, double precision scale ratios"""
    ix = codes(dtype)
    lo, hi = ix[0], ix[-1]
    s_in = float(np.float64(ifm_scale))
    s_out = float(np.float64(ofm_scale))
    m_id, sh_id = ref_quantize_multiplier(s_in * 1 / s_out)
    m_al, sh_al = ref_quantize_multiplier(s_in * float(alpha) / s_out)
    out = []
    for x in ix:
        v = x - int(zp_in)
        if v >= 0:
            q = ref_mbqm(v, m_id, sh_id)
        else:
            q = ref_mbqm(v, m_al, sh_al)
        out.append(min(hi, max(lo, q + int(zp_out))))
    return out


def ref_hardswish_table(dtype, ifm_scale, zp_in, ofm_scale, zp_out):
    """TFLite (micro) reference HardSwish for 8 bit types"""
    ix = codes(dtype)
    lo, hi = ix[0], ix[-1]
    s_in = float(np.float64(ifm_scale))
    s_out = float(np.float64(ofm_scale))
    hires_in = s_in * (1.0 / 128.0)
    reluish = 3.0 / 32768.0
    out_mult32, out_exp = ref_quantize_multiplier(hires_in / s_out)
    relu_mult32, relu_exp = ref_quantize_multiplier(hires_in / reluish)

    def down(m):
        return INT16_MAX if m >= INT32_MAX - (1 << 15) else (m + (1 << 15)) >> 16

    out_m16 = down(out_mult32)
    relu_m16 = down(relu_mult32)

    def sat16(v):
        return min(INT16_MAX, max(INT16_MIN, v))

    out = []
    for x in ix:
        v = (x - int(zp_in)) * 128
        pre = ref_srdhm16(v, out_m16)
        r = v
        if relu_exp > 0:
            r = sat16(r * (1 << (relu_exp - 1)))
        r = ref_srdhm16(r, relu_m16)
        if relu_exp > 0:
            r = sat16(r * 2)
        if relu_exp < 0:
            r = ref_rdbp(r, -relu_exp)
        r = (r + (1 << 15)) >> 1
        pre_out = ref_sdhm16(r, pre)
        q = ref_rdbp(pre_out, -out_exp) if out_exp < 0 else pre_out
        # (the reference asserts out_exp <= 0)
        q += int(zp_out)
        out.append(min(hi, max(lo, q)))
    return out


def sigmoid(x):
    if x >= 0:
        return 1.0 / (1.0 + math.exp(-x))
    e = math.exp(x)
    return e / (1.0 + e)


# ----------------------------------------------------------------------------------------------------------------
# Model building / compiling
# ----------------------------------------------------------------------------------------------------------------
def quant(scale, zp, dtype=DataType.int8):
    qp = QuantizationParameters()
    qp.scale_f32 = np.float32(scale)
    qp.zero_point = np.int64(zp)
    if dtype == DataType.uint8:
        qp.quant_min, qp.quant_max = 0, 255
    else:
        qp.quant_min = -(1 << (dtype.bits - 1))
        qp.quant_max = (1 << (dtype.bits - 1)) - 1
    return qp


def new_tensor(name, shape, dtype, scale, zp):
    t = Tensor(list(shape), dtype, name)
    t.quantization = quant(scale, zp, dtype)
    return t


def new_op(op_type, name, inputs, output, attrs=None):
    op = Operation(op_type, name)
    for t in inputs:
        op.add_input_tensor(t)
    op.set_output_tensor(output)
    if attrs:
        op.attrs.update(attrs)
    op.set_ifm_ofm_shapes()
    return op


def placeholder(tens):
    op = Operation(Op.Placeholder, tens.name + "_ph")
    op.set_output_tensor(tens)
    return op


def make_graph(inputs, outputs, ops, name="model"):
    """ops: the operators in execution order"""
    sg = Subgraph(name, PassPlacement.Cpu)
    ph = []
    for t in inputs:
        if not t.ops:
            ph.append(placeholder(t))
    sg.input_tensors = list(inputs)
    sg.original_inputs = list(inputs)
    sg.output_tensors = list(outputs)
    ps = Pass(name + "_pass", PassPlacement.Cpu, False, NpuBlockType.Default)
    ps.ops = ph + list(ops)
    sg.passes = [ps]
    nng = Graph(name)
    nng.subgraphs.append(sg)
    return nng


def compile_graph(nng, extra_args=(), quiet=True):
    """Writes nng to a temporary .tflite file, compiles it with the ordinary driver (vela.main) and returns
    (compiled nng as returned by vela.process, path of the output directory)"""
    tmp = tempfile.mkdtemp(prefix="c19_")
    path = os.path.join(tmp, "m.tflite")
    write_tflite(nng, path)
    return compile_file(path, extra_args, quiet)


class _Capture:
    nng = None


@contextlib.contextmanager
def _silence_stdout():
    # the driver's summary is written through a reference to sys.stdout taken at import time: redirect the descriptor
    sys.stdout.flush()
    saved = os.dup(1)
    devnull = os.open(os.devnull, os.O_WRONLY)
    try:
        os.dup2(devnull, 1)
        with contextlib.redirect_stdout(io.StringIO()):
            yield
    finally:
        sys.stdout.flush()
        os.dup2(saved, 1)
        os.close(saved)
        os.close(devnull)


def compile_file(path, extra_args=(), quiet=True):
    out_dir = os.path.join(os.path.dirname(path), "out")
    captured = _Capture()
    orig_process = vela.process

    def process(*args, **kwargs):
        captured.nng = orig_process(*args, **kwargs)
        return captured.nng

    vela.process = process
    try:
        args = [path, "--output-dir", out_dir, "--accelerator-config", "ethos-u55-128"] + list(extra_args)
        if quiet:
            with _silence_stdout():
                ret = vela.main(args)
        else:
            ret = vela.main(args)
    finally:
        vela.process = orig_process
    assert not ret, f"vela.main returned {ret}"
    return captured.nng, out_dir


def npu_lut_ops(nng):
    """All NPU operators that carry an activation LUT, in schedule order: list of (op, lut_tensor)"""
    res = []
    for sg in nng.subgraphs:
        for sched_op in getattr(sg, "sched_ops", []):
            op = sched_op.parent_op
            if op.activation_lut is not None:
                res.append((sg, sched_op, op))
    return res


def flash_lut_bytes(sg, sched_op):
    """The bytes of the operator's LUT as they sit in the flash (read only) tensor of the NPU subgraph"""
    lut = sched_op.parent_ps.lut_tensor
    src = sched_op.parent_op.activation_lut
    flash = sg.flash_tensor.values
    # the DMA that loads the table reads it from the address of the constant LUT tensor
    addr = src.address
    size = src.storage_size()
    return bytes(flash[addr : addr + size]), lut


def table_from_bytes(raw, dtype):
    arr = np.frombuffer(raw, dtype=np.uint8 if dtype == DataType.uint8 else np.int8)
    return [int(v) for v in arr]


def first_diff(actual, expected, ix):
    for i, (a, e) in enumerate(zip(actual, expected)):
        if int(a) != int(e):
            return f"code {ix[i]}: got {int(a)}, expected {int(e)}"
    if len(actual) != len(expected):
        return f"length {len(actual)} != {len(expected)}"
    return None

"""C13 observation 7: RESIZE_BILINEAR / RESIZE_NEAREST_NEIGHBOR with align_corners and an IFM height or width of 1

Found on the UNMODIFIED tree. Run as: cd /tmp/seed5/C13 && /venv/bin/python out/observation7.py
Exit status 1 / "VIOLATION" = vela died with an internal exception (or returned 0 without an output model) for a
structurally valid model; exit status 0 / "PASS" = the property holds for these models.
constraint_resize computes (ofm - 1) / (ifm - 1) when align_corners is set and only one of IFM H, W is 1
(e.g. 1x1x4x8 -> 1x1x8x8): 0/0 gives NaN with NumPy integers and int(NaN) raises ValueError: traceback out of the
supported-operator check instead of a CPU fallback."""
import importlib
import os
import sys
import tempfile

import flatbuffers
import numpy as np

sys.path.insert(0, os.getcwd())

from ethosu.vela.tflite import Buffer, Model, Operator, OperatorCode, SubGraph, Tensor, QuantizationParameters  # noqa
from ethosu.vela.tflite.BuiltinOperator import BuiltinOperator
from ethosu.vela.tflite.BuiltinOptions import BuiltinOptions
from ethosu.vela.tflite.TensorType import TensorType

NPT = {
    "FLOAT32": np.float32, "FLOAT16": np.float16, "INT32": np.int32, "UINT8": np.uint8, "INT64": np.int64,
    "INT16": np.int16, "INT8": np.int8, "BOOL": np.bool_, "UINT32": np.uint32, "UINT16": np.uint16,
    "FLOAT64": np.float64, "UINT64": np.uint64,
}


def _vec(b, fmt, vals):
    size = {"i": 4, "q": 8, "f": 4, "o": 4}[fmt]
    b.StartVector(size, len(vals), size)
    for e in list(vals)[::-1]:
        if fmt == "i":
            b.PrependInt32(int(e))
        elif fmt == "q":
            b.PrependInt64(int(e))
        elif fmt == "f":
            b.PrependFloat32(float(e))
        else:
            b.PrependUOffsetTRelative(e)
    return b.EndVector()


def _bytes(b, data):
    data = bytes(data)
    b.StartVector(1, len(data), 16)
    b.head = b.head - len(data)
    b.Bytes[b.head : b.head + len(data)] = data
    return b.EndVector()


def T(name, shape, dtype="INT8", scale=None, zp=None, data=None, qdim=None, variable=False, noquant=False):
    return dict(name=name, shape=shape, dtype=dtype, scale=scale, zp=zp, data=data, qdim=qdim, variable=variable,
                noquant=noquant)


def OP(code, inputs, outputs, opts=None, version=1, custom_code=None, custom_options=None, intermediates=None):
    """opts = ("Conv2DOptions", {"Padding": 0, "StrideW": 1, ...}) ; vector fields given as list -> int vector"""
    return dict(code=code, inputs=inputs, outputs=outputs, opts=opts, version=version, custom_code=custom_code,
                custom_options=custom_options, intermediates=intermediates)


def build(tensors, ops, inputs, outputs, extra_subgraphs=()):
    b = flatbuffers.Builder(1024)
    buffers = [None]
    subgraphs = [(tensors, ops, inputs, outputs)] + list(extra_subgraphs)
    # operator codes
    codes = []
    for _, sops, _, _ in subgraphs:
        for o in sops:
            key = (o["code"], o["custom_code"], o["version"])
            if key not in codes:
                codes.append(key)
    code_offs = []
    for code, cc, ver in codes:
        cco = b.CreateString(cc) if cc is not None else None
        v = getattr(BuiltinOperator, code)
        OperatorCode.OperatorCodeStart(b)
        OperatorCode.OperatorCodeAddDeprecatedBuiltinCode(b, v if v < 127 else 127)
        OperatorCode.OperatorCodeAddBuiltinCode(b, v)
        OperatorCode.OperatorCodeAddVersion(b, ver)
        if cco is not None:
            OperatorCode.OperatorCodeAddCustomCode(b, cco)
        code_offs.append(OperatorCode.OperatorCodeEnd(b))
    codes_off = _vec(b, "o", code_offs)

    sg_offs = []
    for si, (stens, sops, sin, sout) in enumerate(subgraphs):
        t_offs = []
        for t in stens:
            if t["data"] is not None:
                arr = np.asarray(t["data"]).astype(NPT[t["dtype"]]) if t["dtype"] in NPT else np.asarray(t["data"])
                buffers.append(arr.tobytes())
                bi = len(buffers) - 1
            else:
                buffers.append(None)
                bi = len(buffers) - 1
            shp = _vec(b, "i", t["shape"]) if t["shape"] is not None else None
            nm = b.CreateString(t["name"])
            q = None
            if not t["noquant"]:
                sc = _vec(b, "f", np.atleast_1d(t["scale"])) if t["scale"] is not None else None
                zp = _vec(b, "q", np.atleast_1d(t["zp"])) if t["zp"] is not None else None
                QuantizationParameters.QuantizationParametersStart(b)
                if sc is not None:
                    QuantizationParameters.QuantizationParametersAddScale(b, sc)
                if zp is not None:
                    QuantizationParameters.QuantizationParametersAddZeroPoint(b, zp)
                if t["qdim"] is not None:
                    QuantizationParameters.QuantizationParametersAddQuantizedDimension(b, t["qdim"])
                q = QuantizationParameters.QuantizationParametersEnd(b)
            Tensor.TensorStart(b)
            if shp is not None:
                Tensor.TensorAddShape(b, shp)
            Tensor.TensorAddType(b, getattr(TensorType, t["dtype"]))
            Tensor.TensorAddBuffer(b, bi)
            Tensor.TensorAddName(b, nm)
            if q is not None:
                Tensor.TensorAddQuantization(b, q)
            Tensor.TensorAddIsVariable(b, t["variable"])
            t_offs.append(Tensor.TensorEnd(b))
        tens_off = _vec(b, "o", t_offs)
        op_offs = []
        for o in sops:
            io_ = _vec(b, "i", o["inputs"])
            oo = _vec(b, "i", o["outputs"])
            im = _vec(b, "i", o["intermediates"]) if o["intermediates"] is not None else None
            bo = None
            if o["opts"] is not None:
                oname, fields = o["opts"]
                mod = importlib.import_module("ethosu.vela.tflite." + oname)
                pre = {}
                for k, v in fields.items():
                    if isinstance(v, (list, tuple)):
                        pre[k] = _vec(b, "i", v)
                    elif isinstance(v, str):
                        pre[k] = b.CreateString(v)
                    else:
                        pre[k] = v
                getattr(mod, oname + "Start")(b)
                for k, v in pre.items():
                    getattr(mod, oname + "Add" + k)(b, v)
                bo = getattr(mod, oname + "End")(b)
            co = None
            if o["custom_options"] is not None:
                co = _bytes(b, o["custom_options"])
            Operator.OperatorStart(b)
            Operator.OperatorAddOpcodeIndex(b, codes.index((o["code"], o["custom_code"], o["version"])))
            Operator.OperatorAddInputs(b, io_)
            Operator.OperatorAddOutputs(b, oo)
            if im is not None:
                Operator.OperatorAddIntermediates(b, im)
            if bo is not None:
                Operator.OperatorAddBuiltinOptionsType(b, getattr(BuiltinOptions, o["opts"][0]))
                Operator.OperatorAddBuiltinOptions(b, bo)
            if co is not None:
                Operator.OperatorAddCustomOptions(b, co)
            op_offs.append(Operator.OperatorEnd(b))
        ops_off = _vec(b, "o", op_offs)
        in_off = _vec(b, "i", sin)
        out_off = _vec(b, "i", sout)
        nm = b.CreateString("sg%d" % si)
        SubGraph.SubGraphStart(b)
        SubGraph.SubGraphAddTensors(b, tens_off)
        SubGraph.SubGraphAddInputs(b, in_off)
        SubGraph.SubGraphAddOutputs(b, out_off)
        SubGraph.SubGraphAddOperators(b, ops_off)
        SubGraph.SubGraphAddName(b, nm)
        sg_offs.append(SubGraph.SubGraphEnd(b))
    sgs_off = _vec(b, "o", sg_offs)
    buf_offs = []
    for d in buffers:
        do = _bytes(b, d) if d is not None else None
        Buffer.BufferStart(b)
        if do is not None:
            Buffer.BufferAddData(b, do)
        buf_offs.append(Buffer.BufferEnd(b))
    bufs_off = _vec(b, "o", buf_offs)
    desc = b.CreateString("test model")
    Model.ModelStart(b)
    Model.ModelAddVersion(b, 3)
    Model.ModelAddOperatorCodes(b, codes_off)
    Model.ModelAddSubgraphs(b, sgs_off)
    Model.ModelAddDescription(b, desc)
    Model.ModelAddBuffers(b, bufs_off)
    m = Model.ModelEnd(b)
    b.Finish(m, b"TFL3")
    return bytes(b.Output())

import subprocess  # noqa: E402


def compile_with_vela(name, model_bytes, extra_args=()):
    """Runs the vela command line on the model. Returns None if the run satisfies the property (an output model was
    written with status 0, or vela printed an error and returned a non-zero status), otherwise a description"""
    workdir = tempfile.mkdtemp(prefix="c13_demo_")
    path = os.path.join(workdir, name + ".tflite")
    with open(path, "wb") as f:
        f.write(model_bytes)
    cmd = [sys.executable, "-m", "ethosu.vela", path, "--output-dir", workdir] + list(extra_args)
    try:
        res = subprocess.run(cmd, cwd=os.getcwd(), capture_output=True, text=True, timeout=600)
    except subprocess.TimeoutExpired:
        return f"{name}: vela did not terminate within 600 s"
    out_file = os.path.join(workdir, name + "_vela.tflite")
    written = os.path.isfile(out_file) and os.path.getsize(out_file) > 0
    if "Traceback (most recent call last)" in res.stderr:
        last = [line for line in res.stderr.strip().splitlines() if line.strip()][-1]
        where = [line.strip() for line in res.stderr.splitlines() if line.strip().startswith("File ")][-1]
        return f"{name}: vela died with an internal exception (status {res.returncode}): {last} at {where}"
    if res.returncode == 0 and not written:
        return f"{name}: vela returned status 0 but wrote no output model"
    if res.returncode != 0 and "error" not in (res.stdout + res.stderr).lower():
        return f"{name}: vela returned status {res.returncode} without a diagnosis"
    return None


def check(cases):
    """cases: list of (name, model bytes, extra vela arguments)"""
    violations = [msg for msg in (compile_with_vela(n, m, a) for n, m, a in cases) if msg]
    if violations:
        print("VIOLATION of C13 on this tree:")
        for msg in violations:
            print("  " + msg)
        return 1
    print("PASS (vela compiled or diagnosed every model)")
    return 0

rng = np.random.default_rng(5)


def A(name, shape=(1, 4, 4, 8), dt="INT8", scale=0.02, zp=-3, **kw):
    if dt == "INT16":
        zp = 0
    if dt == "UINT8":
        zp = 125
    return T(name, list(shape), dt, scale, zp, **kw)


def W(name, shape, dt="INT8", scale=0.01, zp=0, **kw):
    return T(name, list(shape), dt, scale, zp, data=rng.integers(-100, 100, list(shape)), **kw)


def I32(name, values, dt="INT32"):
    arr = np.asarray(values)
    return T(name, list(arr.shape), dt, data=arr, noquant=True)


ADD = ("AddOptions", dict(FusedActivationFunction=0))
CONV = ("Conv2DOptions", dict(Padding=0, StrideW=1, StrideH=1, DilationWFactor=1, DilationHFactor=1, FusedActivationFunction=0))


def pool_opts(k, s, pad=1):
    return ("Pool2DOptions", dict(Padding=pad, StrideW=s, StrideH=s, FilterWidth=k, FilterHeight=k, FusedActivationFunction=0))

def model(code, ifm, size):
    n, h, w, c = ifm
    t = [A("x", ifm), I32("size", list(size)), A("y", (n, size[0], size[1], c))]
    name = "ResizeBilinearOptions" if code == "RESIZE_BILINEAR" else "ResizeNearestNeighborOptions"
    return build(t, [OP(code, [0, 1], [2], (name, dict(AlignCorners=True, HalfPixelCenters=False)))], [0], [2])


sys.exit(check([
    ("resize_bilinear_ac_h1", model("RESIZE_BILINEAR", (1, 1, 4, 8), (1, 8)), []),
    ("resize_nearest_ac_h1", model("RESIZE_NEAREST_NEIGHBOR", (1, 1, 3, 8), (1, 5)), []),
]))

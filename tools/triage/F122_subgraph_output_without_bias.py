# Observation 7 (unmodified tree): the command line option --subgraph-output makes Subgraph.print_npu_graph() (nn_graph.py) read
# `input.values` of every operator input; an absent optional operand (CONV_2D / DEPTHWISE_CONV_2D / FULLY_CONNECTED without bias,
# whether the bias index is missing or -1) is None, so the run ends with
# "AttributeError: 'NoneType' object has no attribute 'values'" before any optimisation starts.
import sys

import numpy as np

import obs_util
from tflgen import O, T, single

rng = np.random.default_rng(3)


def conv(bias):
    tens = [T("in", [1, 8, 8, 4], "INT8"), T("w", [8, 3, 3, 4], "INT8", data=rng.integers(-127, 128, (8, 3, 3, 4)), scale=0.01),
            T("b", [8], "INT32", data=np.arange(8), scale=0.0005), T("out", [1, 8, 8, 8], "INT8")]
    ins = {"tensor": ["in", "w", "b"], "absent": ["in", "w"], "minus1": ["in", "w", None]}[bias]
    args = dict(Padding=0, StrideW=1, StrideH=1, DilationWFactor=1, DilationHFactor=1)
    return single(tens, [O("CONV_2D", ins, ["out"], "Conv2DOptions", args)], ["in"], ["out"])


cases = [
    ("conv with bias, --subgraph-output (control)", conv("tensor"), ["--subgraph-output"]),
    ("conv without bias, default options (control)", conv("absent"), []),
    ("conv without bias, --subgraph-output", conv("absent"), ["--subgraph-output"]),
    ("conv with bias index -1, --subgraph-output", conv("minus1"), ["--subgraph-output"]),
]
sys.exit(obs_util.run(cases))

import os
import sys

ROOT = os.path.dirname(os.path.dirname(os.path.abspath(__file__)))
sys.path.insert(0, ROOT)
import ethosu.vela  # noqa: E402

assert os.path.abspath(ethosu.vela.__file__).startswith(ROOT + os.sep), ethosu.vela.__file__

from ethosu.vela.api import *  # noqa: E402,F401,F403
from ethosu.vela.api import npu_generate_register_command_stream  # noqa: E402
from ethosu.vela.ethos_u55_regs.ethos_u55_regs import cmd0, cmd1  # noqa: E402


def decode(words):
    """Decodes the stream; returns a list of (op_name, op_param, register_state_dict) for every NPU_OP command.
    register_state maps register name -> param (cmd0) or (param, payload) (cmd1)"""
    state = {}
    ops = []
    i = 0
    while i < len(words):
        w = words[i]
        code = w & 0x3FF
        param = (w >> 16) & 0xFFFF
        if w & 0x4000:
            name = cmd1(code).name
            state[name] = (param, words[i + 1])
            i += 2
        else:
            name = cmd0(code).name
            if name.startswith("NPU_OP_"):
                ops.append((name, param, dict(state)))
            else:
                state[name] = param
            i += 1
    return ops


def fm(shape, region, address, dtype=NpuDataType.INT8, layout=NpuLayout.NHWC, quant=None):
    f = NpuFeatureMap()
    f.data_type = dtype
    f.shape = shape
    f.tiles = NpuTileBox(width_0=shape.width, height_0=shape.height, height_1=shape.height, addresses=[address, 0, 0, 0])
    f.region = region
    f.layout = layout
    f.quantization = quant if quant is not None else NpuQuantization(scale_f32=1.0, zero_point=0)
    return f

"""Observation (unchanged tree): generate_biases() emits NPU_SET_SCALE_BASE without any alignment check, while
generate_weights() checks the weight base for 16-byte alignment. The Ethos-U TRM requires the scale/bias table base
address to be 16-byte aligned as well (rule taken from the TRM, not from the tree), so a bias range at e.g. address 8
yields a stream with a misaligned SCALE_BASE instead of a ByteAlignmentError."""
import os
import sys

sys.path.insert(0, os.path.dirname(os.path.abspath(__file__)))
from c06util import *  # noqa: E402,F403
from ethosu.vela.errors import ByteAlignmentError  # noqa: E402

op = NpuConv2DOperation()
op.ifm = fm(NpuShape3D(height=8, width=8, depth=16), 1, 0)
op.ofm = fm(NpuShape3D(height=8, width=8, depth=16), 1, 0x8000)
op.kernel = NpuKernel(1, 1)
op.weights = [NpuAddressRange(region=0, address=0, length=256)]
op.biases = [NpuAddressRange(region=0, address=1024 + 8, length=160)]
op.padding = NpuPadding(0, 0, 0, 0)
op.block_traversal = NpuBlockTraversal.DEPTH_FIRST
op.block_config = NpuShape3D(height=8, width=8, depth=16)
try:
    words = npu_generate_register_command_stream([op], NpuAccelerator.Ethos_U55_128)
except ByteAlignmentError:
    print("ok: misaligned scale base rejected")
    sys.exit(0)
regs = [d for d in decode(words) if d[0] == "NPU_OP_CONV"][0][2]
base = regs["NPU_SET_SCALE_BASE"][1]
if base % 16 != 0:
    print(f"NPU_SET_SCALE_BASE = {base} emitted, not 16-byte aligned, no error raised")
    sys.exit(1)

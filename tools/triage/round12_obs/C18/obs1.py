"""OBSERVATION (unchanged tree): OPTIONS.md says --arena-cache-size, 'if specified', overrides the value of the
configuration file. In this fork the argparse default is 384*1024 instead of None, so the option counts as always
specified: the arena_cache_size written in the selected Memory_Mode section is never used when vela is run from the
command line, and --verbose-config reports '393216 from CLI option' although no such option was given."""
import contextlib
import io
import os
import sys
import tempfile

ROOT = os.path.dirname(os.path.dirname(os.path.abspath(__file__)))
sys.path.insert(0, ROOT)
import ethosu.vela  # noqa: E402

assert os.path.abspath(ethosu.vela.__file__).startswith(ROOT + os.sep), ethosu.vela.__file__
from ethosu.vela import vela  # noqa: E402

CFG = """
[System_Config.S]
core_clock=500e6
axi0_port=Sram
axi1_port=Dram

[Memory_Mode.M]
const_mem_area=Axi1
arena_mem_area=Axi1
cache_mem_area=Axi0
arena_cache_size=131072
"""
with tempfile.TemporaryDirectory() as d:
    cfg = os.path.join(d, "cfg.ini")
    open(cfg, "w").write(CFG)
    out = io.StringIO()
    with contextlib.redirect_stdout(out):
        try:
            vela.main([os.path.join(d, "missing.tflite"), "--config", cfg, "--system-config", "S",
                       "--memory-mode", "M", "--verbose-config", "--output-dir", d])
        except FileNotFoundError:
            pass
text = out.getvalue()
if "arena_cache_size = 131072 from Configuration file" not in text:
    line = [ln for ln in text.splitlines() if "arena_cache_size" in ln]
    print("DEFECT: arena_cache_size of the configuration file ignored without --arena-cache-size:", line)
    sys.exit(1)
print("ok")

import os, sys
ROOT = os.path.dirname(os.path.dirname(os.path.abspath(__file__)))
sys.path.insert(0, ROOT)
import ethosu.vela
assert os.path.abspath(ethosu.vela.__file__).startswith(ROOT + os.sep), ethosu.vela.__file__

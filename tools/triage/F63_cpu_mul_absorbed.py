"""Observation 1 (unmodified tree): a MUL that violates a listed constraint does not stay on the CPU.

Network:  y = MAXIMUM(x, MUL(x, alpha))   with x int8 [1,8,8,4], alpha a constant *int16* scalar.
MUL violates the listed MUL constraint "Both Input data types must match" (Vela prints the warning
"Unsupported TensorFlow Lite semantics for MUL 'm'. Placing on CPU instead"), MAXIMUM is fine.
tflite_graph_optimiser.convert_mul_max_to_abs_or_lrelu pattern-matches Maximum(x, Mul(x, const)) without looking at
mul.run_on_npu, deletes the MUL and turns the pair into a LeakyRelu LUT on the NPU: the compiled output consists of
a single ethos-u custom operator, the CPU MUL is gone.
"""
import os
import sys

sys.path.insert(0, os.getcwd())
sys.path.insert(0, os.path.dirname(os.path.abspath(__file__)))
from kit import *  # noqa: E402,F401,F403  (out/kit.py: tiny model builder + compile_model helper)
from ethosu.vela.operation import Padding  # noqa: E402


def quiet_compile(buf, accel="ethos-u55-128", extra=()):
    devnull = os.open(os.devnull, os.O_WRONLY)
    saved = os.dup(1)
    os.dup2(devnull, 1)
    try:
        return compile_model(buf, accel, extra)
    finally:
        os.dup2(saved, 1)


def warnings_of(out):
    return [ln for ln in out.splitlines() if ln.startswith("Warning") or ln.startswith(" - ")]


def model(alpha_dtype):
    x = act("x", [1, 8, 8, 4])
    alpha = const("alpha", [], alpha_dtype, 3, scale=0.5, zp=0)
    m = act("m", [1, 8, 8, 4])
    y = act("y", [1, 8, 8, 4])
    mul = mkop(Op.Mul, "m", [x, alpha], m, {"fused_activation_function": None})
    mx = mkop(Op.Maximum, "y", [x, m], y, {})
    return build([mul, mx], [x], [y])


ops, out, _ = quiet_compile(model(DataType.int16))
print("\n".join(warnings_of(out)))
print("operators of the compiled network:", ops)
if "MUL" in ops:
    print("as expected by C16: the MUL stays on the CPU")
    sys.exit(0)
print("VIOLATION: MUL violates a listed constraint but is no longer in the output (fused into the NPU operator)")
sys.exit(1)

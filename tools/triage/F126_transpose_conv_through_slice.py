"""Observation 1 (UNMODIFIED tree): TRANSPOSE_CONV that reads its IFM through a fused SLICE.

    input 1x8x9x24 -> CONV_2D 3x3 SAME (16 ch) -> SLICE begin [0,3,2,0] size [1,3,6,16] -> TRANSPOSE_CONV 3x3 stride 2 SAME

The SLICE is folded into the transposed convolution (read_offsets[0] = (0,3,2,0), read_shapes[0] = (1,3,6,16)); the
operator's ifm shape stays the shape of the whole tensor (1x8x9x16). generate_high_level_commands_for_sched_op() derives the
upscaling factor of a transposed convolution from  ofm_shape.height // ifm.shape.height  = 6 // 8 = 0 (the read window is
3 rows high, 6 // 3 = 2 would be right). Box.transform_with_strides_and_skirt() then divides by zero (numpy scalars: only
a RuntimeWarning, result 0) and returns the IFM box rows 3..4, columns 2..2 instead of rows 3..6, columns 2..8, so the NPU
operation gets IFM tile 0 = 1 row x 0 columns (IFM_HEIGHT0_M1 = 0, IFM_WIDTH0_M1 = 0xFFFF): every IFM row but the first is
fetched through tile base address 2, which is 0.
Whenever 2 * (rows of the slice) < rows of the sliced tensor the factor is 0; for bigger slices it is 1 instead of 2, which
the clamping in Box happens to hide for an operator that is not striped in height.

Run: cd /tmp/seed9/C10 && /venv/bin/python out/observation1.py   (exit 1 = violation observed)"""
import os
import sys
import warnings

sys.path.insert(0, os.getcwd())
sys.path.insert(0, os.path.dirname(os.path.abspath(__file__)))

import c10lib  # noqa: E402
from ethosu.vela.operation import Op  # noqa: E402


def main():
    warnings.simplefilter("ignore")
    mb = c10lib.ModelBuilder(8, 9, 24, seed=1)
    x = mb.conv(16, k=(3, 3))
    sl = mb.slice([0, 3, 2, 0], [1, 3, 6, 16], ifm=x)
    y = mb.transpose_conv(32, k=(3, 3), s=(2, 2), padding="SAME", ifm=sl)
    buf = mb.to_tflite(outputs=[y])
    with c10lib.Capture() as cap:
        compiled = c10lib.compile_tflite(buf, arena_cache_size=200000)
    bad = False
    for sg, (npu_ops, op_to_cmd, stream) in zip(compiled.npu_sgs, cap.records):
        decoded = [d for d in c10lib.decode_stream(stream) if d[0] != "NPU_OP_DMA_START"]
        blk = [o for o in npu_ops if not isinstance(o, c10lib.NpuDmaOperation)]
        for (opname, _, regs), npu_op in zip(decoded, blk):
            cmd = op_to_cmd[npu_op]
            op = cmd.ps.primary_op
            if op.type != Op.Conv2DBackpropInputSwitchedBias:
                continue
            i_s = [int(v) for v in cmd.ifm_box.start_coord]
            i_e = [int(v) for v in cmd.ifm_box.end_coord]
            print(f"{op.name}: read offset {[int(v) for v in op.read_offsets[0]]}, read shape {[int(v) for v in op.read_shapes[0]]}, ifm shape {[int(v) for v in cmd.ps.ifm_shapes[0]]}")
            print(f"  OFM box {[int(v) for v in cmd.ofm_box.start_coord]} - {[int(v) for v in cmd.ofm_box.end_coord]}")
            print(f"  IFM box {i_s} - {i_e}   (expected rows 3..6, columns 2..8)")
            print(
                f"  IFM_HEIGHT0_M1={regs['NPU_SET_IFM_HEIGHT0_M1']} IFM_WIDTH0_M1={regs['NPU_SET_IFM_WIDTH0_M1']:#x}"
                f" IFM_BASE0={regs['NPU_SET_IFM_BASE0']:#x} IFM_BASE1={regs['NPU_SET_IFM_BASE1']:#x} IFM_BASE2={regs['NPU_SET_IFM_BASE2']:#x}"
            )
            if (i_s[1], i_e[1], i_s[2], i_e[2]) != (3, 6, 2, 8):
                bad = True
    print("VIOLATION OBSERVED" if bad else "no violation")
    return 1 if bad else 0


if __name__ == "__main__":
    sys.exit(main())

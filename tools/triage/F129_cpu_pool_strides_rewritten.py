# Observation 5 (unmodified tree): pooling operators that stay on the CPU are not written back unchanged.
#
# fixup_pool_strides runs before the supported operator check and rewrites stride and padding of every AVERAGE_POOL_2D /
# MAX_POOL_2D whose kernel, stride and IFM extent are all equal. If the operator is then rejected (here: kernel height 300
# is outside [1, 256]) it is written to the output file with stride 1x1 and padding VALID instead of stride 300x300 and
# padding SAME. (The result is numerically the same, the operator is not "unchanged".)
from _obs_common import *  # noqa: F401,F403
import c16zoo as zoo

model = zoo.pool("max", (1, 300, 300, 1), k=(300, 300), stride=(300, 300), padding=Padding.SAME)
got, out, log = expect("MAX_POOL_2D 300x300 / stride 300 on a 300x300 IFM", model, "cpu", "Kernel filter height must be in the range [1, 256]")
before = builtin_options(model, "MAX_POOL_2D", "Pool2DOptions")
after = builtin_options(out, "MAX_POOL_2D", "Pool2DOptions")
print("options in :", before)
print("options out:", after)
if before != after:
    print("[VIOLATION] the CPU operator was modified")
    problems.append("options changed")
finish()

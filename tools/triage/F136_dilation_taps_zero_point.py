"""OBSERVATION (unchanged tree): fixup_dilation_gt2 fills the taps it inserts into the kernel with the raw value 0 instead
of the weight zero point.

For dilation > 2 the kernel is rewritten into a sparse kernel (np.zeros) plus hardware dilation 1 or 2.  The weight
compressor later subtracts the weight zero point from EVERY tap, so for asymmetric (uint8) weights with zero point z the
inserted taps are encoded as -z instead of 0 and contribute -z * ifm to every output: the weight section that reaches the
NPU is not the zero-point corrected kernel of the original dilated convolution.  (fixup_strided_conv, which also enlarges a
kernel, pads with the zero point.)
Exits non-zero when the defect is present.
"""
import os
import sys

sys.path.insert(0, os.path.dirname(os.path.abspath(__file__)))
import c08util as u  # noqa: E402
import numpy as np  # noqa: E402
from ethosu import mlw_codec  # noqa: E402
from ethosu.vela import weight_compressor as wc  # noqa: E402
from ethosu.vela.data_type import DataType  # noqa: E402
from ethosu.vela.tflite_graph_optimiser import fixup_dilation_gt2  # noqa: E402

arch = u.make_arch("ethos-u55-128")
rng = np.random.default_rng(9)
zp = 128
w = rng.integers(1, 256, size=(3, 3, 8, 16)).astype(np.uint8)
op = u.make_conv("conv_dil4", [1, 24, 24, 8], w, u.quant(np.float32(0.02), zp), range(16), dtype=DataType.uint8,
                 dilation=(4, 4))
fixup_dilation_gt2(op, arch, None)
assert op.weights.values.shape[:2] == (5, 5) and op.kernel.dilation == (2, 2)
# the mathematically equivalent kernel: original taps at even positions, neutral (zero after correction) taps elsewhere
want_corrected = np.zeros((5, 5, 8, 16), np.int16)
want_corrected[::2, ::2] = w.astype(np.int16) - zp
wc.CompressedWeightCache.clear()
t, _ = u.encode(arch, op, [0, 16], 16)
wc.CompressedWeightCache.clear()
r = t.encoded_ranges[wc.WeightKey(0, 0)]
decoded = list(mlw_codec.decode(bytearray(t.buffer[r.offset + r.weight_offset:][: r.weight_bytes])))
pk = t.hw_traversal == wc.NpuBlockTraversal.PART_KERNEL_FIRST
want = u.expected_hw_weight_order(arch, want_corrected, 0, 1, 0, 16, 16, False, pk, 8, dilation=(2, 2))
if decoded[: len(want)] != want:
    n = sum(1 for a, b in zip(decoded, want) if a != b)
    print(f"defect present: {n} of {len(want)} encoded weights differ from the equivalent dilated kernel "
          f"(inserted taps are {-zp} instead of 0)")
    sys.exit(1)
print("not reproduced")

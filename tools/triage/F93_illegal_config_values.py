"""Observation 4 (UNMODIFIED tree): illegal names / values in a configuration file that are not rejected with a
Vela error.

  a) axi1_port=Shram or axi1_port=Unknown (not one of Sram, Dram, OnChipFlash, OffChipFlash) passes
     ArchitectureFeatures._read_port (it only tests MemArea.__members__); with a memory mode that has everything on
     Axi0 the port is then silently replaced by OnChipFlash and the configuration is accepted.
  b) axi0_port=Size is accepted by the same test and crashes with IndexError (memory_clock_scales[MemArea.Size]).
  c) const_mem_area=Axi2 / arena_mem_area=axi0 raise a bare KeyError from MemPort[...] (system-config port names get
     a ConfigOptionError, memory-mode port names do not); core_clock=fast, arena_cache_size=384K raise bare ValueError.
     vela.main() only catches VelaError, so these end in a Python traceback.
  d) Sram_clock_scale=0 or -3, core_clock=-1, Sram_burst_length=-5 (documented range for the scale: 0.0 to 1.0) are
     accepted silently (a scale of 0 gives a bandwidth of 0 bytes/cycle that is later divided by).
Run: cd /tmp/seed5/C18 && /venv/bin/python out/observation4.py   (exit 1 = reproduced)
"""
import contextlib
import io
import os
import sys
import tempfile

sys.path.insert(0, os.getcwd())
from ethosu.vela.architecture_features import ArchitectureFeatures  # noqa: E402
from ethosu.vela.errors import VelaError  # noqa: E402

SYS = "[System_Config.S]\ncore_clock=500e6\naxi0_port=Sram\naxi1_port=Dram\n"
SHARED = "[Memory_Mode.M]\nconst_mem_area=Axi1\narena_mem_area=Axi0\ncache_mem_area=Axi0\n"
SRAM_ONLY = "[Memory_Mode.M]\nconst_mem_area=Axi0\narena_mem_area=Axi0\ncache_mem_area=Axi0\n"
CASES = [
    ("a) axi1_port=Shram, all areas on Axi0", SYS.replace("axi1_port=Dram", "axi1_port=Shram") + SRAM_ONLY),
    ("a) axi1_port=Unknown, all areas on Axi0", SYS.replace("axi1_port=Dram", "axi1_port=Unknown") + SRAM_ONLY),
    ("b) axi0_port=Size", SYS.replace("axi0_port=Sram", "axi0_port=Size") + SHARED),
    ("c) const_mem_area=Axi2", SYS + SHARED.replace("const_mem_area=Axi1", "const_mem_area=Axi2")),
    ("c) arena_mem_area=axi0", SYS + SHARED.replace("arena_mem_area=Axi0", "arena_mem_area=axi0")),
    ("c) core_clock=fast", SYS.replace("500e6", "fast") + SHARED),
    ("c) arena_cache_size=384K", SYS + SHARED + "arena_cache_size=384K\n"),
    ("d) Sram_clock_scale=0", SYS + "Sram_clock_scale=0\n" + SHARED),
    ("d) core_clock=-1 Sram_clock_scale=-3 Sram_burst_length=-5", SYS.replace("500e6", "-1") + "Sram_clock_scale=-3\nSram_burst_length=-5\n" + SHARED),
]
reproduced = False
with tempfile.TemporaryDirectory() as tmp:
    for name, ini in CASES:
        path = os.path.join(tmp, "c.ini")
        with open(path, "w") as f:
            f.write(ini)
        try:
            with contextlib.redirect_stdout(io.StringIO()):
                a = ArchitectureFeatures([path], "ethos-u55-128", "S", "M", 3, False, None)
            print(f"{name}: ACCEPTED (axi0={a.axi0_port.name}, axi1={a.axi1_port.name}, core_clock={a.core_clock}, "
                  f"Sram scale={a.memory_clock_scales[1]}, Sram burst={a.memory_burst_length[1]})")
            reproduced = True
        except VelaError as e:
            print(f"{name}: rejected cleanly: {e.data}")
        except Exception as e:
            print(f"{name}: uncaught {type(e).__name__}: {e}")
            reproduced = True
print("REPRODUCED" if reproduced else "not reproduced")
sys.exit(1 if reproduced else 0)

"""Observation 2 (UNMODIFIED tree): AVERAGE_POOL_2D with VALID padding, a window larger than 1x1 and an IFM scale
larger than the OFM scale: the OFM_SCALE multiplier wraps modulo 2^32 instead of being reduced / degraded.

register_command_stream_generator.generate_ofm_scaling_for_pooling (last branch) reserves head-room for
rescale = ifm_scale / ofm_scale only when the kernel is 1x1 (rescale_bits stays 0 otherwise), then computes
int(round(quantise_pooling_scale(n)[0] * rescale)), which exceeds 32 bits as soon as rescale >= 2 (and for
rescale slightly below 2 as well), and CommandStreamEmitter.cmd1_with_offset masks it with 0xFFFFFFFF.
The same happens through the public API (NpuPoolingOperation with different ifm/ofm quantization scales).
No warning is printed and the operator is placed on the NPU.
"""
import sys
from fractions import Fraction

from _model_util import compile_model, model_bytes, np, qp, scale_registers
from ethosu.vela.data_type import DataType
from ethosu.vela.operation import Op, Operation, Padding
from ethosu.vela.tensor import Tensor


def build(k, s_in, s_out):
    ifm = Tensor([1, 3 * k, 3 * k, 16], DataType.int8, "ifm")
    ifm.quantization = qp(s_in, 3)
    ofm = Tensor([1, 3, 3, 16], DataType.int8, "ofm")
    ofm.quantization = qp(s_out, 3)
    op = Operation(Op.AvgPool, "pool")
    op.add_input_tensor(ifm)
    op.set_output_tensor(ofm)
    op.attrs = {
        "padding": Padding.VALID,
        "stride_w": k,
        "stride_h": k,
        "filter_width": k,
        "filter_height": k,
        "strides": (1, k, k, 1),
        "ksize": (1, k, k, 1),
        "fused_activation_function": None,
    }
    return model_bytes(op, [ifm], [ofm])


def main():
    violations = 0
    for k, s_in, s_out in [(2, 0.02, 0.02), (2, 0.0456, 0.0123), (2, 0.7, 0.011), (3, 0.05, 0.02), (3, 0.02, 0.05)]:
        regs = [r for r in scale_registers(compile_model(build(k, s_in, s_out))) if r[0] == "OFM_SCALE"]
        real = Fraction(float(np.float32(s_in))) / Fraction(float(np.float32(s_out))) / (k * k)
        for _, m, s in regs:
            got = Fraction(m, 1 << s)
            bad = abs(got / real - 1) > Fraction(1, 1 << 20)
            violations += bad
            print(
                f"AvgPool {k}x{k} VALID, ifm scale {s_in}, ofm scale {s_out}: OFM_SCALE ({m}, {s}) denotes {float(got):.6f}, "
                f"ifm_scale/ofm_scale/{k * k} = {float(real):.6f}  {'VIOLATION (wrapped modulo 2^32)' if bad else 'ok'}"
            )
    return 1 if violations else 0


if __name__ == "__main__":
    sys.exit(main())

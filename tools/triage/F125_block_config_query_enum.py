"""Observation on the UNMODIFIED tree (public block-config query, api.npu_find_block_configs).

The query derives its minimum block height/width from
    2 if ifm_resampling_mode != NpuResamplingMode.NONE else 1
but ifm_resampling_mode is a member of the *register* enum (ethos_u55_regs.resampling_mode, via resampling_mode_map),
which never equals a member of api.NpuResamplingMode. The minimum (and the step) is therefore always 2, also without
upscaling, so blocks of height/width 1 (or any odd size on the 32/64/128 MAC parts) are never offered. Everything that
IS offered is valid, but for operations whose only fitting blocks are 1 high / 1 wide the query dies with
'assert len(valid_block_configs) > 0' although valid configurations exist: the scheduler's own search
(architecture_allocator.find_block_config) finds one, the register command stream generator accepts it, and the
register-level oracle confirms its shared buffer layout.

Case: int16 depthwise convolution, OFM 2x8x9, kernel 9(w)x7(h), stride 2(x),3(y), LUT activation, Ethos-U55-64.
Exits 1 if the defect is present."""
import os
import sys

sys.path.insert(0, os.getcwd())
sys.path.insert(0, os.path.dirname(os.path.abspath(__file__)))

import c15_ops as o  # noqa: E402
from c15_ops import NpuAccelerator, NpuKernel, NpuShape3D  # noqa: E402
from ethosu.vela import api  # noqa: E402


def main():
    acc = NpuAccelerator.Ethos_U55_64
    op = o.depthwise_op(2, 8, 9, NpuKernel(9, 7, 2, 3), 16, True, True)
    try:
        configs = api.npu_find_block_configs(op, acc)
        print("query offers", configs)
        query_failed = False
    except AssertionError:
        print("npu_find_block_configs: AssertionError (no block configuration offered)")
        query_failed = True
    # every block the hardware would accept: height/width multiples of the (1,1,8) micro-block; depth 16 only (a depth
    # of 8 would split the 9 deep OFM at a non multiple of 16, which the query rightly excludes)
    valid = []
    for h in range(1, 3):
        for w in range(1, 9):
            for d in (16,):
                op.block_config = NpuShape3D(h, w, d)
                try:
                    stream = api.npu_generate_register_command_stream([op], acc)
                except AssertionError:
                    continue
                bad, _ = o.c15_oracle.check_stream(acc.name, stream, o.expected_acc_bits(op), track_lut=False)
                if not bad:
                    valid.append((h, w, d))
    print("block configurations accepted by the generator and valid for the register-level oracle:", valid)
    if query_failed and valid:
        print("VIOLATION on unmodified tree: the query fails although valid block configurations exist")
        return 1
    # second symptom: no offered block is ever 1 high, even for an OFM of height 1 without upscaling
    op2 = o.pool_op(o.NpuPoolingOp.MAX, 1, 16, 8, NpuKernel(1, 1))
    heights = sorted(set(c.height for c in api.npu_find_block_configs(op2, NpuAccelerator.Ethos_U55_32)))
    print("offered block heights for a 1x16x8 max pool on Ethos-U55-32 (micro-block height 1):", heights)
    return 0


sys.exit(main())

# OBSERVATION 1 (unchanged tree): a RESIZE_NEAREST_NEIGHBOR / RESIZE_BILINEAR whose output size equals its input size and
# whose result is a subgraph output is turned into Op.Identity by fixup_resize() and then bypassed by
# remove_passthrough_tensor(), which also rewrites sg.output_tensors: the subgraph output of the written model is the
# resize's INPUT tensor (other name; in the extreme case the graph input itself), the tensor 'out' does not exist any more.
# The model interface (output names) is not preserved.
import tempfile

from obs_common import *  # noqa: F403


def resize_opts():
    from ethosu.vela.tflite import ResizeNearestNeighborOptions as R

    def f(b):
        R.ResizeNearestNeighborOptionsStart(b)
        return R.ResizeNearestNeighborOptionsEnd(b)

    return (BuiltinOptions.ResizeNearestNeighborOptions, f)


tensors = [fm("in0"), fm("c1"), T("size", [2], TensorType.INT32, data=[8, 8]), fm("out")]
ts, o = conv("conv1", "in0", "c1")
tensors += ts
ops = [o, O(BuiltinOperator.RESIZE_NEAREST_NEIGHBOR, ["c1", "size"], ["out"], resize_opts())]
src = build_model(tensors, ops, ["in0"], ["out"])
with tempfile.TemporaryDirectory() as d:
    out, log = compile_file(src, d)
    report(check_preserved(src, out, []))

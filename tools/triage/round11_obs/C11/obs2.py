# OBSERVATION 2 (unchanged tree): quantisation parameters that consist of min/max only (no scale / zero point; typical for
# float tensors that carry recorded ranges) are dropped by the reader (parse_tensor: "if scale_f32 is None and zero_point is
# None: tens.quantization = None"), so they are missing in the written model - also on subgraph outputs and on the operands
# of operators that stay on the CPU.
import tempfile

from obs_common import *  # noqa: F403

tensors = [
    fm("in0"),
    fm("c1"),
    T("deq", [1, 8, 8, 4], TensorType.FLOAT32, qmin=[-1.0], qmax=[1.0]),
    T("k", [1], TensorType.FLOAT32, data=[2.0]),
    T("add", [1, 8, 8, 4], TensorType.FLOAT32, qmin=[-3.0], qmax=[3.0]),
]
ts, o = conv("conv1", "in0", "c1")
tensors += ts
ops = [
    o,
    O(BuiltinOperator.DEQUANTIZE, ["c1"], ["deq"], empty_opts("DequantizeOptions")),
    O(BuiltinOperator.ADD, ["deq", "k"], ["add"], add_opts()),
]
src = build_model(tensors, ops, ["in0"], ["add"])
with tempfile.TemporaryDirectory() as d:
    out, log = compile_file(src, d)
    report(check_preserved(src, out, ["deq", "add"]))

import os
import sys

sys.path.insert(0, os.path.dirname(os.path.abspath(__file__)))
from tfl_build import *  # noqa: E402,F403

rng = np.random.default_rng(1)


def fm(name, shape=(1, 8, 8, 4), scale=0.05, zp=0):
    return T(name, list(shape), TensorType.INT8, scale=[scale], zp=[zp])


def conv(name, inp, outp, c=4):
    w = T(name + "_w", [c, 1, 1, c], TensorType.INT8, scale=[0.02], zp=[0], data=rng.integers(-20, 20, (c, 1, 1, c)))
    b = T(name + "_b", [c], TensorType.INT32, scale=[0.001], zp=[0], data=rng.integers(-50, 50, (c,)))
    return [w, b], O(BuiltinOperator.CONV_2D, [inp, w.name, b.name], [outp], conv_opts())


def report(errs):
    if errs:
        print("C11 violated on the unchanged tree:")
        for e in errs:
            print("  -", str(e)[:400])
        sys.exit(1)
    print("ok")

# OBSERVATION 3 (unchanged tree): a FULLY_CONNECTED (also CONV_2D / DEPTHWISE_CONV_2D) with constant weights and WITHOUT a
# bias operand (two inputs) that stays on the CPU is written with three inputs [ifm, weights, -1]: the reader appends a
# None bias (parse_operator) and the writer serialises it as -1.  The operand list of a CPU-resident operator is not
# written back verbatim.
import tempfile

from obs_common import *  # noqa: F403


def fc_opts():
    from ethosu.vela.tflite import FullyConnectedOptions as F

    def f(b):
        F.FullyConnectedOptionsStart(b)
        return F.FullyConnectedOptionsEnd(b)

    return (BuiltinOptions.FullyConnectedOptions, f)


tensors = [
    fm("in0"),
    fm("c1"),
    T("deq", [1, 8, 8, 4], TensorType.FLOAT32),
    T("w", [3, 4], TensorType.FLOAT32, data=np.arange(12)),
    T("fc", [64, 3], TensorType.FLOAT32),
]
ts, o = conv("conv1", "in0", "c1")
tensors += ts
ops = [
    o,
    O(BuiltinOperator.DEQUANTIZE, ["c1"], ["deq"], empty_opts("DequantizeOptions")),
    O(BuiltinOperator.FULLY_CONNECTED, ["deq", "w"], ["fc"], fc_opts()),
]
src = build_model(tensors, ops, ["in0"], ["fc"])
with tempfile.TemporaryDirectory() as d:
    out, log = compile_file(src, d)
    report(check_preserved(src, out, ["deq", "fc"]))

# Helper for the C11 demos: builds .tflite flatbuffers programmatically, compiles them with Vela (from the worktree)
# and parses flatbuffers into plain python structures with the generated flatbuffer classes only.
import contextlib
import io
import os
import sys

ROOT = os.path.dirname(os.path.dirname(os.path.abspath(__file__)))
sys.path.insert(0, ROOT)

import flatbuffers  # noqa: E402
import numpy as np  # noqa: E402

import ethosu.vela  # noqa: E402

assert os.path.abspath(ethosu.vela.__file__).startswith(ROOT + os.sep), ethosu.vela.__file__

from ethosu.vela.tflite import Buffer  # noqa: E402
from ethosu.vela.tflite import Model  # noqa: E402
from ethosu.vela.tflite import Operator  # noqa: E402
from ethosu.vela.tflite import OperatorCode  # noqa: E402
from ethosu.vela.tflite import QuantizationParameters  # noqa: E402
from ethosu.vela.tflite import SubGraph  # noqa: E402
from ethosu.vela.tflite import Tensor  # noqa: E402
from ethosu.vela.tflite.BuiltinOperator import BuiltinOperator  # noqa: E402,F401
from ethosu.vela.tflite.BuiltinOptions import BuiltinOptions  # noqa: E402,F401
from ethosu.vela.tflite.TensorType import TensorType  # noqa: E402,F401

NP_OF = {
    TensorType.FLOAT32: np.float32,
    TensorType.INT32: np.int32,
    TensorType.UINT8: np.uint8,
    TensorType.INT64: np.int64,
    TensorType.INT16: np.int16,
    TensorType.INT8: np.int8,
    TensorType.BOOL: np.uint8,
}


def _vec(b, elem_size, items, prepend):
    b.StartVector(elem_size, len(items), elem_size)
    for e in reversed(items):
        prepend(e)
    return b.EndVector()


def ivec(b, v):
    return _vec(b, 4, [int(x) for x in v], b.PrependInt32)


def fvec(b, v):
    return _vec(b, 4, [float(x) for x in v], b.PrependFloat32)


def lvec(b, v):
    return _vec(b, 8, [int(x) for x in v], b.PrependInt64)


def ovec(b, v):
    return _vec(b, 4, list(v), b.PrependUOffsetTRelative)


def bvec(b, data):
    data = bytes(data)
    b.StartVector(1, len(data), 16)
    b.head = b.head - len(data)
    b.Bytes[b.head : b.head + len(data)] = data
    return b.EndVector()


class T:
    """Tensor description."""

    def __init__(self, name, shape, dtype, scale=None, zp=None, data=None, qdim=0, qmin=None, qmax=None, variable=False):
        self.name, self.shape, self.dtype = name, list(shape), dtype
        self.scale, self.zp, self.data, self.qdim = scale, zp, data, qdim
        self.qmin, self.qmax = qmin, qmax
        self.variable = variable


class O:
    """Operator description. opts = None or (BuiltinOptions enum value, callable(builder) -> offset)."""

    def __init__(self, code, inputs, outputs, opts=None, version=1, custom_code=None, custom_options=None):
        self.code, self.inputs, self.outputs = code, list(inputs), list(outputs)
        self.opts, self.version = opts, version
        self.custom_code, self.custom_options = custom_code, custom_options


def build_model(tensors, ops, inputs, outputs, description="demo", sg_name="main", metadata=()):
    """tensors: list of T, ops: list of O (tensor references by name or -1), inputs/outputs: lists of names."""
    b = flatbuffers.Builder(1024)
    index = {t.name: i for i, t in enumerate(tensors)}

    def idx(n):
        return -1 if n in (-1, None) else index[n]

    # operator codes
    codes = []
    for o in ops:
        key = (o.code, o.custom_code, o.version)
        if key not in codes:
            codes.append(key)
    code_offs = []
    for code, custom, version in codes:
        cc = b.CreateString(custom) if custom is not None else None
        OperatorCode.OperatorCodeStart(b)
        OperatorCode.OperatorCodeAddDeprecatedBuiltinCode(b, min(code, 127))
        OperatorCode.OperatorCodeAddBuiltinCode(b, code)
        OperatorCode.OperatorCodeAddVersion(b, version)
        if cc is not None:
            OperatorCode.OperatorCodeAddCustomCode(b, cc)
        code_offs.append(OperatorCode.OperatorCodeEnd(b))
    codes_off = ovec(b, code_offs)

    # buffers
    buffers = [None]
    tens_offs = []
    for t in tensors:
        if t.data is not None:
            buffers.append(np.ascontiguousarray(np.asarray(t.data, dtype=NP_OF[t.dtype])).tobytes())
            buf_idx = len(buffers) - 1
        else:
            buffers.append(None)
            buf_idx = len(buffers) - 1
        shape = ivec(b, t.shape)
        name = b.CreateString(t.name)
        q = None
        if t.scale is not None or t.zp is not None or t.qmin is not None:
            mn = fvec(b, np.atleast_1d(t.qmin)) if t.qmin is not None else None
            mx = fvec(b, np.atleast_1d(t.qmax)) if t.qmax is not None else None
            sc = fvec(b, np.atleast_1d(t.scale)) if t.scale is not None else None
            zp = lvec(b, np.atleast_1d(t.zp)) if t.zp is not None else None
            QuantizationParameters.QuantizationParametersStart(b)
            if mn is not None:
                QuantizationParameters.QuantizationParametersAddMin(b, mn)
            if mx is not None:
                QuantizationParameters.QuantizationParametersAddMax(b, mx)
            if sc is not None:
                QuantizationParameters.QuantizationParametersAddScale(b, sc)
            if zp is not None:
                QuantizationParameters.QuantizationParametersAddZeroPoint(b, zp)
            QuantizationParameters.QuantizationParametersAddQuantizedDimension(b, t.qdim)
            q = QuantizationParameters.QuantizationParametersEnd(b)
        Tensor.TensorStart(b)
        Tensor.TensorAddShape(b, shape)
        Tensor.TensorAddType(b, t.dtype)
        Tensor.TensorAddBuffer(b, buf_idx)
        Tensor.TensorAddName(b, name)
        if q is not None:
            Tensor.TensorAddQuantization(b, q)
        Tensor.TensorAddIsVariable(b, t.variable)
        tens_offs.append(Tensor.TensorEnd(b))
    tensors_off = ovec(b, tens_offs)

    op_offs = []
    for o in ops:
        i_off = ivec(b, [idx(n) for n in o.inputs])
        o_off = ivec(b, [idx(n) for n in o.outputs])
        opt_off = None
        if o.opts is not None:
            opt_off = o.opts[1](b)
        cust_off = None
        if o.custom_options is not None:
            cust_off = bvec(b, o.custom_options)
        Operator.OperatorStart(b)
        Operator.OperatorAddOpcodeIndex(b, codes.index((o.code, o.custom_code, o.version)))
        Operator.OperatorAddInputs(b, i_off)
        Operator.OperatorAddOutputs(b, o_off)
        if opt_off is not None:
            Operator.OperatorAddBuiltinOptionsType(b, o.opts[0])
            Operator.OperatorAddBuiltinOptions(b, opt_off)
        if cust_off is not None:
            Operator.OperatorAddCustomOptions(b, cust_off)
        op_offs.append(Operator.OperatorEnd(b))
    ops_off = ovec(b, op_offs)

    in_off = ivec(b, [idx(n) for n in inputs])
    out_off = ivec(b, [idx(n) for n in outputs])
    sg_name_off = b.CreateString(sg_name)
    SubGraph.SubGraphStart(b)
    SubGraph.SubGraphAddTensors(b, tensors_off)
    SubGraph.SubGraphAddInputs(b, in_off)
    SubGraph.SubGraphAddOutputs(b, out_off)
    SubGraph.SubGraphAddOperators(b, ops_off)
    SubGraph.SubGraphAddName(b, sg_name_off)
    sg_off = SubGraph.SubGraphEnd(b)
    sgs_off = ovec(b, [sg_off])

    buf_offs = []
    for data in buffers:
        d = bvec(b, data) if data is not None else None
        Buffer.BufferStart(b)
        if d is not None:
            Buffer.BufferAddData(b, d)
        buf_offs.append(Buffer.BufferEnd(b))
    bufs_off = ovec(b, buf_offs)

    desc = b.CreateString(description)
    Model.ModelStart(b)
    Model.ModelAddVersion(b, 3)
    Model.ModelAddOperatorCodes(b, codes_off)
    Model.ModelAddSubgraphs(b, sgs_off)
    Model.ModelAddDescription(b, desc)
    Model.ModelAddBuffers(b, bufs_off)
    b.Finish(Model.ModelEnd(b), b"TFL3")
    return bytes(b.Output())


# ---------------------------------------------------------------------------------------------------------------------
# plain flatbuffer parser


def _np(x):
    return [] if isinstance(x, int) else x.tolist()


def parse_model(buf):
    """Returns a list of subgraphs; each {"name", "inputs", "outputs", "tensors": [..], "ops": [..]} with tensors given as
    dictionaries and operator operands given as tensor NAMES (or None)."""
    buf = bytearray(buf)
    m = Model.Model.GetRootAsModel(buf, 0)
    codes = []
    for i in range(m.OperatorCodesLength()):
        c = m.OperatorCodes(i)
        code = c.BuiltinCode() or c.DeprecatedBuiltinCode()
        cc = c.CustomCode()
        codes.append((code, cc.decode() if cc is not None else None, c.Version()))
    buffers = []
    for i in range(m.BuffersLength()):
        bb = m.Buffers(i)
        buffers.append(None if bb.DataLength() == 0 else bytes(bb.DataAsNumpy().tobytes()))
    res = []
    for s in range(m.SubgraphsLength()):
        sg = m.Subgraphs(s)
        tensors = []
        for i in range(sg.TensorsLength()):
            t = sg.Tensors(i)
            q = t.Quantization()
            quant = None
            if q is not None:
                quant = {
                    "min": _np(q.MinAsNumpy()),
                    "max": _np(q.MaxAsNumpy()),
                    "scale": _np(q.ScaleAsNumpy()),
                    "zero_point": _np(q.ZeroPointAsNumpy()),
                    "qdim": q.QuantizedDimension(),
                }
            tensors.append(
                {
                    "name": t.Name().decode(),
                    "shape": _np(t.ShapeAsNumpy()),
                    "type": t.Type(),
                    "quant": quant,
                    "data": buffers[t.Buffer()],
                    "buffer": t.Buffer(),
                    "is_variable": bool(t.IsVariable()),
                }
            )

        def nm(i):
            return None if i == -1 else tensors[i]["name"]

        ops = []
        for i in range(sg.OperatorsLength()):
            o = sg.Operators(i)
            code, cc, ver = codes[o.OpcodeIndex()]
            opt = o.BuiltinOptions()
            # the raw bytes of the option table (vtable-independent view: every scalar field through the generic reader)
            ops.append(
                {
                    "code": code,
                    "custom_code": cc,
                    "version": ver,
                    "inputs": [nm(x) for x in _np(o.InputsAsNumpy())],
                    "outputs": [nm(x) for x in _np(o.OutputsAsNumpy())],
                    "opt_type": o.BuiltinOptionsType(),
                    "opt_table": opt,
                    "custom_options": None if o.CustomOptionsIsNone() else bytes(o.CustomOptionsAsNumpy().tobytes()),
                    "raw": o,
                }
            )
        res.append(
            {
                "name": sg.Name().decode() if sg.Name() else "",
                "inputs": [nm(x) for x in _np(sg.InputsAsNumpy())],
                "outputs": [nm(x) for x in _np(sg.OutputsAsNumpy())],
                "tensors": tensors,
                "ops": ops,
            }
        )
    return res


def tensor_by_name(sg, name):
    found = [t for t in sg["tensors"] if t["name"] == name]
    assert len(found) == 1, f"tensor {name!r} found {len(found)} times"
    return found[0]


def read_options(op, cls, fields):
    """Decodes the builtin option table of a parsed operator with the generated class cls; fields = accessor names."""
    if op["opt_table"] is None:
        return None
    o = cls()
    o.Init(op["opt_table"].Bytes, op["opt_table"].Pos)
    out = {}
    for f in fields:
        v = getattr(o, f)()
        if hasattr(v, "tolist"):
            v = v.tolist()
        out[f] = v
    return out


# ---------------------------------------------------------------------------------------------------------------------
# compile


def compile_file(model_bytes, workdir, name="net", extra_args=(), quiet=True):
    """Writes the model to workdir/<name>.tflite, runs vela's command line entry point, returns the output bytes."""
    from ethosu.vela import vela

    os.makedirs(workdir, exist_ok=True)
    src = os.path.join(workdir, name + ".tflite")
    with open(src, "wb") as f:
        f.write(model_bytes)
    outdir = os.path.join(workdir, "out_" + name)
    args = [src, "--output-dir", outdir, "--accelerator-config", "ethos-u55-128"] + list(extra_args)
    # vela prints through several routes (some bound to the original sys.stdout): capture at file descriptor level
    logname = os.path.join(workdir, name + ".log")
    sys.stdout.flush()
    saved = os.dup(1)
    with open(logname, "w") as logf:
        os.dup2(logf.fileno(), 1)
        try:
            with contextlib.redirect_stdout(logf):
                try:
                    rc = vela.main(args)
                except SystemExit as e:
                    rc = e.code
                logf.flush()
        finally:
            sys.stdout.flush()
            os.dup2(saved, 1)
            os.close(saved)
    with open(logname) as f:
        log = f.read()
    if rc not in (None, 0):
        raise RuntimeError("vela failed: %r\n%s" % (rc, log[-3000:]))
    with open(os.path.join(outdir, name + "_vela.tflite"), "rb") as f:
        return f.read(), log


def reread_with_vela(path_or_bytes, workdir=None):
    from ethosu.vela import model_reader

    if isinstance(path_or_bytes, (bytes, bytearray)):
        path = os.path.join(workdir, "reread.tflite")
        with open(path, "wb") as f:
            f.write(path_or_bytes)
    else:
        path = path_or_bytes
    sink = io.StringIO()
    with contextlib.redirect_stdout(sink):
        nng, _ = model_reader.read_model(path, model_reader.ModelReaderOptions())
    return nng


# ---------------------------------------------------------------------------------------------------------------------
# option builders


def conv_opts(stride=1, padding=0, act=0, dil=1):
    from ethosu.vela.tflite import Conv2DOptions as C

    def f(b):
        C.Conv2DOptionsStart(b)
        C.Conv2DOptionsAddPadding(b, padding)
        C.Conv2DOptionsAddStrideW(b, stride)
        C.Conv2DOptionsAddStrideH(b, stride)
        C.Conv2DOptionsAddFusedActivationFunction(b, act)
        C.Conv2DOptionsAddDilationWFactor(b, dil)
        C.Conv2DOptionsAddDilationHFactor(b, dil)
        return C.Conv2DOptionsEnd(b)

    return (BuiltinOptions.Conv2DOptions, f)


def add_opts(act=0):
    from ethosu.vela.tflite import AddOptions as A

    def f(b):
        A.AddOptionsStart(b)
        A.AddOptionsAddFusedActivationFunction(b, act)
        return A.AddOptionsEnd(b)

    return (BuiltinOptions.AddOptions, f)


def pool_opts(fh, fw, stride_h=1, stride_w=1, padding=1, act=0):
    from ethosu.vela.tflite import Pool2DOptions as P

    def f(b):
        P.Pool2DOptionsStart(b)
        P.Pool2DOptionsAddPadding(b, padding)
        P.Pool2DOptionsAddStrideW(b, stride_w)
        P.Pool2DOptionsAddStrideH(b, stride_h)
        P.Pool2DOptionsAddFilterWidth(b, fw)
        P.Pool2DOptionsAddFilterHeight(b, fh)
        P.Pool2DOptionsAddFusedActivationFunction(b, act)
        return P.Pool2DOptionsEnd(b)

    return (BuiltinOptions.Pool2DOptions, f)


def softmax_opts(beta=1.0):
    from ethosu.vela.tflite import SoftmaxOptions as S

    def f(b):
        S.SoftmaxOptionsStart(b)
        S.SoftmaxOptionsAddBeta(b, beta)
        return S.SoftmaxOptionsEnd(b)

    return (BuiltinOptions.SoftmaxOptions, f)


def reshape_opts(new_shape):
    from ethosu.vela.tflite import ReshapeOptions as R

    def f(b):
        v = ivec(b, new_shape)
        R.ReshapeOptionsStart(b)
        R.ReshapeOptionsAddNewShape(b, v)
        return R.ReshapeOptionsEnd(b)

    return (BuiltinOptions.ReshapeOptions, f)


def empty_opts(name):
    import importlib

    mod = importlib.import_module("ethosu.vela.tflite." + name)

    def f(b):
        getattr(mod, name + "Start")(b)
        return getattr(mod, name + "End")(b)

    return (getattr(BuiltinOptions, name), f)


# ---------------------------------------------------------------------------------------------------------------------
# generic preservation check


def decode_options(op):
    """Decodes every field of the operator's builtin option table with the generated class, by introspection."""
    import importlib

    if op["opt_table"] is None:
        return None
    names = [n for n in dir(BuiltinOptions) if not n.startswith("_") and getattr(BuiltinOptions, n) == op["opt_type"]]
    if not names or names[0] == "NONE":
        return None
    name = names[0]
    cls = getattr(importlib.import_module("ethosu.vela.tflite." + name), name)
    o = cls()
    o.Init(op["opt_table"].Bytes, op["opt_table"].Pos)
    out = {}
    members = [n for n in vars(cls) if not n.startswith("_")]
    for n in members:
        if n.startswith("GetRootAs") or n == "Init" or n.endswith("BufferHasIdentifier"):
            continue
        if n.endswith("Length") or n.endswith("IsNone") or n.endswith("AsNumpy"):
            continue
        fn = getattr(o, n + "AsNumpy", None) or getattr(o, n)
        try:
            v = fn()
        except TypeError:
            continue
        if hasattr(v, "tolist"):
            v = v.tolist()
        if isinstance(v, bytes):
            v = v.decode()
        out[n] = v
    return (name, out)


def _norm_quant(q):
    # a quantisation table without any content is the same as no table
    if q is not None and not (q["min"] or q["max"] or q["scale"] or q["zero_point"] or q["qdim"]):
        return None
    return q


def tensor_sig(t, with_data=True):
    sig = {"name": t["name"], "shape": t["shape"], "type": t["type"], "quant": _norm_quant(t["quant"])}
    if with_data:
        sig["data"] = t["data"]
    return sig


def check_preserved(src_bytes, out_bytes, cpu_op_outputs, sg_index=0):
    """Returns a list of differences (empty = property holds for this pair).
    cpu_op_outputs: list of the first output names of the source operators that are expected to stay on the CPU."""
    errs = []
    src = parse_model(src_bytes)[sg_index]
    out = parse_model(out_bytes)[sg_index]

    # interface
    for what in ("inputs", "outputs"):
        if src[what] != out[what]:
            errs.append(f"subgraph {what} differ: {src[what]} -> {out[what]}")
            continue
        for n in src[what]:
            a, b = tensor_sig(tensor_by_name(src, n), False), tensor_sig(tensor_by_name(out, n), False)
            if a != b:
                errs.append(f"interface tensor {n}: {a} -> {b}")

    # unique tensor names in the output
    names = [t["name"] for t in out["tensors"]]
    dups = sorted(set(n for n in names if names.count(n) > 1))
    if dups:
        errs.append(f"duplicate tensor names in output: {dups}")

    # operators
    src_ops = {o["outputs"][0]: o for o in src["ops"] if o["outputs"]}
    out_cpu = [o for o in out["ops"] if o["custom_code"] != "ethos-u"]
    seen = []
    for o in out_cpu:
        key = o["outputs"][0] if o["outputs"] else None
        seen.append(key)
        if key not in src_ops:
            errs.append(f"output has a CPU operator producing {key} that the source does not have")
            continue
        s = src_ops[key]
        for f in ("code", "custom_code", "version", "inputs", "outputs", "opt_type", "custom_options"):
            if s[f] != o[f]:
                errs.append(f"operator producing {key}: {f} {s[f]!r} -> {o[f]!r}")
        so, oo = decode_options(s), decode_options(o)
        if so != oo:
            errs.append(f"operator producing {key}: options {so} -> {oo}")
        for n in s["inputs"] + s["outputs"]:
            if n is None:
                continue
            try:
                a, b = tensor_sig(tensor_by_name(src, n)), tensor_sig(tensor_by_name(out, n))
            except AssertionError as e:
                errs.append(f"operator producing {key}: {e}")
                continue
            if a != b:
                errs.append(f"operator producing {key}: operand {n}: {a} -> {b}")
    for key in cpu_op_outputs:
        if seen.count(key) != 1:
            errs.append(f"source CPU operator producing {key} appears {seen.count(key)} times in the output")

    # data dependencies
    produced = set(out["inputs"])
    producers = set()
    for o in out["ops"]:
        producers.update(o["outputs"])
    for o in out["ops"]:
        for n in o["inputs"]:
            if n is not None and n in producers and n not in produced:
                errs.append(f"operator producing {o['outputs']} uses {n} before it is produced")
        produced.update(o["outputs"])
    for n in out["outputs"]:
        t = tensor_by_name(out, n)
        if n not in produced and t["data"] is None:
            errs.append(f"subgraph output {n} is never produced")
    return errs

"""Shared helpers for the C18 demonstrations (configuration / memory mode resolution)."""
import contextlib
import io
import os
import sys

ROOT = os.path.dirname(os.path.dirname(os.path.abspath(__file__)))
sys.path.insert(0, ROOT)

import ethosu.vela  # noqa: E402

assert os.path.abspath(ethosu.vela.__file__).startswith(ROOT + os.sep), (
    "wrong ethosu.vela imported: " + ethosu.vela.__file__
)

from ethosu.vela import architecture_features  # noqa: E402
from ethosu.vela import vela  # noqa: E402

BUNDLED_DIR = os.path.join(ROOT, "ethosu", "config_files")


def run_main(argv):
    """Runs vela.main() up to (and including) the construction of the architecture object.
    Returns (exit status, arch or None, captured stdout)."""
    captured = {}

    def fake_process(input_name, enable_debug_db, arch, *args, **kwargs):
        captured["arch"] = arch
        return None

    orig = vela.process
    vela.process = fake_process
    out = io.StringIO()
    try:
        with contextlib.redirect_stdout(out):
            rc = vela.main(argv)
    finally:
        vela.process = orig
    return rc, captured.get("arch"), out.getvalue()


def make_arch(files, system_config, memory_mode, accelerator="ethos-u65-256", arena_cache_size=None):
    return architecture_features.ArchitectureFeatures(
        vela_config_files=files,
        accelerator_config=accelerator,
        system_config=system_config,
        memory_mode=memory_mode,
        max_blockdep=architecture_features.ArchitectureFeatures.MAX_BLOCKDEP,
        verbose_config=False,
        arena_cache_size=arena_cache_size,
    )


def fail(msg):
    print("FAIL:", msg)
    sys.exit(1)

"""C18 observation 2 (unchanged tree): the configuration is read with a plain ConfigParser, whose special [DEFAULT]
section supplies its options to EVERY section (has_option()/get() fall back to it).  _read_config tests
has_option(section, key) after the recursion into the parent, so an option that only stands in [DEFAULT] counts as
'specified by the child' and replaces the value inherited from the parent section.  A file with a [DEFAULT] block
therefore breaks 'a named section overrides the values it inherits from its parent; unspecified options take the
documented default': the child below specifies nothing but 'inherit', yet does not get its parent's core_clock /
arena_mem_area.  (OPTIONS.md knows only System_Config.* and Memory_Mode.* sections.)"""
import os
import sys
import tempfile

sys.path.insert(0, os.path.dirname(os.path.abspath(__file__)))
from c18util import fail, make_arch  # noqa: E402

INI = """
[DEFAULT]
core_clock=100e6
arena_mem_area=Axi0
[System_Config.Parent]
core_clock=800e6
axi0_port=Sram
axi1_port=Dram
[System_Config.Child]
inherit=System_Config.Parent
[Memory_Mode.Parent]
const_mem_area=Axi1
arena_mem_area=Axi1
cache_mem_area=Axi0
[Memory_Mode.Child]
inherit=Memory_Mode.Parent
"""
with tempfile.TemporaryDirectory() as d:
    path = os.path.join(d, "cfg.ini")
    with open(path, "w") as f:
        f.write(INI)
    parent = make_arch([path], "Parent", "Parent")
    child = make_arch([path], "Child", "Child")

assert (parent.core_clock, parent.arena_mem_area.name) == (800e6, "Axi1")
got = (child.core_clock, child.arena_mem_area.name)
if got != (800e6, "Axi1"):
    fail(f"child that only inherits resolves to core_clock/arena_mem_area {got}, its parent has (800e6, 'Axi1')")
print("ok")

"""C18 observation 3 (unchanged tree): OPTIONS.md documents the internal-default system configuration of an Ethos-U65
as 'Ethos-U65 Client-Server: SRAM (16 GB/s) and DRAM (12 GB/s)' (= Dram_clock_scale 0.75, what
ArchitectureFeatures._set_default_sys_config and the bundled [System_Config.Ethos_U65_Client_Server] say) and of an
Ethos-U55 as 'High-End Embedded: SRAM and Flash'.  vela.main() without --config builds Imx93ArchitectureFeatures
instead, whose _set_default_sys_config ignores the accelerator: Dram_clock_scale 0.234375 (3.75 GB/s) for U65 and, for
--accelerator-config ethos-u55-*, a 1 GHz Sram+Dram system instead of the documented 500 MHz Sram+OffChipFlash one.
Giving any --config file (without selecting a section) silently switches back to the documented defaults, so the
parameters depend on whether an unused --config is present.  (Deliberate in the NXP fork, but not what OPTIONS.md says.)"""
import os
import sys

sys.path.insert(0, os.path.dirname(os.path.abspath(__file__)))
from c18util import fail, run_main  # noqa: E402
from ethosu.vela.tensor import MemArea  # noqa: E402

problems = []
rc, arch, out = run_main(["net.tflite", "--accelerator-config", "ethos-u65-256"])
assert rc == 0
if float(arch.memory_clock_scales[MemArea.Dram]) != 0.75:
    problems.append(f"U65 internal-default Dram_clock_scale {arch.memory_clock_scales[MemArea.Dram]}, documented 0.75")
rc, arch, out = run_main(["net.tflite", "--accelerator-config", "ethos-u55-128"])
assert rc == 0
if (arch.core_clock, arch.axi1_port) != (500e6, MemArea.OffChipFlash):
    problems.append(
        f"U55 internal-default core_clock/axi1_port {(arch.core_clock, arch.axi1_port.name)}, "
        "documented (500e6, OffChipFlash)"
    )
rc, arch2, out = run_main(["net.tflite", "--accelerator-config", "ethos-u55-128", "--config", "Arm/vela.ini"])
assert rc == 0
if (arch.core_clock, arch.axi1_port) != (arch2.core_clock, arch2.axi1_port):
    problems.append(
        f"an unused --config changes the internal defaults: {(arch.core_clock, arch.axi1_port.name)} vs "
        f"{(arch2.core_clock, arch2.axi1_port.name)}"
    )
if problems:
    fail("\n      ".join(problems))
print("ok")

"""C18 observation 1 (unchanged tree): vela.main() declares --arena-cache-size with default=384*1024 (vela.py, NXP
change) and always hands that number to ArchitectureFeatures as 'arena_cache_size_from_cli'.  _get_vela_config
therefore always takes the '# override sram usage' branch: the arena_cache_size written in the selected Memory_Mode
section of the configuration file is NEVER used from the command line, even when --arena-cache-size is not given, and
--verbose-config reports 'from CLI option'.  OPTIONS.md: 'If specified, this option overrides the memory mode attribute
with the same name in a Vela configuration file' - here it is not specified.  Example: the bundled
Memory_Mode.Dedicated_Sram_512KB (arena_cache_size=524288) compiles with 393216."""
import configparser
import os
import sys

sys.path.insert(0, os.path.dirname(os.path.abspath(__file__)))
from c18util import BUNDLED_DIR, fail, run_main  # noqa: E402

ref = configparser.ConfigParser(interpolation=None)
ref.read(os.path.join(BUNDLED_DIR, "Arm", "vela.ini"))
expected = int(ref["Memory_Mode.Dedicated_Sram_512KB"]["arena_cache_size"])

rc, arch, out = run_main(
    [
        "net.tflite",
        "--config", "Arm/vela.ini",
        "--system-config", "Ethos_U65_High_End",
        "--memory-mode", "Dedicated_Sram_512KB",
        "--verbose-config",
    ]
)
assert rc == 0 and arch is not None, out
line = [ln.strip() for ln in out.splitlines() if "arena_cache_size =" in ln]
if arch.arena_cache_size != expected:
    fail(f"no --arena-cache-size given, file says {expected}, vela uses {arch.arena_cache_size} ({line})")
print("ok")

"""C18 observation 4 (unchanged tree): OPTIONS.md, 'Configuration File': 'All sections and key/value pairs are
case-sensitive.'  The ConfigParser used by _get_vela_config keeps its default optionxform (str.lower), so option KEYS
are case-insensitive: 'CORE_CLOCK', 'sram_CLOCK_scale' or 'ARENA_CACHE_SIZE' are accepted as the documented
'core_clock', 'Sram_clock_scale', 'arena_cache_size' instead of being unknown (= unspecified -> default 1).  Two
spellings of one key in a section are reported as a duplicate-option parse error although the documentation makes them
different keys."""
import os
import sys
import tempfile

sys.path.insert(0, os.path.dirname(os.path.abspath(__file__)))
from c18util import fail, make_arch  # noqa: E402

INI = """
[System_Config.S]
CORE_CLOCK=800e6
axi0_port=Sram
axi1_port=Dram
[Memory_Mode.M]
const_mem_area=Axi1
arena_mem_area=Axi1
cache_mem_area=Axi0
ARENA_CACHE_SIZE=4096
"""
with tempfile.TemporaryDirectory() as d:
    path = os.path.join(d, "cfg.ini")
    with open(path, "w") as f:
        f.write(INI)
    arch = make_arch([path], "S", "M")
# documented: keys are case-sensitive, so neither core_clock nor arena_cache_size is specified -> 1 and max address
got = (arch.core_clock, arch.arena_cache_size)
if got != (1.0, arch.max_address_offset):
    fail(f"keys CORE_CLOCK / ARENA_CACHE_SIZE were taken as core_clock / arena_cache_size: {got}")
print("ok")

"""Minimal programmatic TFLite model builder + payload parser shared by the demos (no .tflite files in the tree)."""
import os
import struct
import sys

ROOT = os.path.dirname(os.path.dirname(os.path.abspath(__file__)))
sys.path.insert(0, ROOT)

import flatbuffers  # noqa: E402
import numpy as np  # noqa: E402

import ethosu.vela  # noqa: E402

assert os.path.abspath(ethosu.vela.__file__).startswith(ROOT + os.sep), ethosu.vela.__file__

from ethosu.vela.tflite import AddOptions  # noqa: E402
from ethosu.vela.tflite import Buffer  # noqa: E402
from ethosu.vela.tflite import Model  # noqa: E402
from ethosu.vela.tflite import Operator  # noqa: E402
from ethosu.vela.tflite import OperatorCode  # noqa: E402
from ethosu.vela.tflite import QuantizationParameters  # noqa: E402
from ethosu.vela.tflite import SubGraph  # noqa: E402
from ethosu.vela.tflite import Tensor  # noqa: E402
from ethosu.vela.tflite.BuiltinOperator import BuiltinOperator  # noqa: E402
from ethosu.vela.tflite.BuiltinOptions import BuiltinOptions  # noqa: E402
from ethosu.vela.tflite.TensorType import TensorType  # noqa: E402


def _int_vec(b, v):
    b.StartVector(4, len(v), 4)
    for e in reversed(v):
        b.PrependInt32(e)
    return b.EndVector()


def _off_vec(b, v):
    b.StartVector(4, len(v), 4)
    for e in reversed(v):
        b.PrependUOffsetTRelative(e)
    return b.EndVector()


def _byte_vec(b, data):
    b.StartVector(1, len(data), 16)
    for e in reversed(bytes(data)):
        b.PrependByte(e)
    return b.EndVector()


def _float_vec(b, v):
    b.StartVector(4, len(v), 4)
    for e in reversed(v):
        b.PrependFloat32(e)
    return b.EndVector()


def _long_vec(b, v):
    b.StartVector(8, len(v), 8)
    for e in reversed(v):
        b.PrependInt64(e)
    return b.EndVector()


def build_model(tensors, ops, inputs, outputs, sg_name="main"):
    """tensors: list of dict(name, shape, scale, zp, data=None(bytes)); int8 tensors.
    ops: list of dict(kind='ADD'|'CUSTOM', inputs=[idx], outputs=[idx], custom_code=str)"""
    b = flatbuffers.Builder(1024)

    # buffers: 0 = empty, then one per tensor with data
    buffer_data = [None]
    tens_buf = []
    for t in tensors:
        if t.get("data") is not None:
            buffer_data.append(t["data"])
            tens_buf.append(len(buffer_data) - 1)
        else:
            tens_buf.append(0)
    buf_offs = []
    for d in buffer_data:
        dv = _byte_vec(b, d) if d is not None else None
        Buffer.BufferStart(b)
        if dv is not None:
            Buffer.BufferAddData(b, dv)
        buf_offs.append(Buffer.BufferEnd(b))
    buffers = _off_vec(b, buf_offs)

    # operator codes
    kinds = []
    for op in ops:
        key = (op["kind"], op.get("custom_code"))
        if key not in kinds:
            kinds.append(key)
    code_offs = []
    for kind, custom in kinds:
        cc = b.CreateString(custom) if custom else None
        code = {"ADD": BuiltinOperator.ADD, "CUSTOM": BuiltinOperator.CUSTOM}[kind]
        OperatorCode.OperatorCodeStart(b)
        OperatorCode.OperatorCodeAddDeprecatedBuiltinCode(b, code)
        OperatorCode.OperatorCodeAddBuiltinCode(b, code)
        OperatorCode.OperatorCodeAddVersion(b, 1)
        if cc is not None:
            OperatorCode.OperatorCodeAddCustomCode(b, cc)
        code_offs.append(OperatorCode.OperatorCodeEnd(b))
    opcodes = _off_vec(b, code_offs)

    # tensors
    t_offs = []
    for t, bi in zip(tensors, tens_buf):
        shape = _int_vec(b, t["shape"])
        name = b.CreateString(t["name"])
        sc = _float_vec(b, [t.get("scale", 0.5)])
        zp = _long_vec(b, [t.get("zp", 0)])
        QuantizationParameters.QuantizationParametersStart(b)
        QuantizationParameters.QuantizationParametersAddScale(b, sc)
        QuantizationParameters.QuantizationParametersAddZeroPoint(b, zp)
        q = QuantizationParameters.QuantizationParametersEnd(b)
        Tensor.TensorStart(b)
        Tensor.TensorAddShape(b, shape)
        Tensor.TensorAddType(b, TensorType.INT8)
        Tensor.TensorAddBuffer(b, bi)
        Tensor.TensorAddName(b, name)
        Tensor.TensorAddQuantization(b, q)
        t_offs.append(Tensor.TensorEnd(b))
    tens_vec = _off_vec(b, t_offs)

    # operators
    o_offs = []
    for op in ops:
        ins = _int_vec(b, op["inputs"])
        outs = _int_vec(b, op["outputs"])
        opt = None
        if op["kind"] == "ADD":
            AddOptions.AddOptionsStart(b)
            opt = AddOptions.AddOptionsEnd(b)
        Operator.OperatorStart(b)
        Operator.OperatorAddOpcodeIndex(b, kinds.index((op["kind"], op.get("custom_code"))))
        Operator.OperatorAddInputs(b, ins)
        Operator.OperatorAddOutputs(b, outs)
        if opt is not None:
            Operator.OperatorAddBuiltinOptionsType(b, BuiltinOptions.AddOptions)
            Operator.OperatorAddBuiltinOptions(b, opt)
        o_offs.append(Operator.OperatorEnd(b))
    ops_vec = _off_vec(b, o_offs)

    in_vec = _int_vec(b, inputs)
    out_vec = _int_vec(b, outputs)
    name = b.CreateString(sg_name)
    SubGraph.SubGraphStart(b)
    SubGraph.SubGraphAddTensors(b, tens_vec)
    SubGraph.SubGraphAddInputs(b, in_vec)
    SubGraph.SubGraphAddOutputs(b, out_vec)
    SubGraph.SubGraphAddOperators(b, ops_vec)
    SubGraph.SubGraphAddName(b, name)
    sg = SubGraph.SubGraphEnd(b)
    sgs = _off_vec(b, [sg])

    desc = b.CreateString("demo model")
    Model.ModelStart(b)
    Model.ModelAddVersion(b, 3)
    Model.ModelAddOperatorCodes(b, opcodes)
    Model.ModelAddSubgraphs(b, sgs)
    Model.ModelAddDescription(b, desc)
    Model.ModelAddBuffers(b, buffers)
    m = Model.ModelEnd(b)
    b.Finish(m, file_identifier=b"TFL3")
    return bytes(b.Output())


def add_chain_model(names, shape=(1, 8, 8, 16), cpu_after=None, sg_name="main"):
    """x0 + x1 -> names[0]; names[0] + x1 -> names[1]; ...  Optionally a CPU-only custom op after op index cpu_after."""
    tensors = [
        dict(name="in_a", shape=list(shape)),
        dict(name="in_b", shape=list(shape)),
    ]
    ops = []
    prev = 0
    for i, nm in enumerate(names):
        tensors.append(dict(name=nm, shape=list(shape)))
        idx = len(tensors) - 1
        ops.append(dict(kind="ADD", inputs=[prev, 1], outputs=[idx]))
        prev = idx
        if cpu_after is not None and i == cpu_after:
            tensors.append(dict(name=nm + "_cpu_custom", shape=list(shape)))
            idx = len(tensors) - 1
            ops.append(dict(kind="CUSTOM", custom_code="demo_cpu_only", inputs=[prev], outputs=[idx]))
            prev = idx
    return build_model(tensors, ops, [0, 1], [prev], sg_name=sg_name)


def compile_model(model_bytes, accelerator="ethos-u55-128", workdir=None, name="m", extra_args=()):
    """Runs the vela command line entry point in-process; returns the bytes of the output model."""
    import contextlib
    import io
    import tempfile

    from ethosu.vela import vela

    workdir = workdir or tempfile.mkdtemp(prefix="c17demo_")
    src = os.path.join(workdir, name + ".tflite")
    with open(src, "wb") as f:
        f.write(model_bytes)
    out = io.StringIO()
    with contextlib.redirect_stdout(out):
        rc = vela.main([src, "--accelerator-config", accelerator, "--output-dir", workdir] + list(extra_args))
    assert rc == 0, "vela failed:\n" + out.getvalue()
    with open(os.path.join(workdir, name + "_vela.tflite"), "rb") as f:
        return f.read()


def ethosu_command_streams(model_bytes):
    """Yields (tensor_name, buffer_bytes or None, file_offset) for input 0 of every 'ethos-u' custom operator."""
    buf = bytearray(model_bytes)
    model = Model.Model.GetRootAsModel(buf, 0)
    res = []
    for s in range(model.SubgraphsLength()):
        sg = model.Subgraphs(s)
        for o in range(sg.OperatorsLength()):
            op = sg.Operators(o)
            code = model.OperatorCodes(op.OpcodeIndex())
            if code.CustomCode() != b"ethos-u":
                continue
            t_idx = op.Inputs(0)
            if t_idx < 0:
                res.append((None, None, None))
                continue
            tens = sg.Tensors(t_idx)
            buffer = model.Buffers(tens.Buffer())
            if buffer.DataLength() == 0:
                res.append((tens.Name().decode(), None, None))
                continue
            off = flatbuffers.number_types.UOffsetTFlags.py_type(buffer._tab.Offset(4))
            start = buffer._tab.Vector(off)
            res.append((tens.Name().decode(), bytes(buffer.DataAsNumpy()), start, list(tens.ShapeAsNumpy())))
    return res


EXPECTED = {
    # accelerator: (product, log2 macs/cc, shram KB)
    "ethos-u55-32": (0, 5, 16),
    "ethos-u55-64": (0, 6, 16),
    "ethos-u55-128": (0, 7, 24),
    "ethos-u55-256": (0, 8, 48),
    "ethos-u65-256": (1, 8, 48),
    "ethos-u65-512": (1, 9, 96),
}


def check_payload(payload, accelerator, words=None):
    """Independent reference check of the driver payload framing. Returns a list of problems (empty = fine)."""
    problems = []
    if len(payload) % 4 != 0 or len(payload) < 32:
        return [f"payload size {len(payload)} is not a sequence of words with a 32 byte header"]
    w = struct.unpack(f"<{len(payload) // 4}I", payload)
    if payload[:4] != b"COP1":
        problems.append("does not start with COP1")
    if w[1] != 0x00100001:
        problems.append(f"config action tag {w[1]:#x}")
    product, macs, shram = EXPECTED[accelerator]
    cfg = w[2]
    got = (cfg >> 28, cfg & 0xF, (cfg >> 8) & 0xFF)
    if got != (product, macs, shram) or cfg & 0x0FFF00F0:
        problems.append(f"config word {cfg:#010x} = (product, macs, shram) {got}, expected {(product, macs, shram)}")
    if w[3] != (1 << 28) | (0 << 20) | (6 << 16):
        problems.append(f"id word {w[3]:#010x}")
    i = 4
    while i < len(w) and w[i] == 0x05:
        i += 1
    if i >= len(w) or (w[i] & 0xFF) != 0x02:
        problems.append(f"no command stream action after the NOPs (word {i})")
        return problems
    length = ((w[i] >> 8) & 0xFF) << 16 | (w[i] >> 16)
    start = i + 1
    if (start * 4) % 16 != 0:
        problems.append(f"command words start at byte {start * 4}")
    if length != len(w) - start:
        problems.append(f"declared {length} command words, {len(w) - start} follow")
    if words is not None and list(w[start:]) != list(words):
        problems.append("command words differ from the given stream")
    return problems

"""Observation (unchanged tree), C17 "streams beyond the hardware or driver size limit are rejected with an error":
driver_actions.create_driver_payload only enforces the DRIVER limit (2^24 words = 64 MiB, the width of the length field).
The HARDWARE limit of 16 MiB (2^24 bytes, QSIZE) is enforced only inside generate_command_stream, i.e. on streams that
Vela generated itself. The public API npu_create_driver_payload therefore frames a stream of 2^22 words (exactly 16 MiB,
which generate_command_stream would reject with "exceeds the hardware limit of 16 MiB") without any error and returns
a payload that no Ethos-U can execute."""
import os
import sys

ROOT = os.path.dirname(os.path.dirname(os.path.abspath(__file__)))
sys.path.insert(0, ROOT)
import ethosu.vela  # noqa: E402

assert os.path.abspath(ethosu.vela.__file__).startswith(ROOT + os.sep), ethosu.vela.__file__
from ethosu.vela.api import npu_create_driver_payload  # noqa: E402
from ethosu.vela.api import NpuAccelerator  # noqa: E402
from ethosu.vela.errors import VelaError  # noqa: E402

n_words = 1 << 22  # 16 MiB of command words: at the hardware limit that generate_command_stream rejects (>= 1 << 24 bytes)
try:
    payload = npu_create_driver_payload([0x00000000] * n_words, NpuAccelerator.Ethos_U55_128)
except VelaError as e:
    print("rejected:", e.data)
    sys.exit(0)
sys.exit(
    f"a command stream of {4 * n_words / 2**20:.0f} MiB (hardware limit 16 MiB) was accepted and framed into a payload of "
    f"{len(payload)} bytes without an error"
)

"""
Observation 2 (unchanged tree): get_dma_memory_accesses() models the bytes written by a DMA as dest.address ..
dest.address + dest.length, but generate_dma_op() programs NPU_SET_DMA0_LEN with src.length only, so the hardware
writes src.length bytes at the destination. An NpuDmaOperation whose dest.length is smaller than src.length is
accepted by the public generator; a following kernel that reads the tail of the transferred block gets no
DMA_WAIT (read-after-write hazard).
"""
import os
import sys

sys.path.insert(0, os.path.dirname(os.path.abspath(__file__)))
import cs_check as cc  # noqa: E402
from ethosu.vela.ethos_u55_regs.ethos_u55_regs import cmd1  # noqa: E402

acc = cc.NpuAccelerator.Ethos_U55_128
src = cc.NpuAddressRange(0, 0x100, 1024)
dst = cc.NpuAddressRange(1, 0x1000, 16)  # shorter than the source
dma = cc.NpuDmaOperation(src, dst)
ifm = cc.make_fm(4, 8, 16, 1, 0x1200)  # 0x1200..0x1400, inside the 1024 bytes the DMA really writes
ofm = cc.make_fm(4, 8, 16, 1, 0x4000)
pool = cc.make_pool(ifm, ofm, acc)
ops = [dma, pool]
words = cc.npu_generate_register_command_stream(ops, acc)
# length the hardware will transfer, from the stream
dma_len = None
i = 0
while i < len(words):
    if (words[i] & 0xC000) == 0x4000:
        if (words[i] & 0x3FF) == cmd1.NPU_SET_DMA0_LEN.value:
            dma_len = words[i + 1]
        i += 2
    else:
        i += 1
assert dma_len == 1024, dma_len
accesses = [
    ([(0, src.address, src.address + dma_len)], [(1, dst.address, dst.address + dma_len)]),
    ([cc.fm_bytes(ifm)], [cc.fm_bytes(ofm)]),
]
problems = cc.queue_hazards(words, ops, accesses, max_dma=1)
if problems:
    print("C04 violated on the unchanged tree: DMA transfers", dma_len, "bytes, only dest.length is tracked")
    for p in problems:
        print("  ", p)
    sys.exit(1)
print("ok")

"""
Observation 3 (unchanged tree): BLOCKDEP is computed against the immediately preceding kernel operation only.
BLOCKDEP counts outstanding jobs in the kernel pipeline (see the 'Block job dependency' comment above
get_offset_block_coords), so when the preceding operation B consists of a single block, BLOCKDEP 3 for operation C
lets C's first job start while the last two blocks of the operation A before B are still being produced. If C
reads what those blocks of A write, there is a read-after-write hazard and neither a KERNEL_WAIT nor a smaller
BLOCKDEP is emitted. (max_outstanding_kernels is 2, but three short operations fit in the 3-job window.)
Here: A copies X -> Y in 4 row-blocks, B is an unrelated 1-block copy, C copies Y's last rows.
"""
import os
import sys

sys.path.insert(0, os.path.dirname(os.path.abspath(__file__)))
import cs_check as cc  # noqa: E402

acc = cc.NpuAccelerator.Ethos_U55_128
ROW = 8 * 16
x = cc.make_fm(8, 8, 16, 1, 0x0)
y = cc.make_fm(8, 8, 16, 1, 0x2000)
op_a = cc.make_pool(x, y, acc, block=(2, 8, 16))
p = cc.make_fm(2, 2, 16, 1, 0x8000)
q = cc.make_fm(2, 2, 16, 1, 0x9000)
op_b = cc.make_pool(p, q, acc, block=(2, 2, 16))
y_tail = cc.make_fm(2, 8, 16, 1, 0x2000 + 6 * ROW)  # rows 6, 7 of Y
r = cc.make_fm(2, 8, 16, 1, 0xA000)
op_c = cc.make_pool(y_tail, r, acc, block=(2, 8, 16))
words = cc.npu_generate_register_command_stream([op_a, op_b, op_c], acc)
events = cc.parse(words)
deps = cc.kernel_blockdeps(words)
has_wait = any(e[0] == "kernel_wait" for e in events)
# B itself is unrelated to A
assert cc.max_safe_blockdep_all([op_a], op_b) == 3
safe = cc.max_safe_blockdep_all([op_a, op_b], op_c)
if deps[2] > safe and not has_wait:
    print(
        f"C04 violated on the unchanged tree: BLOCKDEP {deps[2]} for C (B has 1 block, BLOCKDEP {deps[1]}),"
        f" at most {safe} keeps C's first job behind A's last blocks"
    )
    sys.exit(1)
print("ok")
